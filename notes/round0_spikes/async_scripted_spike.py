import sys, logging
sys.path.insert(0,'/repo'); sys.path.insert(0,'/repo/tests/..')
logging.disable(logging.CRITICAL)
from playback.tape_cassettes.asynchronous.async_record_only_tape_cassette import AsyncRecordOnlyTapeCassette
from playback.tape_cassettes.in_memory.in_memory_tape_cassette import InMemoryTapeCassette
from playback.recordings.memory.memory_recording import MemoryRecording
log=[]
class SpyRec(MemoryRecording):
    def _set_data(s,k,v): log.append(('set',s.id,k,v)); hook(); super()._set_data(k,v)
    def _add_metadata(s,m): log.append(('meta',s.id,dict(m))); hook(); super()._add_metadata(m)
class Spy(InMemoryTapeCassette):
    n=0
    def create_new_recording(s,c): Spy.n+=1; return SpyRec('%s/%d'%(c,Spy.n))
    def _save_recording(s,r): log.append(('save',r.id)); hook(); super()._save_recording(r)
    def close(s): log.append(('close',))
pending=[]   # producer steps to run at hook points
def hook():
    if pending: pending.pop(0)()
class ScriptedEvent(object):
    def __init__(s, script): s.flag=False; s.script=script
    def is_set(s): return s.flag
    def set(s): s.flag=True
    def wait(s, t):
        # at each wait the scheduler may run producer steps and/or close
        if s.script: s.script.pop(0)()
w=Spy(); a=AsyncRecordOnlyTapeCassette(w)
a._started=True
r=a.create_new_recording('cat')
def close_signal(): a._started=False; a._stop_event.set()
ev=ScriptedEvent([lambda: r.set_data('k3',3), close_signal]); a._stop_event=ev
r.set_data('k1',1); r.add_metadata({'m':1})
pending.append(lambda: r.set_data('k2',2))   # appended while flusher executes first op
a._recording_loop()     # run flusher synchronously on this thread
a.save_recording(r)     # after loop finished -> never flushed (requested after close)
a.close()
for e in log: print(e)
print(a._recording_operation_buffer)
