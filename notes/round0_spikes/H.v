From Coq Require Import List ZArith Arith Lia Bool.
Import ListNotations.
(* simplified heap: only list nodes; refs are atoms or locations *)
Inductive json := JAtom (a:Z) | JList (l:list json).
Inductive ref := RAtom (a:Z) | RLoc (l:nat).
Definition node := list ref.
Definition heap := list node.
Fixpoint decode (h:heap) (j:json) : heap * ref :=
  match j with
  | JAtom a => (h, RAtom a)
  | JList l =>
      let '(h', rs) := (fix go (h:heap) (l:list json) : heap * list ref :=
         match l with [] => (h, []) | x::r => let '(h1, r1) := decode h x in let '(h2, rs) := go h1 r in (h2, r1::rs) end) h l in
      (h' ++ [rs], RLoc (length h'))
  end.
Definition lift (o:option (list json)) : option json := match o with Some js => Some (JList js) | None => None end.
Fixpoint encode (fuel:nat) (h:heap) (r:ref) : option json :=
  match fuel with O => None | S f =>
    match r with
    | RAtom a => Some (JAtom a)
    | RLoc l => match nth_error h l with None => None | Some nd =>
        lift ((fix go (rs:list ref) : option (list json) :=
           match rs with [] => Some [] | x::t => match encode f h x, go t with Some j, Some js => Some (j::js) | _, _ => None end end) nd) end
    end end.
Definition ref_ge (n:nat) (r:ref) := match r with RAtom _ => True | RLoc l => n <= l end.
Definition ref_lt (n:nat) (r:ref) := match r with RAtom _ => True | RLoc l => l < n end.
(* a heap is closed below n: every node at a location < n only points below n *)
Definition closed_below (n:nat) (h:heap) := forall l nd, l < n -> nth_error h l = Some nd -> Forall (ref_lt n) nd.
Definition agree_below (n:nat) (h1 h2:heap) := forall l, l < n -> nth_error h1 l = nth_error h2 l.

(* 1. mutation immunity: encoding a root that lives below n only reads locations below n *)
Lemma encode_local n h1 h2 : closed_below n h1 -> agree_below n h1 h2 ->
  forall fuel r, ref_lt n r -> encode fuel h2 r = encode fuel h1 r.
Proof.
  intros C A. induction fuel as [|f IH]; intros r Hr; cbn [encode]; [reflexivity|].
  destruct r as [a|l]; [reflexivity|]. cbn in Hr. rewrite <- (A l Hr).
  destruct (nth_error h1 l) as [nd|] eqn:E; [|reflexivity].
  pose proof (C l nd Hr E) as F. clear E.
  assert (G : (fix go (rs:list ref) : option (list json) :=
           match rs with [] => Some [] | x::t => match encode f h2 x, go t with Some j, Some js => Some (j::js) | _, _ => None end end) nd
          = (fix go (rs:list ref) : option (list json) :=
           match rs with [] => Some [] | x::t => match encode f h1 x, go t with Some j, Some js => Some (j::js) | _, _ => None end end) nd).
  { induction F as [|x t Hx Ht IHt]; [reflexivity|]. rewrite (IH x Hx), IHt. reflexivity. }
  rewrite G. reflexivity.
Qed.
Print Assumptions encode_local.
