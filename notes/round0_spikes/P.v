From Coq Require Import String List ZArith Bool Lia.
Import ListNotations.
Open Scope list_scope.
Definition val := Z.
Inductive expr := Lit (v:val) | Var (n:nat).
Definition eval (env:list val) (e:expr) : val := match e with Lit v => v | Var n => nth n env 0%Z end.
Inductive outcome := OVal (v:val) | OExn (ty:string) | OInt.
Inductive key := IK (a:string) (args:list val) | OKo (a:string) (n:nat) | OKr (a:string) (n:nat) | OpOut.
Inductive datum := DVal (v:val) | DExn (ty:string) | DOut (args:list val).
Inductive code :=
| Ret (e:expr) | Raise (ty:string) | Interrupt
| CallIn (a:string) (callee:code) (args:list expr) (k:code)
| CallOut (a:string) (callee:code) (args:list expr) (k:code)
| Try (c h:code).
Definition counter := string -> nat.
Definition bump (a:string) (c:counter) : counter := fun b => if String.eqb a b then S (c b) else c b.
Definition W := list (key*datum).
(* record mode, fault free.  icpt=true: inside an interception => pure pass-through *)
Fixpoint rec (icpt:bool) (env:list val) (c:code) (cn:counter) : outcome * counter * W :=
  match c with
  | Ret e => (OVal (eval env e), cn, [])
  | Raise ty => (OExn ty, cn, [])
  | Interrupt => (OInt, cn, [])
  | Try c h => match rec icpt env c cn with
               | (OExn _, cn1, w1) => let '(o, cn2, w2) := rec icpt env h cn1 in (o, cn2, w1 ++ w2)
               | r => r end
  | CallIn a callee args k =>
      let av := map (eval env) args in
      if icpt then
        match rec true av callee cn with
        | (OVal v, cn1, w1) => let '(o, cn2, w2) := rec icpt (env ++ [v]) k cn1 in (o, cn2, w1 ++ w2)
        | r => r end
      else
        match rec true av callee cn with
        | (OVal v, cn1, w1) => let '(o, cn2, w2) := rec icpt (env ++ [v]) k cn1 in (o, cn2, w1 ++ (IK a av, DVal v) :: w2)
        | (OExn ty, cn1, w1) => (OExn ty, cn1, w1 ++ [(IK a av, DExn ty)])
        | (OInt, cn1, w1) => (OInt, cn1, w1) end
  | CallOut a callee args k =>
      let av := map (eval env) args in
      if icpt then
        match rec true av callee cn with
        | (OVal v, cn1, w1) => let '(o, cn2, w2) := rec icpt (env ++ [v]) k cn1 in (o, cn2, w1 ++ w2)
        | r => r end
      else
        let cn0 := bump a cn in let n := cn0 a in
        match rec true av callee cn0 with
        | (OVal v, cn1, w1) => let '(o, cn2, w2) := rec icpt (env ++ [v]) k cn1 in
                               (o, cn2, (OKo a n, DOut av) :: w1 ++ (OKr a n, DVal v) :: w2)
        | (OExn ty, cn1, w1) => (OExn ty, cn1, (OKo a n, DOut av) :: w1 ++ [(OKr a n, DExn ty)])
        | (OInt, cn1, w1) => (OInt, cn1, (OKo a n, DOut av) :: w1) end
  end.
(* replay mode against recording R; missing key => exception "KeyError" (policy-free spike) *)
Definition Rec := key -> option datum.
Fixpoint play (R:Rec) (env:list val) (c:code) (cn:counter) : outcome * counter * W :=
  match c with
  | Ret e => (OVal (eval env e), cn, [])
  | Raise ty => (OExn ty, cn, [])
  | Interrupt => (OInt, cn, [])
  | Try c h => match play R env c cn with
               | (OExn _, cn1, w1) => let '(o, cn2, w2) := play R env h cn1 in (o, cn2, w1 ++ w2)
               | r => r end
  | CallIn a callee args k =>
      let av := map (eval env) args in
      match R (IK a av) with
      | Some (DVal v) => play R (env ++ [v]) k cn
      | Some (DExn ty) => (OExn ty, cn, [])
      | _ => (OExn "RecordingKeyError", cn, []) end
  | CallOut a callee args k =>
      let av := map (eval env) args in
      let cn0 := bump a cn in let n := cn0 a in
      match R (OKr a n) with
      | Some (DVal v) => let '(o, cn2, w2) := play R (env ++ [v]) k cn0 in (o, cn2, (OKo a n, DOut av) :: w2)
      | Some (DExn ty) => (OExn ty, cn0, [(OKo a n, DOut av)])
      | _ => (OExn "RecordingKeyError", cn0, [(OKo a n, DOut av)]) end
  end.
Definition agree (R:Rec) (w:W) := forall k d, In (k,d) w -> R k = Some d.
Definition is_out (kd:key*datum) := match fst kd with OKo _ _ => true | _ => false end.
Lemma agree_app R w1 w2 : agree R (w1 ++ w2) <-> agree R w1 /\ agree R w2.
Proof. unfold agree; split; [intros H; split; intros; apply H; apply in_or_app; auto| intros [A B] k d I; apply in_app_or in I; destruct I; auto]. Qed.
(* inside an interception nothing is written and the counter does not move *)
Lemma rec_icpt_silent c : forall env cn, let '(_, cn', w) := rec true env c cn in cn' = cn /\ w = [].
Proof.
  induction c; intros env cn; cbn [rec]; auto.
  - specialize (IHc1 (map (eval env) args) cn). destruct (rec true (map (eval env) args) c1 cn) as [[o cn1] w1]. destruct IHc1 as [-> ->].
    destruct o; auto. specialize (IHc2 (env ++ [v]) cn). destruct (rec true (env ++ [v]) c2 cn) as [[o2 cn2] w2]. destruct IHc2 as [-> ->]. auto.
  - specialize (IHc1 (map (eval env) args) cn). destruct (rec true (map (eval env) args) c1 cn) as [[o cn1] w1]. destruct IHc1 as [-> ->].
    destruct o; auto. specialize (IHc2 (env ++ [v]) cn). destruct (rec true (env ++ [v]) c2 cn) as [[o2 cn2] w2]. destruct IHc2 as [-> ->]. auto.
  - specialize (IHc1 env cn). destruct (rec true env c1 cn) as [[o cn1] w1]. destruct IHc1 as [-> ->].
    destruct o; auto. specialize (IHc2 env cn). destruct (rec true env c2 cn) as [[o2 cn2] w2]. destruct IHc2 as [-> ->]. auto.
Qed.
Theorem replay_reproduces c : forall env cn R,
  let '(o, cn', w) := rec false env c cn in
  o <> OInt -> agree R w ->
  play R env c cn = (o, cn', filter is_out w).
Proof.
  induction c; intros env cn R; cbn [rec play]; auto.
  - (* CallIn *)
    pose proof (rec_icpt_silent c1 (map (eval env) args) cn) as S.
    destruct (rec true (map (eval env) args) c1 cn) as [[o cn1] w1]. destruct S as [-> ->].
    destruct o as [v|ty|]; cbn [app].
    + specialize (IHc2 (env ++ [v]) cn R). destruct (rec false (env ++ [v]) c2 cn) as [[o2 cn2] w2].
      intros NI A. rewrite (A (IK a (map (eval env) args)) (DVal v)) by (left; reflexivity).
      cbn [filter is_out fst]. apply IHc2; [exact NI|]. intros k d I. apply A. right; exact I.
    + intros _ A. rewrite (A (IK a (map (eval env) args)) (DExn ty)) by (left; reflexivity). reflexivity.
    + intros H; congruence.
  - (* CallOut *)
    set (cn0 := bump a cn). set (av := map (eval env) args).
    pose proof (rec_icpt_silent c1 av cn0) as S.
    destruct (rec true av c1 cn0) as [[o cn1] w1]. destruct S as [-> ->].
    destruct o as [v|ty|]; cbn [app].
    + specialize (IHc2 (env ++ [v]) cn0 R). destruct (rec false (env ++ [v]) c2 cn0) as [[o2 cn2] w2].
      intros NI A. rewrite (A (OKr a (cn0 a)) (DVal v)) by (right; left; reflexivity).
      rewrite IHc2; [|exact NI|intros k d I; apply A; right; right; exact I]. reflexivity.
    + intros _ A. rewrite (A (OKr a (cn0 a)) (DExn ty)) by (right; left; reflexivity). reflexivity.
    + intros H; congruence.
  - (* Try *)
    specialize (IHc1 env cn R). destruct (rec false env c1 cn) as [[o1 cn1] w1].
    destruct o1 as [v|ty|].
    + intros NI A. rewrite IHc1; auto.
    + specialize (IHc2 env cn1 R). destruct (rec false env c2 cn1) as [[o2 cn2] w2].
      intros NI A. apply agree_app in A. destruct A as [A1 A2].
      rewrite IHc1; [|congruence|exact A1]. rewrite IHc2; auto. rewrite filter_app. reflexivity.
    + intros H; congruence.
Qed.
Print Assumptions replay_reproduces.
