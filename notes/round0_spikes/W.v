From Coq Require Import ZArith List Lia Bool ZifyBool.
Import ListNotations.
Open Scope Z_scope.
Ltac Zify.zify_post_hook ::= Z.div_mod_to_equations.
Definition D := 86400000000.
Definition day (t:Z) := t / D.
(* today's code: number of enumerated days = (end-start)/D + 1 starting at day start *)
Definition ndays_legacy (s e:Z) := (e - s) / D + 1.
Definition ndays_fixed (s e:Z) := day e - day s + 1.
Definition enumerated (n:Z) (s:Z) (d:Z) := day s <= d < day s + n.
Lemma days_cover_fixed s e t : s <= t <= e -> enumerated (ndays_fixed s e) s (day t).
Proof. unfold enumerated, ndays_fixed, day, D. intros. lia. Qed.
Lemma legacy_refuted : exists s e t, s <= t <= e /\ ~ enumerated (ndays_legacy s e) s (day t).
Proof. exists (23*3600000000), (D + 3600000000), (D + 1800000000).
  unfold enumerated, ndays_legacy, day, D. split; [lia|]. vm_compute. intros [_ H]. discriminate H. Qed.
(* legacy never enumerates too FEW days when window is day-aligned..., and never more than fixed+? *)
Lemma legacy_le_fixed s e : s <= e -> ndays_legacy s e <= ndays_fixed s e.
Proof. unfold ndays_legacy, ndays_fixed, day, D. intros. lia. Qed.
Print Assumptions days_cover_fixed.
