import sys, logging, tempfile, shutil
sys.path.insert(0,'/repo')
logging.disable(logging.CRITICAL)
from playback.tape_recorder import TapeRecorder
from playback.tape_cassette import TapeCassette
from playback.tape_cassettes.file_based.file_based_tape_cassette import FileBasedTapeCassette
from playback.studio.recordings_lookup import find_matching_recording_ids, RecordingLookupProperties
print('C06 key', TapeRecorder._input_interception_key('a', None, True, {'x','y','zz','abc'}))
m = TapeCassette.match_against_recorded_metadata
for f, md in [({'k': {'operator':'<','value':3}}, {}), ({'k':'a*'}, {'k':5}), ({'k':'a*'}, {'k':int}), ({'k':[1,None]}, {}), ({'k':{'operator':'~','value':1}},{'k':1})]:
    try: print('C14', f, md, '->', m(f, md))
    except Exception as e: print('C14', f, md, 'raised', type(e).__name__)
d = tempfile.mkdtemp()
try:
    c = FileBasedTapeCassette(d)
    for cat, inc in [('Op', False), ('Op', True), ('OpX', False), ('Op_Y', False)]:
        r = c.create_new_recording(cat); r.set_data('k', 1); r.add_metadata({'_tape_recorder_incomplete_recording': inc, 'p': 1}); c.save_recording(r)
    print('C10 file Op:', [c.extract_recording_category(i) for i in c.iter_recording_ids('Op')])
    tr = TapeRecorder(c)
    print('C10 file default lookup:', list(find_matching_recording_ids(tr, 'Op', RecordingLookupProperties(None))))
    try: print(list(c.iter_recording_ids('Op', metadata={'absent': 1})))
    except Exception as e: print('C10 file absent key raised', type(e).__name__)
    try: print('C07 file unknown', c.get_recording('Op/zzz'))
    except Exception as e: print('C07 file unknown raised', type(e).__name__)
finally:
    shutil.rmtree(d)
