import sys, logging, os, tempfile, shutil
sys.path.insert(0,'/repo'); sys.path.insert(0,'.')
logging.basicConfig(level=logging.ERROR)
from playback.tape_recorder import TapeRecorder, RecordingParameters
from playback.tape_cassettes.in_memory.in_memory_tape_cassette import InMemoryTapeCassette
from playback.tape_cassettes.file_based.file_based_tape_cassette import FileBasedTapeCassette
from playback.interception.files.input_file_interception import InputInterceptionFileDataHandler
from playback.interception.files.output_file_interception import OutputInterceptionFileDataHandler
d = tempfile.mkdtemp()
try:
  for c in [InMemoryTapeCassette(), FileBasedTapeCassette(os.path.join(d,'cas'))]:
    tr = TapeRecorder(c); tr.enable_recording()
    lim = 10/1048576.0
    class Op(object):
        def __init__(s, content=None): s.content=content
        @tr.operation()
        def execute(self, p_in, p_out):
            self.fetch(p_in)
            data = open(p_in,'rb').read()
            open(p_out,'wb').write(data[::-1])
            self.store(path=p_out)
            return len(data)
        @tr.intercept_input('fetch', data_handler=InputInterceptionFileDataHandler(1, 'path', lim))
        def fetch(self, path):
            open(path,'wb').write(self.content)
        @tr.intercept_output('store', data_handler=OutputInterceptionFileDataHandler(0, 'path', lim))
        def store(self, path): pass
    for content in [b'', b'\x00\xff\n\r=', b'above interception limit', b'0123456789', b'0123456789A', bytes(range(256))*1]:
        pin=os.path.join(d,'in'); pout=os.path.join(d,'out')
        Op(content).execute(pin, pout)
        import glob
        rid = c.get_last_recording_id() if hasattr(c,'get_last_recording_id') else None
        if rid is None:
            rid = max(c.iter_recording_ids('Op'), key=lambda i: os.path.getmtime(c._get_recording_file_path(i)))
        os.remove(pin); os.remove(pout)
        pb = tr.play(rid, lambda r: Op(None).execute(pin, pout))
        restored = open(pin,'rb').read()
        h = OutputInterceptionFileDataHandler(0,'path',lim)
        ro = [h.restore_output_from_recording(o.value).file_content for o in pb.recorded_outputs if 'store' in o.key]
        po = [h.restore_output_from_recording(o.value).file_content for o in pb.playback_outputs if 'store' in o.key]
        print(type(c).__name__, len(content), restored==content, ro==po, (ro[0]==content[::-1]) if ro else None, restored[:30] if restored!=content else '')
finally:
    shutil.rmtree(d)
