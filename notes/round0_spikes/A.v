From Coq Require Import List Arith Lia Bool.
Import ListNotations.
Section Async.
Variable op : Type.
Inductive pc := Loop | Batch (ops:list op) | Waiting | Final (ops:list op) | Done.
Record state := { pending : list (list op); buffer : list op; fl : pc; stop : bool;
                  applied : list op; enq : list op (* ghost: global enqueue order *) }.
Definition all_done (p:list (list op)) := forallb (fun l => match l with [] => true | _ => false end) p.
Fixpoint take_from (i:nat) (p:list (list op)) : option (op * list (list op)) :=
  match p, i with
  | [], _ => None
  | (x::l)::r, O => Some (x, l::r)
  | []::r, O => None
  | l::r, S j => match take_from j r with Some (x, r') => Some (x, l::r') | None => None end
  end.
Inductive step : state -> state -> Prop :=
| s_produce i s x p' : take_from i (pending s) = Some (x, p') -> stop s = false ->
    step s {| pending := p'; buffer := buffer s ++ [x]; fl := fl s; stop := stop s; applied := applied s; enq := enq s ++ [x] |}
| s_swap s : fl s = Loop -> stop s = false ->
    step s {| pending := pending s; buffer := []; fl := Batch (buffer s); stop := stop s; applied := applied s; enq := enq s |}
| s_exec s x r : fl s = Batch (x::r) ->
    step s {| pending := pending s; buffer := buffer s; fl := Batch r; stop := stop s; applied := applied s ++ [x]; enq := enq s |}
| s_batch_end s : fl s = Batch [] ->
    step s {| pending := pending s; buffer := buffer s; fl := Waiting; stop := stop s; applied := applied s; enq := enq s |}
| s_wake s : fl s = Waiting ->
    step s {| pending := pending s; buffer := buffer s; fl := Loop; stop := stop s; applied := applied s; enq := enq s |}
| s_close s : all_done (pending s) = true -> stop s = false ->
    step s {| pending := pending s; buffer := buffer s; fl := fl s; stop := true; applied := applied s; enq := enq s |}
| s_see_stop s : fl s = Loop -> stop s = true ->
    step s {| pending := pending s; buffer := []; fl := Final (buffer s); stop := stop s; applied := applied s; enq := enq s |}
| s_fexec s x r : fl s = Final (x::r) ->
    step s {| pending := pending s; buffer := buffer s; fl := Final r; stop := stop s; applied := applied s ++ [x]; enq := enq s |}
| s_done s : fl s = Final [] ->
    step s {| pending := pending s; buffer := buffer s; fl := Done; stop := stop s; applied := applied s; enq := enq s |}.
Definition inflight (p:pc) : list op := match p with Batch l | Final l => l | _ => [] end.
Definition Inv (s:state) : Prop :=
  applied s ++ inflight (fl s) ++ buffer s = enq s /\
  (stop s = true -> all_done (pending s) = true) /\
  (match fl s with Final _ | Done => stop s = true | _ => True end) /\
  (fl s = Done -> buffer s = []) /\ (match fl s with Final _ => buffer s = [] | _ => True end).
Definition init (w:list (list op)) := {| pending := w; buffer := []; fl := Loop; stop := false; applied := []; enq := [] |}.
Lemma inv_init w : Inv (init w).
Proof. unfold Inv, init; cbn. repeat split; auto; discriminate. Qed.
Lemma inv_step s s' : Inv s -> step s s' -> Inv s'.
Proof.
  intros (I1 & I2 & I3 & I4 & I5) St.
  inversion St; subst; unfold Inv; cbn [pending buffer fl stop applied enq inflight];
    try match goal with H : fl s = _ |- _ => rewrite H in * end; cbn [inflight] in *;
    (split; [ try (rewrite <- I1; rewrite ?app_nil_r, <- ?app_assoc; cbn; rewrite ?app_nil_r; reflexivity) | ]);
    repeat split; intros; auto; try congruence;
    try (destruct (fl s); auto; congruence).
Qed.
Inductive reach (w:list (list op)) : state -> Prop :=
| r0 : reach w (init w) | rS s s' : reach w s -> step s s' -> reach w s'.
Theorem async_refines_sync w s : reach w s -> fl s = Done -> applied s = enq s.
Proof.
  intros R. assert (I : Inv s) by (induction R; [apply inv_init | eapply inv_step; eauto]). intros D.
  destruct I as (I1 & _ & _ & I4 & _). rewrite D in I1. cbn in I1. rewrite (I4 D), app_nil_r in I1. exact I1.
Qed.
End Async.
Print Assumptions async_refines_sync.
