import sys, types, datetime, pytz
class NoSuchKey(Exception): pass
class Body(object):
    def __init__(s,b): s.b=b
    def read(s): return s.b
class Obj(object):
    def __init__(s, store, key): s.store=store; s.key=key
    @property
    def last_modified(s): return s.store.data[s.key][1]
    def get(s): return {'Body': Body(s.store.data[s.key][0])}
class Coll(object):
    def __init__(s, store, prefix): s.store=store; s.prefix=prefix
    def __iter__(s):
        return iter([Obj(s.store,k) for k in sorted(s.store.data) if k.startswith(s.prefix or '')])
    def delete(s):
        for k in [k for k in s.store.data if k.startswith(s.prefix or '')]:
            s.store.log.append(('delete',k)); del s.store.data[k]
class Objects(object):
    def __init__(s, store): s.store=store
    def filter(s, Prefix=None): return Coll(s.store, Prefix)
class Store(object):
    def __init__(s): s.data={}; s.log=[]; s.now=lambda: datetime.datetime.now(pytz.utc)
STORES={}
class Bucket(object):
    def __init__(s, name): s.store=STORES.setdefault(name, Store()); s.objects=Objects(s.store)
class Resource(object):
    def Bucket(s, name): return Bucket(name)
class Client(object):
    def put_object(s, Bucket, Key, Body, **kw):
        st=STORES.setdefault(Bucket, Store()); b = Body.encode('utf-8') if isinstance(Body,str) else Body
        st.log.append(('put',Key)); st.data[Key]=(b, st.now())
    def get_object(s, Bucket, Key):
        st=STORES.setdefault(Bucket, Store())
        if Key not in st.data: raise NoSuchKey(Key)
        return {'Body': Body(st.data[Key][0])}
fake = types.SimpleNamespace(resource=lambda *a,**k: Resource(), client=lambda *a,**k: Client())
def install():
    import playback.tape_cassettes.s3.s3_basic_facade as f
    f.boto3 = fake
