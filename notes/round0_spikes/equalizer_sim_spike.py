import sys, logging, queue, types
sys.path.insert(0,'/repo')
logging.disable(logging.CRITICAL)
import playback.studio.equalizer as eqmod
from playback.studio.equalizer import Equalizer, CompareExecutionConfig, ComparatorResult, EqualityStatus

class Sim(object):
    """single-threaded deterministic stand-in for multiprocessing + clock + kill"""
    def __init__(self, script):
        self.script = script          # recording_id -> behaviour
        self.clock = 0.0
        self.procs = []               # fake processes
        self.trace = []
        self.held = None              # withheld (late) answer
        self.current_task = None
sim = None

class WorkerExit(BaseException): pass
class WorkerHang(BaseException): pass

class FakeEvent(object):
    def __init__(self): self.flag=False; self.worker_view_override=False
    def set(self): self.flag=True
    def clear(self): self.flag=False
    def is_set(self): return self.flag or self.worker_view_override
class TasksQ(object):
    def __init__(self): self.items=[]
    def put(self, x): self.items.append(x); sim.put_clock=sim.clock
    def get(self, block=True, timeout=None):
        if self.items:
            x=self.items.pop(0); sim.current_task=x; sim.cur_proc.served.append(x); return x
        sim.term.worker_view_override=True    # make the real worker loop return to the simulator
        raise queue.Empty()
    def close(self): pass
class ResultsQ(object):
    def __init__(self): self.items=[]
    def put(self, x):        # called by the real worker loop
        b = sim.script.get(sim.current_task, 'ok')
        if b=='hang': sim.cur_proc.hung=True; raise WorkerHang()
        if b=='late': sim.held=x; sim.cur_proc.hung=True; raise WorkerHang()
        self.items.append(x)
    def get(self, block=True, timeout=None):   # called by the real parent loop
        p = sim.live_proc()
        if p is not None and not p.hung: p.turn()
        if self.items: return self.items.pop(0)
        sim.clock += timeout
        raise queue.Empty()
    def close(self): pass
class FakeProcess(object):
    n=0
    def __init__(self, target=None, name=None):
        FakeProcess.n+=1; self.pid=1000+FakeProcess.n; self.target=target; self.alive=False; self.hung=False; self.served=[]
    def start(self): self.alive=True; sim.procs.append(self); sim.trace.append(('start',self.pid))
    def is_alive(self):
        if sim.held is not None and self.hung and sim.clock - sim.put_clock > sim.timeout:       # parent is in the timeout handler: deliver the late answer now
            sim.results.items.append(sim.held); sim.held=None
        return self.alive
    def join(self, timeout=None):
        while self.alive and not self.hung: self.turn()
    def turn(self):
        sim.cur_proc=self; sim.term.worker_view_override=False
        try:
            self.target()        # the REAL worker loop; returns when terminate is (seen as) set
            if sim.term.flag: self.alive=False; sim.trace.append(('exit-on-terminate',self.pid))
        except WorkerExit: self.alive=False; sim.trace.append(('died',self.pid))
        except WorkerHang: pass
        finally: sim.term.worker_view_override=False
def fake_kill(pid, sig):
    for p in sim.procs:
        if p.pid==pid: p.alive=False; sim.trace.append(('killed',pid))
fake_mp = types.SimpleNamespace(Queue=lambda: None, Event=FakeEvent, Process=FakeProcess, queues=types.SimpleNamespace(Empty=queue.Empty))

def run(ids, script, **cfg):
    global sim
    sim = Sim(script); sim.timeout = cfg.get('compare_process_timeout')
    sim.live_proc = lambda: next((p for p in sim.procs if p.alive), None)
    eqmod.mp = fake_mp; eqmod.time = lambda: sim.clock; eqmod.os = types.SimpleNamespace(kill=fake_kill)
    class PB(object):
        def __init__(s, rid): s.original_recording=types.SimpleNamespace(id=rid); s.recorded_outputs=[rid]; s.playback_outputs=[rid]
    def player(rid):
        b = script.get(rid,'ok')
        if b=='raise': raise ValueError('boom')
        if b=='exit': raise WorkerExit()
        return PB(rid)
    eq = Equalizer(iter(ids), player, lambda outs: outs[0], lambda a,b: ComparatorResult(EqualityStatus.Equal if a==b else EqualityStatus.Different, a),
                   compare_execution_config=CompareExecutionConfig(compare_in_dedicated_process=True, **cfg))
    eq._compare_tasks=TasksQ(); eq._compare_results=ResultsQ(); eq._terminate_process=FakeEvent()
    sim.term=eq._terminate_process; sim.results=eq._compare_results
    out=[]
    for c in eq.run_comparison():
        out.append((c.recording_id, c.comparator_status.equality_status.name, c.playback.original_recording.id if c.playback else None, (c.comparator_status.message or '')[:30]))
    return out, sim.trace, [(p.pid, p.served, p.alive) for p in sim.procs]

ids=['r1','r2','r3','r4','r5','r6']
for script in [{'r2':'late'}]:
    out, trace, procs = run(ids, script, compare_process_recycle_rate=2, compare_process_timeout=2)
    print(script); [print('   ', o) for o in out]; print('   trace', trace); print('   procs', procs)
