import sys, random
sys.path.insert(0,'/repo')
from jsonpickle import encode, decode
class P(object):
    def __init__(s, **kw): s.__dict__.update(kw)
    def __eq__(s,o): return type(o) is P and s.__dict__==o.__dict__
    def __hash__(s): return 1
    def __repr__(s): return 'P(%r)'%s.__dict__
def gen(r, depth, pool):
    if pool and r.random()<0.25: return r.choice(pool)
    k = r.randrange(12 if depth>0 else 7)
    if k==0: return None
    if k==1: return r.choice([True,False])
    if k==2: return r.randrange(-5,5)
    if k==3: return r.choice(['', 'a', 'b"c', 'é', 'py/x', 'a/b', '\n'])
    if k==4: return r.choice([b'', b'ab', b'\xff\x00='])
    if k==5: return r.choice([1.5, -0.0, 1e100])
    if k==6: return r.randrange(10**20,10**20+5)
    n = r.randrange(0,4)
    if k==7: v=[gen(r,depth-1,pool) for _ in range(n)]
    elif k==8: v=tuple(gen(r,depth-1,pool) for _ in range(n))
    elif k==9: v={r.choice(['a','b','c','d e','"q']): gen(r,depth-1,pool) for _ in range(n)}
    elif k==10: v=P(**{r.choice(['x','y','z']): gen(r,depth-1,pool) for _ in range(n+1)})
    else: v=set(r.choice([1,2,'a','b',(1,2),None]) for _ in range(n))
    if pool is not None: pool.append(v)
    return v
bad=0
for seed in range(20000):
    r=random.Random(seed); share = seed%2==0
    v=gen(r,3,[] if share else None)
    try:
        w=decode(encode(v,unpicklable=True))
        ok = (w==v) and type(w)==type(v)
    except Exception as e:
        ok=False; w=repr(e)
    if not ok:
        bad+=1
        if bad<=12: print('share' if share else 'tree', seed, repr(v)[:150], '=>', repr(w)[:150])
print('bad', bad)
