From Coq Require Import String Ascii List Arith Lia DecimalString DecimalNat Decimal.
Import ListNotations.
Open Scope list_scope.
(* unique decomposition at the last separator *)

Lemma split_first_unique (A:Type) (x:A) : forall l1 r1 l2 r2,
  l1 ++ x :: r1 = l2 ++ x :: r2 -> ~ In x l1 -> ~ In x l2 -> l1 = l2 /\ r1 = r2.
Proof.
  induction l1 as [|a l1 IH]; intros r1 l2 r2 E N1 N2; destruct l2 as [|b l2]; cbn in *.
  - inversion E; auto.
  - inversion E; subst. exfalso; apply N2; left; reflexivity.
  - inversion E; subst. exfalso; apply N1; left; reflexivity.
  - inversion E; subst. destruct (IH r1 l2 r2 H1) as [-> ->]; auto.
Qed.
Lemma split_last_unique (A:Type) (x:A) l1 r1 l2 r2 :
  l1 ++ x :: r1 = l2 ++ x :: r2 -> ~ In x r1 -> ~ In x r2 -> l1 = l2 /\ r1 = r2.
Proof.
  intros E H1 H2.
  assert (R : List.rev r1 ++ x :: List.rev l1 = List.rev r2 ++ x :: List.rev l2).
  { apply (f_equal (@List.rev A)) in E. rewrite !List.rev_app_distr in E. cbn in E. rewrite <- !app_assoc in E. exact E. }
  destruct (split_first_unique A x _ _ _ _ R) as [P Q].
  - rewrite <- in_rev; exact H1.
  - rewrite <- in_rev; exact H2.
  - split; [apply (f_equal (@List.rev A)) in Q|apply (f_equal (@List.rev A)) in P]; rewrite !List.rev_involutive in *; congruence.
Qed.
(* decimal printing of nat: injective, digits only *)
Definition show (n:nat) : string := NilEmpty.string_of_uint (Nat.to_uint n).
Lemma show_inj n m : show n = show m -> n = m.
Proof.
  unfold show. intros E.
  assert (Nat.to_uint n = Nat.to_uint m).
  { apply (f_equal NilEmpty.uint_of_string) in E. rewrite !NilEmpty.usu in E. congruence. }
  apply (f_equal Nat.of_uint) in H. rewrite !DecimalNat.Unsigned.of_to in H. exact H.
Qed.
Fixpoint digits_only (d:uint) : forall c, In c (list_ascii_of_string (NilEmpty.string_of_uint d)) -> (48 <= nat_of_ascii c <= 57).
Proof. destruct d; cbn; intros c H; try contradiction; destruct H as [<-|H]; try (cbn; lia); apply (digits_only d c H). Qed.
Print Assumptions split_last_unique. Print Assumptions show_inj.
