From Coq Require Import String List ZArith Bool DecimalString.
Import ListNotations.
Open Scope string_scope.
Definition okey (a:string) (n:nat) : string := "output: " ++ a ++ " #" ++ (DecimalString.NilEmpty.string_of_uint (Nat.to_uint n)).
Definition bs (l:list N) : string := fold_right (fun n s => String (Ascii.ascii_of_N n) s) EmptyString l.
Fixpoint bad_indices {A} (chk:A->bool) (l:list A) (i:nat) : list nat :=
  match l with [] => [] | x::r => if chk x then bad_indices chk r (S i) else i :: bad_indices chk r (S i) end.
Definition check (c: string * nat * string) : bool := let '(a,n,exp) := c in String.eqb (okey a n) exp.
