From Coq Require Import String List ZArith Bool Lia.
Import ListNotations.
Open Scope string_scope.
Open Scope list_scope.

Definition val := Z.
Inductive expr := Lit (v:val) | Var (n:nat).
Definition eval (env:list val) (e:expr) : val := match e with Lit v => v | Var n => nth n env 0%Z end.

Inductive exn := EUser (ty:string) | EAttr | EAssert.
Inductive outcome := OVal (v:val) | OExn (e:exn) | OInt.

Record icfg := { i_alias : string; i_key_fails : bool; i_prep_fails : bool }.
Record ocfg := { o_alias : string; o_prep_fails : bool }.

Inductive code :=
| Ret (e:expr) | Raise (ty:string) | Interrupt
| CallIn (c:icfg) (callee:code) (args:list expr) (k_ok:code) (k_exc:option code)
| CallOut (c:ocfg) (callee:code) (args:list expr) (k_ok:code) (k_exc:option code)
| Discard (k:code) | Force (k:code).

Inductive datum := DVal (v:val) | DExn (e:exn) | DOut (args:list val).
Inductive event := EvCreate | EvSave (data:list (string*datum)) | EvAbort.

Record st := {
  active : option (list (string*datum));  (* recording under construction *)
  force : bool;
  counter : list (string*nat);
  journal : list (string * list val);
  events : list event }.

Definition upd_active s a := {| active := a; force := force s; counter := counter s; journal := journal s; events := events s |}.
Definition log s e := {| active := active s; force := force s; counter := counter s; journal := journal s ++ [e]; events := events s |}.
Definition discard s := match active s with
  | None => s
  | Some _ => {| active := None; force := false; counter := []; journal := journal s; events := events s ++ [EvAbort] |} end.
Definition do_force s := match active s with None => s | Some _ => {| active := active s; force := true; counter := counter s; journal := journal s; events := events s |} end.
Definition write s k d := match active s with None => s | Some r => upd_active s (Some (r ++ [(k,d)])) end.
Fixpoint bump (a:string) (c:list (string*nat)) : nat * list (string*nat) :=
  match c with [] => (1, [(a,1)]) | (b,n)::r => if String.eqb a b then (S n, (b,S n)::r) else let '(m,r') := bump a r in (m,(b,n)::r') end.
Definition set_counter s c := {| active := active s; force := force s; counter := c; journal := journal s; events := events s |}.

Definition ikey (c:icfg) (args:list val) : string := i_alias c.   (* spike: text irrelevant *)
Definition okey (a:string) (n:nat) : string := a.

(* record-mode semantics; icpt = thread-local "currently in interception" *)
Fixpoint exec (icpt:bool) (env:list val) (c:code) (s:st) : outcome * st :=
  match c with
  | Ret e => (OVal (eval env e), s)
  | Raise ty => (OExn (EUser ty), s)
  | Interrupt => (OInt, s)
  | Discard k => exec icpt env k (discard s)
  | Force k => exec icpt env k (do_force s)
  | CallIn cf callee args k_ok k_exc =>
      let a := map (eval env) args in
      let cont (r: outcome * st) :=
        match r with
        | (OVal v, s') => exec icpt (env ++ [v]) k_ok s'
        | (OExn e, s') => match k_exc with Some h => exec icpt env h s' | None => (OExn e, s') end
        | (OInt, s') => (OInt, s') end in
      if icpt || match active s with None => true | Some _ => false end then
        cont (exec icpt a callee (log s (i_alias cf, a)))
      else
        let s1 := if i_key_fails cf then discard s else s in
        let key := if i_key_fails cf then None else Some (ikey cf a) in
        let '(o, s2) := exec true a callee (log s1 (i_alias cf, a)) in
        match o, key with
        | OExn e, Some k => cont (OExn e, write s2 k (DExn e))
        | OVal v, Some k => if i_prep_fails cf then cont (OVal v, discard s2) else cont (OVal v, write s2 k (DVal v))
        | _, _ => cont (o, s2)
        end
  | CallOut cf callee args k_ok k_exc =>
      let a := map (eval env) args in
      let cont (r: outcome * st) :=
        match r with
        | (OVal v, s') => exec icpt (env ++ [v]) k_ok s'
        | (OExn e, s') => match k_exc with Some h => exec icpt env h s' | None => (OExn e, s') end
        | (OInt, s') => (OInt, s') end in
      if icpt || match active s with None => true | Some _ => false end then
        cont (exec icpt a callee (log s (o_alias cf, a)))
      else
        let '(n, c') := bump (o_alias cf) (counter s) in
        let s0 := set_counter s c' in
        let s1 := if o_prep_fails cf then discard s0 else write s0 ((okey (o_alias cf) n ++ ".output")%string) (DOut a) in
        match active s1 with
        | None => cont (exec icpt a callee (log s1 (o_alias cf, a)))
        | Some _ =>
          let '(o, s2) := exec true a callee (log s1 (o_alias cf, a)) in
          match o with
          | OExn e => cont (OExn e, write s2 ((okey (o_alias cf) n ++ ".result")%string) (DExn e))
          | OVal v => cont (OVal v, write s2 ((okey (o_alias cf) n ++ ".result")%string) (DVal v))
          | OInt => cont (o, s2)
          end
        end
  end.

Fixpoint plain (env:list val) (c:code) : outcome * list (string * list val) :=
  match c with
  | Ret e => (OVal (eval env e), [])
  | Raise ty => (OExn (EUser ty), [])
  | Interrupt => (OInt, [])
  | Discard k | Force k => plain env k
  | CallIn cf callee args k_ok k_exc =>
      let a := map (eval env) args in
      let '(o, j) := plain a callee in
      let j := (i_alias cf, a) :: j in
      match o with
      | OVal v => let '(o2,j2) := plain (env ++ [v]) k_ok in (o2, j ++ j2)
      | OExn e => match k_exc with Some h => let '(o2,j2) := plain env h in (o2, j ++ j2) | None => (OExn e, j) end
      | OInt => (OInt, j) end
  | CallOut cf callee args k_ok k_exc =>
      let a := map (eval env) args in
      let '(o, j) := plain a callee in
      let j := (o_alias cf, a) :: j in
      match o with
      | OVal v => let '(o2,j2) := plain (env ++ [v]) k_ok in (o2, j ++ j2)
      | OExn e => match k_exc with Some h => let '(o2,j2) := plain env h in (o2, j ++ j2) | None => (OExn e, j) end
      | OInt => (OInt, j) end
  end.

Lemma journal_discard s : journal (discard s) = journal s.
Proof. unfold discard; destruct (active s); reflexivity. Qed.
Lemma journal_force s : journal (do_force s) = journal s.
Proof. unfold do_force; destruct (active s); reflexivity. Qed.
Lemma journal_write s k d : journal (write s k d) = journal s.
Proof. unfold write; destruct (active s); reflexivity. Qed.
Lemma journal_log s e : journal (log s e) = journal s ++ [e].
Proof. reflexivity. Qed.
Lemma journal_setc s c : journal (set_counter s c) = journal s.
Proof. reflexivity. Qed.


Definition optP (P:code->Prop) (o:option code) : Prop := match o with Some h => P h | None => True end.
Section Ind.
  Variable P : code -> Prop.
  Hypothesis HRet : forall e, P (Ret e).
  Hypothesis HRaise : forall ty, P (Raise ty).
  Hypothesis HInt : P Interrupt.
  Hypothesis HIn : forall cf callee args k_ok k_exc, P callee -> P k_ok -> optP P k_exc -> P (CallIn cf callee args k_ok k_exc).
  Hypothesis HOut : forall cf callee args k_ok k_exc, P callee -> P k_ok -> optP P k_exc -> P (CallOut cf callee args k_ok k_exc).
  Hypothesis HDis : forall k, P k -> P (Discard k).
  Hypothesis HFor : forall k, P k -> P (Force k).
  Fixpoint code_ind2 (c:code) : P c :=
    match c with
    | Ret e => HRet e | Raise ty => HRaise ty | Interrupt => HInt
    | CallIn cf callee args k_ok k_exc =>
        HIn cf callee args k_ok k_exc (code_ind2 callee) (code_ind2 k_ok)
          (match k_exc as o return optP P o with Some h => code_ind2 h | None => I end)
    | CallOut cf callee args k_ok k_exc =>
        HOut cf callee args k_ok k_exc (code_ind2 callee) (code_ind2 k_ok)
          (match k_exc as o return optP P o with Some h => code_ind2 h | None => I end)
    | Discard k => HDis k (code_ind2 k) | Force k => HFor k (code_ind2 k)
    end.
End Ind.

Definition Good (c:code) : Prop := forall icpt env s,
  fst (exec icpt env c s) = fst (plain env c) /\
  journal (snd (exec icpt env c s)) = journal s ++ snd (plain env c).

(* continuation lemma shared by both call cases *)
Lemma cont_good k_ok k_exc : Good k_ok -> optP Good k_exc ->
  forall icpt env (o:outcome) (s0 s':st) (j:list (string*list val)),
    journal s' = journal s0 ++ j ->
    let r := match o with
      | OVal v => exec icpt (env ++ [v]) k_ok s'
      | OExn e => match k_exc with Some h => exec icpt env h s' | None => (OExn e, s') end
      | OInt => (OInt, s') end in
    let p := match o with
      | OVal v => let '(o2,j2) := plain (env ++ [v]) k_ok in (o2, j ++ j2)
      | OExn e => match k_exc with Some h => let '(o2,j2) := plain env h in (o2, j ++ j2) | None => (OExn e, j) end
      | OInt => (OInt, j) end in
    fst r = fst p /\ journal (snd r) = journal s0 ++ snd p.
Proof.
  intros Hk Hx icpt env o s0 s' j Hj. destruct o as [v|e|]; cbn.
  - destruct (Hk icpt (env ++ [v]) s') as [A B]. destruct (plain (env ++ [v]) k_ok) as [o2 j2]; cbn in *.
    split; [exact A|]. rewrite B, Hj, app_assoc. reflexivity.
  - destruct k_exc as [h|]; cbn in *.
    + destruct (Hx icpt env s') as [A B]. destruct (plain env h) as [o2 j2]; cbn in *.
      split; [exact A|]. rewrite B, Hj, app_assoc. reflexivity.
    + split; [reflexivity|exact Hj].
  - split; [reflexivity|exact Hj].
Qed.

Theorem transparent : forall c, Good c.
Proof.
  induction c using code_ind2; unfold Good in *; intros icpt env s; cbn [exec plain].
  - cbn. now rewrite app_nil_r.
  - cbn. now rewrite app_nil_r.
  - cbn. now rewrite app_nil_r.
  - (* CallIn *)
    set (a := map (eval env) args).
    destruct (icpt || match active s with None => true | Some _ => false end).
    + pose proof (IHc1 icpt a (log s (i_alias cf, a))) as [A B].
      destruct (exec icpt a c1 (log s (i_alias cf, a))) as [o s'] eqn:E.
      destruct (plain a c1) as [o' j] eqn:Ep. cbn in A, B. subst o'.
      rewrite ?journal_log in B.
      apply (cont_good c2 k_exc IHc2 H icpt env o s s' ((i_alias cf, a) :: j)).
      rewrite B, <- app_assoc. reflexivity.
    + set (s1 := if i_key_fails cf then discard s else s).
      assert (J1 : journal s1 = journal s) by (unfold s1; destruct (i_key_fails cf); [apply journal_discard|reflexivity]).
      pose proof (IHc1 true a (log s1 (i_alias cf, a))) as [A B].
      destruct (exec true a c1 (log s1 (i_alias cf, a))) as [o s2] eqn:E.
      destruct (plain a c1) as [o' j] eqn:Ep. cbn in A, B. subst o'.
      rewrite ?journal_log in B; cbn [journal log] in B; rewrite ?J1 in B.
      assert (JJ : journal s2 = journal s ++ (i_alias cf, a) :: j) by (rewrite B, <- app_assoc; reflexivity).
      destruct o as [v|e|]; destruct (i_key_fails cf); try destruct (i_prep_fails cf);
        apply (cont_good c2 k_exc IHc2 H icpt env _ s _ ((i_alias cf, a) :: j));
        rewrite ?journal_write, ?journal_discard; exact JJ.
  - (* CallOut *)
    set (a := map (eval env) args).
    destruct (icpt || match active s with None => true | Some _ => false end).
    + pose proof (IHc1 icpt a (log s (o_alias cf, a))) as [A B].
      destruct (exec icpt a c1 (log s (o_alias cf, a))) as [o s'] eqn:E.
      destruct (plain a c1) as [o' j] eqn:Ep. cbn in A, B. subst o'.
      rewrite ?journal_log in B.
      apply (cont_good c2 k_exc IHc2 H icpt env o s s' ((o_alias cf, a) :: j)).
      rewrite B, <- app_assoc. reflexivity.
    + destruct (bump (o_alias cf) (counter s)) as [n c'].
      set (s1 := if o_prep_fails cf then _ else _).
      assert (J1 : journal s1 = journal s) by (unfold s1; destruct (o_prep_fails cf); rewrite ?journal_discard, ?journal_write; reflexivity).
      destruct (active s1).
      * pose proof (IHc1 true a (log s1 (o_alias cf, a))) as [A B].
        destruct (exec true a c1 (log s1 (o_alias cf, a))) as [o s2] eqn:E.
        destruct (plain a c1) as [o' j] eqn:Ep. cbn in A, B. subst o'.
        rewrite ?journal_log in B; cbn [journal log] in B; rewrite ?J1 in B.
        assert (JJ : journal s2 = journal s ++ (o_alias cf, a) :: j) by (rewrite B, <- app_assoc; reflexivity).
        destruct o as [v|e|];
          apply (cont_good c2 k_exc IHc2 H icpt env _ s _ ((o_alias cf, a) :: j));
          rewrite ?journal_write; exact JJ.
      * pose proof (IHc1 icpt a (log s1 (o_alias cf, a))) as [A B].
        destruct (exec icpt a c1 (log s1 (o_alias cf, a))) as [o s'] eqn:E.
        destruct (plain a c1) as [o' j] eqn:Ep. cbn in A, B. subst o'.
        rewrite ?journal_log in B; cbn [journal log] in B; rewrite ?J1 in B.
        apply (cont_good c2 k_exc IHc2 H icpt env o s s' ((o_alias cf, a) :: j)).
        rewrite B, <- app_assoc. reflexivity.
  - specialize (IHc icpt env (discard s)). rewrite journal_discard in IHc. exact IHc.
  - specialize (IHc icpt env (do_force s)). rewrite journal_force in IHc. exact IHc.
Qed.
Print Assumptions transparent.
