import sys, logging, datetime, pytz
sys.path.insert(0,'/repo'); sys.path.insert(0,'.')
logging.disable(logging.CRITICAL)
import fakes3; fakes3.install()
from playback.tape_cassettes.s3.s3_tape_cassette import S3TapeCassette
c = S3TapeCassette('b', key_prefix='', read_only=False)
r = c.create_new_recording('Op'); r.set_data('k',[1,2]); r.set_data('_metadata', 'user'); r.add_metadata({'m':1}); c.save_recording(r)
print(fakes3.STORES['b'].log)
g = c.get_recording(r.id); print('keys', list(g.get_all_keys()), 'meta', g.get_metadata(), c.get_recording_metadata(r.id))
try: print('C10 empty prefix list:', list(c.iter_recording_ids('Op')))
except Exception as e: print('C10 empty prefix raised', type(e).__name__, e)
c2 = S3TapeCassette('b', key_prefix='p', read_only=False)
r = c2.create_new_recording('Op'); r.set_data('k',1); c2.save_recording(r)
print('C10 prefix p list:', list(c2.iter_recording_ids('Op')))
try: c2.get_recording('Op/x/y')
except Exception as e: print('C07 s3 unknown ->', type(e).__name__)
# C16
start = datetime.datetime(2026,9,1,23,0); end = datetime.datetime(2026,9,2,1,0)
print('C16 prefixes', c2._get_id_prefixes('Op', start, end))
