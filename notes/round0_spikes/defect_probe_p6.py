import sys, logging
sys.path.insert(0,'/repo'); sys.path.insert(0,'.')
logging.disable(logging.CRITICAL)
from playback.tape_recorder import TapeRecorder, RecordingParameters
from playback.tape_cassettes.in_memory.in_memory_tape_cassette import InMemoryTapeCassette
c = InMemoryTapeCassette(); tr = TapeRecorder(c); tr.enable_recording()
# C18 junk extractor partial update
class Op(object):
    @tr.operation(metadata_extractor=lambda self: [('user_k', 1), 7])
    def execute(self): return 1
Op().execute(); print('C18 junk:', {k:v for k,v in c.get_recording(c.get_last_recording_id()).get_metadata().items() if not k.startswith('_tape')})
class Op1(object):
    @tr.operation(metadata_extractor=lambda self: {'_tape_recorder_incomplete_recording': True, 'u': 2})
    def execute(self): return 1
Op1().execute(); print('C18 override:', c.get_recording(c.get_last_recording_id()).get_metadata())
# C03 >9 calls
class Op2(object):
    @tr.operation()
    def execute(self):
        for i in range(12): self.out(i, k=i)
        return 0
    @tr.intercept_output('o')
    def out(self, a, k=None): return a
Op2().execute(); rid=c.get_last_recording_id()
pb = tr.play(rid, lambda r: Op2().execute())
print('C03 recorded order:', [o.key for o in pb.recorded_outputs][:5], 'same set:', sorted(pb.recorded_outputs)==sorted(pb.playback_outputs))
# C11 output args + copy flag
@tr.recording_params(RecordingParameters(copy_data_on_intercepion=True))
class Op3(object):
    @tr.operation()
    def execute(self):
        l=[1]; self.out(l); l.append(2); return 0
    @tr.intercept_output('o')
    def out(self, a): return None
Op3().execute(); r=c.get_recording(c.get_last_recording_id()); print('C11 output args after later mutation (copy on):', r.get_data('output: o #1.output'))
# framework-typed exception from op
from playback.exceptions import RecordingKeyError
class Op4(object):
    @tr.operation()
    def execute(self): raise RecordingKeyError('x')
try: Op4().execute()
except Exception as e: pass
print('C18 framework exc:', {k:v for k,v in c.get_recording(c.get_last_recording_id()).get_metadata().items() if 'incomplete' in k or 'exception' in k})
# nested operation
class Op5(object):
    @tr.operation()
    def execute(self): return Op().execute()
try: print(Op5().execute())
except BaseException as e: print('nested op raised', type(e).__name__, e)
print('idle?', tr.in_recording_mode, tr._active_recording)
