import sys, logging
sys.path.insert(0,'/repo')
logging.disable(logging.CRITICAL)
from playback.tape_recorder import TapeRecorder, RecordingParameters
from playback.tape_cassettes.in_memory.in_memory_tape_cassette import InMemoryTapeCassette
from playback.exceptions import *
c = InMemoryTapeCassette(); tr = TapeRecorder(c); tr.enable_recording()

# C02 falsy substitute
class Op(object):
    def __init__(s, new=False): s.new=new
    @tr.operation()
    def execute(self):
        if self.new: return self.inp(1)
        return 7
    @tr.intercept_input('in', value_when_missing=0)
    def inp(self, a): return 5
Op().execute(); rid = c.get_last_recording_id()
try:
    pb = tr.play(rid, lambda r: Op(True).execute()); print('C02 falsy substitute ->', pb.playback_outputs)
except Exception as e: print('C02 falsy substitute raised', type(e).__name__)

# C04 discard in flight
class Op2(object):
    @tr.operation()
    def execute(self):
        return self.inp(1)
    @tr.intercept_input('in')
    def inp(self, a):
        tr.discard_recording(); return 5
try: print('C04 discard-in-flight ->', Op2().execute())
except Exception as e: print('C04 discard-in-flight raised', type(e).__name__, e)
class Op3(object):
    @tr.operation()
    def execute(self):
        return self.inp(1)
    @tr.intercept_input('in')
    def inp(self, a):
        tr.discard_recording(); raise ValueError('x')
try: print('C04 discard-in-flight ->', Op3().execute())
except Exception as e: print('C04 discard-in-flight+raise raised', type(e).__name__, e)
print('state after', tr.in_recording_mode, tr.in_playback_mode, tr._currently_in_interception)

# C07 unknown id
print('C07 in-memory unknown id ->', c.get_recording('nope/1'))
n0=len(c._recordings)
try: tr.play('nope/1', lambda r: Op().execute())
except Exception as e: print('play missing id raised', type(e).__name__, e)
print('recordings created during play of missing id:', len(c._recordings)-n0)
