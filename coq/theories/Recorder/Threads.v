(** Model B-threads: the recorder methods that read or write the active recording, as sequences of
    atomic accesses to the shared fields, run by any number of threads under any schedule.
    One recording's lifetime: it is active at the start; nothing re-activates it.
    [Legacy] = tape_recorder.py before the repair (every read of self._active_recording is a separate
    access); [Fixed] = after it (read once into a local; hand-over of the recording under
    self._finalization_lock, modelled as ONE atomic step - the reduction "a lock-protected region is
    atomic" is part of the trusted base and gated by an ast check in the harness).
    Definitions only. *)
From Coq Require Import List Bool Arith.
Import ListNotations.

Inductive variant := Legacy | Fixed.

Record shared := mk_sh {
  ar : bool;        (* _active_recording is not None *)
  ap : bool;        (* _active_recording_parameters is not None *)
  fs : bool;        (* _force_sample *)
  fin : nat         (* how many times THE recording was handed to the cassette (abort or save), capped at 2 *)
}.

Inductive meth :=
| MDiscard        (* discard_recording *)
| MFinalise       (* the finally-block of the recording scope *)
| MForce          (* force_sample_recording *)
| MRecordData     (* record_data / _record_output -> _record_data *)
| MPost           (* post-body part of _execute_func_and_record_interception *)
| MCurrentId.     (* current_recording_id *)

Inductive status := Running | Done | Crashed.   (* Crashed: AttributeError / AssertionError / TypeError into the service *)

Record local := mk_loc {
  lm : meth;
  pc : nat;
  ra : bool;        (* local snapshot: the recording read is not None *)
  rp : bool;        (* local snapshot of the parameters *)
  st : status
}.

Definition start (m : meth) : local := mk_loc m 0 false false Running.
Definition bump_fin (n : nat) : nat := if Nat.leb 2 (S n) then 2 else S n.

Definition goto (l : local) (n : nat) : local := mk_loc (lm l) n (ra l) (rp l) Running.
Definition finish (l : local) : local := mk_loc (lm l) (pc l) (ra l) (rp l) Done.
Definition crash (l : local) : local := mk_loc (lm l) (pc l) (ra l) (rp l) Crashed.
Definition set_ra (l : local) (b : bool) : local := mk_loc (lm l) (pc l) b (rp l) (st l).
Definition set_rp (l : local) (b : bool) : local := mk_loc (lm l) (pc l) (ra l) b (st l).

(** One atomic step of a running thread.  Every step is exactly one EVENT: one read or write of a shared
    recorder field (self._active_recording, ._active_recording_parameters, ._force_sample), one call that
    hands the recording to the cassette (abort_recording / save_recording), or - in the repaired code - one
    region protected by self._finalization_lock.  Computation on locals is merged into the preceding event. *)
Definition step (v : variant) (l : local) (sh : shared) : local * shared :=
  match st l with
  | Done | Crashed => (l, sh)
  | Running =>
    match v, lm l, pc l with
    (* ---- discard_recording (:106-114) ---- *)
    | Legacy, MDiscard, 0 => if ar sh then (goto l 1, sh) else (finish l, sh)                 (* if self._active_recording is not None *)
    | Legacy, MDiscard, 1 => if ar sh then (goto l 2, sh) else (crash l, sh)                  (* self._active_recording.id *)
    | Legacy, MDiscard, 2 => (goto (set_ra l (ar sh)) 3, sh)                                  (* argument of abort_recording: self._active_recording *)
    | Legacy, MDiscard, 3 => if ra l then (goto l 4, mk_sh (ar sh) (ap sh) (fs sh) (bump_fin (fin sh)))
                             else (crash l, sh)                                               (* abort_recording(None): None.close() *)
    | Legacy, MDiscard, 4 => (goto l 5, mk_sh false (ap sh) (fs sh) (fin sh))                 (* _reset: _active_recording = None *)
    | Legacy, MDiscard, 5 => (goto l 6, mk_sh (ar sh) false (fs sh) (fin sh))                 (* _active_recording_parameters = None *)
    | Legacy, MDiscard, _ => (finish l, mk_sh (ar sh) (ap sh) false (fin sh))                 (* _force_sample = False *)
    | Fixed, MDiscard, 0 => if ar sh then (goto (set_ra l true) 1, mk_sh false false false (fin sh)) else (finish l, sh)   (* _detach_active_recording, under the lock *)
    | Fixed, MDiscard, _ => (finish l, mk_sh (ar sh) (ap sh) (fs sh) (bump_fin (fin sh)))     (* abort_recording(recording) *)
    (* ---- finally of start_recording (:80-104); sampling rate < 1, so the parameters and the id are used ---- *)
    | Legacy, MFinalise, 0 => if ar sh then (goto l 1, sh) else (finish l, sh)
    | Legacy, MFinalise, 1 => (goto (set_ra l (ar sh)) 2, sh)                                 (* recording = self._active_recording *)
    | Legacy, MFinalise, 2 => (goto l 3, sh)                                                  (* force_sample = self.is_recording_sample_forced *)
    | Legacy, MFinalise, 3 => (goto (set_rp l (ap sh)) 4, sh)                                 (* recording_parameters = ... *)
    | Legacy, MFinalise, 4 => (goto l 5, mk_sh false (ap sh) (fs sh) (fin sh))                (* _reset_active_recording *)
    | Legacy, MFinalise, 5 => (goto l 6, mk_sh (ar sh) false (fs sh) (fin sh))
    | Legacy, MFinalise, 6 => if ra l && rp l then (goto l 7, mk_sh (ar sh) (ap sh) false (fin sh))
                              else (crash l, mk_sh (ar sh) (ap sh) false (fin sh))            (* then recording_parameters.sampling_rate, recording.id *)
    | Legacy, MFinalise, _ => (finish l, mk_sh (ar sh) (ap sh) (fs sh) (bump_fin (fin sh)))   (* save_recording / abort_recording *)
    | Fixed, MFinalise, 0 => if ar sh then (if ap sh then (goto (set_rp (set_ra l true) true) 1, mk_sh false false false (fin sh))
                                            else (crash l, mk_sh false false false (fin sh)))
                             else (finish l, sh)                                              (* detach under the lock, then use the snapshot *)
    | Fixed, MFinalise, _ => (finish l, mk_sh (ar sh) (ap sh) (fs sh) (bump_fin (fin sh)))
    (* ---- force_sample_recording (:116-125) ---- *)
    | Legacy, MForce, 0 => if ar sh then (goto l 1, sh) else (finish l, sh)
    | Legacy, MForce, 1 => if ap sh then (goto l 2, sh) else (crash l, sh)                    (* self._active_recording_parameters.ignore_... *)
    | Legacy, MForce, 2 => if ar sh then (goto l 3, sh) else (crash l, sh)                    (* self._active_recording.id *)
    | Legacy, MForce, _ => (finish l, mk_sh (ar sh) (ap sh) true (fin sh))                    (* self._force_sample = True *)
    | Fixed, MForce, _ => if ar sh then (if ap sh then (finish l, mk_sh (ar sh) (ap sh) true (fin sh)) else (crash l, sh))
                          else (finish l, sh)                                                 (* the whole method under the lock *)
    (* ---- record_data / _record_output -> _record_data (:175-185, :451-462) ---- *)
    | Legacy, MRecordData, 0 => if ar sh then (goto l 1, sh) else (finish l, sh)              (* in_recording_mode / is None test of the caller *)
    | Legacy, MRecordData, 1 => if ar sh then (goto l 2, sh) else (crash l, sh)               (* _assert_recording *)
    | Legacy, MRecordData, 2 => if ar sh then (goto l 3, sh) else (crash l, sh)               (* self._active_recording.id *)
    | Legacy, MRecordData, _ => if ar sh then (finish l, sh) else (crash l, sh)               (* self._active_recording[key] = data *)
    | Fixed, MRecordData, 0 => if ar sh then (goto l 1, sh) else (finish l, sh)
    | Fixed, MRecordData, _ => (finish (set_ra l (ar sh)), sh)                                (* recording = ...; if None: return; recording[key] = data *)
    (* ---- post-body of an interception (:850-874), same in both variants since /repo 758bfbd ---- *)
    | _, MPost, 0 => (goto (set_ra l (ar sh)) 1, sh)
    | _, MPost, _ => (finish (set_rp l (ap sh)), sh)                                          (* then writes into the snapshot, or skips *)
    (* ---- current_recording_id (:264-274) ---- *)
    | Legacy, MCurrentId, 0 => if ar sh then (goto l 1, sh) else (finish l, sh)
    | Legacy, MCurrentId, _ => if ar sh then (finish l, sh) else (crash l, sh)                (* self._active_recording.id *)
    | Fixed, MCurrentId, _ => (finish (set_ra l (ar sh)), sh)
    end
  end.

(** ---- any number of threads, any schedule ---- *)
Inductive action :=
| AStep (i : nat)               (* thread i performs its next atomic step *)
| ABegin (i : nat) (m : meth).  (* thread i, between calls, calls method m *)

Fixpoint upd {A} (i : nat) (x : A) (l : list A) : list A :=
  match i, l with
  | _, [] => []
  | 0, _ :: t => x :: t
  | S j, h :: t => h :: upd j x t
  end.

Definition config := (shared * list local)%type.

Definition do_action (v : variant) (a : action) (c : config) : config :=
  let '(sh, ls) := c in
  match a with
  | AStep i =>
      match nth_error ls i with
      | Some l => let '(l', sh') := step v l sh in (sh', upd i l' ls)
      | None => c
      end
  | ABegin i m =>
      match nth_error ls i with
      | Some l => match st l with Done => (sh, upd i (start m) ls) | _ => c end
      | None => c
      end
  end.

Definition run (v : variant) (sched : list action) (c : config) : config :=
  fold_left (fun c a => do_action v a c) sched c.

Definition sh0 : shared := mk_sh true true false 0.
Definition idle_thread : local := mk_loc MPost 1 false false Done.

Definition crashed (l : local) : bool := match st l with Crashed => true | _ => false end.
