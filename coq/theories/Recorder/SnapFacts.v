(** Facts about recordings as association lists: snapshot of a log, lookups, key shapes. *)
From Playback Require Import Base.Str Base.StrFacts Values.PyVal Values.Codec Values.KeyFormat Values.KeyFacts
  Recorder.Dsl Recorder.Exec Recorder.Run.
From Coq Require Import Lia.
Open Scope list_scope.

Lemma set_item_keys {A} k (v : A) d k' :
  List.In k' (map fst (set_item k v d)) <-> k' = k \/ List.In k' (map fst d).
Proof.
  induction d as [|[k0 v0] d IH]; cbn.
  - intuition.
  - destruct (str_eqb k k0) eqn:E; cbn.
    + apply str_eqb_eq in E. subst k0. intuition.
    + rewrite IH. intuition.
Qed.

Lemma rlookup_set_item k d r k' :
  rlookup k' (set_item k d r) = if str_eqb k' k then Some d else rlookup k' r.
Proof.
  induction r as [|[k0 d0] r IH]; cbn.
  - reflexivity.
  - destruct (str_eqb k k0) eqn:E; cbn.
    + apply str_eqb_eq in E. subst k0. destruct (str_eqb k' k); reflexivity.
    + rewrite IH. destruct (str_eqb k' k) eqn:E2; [|reflexivity].
      apply str_eqb_eq in E2. subst k'. rewrite E. reflexivity.
Qed.

Definition step_item (r : recording) (kd : str * datum) : recording := set_item (fst kd) (snd kd) r.

Lemma fold_keys ws : forall acc k,
  List.In k (map fst (fold_left step_item ws acc)) <-> List.In k (map fst acc) \/ List.In k (map fst ws).
Proof.
  induction ws as [|[k0 d0] ws IH]; intros acc k; cbn [fold_left map].
  - cbn. intuition.
  - rewrite IH. unfold step_item. cbn [fst snd]. rewrite set_item_keys. cbn. intuition.
Qed.

Lemma snapshot_keys l k : List.In k (map fst (snapshot_of l)) <-> List.In k (map fst (writes_of l)).
Proof. unfold snapshot_of. change (fun r kd => set_item (fst kd) (snd kd) r) with step_item. rewrite fold_keys. cbn. intuition. Qed.

(** the last value written under a key *)
Fixpoint last_write (k : str) (ws : list (str * datum)) : option datum :=
  match ws with
  | [] => None
  | (k0, d0) :: ws' =>
      match last_write k ws' with
      | Some d => Some d
      | None => if str_eqb k k0 then Some d0 else None
      end
  end.

Lemma fold_lookup ws : forall acc k,
  rlookup k (fold_left step_item ws acc) =
  match last_write k ws with Some d => Some d | None => rlookup k acc end.
Proof.
  induction ws as [|[k0 d0] ws IH]; intros acc k; cbn [fold_left last_write].
  - reflexivity.
  - rewrite IH. unfold step_item. cbn [fst snd]. rewrite rlookup_set_item.
    destruct (last_write k ws); [reflexivity|]. destruct (str_eqb k k0); reflexivity.
Qed.

Lemma snapshot_lookup l k : rlookup k (snapshot_of l) = last_write k (writes_of l).
Proof.
  unfold snapshot_of. change (fun r kd => set_item (fst kd) (snd kd) r) with step_item.
  rewrite fold_lookup. destruct (last_write k (writes_of l)); reflexivity.
Qed.

Lemma last_write_app k ws1 ws2 :
  last_write k (ws1 ++ ws2) = match last_write k ws2 with Some d => Some d | None => last_write k ws1 end.
Proof.
  induction ws1 as [|[k0 d0] ws1 IH]; cbn [app last_write].
  - destruct (last_write k ws2); reflexivity.
  - rewrite IH. destruct (last_write k ws2); reflexivity.
Qed.

Lemma last_write_in k ws d : last_write k ws = Some d -> List.In (k, d) ws.
Proof.
  induction ws as [|[k0 d0] ws IH]; cbn [last_write]; [discriminate|].
  destruct (last_write k ws) as [d'|].
  - intros E; inversion E; subst. right. apply IH. reflexivity.
  - destruct (str_eqb k k0) eqn:E; [|discriminate]. apply str_eqb_eq in E. subst. intros X; inversion X. left. reflexivity.
Qed.

Lemma last_write_none k ws : last_write k ws = None <-> ~ List.In k (map fst ws).
Proof.
  induction ws as [|[k0 d0] ws IH]; cbn [last_write map fst].
  - split; [intros _ []|reflexivity].
  - destruct (last_write k ws) as [d'|].
    + split; [discriminate|]. intros N. exfalso. apply N. right. destruct IH as [_ IH].
      destruct (in_dec (list_eq_dec N.eq_dec) k (map fst ws)) as [i|n]; [assumption|]. specialize (IH n). discriminate.
    + destruct (str_eqb k k0) eqn:E.
      * apply str_eqb_eq in E. subst. split; [discriminate|]. intros N. exfalso. apply N. left. reflexivity.
      * apply str_eqb_neq in E. destruct IH as [IH _]. specialize (IH eq_refl). split; [|reflexivity].
        intros _ [X|X]; [congruence|auto].
Qed.

(** ---- key shapes ---- *)
Lemma input_keys_shape cf a kw keys : input_keys cf a kw = Some keys -> exists r, hd [] keys = U"input: " ++ r.
Proof.
  unfold input_keys. destruct (format_alias _ _ _) as [fa|]; [|discriminate].
  unfold ikey. destruct (select _ _ _ _) as [sa skw|]; [|discriminate].
  destruct (encode sa) as [ea|]; [|discriminate]. destruct (encode (kwargs_value skw)) as [ek|]; [|discriminate].
  destruct (i_fallbacks cf).
  - intros E; inversion E; subst. cbn [hd]. eexists. reflexivity.
  - destruct (opt_all _); cbn; intros E; inversion E; subst. cbn [hd]. eexists. reflexivity.
  - destruct (opt_all _); cbn; intros E; inversion E; subst. cbn [hd]. eexists. reflexivity.
  - discriminate.
Qed.

Lemma input_key_not_output r : is_output_key (U"input: " ++ r) = false.
Proof. reflexivity. Qed.

Lemma result_key_not_output al n : is_output_key (okey_result al n) = false.
Proof.
  unfold is_output_key, okey_result, suffixb. rewrite rev_app_distr.
  replace (prefixb (rev (U"result")) (rev (U".result") ++ rev (okey al n))) with true by reflexivity.
  apply andb_false_r.
Qed.

Lemma opkey_is_output : is_output_key OPKEY = true. Proof. reflexivity. Qed.
Lemma opkey_has_alias : infixb OPERATION_ALIAS OPKEY = true. Proof. vm_compute. reflexivity. Qed.

(** a string without '_' cannot contain the operation alias (which starts with '_') *)
Lemma infixb_absent_char (c : N) (p s : str) : ~ List.In c s -> infixb (c :: p) s = false.
Proof.
  induction s as [|x s IH]; intros N; cbn [infixb prefixb].
  - reflexivity.
  - destruct (N.eqb_spec c x) as [->|D].
    + exfalso. apply N. left. reflexivity.
    + cbn. apply IH. intros X. apply N. right. exact X.
Qed.
