(** Facts about replay ([play_exec], [play_run]): read-only (C02), the missing-key policy (C02). *)
From Playback Require Import Base.Str Base.StrFacts Values.PyVal Values.Codec Values.KeyFormat
  Recorder.Dsl Recorder.Exec Recorder.Run Recorder.RecFacts.
From Coq Require Import QArith Lia.
Open Scope list_scope.

(** ---- a log that touches neither a recording nor the cassette ---- *)
Definition quiet (l : list ev) : Prop := writes_of l = [] /\ aborts_of l = 0%nat.
Lemma quiet_nil : quiet []. Proof. split; reflexivity. Qed.
Lemma quiet_app l1 l2 : quiet l1 -> quiet l2 -> quiet (l1 ++ l2).
Proof. intros [W1 A1] [W2 A2]. split; [rewrite writes_app, W1, W2|rewrite aborts_app, A1, A2]; reflexivity. Qed.
Lemma quiet_cons e l : write_of e = [] -> is_abort e = false -> quiet l -> quiet (e :: l).
Proof. intros W A [W1 A1]. split; [rewrite writes_cons, W, W1|rewrite aborts_cons, A, A1]; reflexivity. Qed.

Ltac quiet_tac :=
  cbn [app];
  repeat first [ apply quiet_nil | assumption | apply quiet_cons; [reflexivity|reflexivity|] | apply quiet_app ].

Definition bodies_of (l : list ev) : list str := flat_map (fun e => match e with EBody a _ _ => [a] | _ => [] end) l.
Lemma bodies_app l1 l2 : bodies_of (l1 ++ l2) = bodies_of l1 ++ bodies_of l2.
Proof. apply flat_map_app. Qed.

(** no input of the program opts into running the original when its recording is missing *)
Fixpoint no_run_missing (c : code) : Prop :=
  match c with
  | Ret _ | Raise _ | Interrupt => True
  | Inp cf body _ _ k => i_run_missing cf = false /\ no_run_missing body /\ no_run_missing k
  | Out _ body _ _ k => no_run_missing body /\ no_run_missing k
  | Try c1 h | Spawn c1 h => no_run_missing c1 /\ no_run_missing h
  | Discard k | Force k | Enable _ k | PlayData _ k | RecordData _ _ k => no_run_missing k
  end.

Section Play.
  Variable R : recording.

  Definition qres (r : pres) : Prop := let '(_, _, l) := r in quiet l.

  Lemma play_in_call_quiet cf a kw body s : (forall s0, qres (body s0)) -> qres (play_in_call R cf a kw body s).
  Proof.
    intros H. unfold play_in_call, qres in *.
    destruct (input_keys cf a kw) as [keys|]; [|quiet_tac].
    destruct (first_present keys R) as [key|]; [quiet_tac|].
    destruct (missing_policy cf a kw); try quiet_tac.
    specialize (H s). destruct (body s) as [[o s1] l1]. quiet_tac.
  Qed.

  Lemma play_out_call_quiet cf a kw s : qres (play_out_call R cf a kw s).
  Proof.
    unfold play_out_call, qres. destruct (bump _ _) as [n cnt].
    destruct (out_datum cf a kw); quiet_tac.
  Qed.

  (** C02: replay writes nothing into any recording and never aborts anything *)
  Theorem play_exec_quiet : forall c env s, qres (play_exec R c env s).
  Proof.
    induction c as [e|ty| |cf body IHb args kwargs k IHk|cf body IHb args kwargs k IHk|c1 IH1 h IHh|c1 IHs1 k IHsk
                    |k IHk|k IHk|b k IHk|key e k IHk|key k IHk]; intros env s; cbn [play_exec]; try apply quiet_nil; auto.
    - pose proof (play_in_call_quiet cf (map (eval env) args) (eval_kw env kwargs)
                    (play_exec R body (body_env (map (eval env) args) (eval_kw env kwargs))) s (fun s0 => IHb _ s0)) as H.
      unfold bind_val, qres in *. destruct (play_in_call _ _ _ _ _ s) as [[o s1] l1].
      destruct o as [v|e|]; auto. specialize (IHk (env ++ [v]) s1). destruct (play_exec R k (env ++ [v]) s1) as [[o2 s2] l2].
      apply quiet_app; auto.
    - pose proof (play_out_call_quiet cf (map (eval env) args) (eval_kw env kwargs) s) as H.
      unfold bind_val, qres in *. destruct (play_out_call _ _ _ _ s) as [[o s1] l1].
      destruct o as [v|e|]; auto. specialize (IHk (env ++ [v]) s1). destruct (play_exec R k (env ++ [v]) s1) as [[o2 s2] l2].
      apply quiet_app; auto.
    - specialize (IH1 env s). unfold bind_exn, qres in *. destruct (play_exec R c1 env s) as [[o s1] l1].
      destruct o as [v|e|]; auto. specialize (IHh env s1). destruct (play_exec R h env s1) as [[o2 s2] l2].
      apply quiet_app; auto.
    - specialize (IHs1 env s). unfold qres in IHs1. destruct (play_exec R c1 env s) as [[o1 s1] l1].
      specialize (IHsk env s1). unfold prepend, qres in *. destruct (play_exec R k env s1) as [[o2 s2] l2]. apply quiet_app; auto.
    - destruct (rlookup key R) as [d|]; [|apply quiet_nil]. destruct (datum_value d); [apply IHk|apply quiet_nil].
  Qed.

  (** C02: unless an input opts in (run_intercepted_when_missing), no wrapped body is executed while replaying *)
  Definition nobody (r : pres) : Prop := let '(_, _, l) := r in bodies_of l = [].

  Theorem play_exec_no_bodies : forall c env s, no_run_missing c -> nobody (play_exec R c env s).
  Proof.
    induction c as [e|ty| |cf body IHb args kwargs k IHk|cf body IHb args kwargs k IHk|c1 IH1 h IHh|c1 IHs1 k IHsk
                    |k IHk|k IHk|b k IHk|key e k IHk|key k IHk]; intros env s N; cbn [play_exec no_run_missing] in *;
      try reflexivity; auto.
    - destruct N as (Nr & Nb & Nk).
      assert (H : nobody (play_in_call R cf (map (eval env) args) (eval_kw env kwargs)
                            (play_exec R body (body_env (map (eval env) args) (eval_kw env kwargs))) s)).
      { unfold play_in_call, nobody. destruct (input_keys _ _ _); [|reflexivity].
        destruct (first_present _ _); [reflexivity|]. unfold missing_policy. rewrite Nr.
        destruct (i_vmiss cf) as [|[]|]; reflexivity. }
      unfold bind_val, nobody in *. destruct (play_in_call _ _ _ _ _ s) as [[o s1] l1].
      destruct o as [v|e|]; auto. specialize (IHk (env ++ [v]) s1 Nk). destruct (play_exec R k (env ++ [v]) s1) as [[o2 s2] l2].
      rewrite bodies_app, H, IHk. reflexivity.
    - destruct N as (Nb & Nk).
      assert (H : nobody (play_out_call R cf (map (eval env) args) (eval_kw env kwargs) s)).
      { unfold play_out_call, nobody. destruct (bump _ _). destruct (out_datum _ _ _); reflexivity. }
      unfold bind_val, nobody in *. destruct (play_out_call _ _ _ _ s) as [[o s1] l1].
      destruct o as [v|e|]; auto. specialize (IHk (env ++ [v]) s1 Nk). destruct (play_exec R k (env ++ [v]) s1) as [[o2 s2] l2].
      rewrite bodies_app, H, IHk. reflexivity.
    - destruct N as (N1 & Nh). specialize (IH1 env s N1). unfold bind_exn, nobody in *.
      destruct (play_exec R c1 env s) as [[o s1] l1]. destruct o as [v|e|]; auto.
      specialize (IHh env s1 Nh). destruct (play_exec R h env s1) as [[o2 s2] l2]. rewrite bodies_app, IH1, IHh. reflexivity.
    - destruct N as (N1 & Nk). specialize (IHs1 env s N1). unfold nobody in IHs1. destruct (play_exec R c1 env s) as [[o1 s1] l1].
      specialize (IHsk env s1 Nk). unfold prepend, nobody in *. destruct (play_exec R k env s1) as [[o2 s2] l2].
      rewrite bodies_app, IHs1, IHsk. reflexivity.
    - destruct (rlookup key R) as [d|]; [|reflexivity]. destruct (datum_value d); [apply IHk; auto|reflexivity].
  Qed.

  (** ---- the documented policy for one input call (C02) ---- *)
  Inductive answer :=
  | AKeyError                      (* the key cannot be built: InputInterceptionKeyCreationError *)
  | ARecorded (key : str) (o : outcome)   (* answered from the recording, under the first present key *)
  | AOriginal                      (* opted in: the original runs *)
  | ASubstitute (v : pyval)        (* the configured substitute (callables applied to the call's arguments) *)
  | AMissing.                      (* RecordingKeyError *)

  Definition recorded_outcome (cf : icfg) (a : list pyval) (kw : list (str * pyval)) (d : datum) : outcome :=
    match d with
    | DExn e => OExn e
    | DVal v => restore_input (i_handler cf) v (full_args (i_static cf) a) kw
    | _ => OExn EOutside
    end.

  (** main alias first, then the fallback aliases in order; then run-original if opted in; then the
      substitute if one is configured (any value other than None, falsy ones included); else the error *)
  Definition input_policy (cf : icfg) (a : list pyval) (kw : list (str * pyval)) : answer :=
    match input_keys cf a kw with
    | None => AKeyError
    | Some keys =>
        match find (fun k => match rlookup k R with Some _ => true | None => false end) keys with
        | Some key => match rlookup key R with Some d => ARecorded key (recorded_outcome cf a kw d) | None => AMissing end
        | None =>
            if i_run_missing cf then AOriginal
            else match i_vmiss cf with
                 | VMNone | VMLit VNone => AMissing
                 | VMLit v => ASubstitute v
                 | VMCall f => ASubstitute (f a kw)
                 end
        end
    end.

  Definition answer_outcome (an : answer) (orig : outcome) : outcome :=
    match an with
    | AKeyError => OExn EKeyCreation
    | ARecorded _ o => o
    | AOriginal => orig
    | ASubstitute v => OVal v
    | AMissing => OExn EKeyMissing
    end.

  Theorem play_in_call_policy cf a kw body s :
    let '(o, s', l) := play_in_call R cf a kw body s in
    let '(ob, sb, lb) := body s in
    o = answer_outcome (input_policy cf a kw) ob /\
    (input_policy cf a kw = AOriginal -> s' = sb /\ bodies_of l = i_alias cf :: bodies_of lb) /\
    (input_policy cf a kw <> AOriginal -> s' = s /\ bodies_of l = []).
  Proof.
    unfold play_in_call, input_policy, first_present, missing_policy.
    destruct (input_keys cf a kw) as [keys|].
    - destruct (find _ keys) as [key|] eqn:F.
      + apply find_some in F. destruct F as [_ F]. destruct (rlookup key R) as [d|]; [|discriminate].
        destruct (body s) as [[ob sb] lb]. cbn. repeat split; auto; try discriminate; destruct d; reflexivity.
      + destruct (i_run_missing cf).
        * destruct (body s) as [[ob sb] lb]. cbn. repeat split; auto; try congruence.
          unfold bodies_of. cbn. rewrite flat_map_app. cbn. rewrite app_nil_r. reflexivity.
        * destruct (body s) as [[ob sb] lb]. destruct (i_vmiss cf) as [|[]|]; cbn; repeat split; auto; discriminate.
    - destruct (body s) as [[ob sb] lb]. cbn. repeat split; auto; discriminate.
  Qed.

  (** the output side: recorded result, else raise if fail_on_no_recorded_result, else the default; the body never runs *)
  Theorem play_out_call_policy cf a kw s :
    let '(o, s', l) := play_out_call R cf a kw s in
    let n := fst (bump (o_alias cf) (pcounter s)) in
    o = match rlookup (okey_result (o_alias cf) n) R with
        | Some (DExn e) => OExn e
        | Some (DVal v) => OVal v
        | Some _ => OExn EOutside
        | None => if o_fail cf then OExn EKeyMissing else OVal (o_default cf)
        end /\ bodies_of l = [].
  Proof.
    unfold play_out_call. destruct (bump (o_alias cf) (pcounter s)) as [n cnt]. cbn [fst].
    split; [reflexivity|]. destruct (out_datum cf a kw); reflexivity.
  Qed.
End Play.

(** ---- play at the run level ---- *)
Section PlayRun.
  Variable draws : nat -> Q.

  (** C02: play() leaves the cassette's contents and the draw stream alone and reaches the cassette only
      through the one get_recording *)
  Theorem play_run_readonly en t pf s w :
    let '(ob, w') := play_run en t pf s w in w' = w /\ exists f, ob_cass ob = [CGet f].
  Proof.
    unfold play_run. destruct (find_saved t (w_saved w)) as [st0|].
    - destruct pf as [op|ty].
      + destruct (play_exec _ _ _ _) as [[o ps] l]. destruct o as [v|[]|]; cbn; split; eauto.
      + cbn. split; eauto.
    - cbn. split; eauto.
  Qed.

  (** any number of replays of the same recording give the same result *)
  Theorem play_run_repeatable en t pf s w :
    idle s ->
    let '(ob1, w1) := play_run en t pf s w in
    play_run en t pf (ob_state ob1) w1 = (ob1, w1).
  Proof.
    intros Id. pose proof (play_run_readonly en t pf s w) as RO. pose proof (play_run_idle en t pf s w Id) as I1.
    destruct (play_run en t pf s w) as [ob1 w1] eqn:E. cbn [fst] in I1. destruct RO as [-> _].
    pose proof (do_run_history_independent draws (RPlay en t pf) (ob_state ob1) s w I1 Id) as H. cbn [do_run] in H.
    rewrite H. exact E.
  Qed.
End PlayRun.
