(** C18: the metadata attached to a saved recording. *)
From Playback Require Import Base.Str Base.StrFacts Values.PyVal Values.Codec Values.KeyFormat Values.KeyFacts
  Recorder.Dsl Recorder.Exec Recorder.Run Recorder.RecFacts Recorder.SnapFacts.
From Coq Require Import QArith Lia.
Open Scope list_scope.

(** "no foreign key looks like the operation's own output entry" *)
Definition clean (k : str) : Prop := is_output_key k = true -> infixb OPERATION_ALIAS k = false.

(** was the run cut short without an operation result being captured? *)
Definition cut_short (o : outcome) : bool :=
  match o with OVal _ | OExn (EUser _) => false | _ => true end.

(** the metadata as documented: class; exception flag for every run that was not cut short by a
    BaseException; incomplete flag; the user's extracted metadata, or none of it if the extractor failed *)
Definition metadata_spec (op : opdef) (o : outcome) : list (str * pyval) :=
  let base := [(K_CLASS, VClass (op_class op))] ++
              match o with OVal _ => [(K_EXC, VBool false)] | OExn _ => [(K_EXC, VBool true)] | OInt => [] end ++
              [(K_INCOMPLETE, VBool (cut_short o))] in
  match op_extractor op with XDict d => update_items d base | _ => base end.

Definition op_writes (o : outcome) : list ev :=
  match o with OVal v => [EWrite OPKEY (DOut [v] [])] | OExn (EUser ty) => [EWrite OPKEY (DOpExn ty)] | _ => [] end.

Lemma opkey_found l0 d0 :
  existsb (fun kd : str * datum => infixb OPERATION_ALIAS (fst kd)) (outputs_of (snapshot_of (l0 ++ [EWrite OPKEY d0]))) = true.
Proof.
  assert (Ik : List.In OPKEY (map fst (snapshot_of (l0 ++ [EWrite OPKEY d0])))).
  { apply snapshot_keys. rewrite writes_app, map_app. apply in_or_app. right. left. reflexivity. }
  apply in_map_iff in Ik. destruct Ik as ([k d] & Ek & Ikd). cbn [fst] in Ek. subst k.
  apply existsb_exists. exists (OPKEY, d). split.
  - unfold outputs_of. apply filter_In. split; [exact Ikd|apply opkey_is_output].
  - apply opkey_has_alias.
Qed.

Lemma incomplete_of_snapshot l0 o :
  wkeys clean l0 -> incomplete_of (snapshot_of (l0 ++ op_writes o)) = cut_short o.
Proof.
  intros W. unfold incomplete_of.
  destruct o as [v|[ty| | | | |]|]; cbn [op_writes cut_short]; try (rewrite opkey_found; reflexivity).
  all: rewrite app_nil_r.
  all: destruct (existsb _ _) eqn:E; [exfalso|reflexivity].
  all: apply existsb_exists in E; destruct E as ([k d] & I & F); cbn [fst] in F.
  all: unfold outputs_of in I; apply filter_In in I; destruct I as [I Ok]; cbn [fst] in Ok.
  all: assert (Ik : List.In k (map fst (writes_of l0))) by (apply snapshot_keys; apply in_map_iff; exists (k, d); auto).
  all: unfold wkeys in W; rewrite Forall_forall in W; apply in_map_iff in Ik; destruct Ik as ([k' d'] & Ek & Ikd).
  all: cbn [fst] in Ek; subst k'; specialize (W _ Ikd); cbn [fst] in W; specialize (W Ok); rewrite W in F; discriminate.
Qed.

Lemma metadata_of_spec op o l0 : wkeys clean l0 -> metadata_of op o (snapshot_of (l0 ++ op_writes o)) = metadata_spec op o.
Proof.
  intros W. unfold metadata_of, metadata_spec. rewrite (incomplete_of_snapshot l0 o W).
  destruct o as [v|e|]; cbn [app]; destruct (op_extractor op); reflexivity.
Qed.

Section Metadata.
  Variable draws : nat -> Q.

  Lemma clean_input cf a kw keys : input_keys cf a kw = Some keys -> clean (hd [] keys).
  Proof. intros E. destruct (input_keys_shape _ _ _ _ E) as [r ->]. unfold clean. rewrite input_key_not_output. discriminate. Qed.

  (** C18: every saved recording's metadata is the documented function of the operation's class, the way
      the run ended and the extractor's result - for every program and fault placement, termination at any
      step, also inside intercepted bodies and after outputs were captured *)
  Theorem record_run_metadata en P op sf s w ord d m :
    active s = false -> sites_ok clean (op_body op) ->
    let '(ob, _) := record_run draws en P op sf s w in
    List.In (CSave ord d m) (ob_cass ob) ->
    m = metadata_spec op (ob_outcome ob).
  Proof.
    intros A Ok. pose proof (record_run_saved_only_if_captured draws en P op sf s w ord d m A) as H.
    pose proof (record_run_spec draws en P op sf s w A) as Sp.
    destruct (record_run draws en P op sf s w) as [ob w']. intros I. specialize (H I).
    pose proof (rec_exec_wkeys P clean clean_input (op_body op) [] (mk_rst true en (force s) (counter s) (icpt s)) Ok) as W.
    destruct (rec_exec P (op_body op) [] (mk_rst true en (force s) (counter s) (icpt s))) as [[o s1] l0] eqn:E.
    destruct H as (En & _ & _ & _ & _ & _ & lop & -> & -> & ->).
    rewrite En in Sp. rewrite E in Sp. destruct Sp as (-> & _).
    cbn [wres] in W. apply (metadata_of_spec op o l0 W).
  Qed.
End Metadata.

(** sufficient, decidable condition for [sites_ok clean]: output aliases and user keys without '_' *)
Lemma clean_no_underscore k : ~ List.In 95%N k -> clean k.
Proof. intros N _. apply (infixb_absent_char 95%N). exact N. Qed.
