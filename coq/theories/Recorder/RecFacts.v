(** Facts about recording runs ([rec_exec], [record_run]): transparency (C04), finalisation and
    capture invariants (C05), return to idle (C09), the keep decision (C17), metadata (C18). *)
From Playback Require Import Base.Str Base.StrFacts Values.PyVal Values.Codec Values.KeyFormat
  Recorder.Dsl Recorder.Exec Recorder.Run.
From Coq Require Import QArith Lia.
Open Scope list_scope.

(** ---- small log algebra ---- *)
Lemma trace_app l1 l2 : trace_of (l1 ++ l2) = trace_of l1 ++ trace_of l2.
Proof. apply filter_app. Qed.
Lemma trace_if_write (b : bool) k d : trace_of (if b then [EWrite k d] else []) = [].
Proof. destruct b; reflexivity. Qed.
Lemma discard_trace s : trace_of (snd (discard s)) = [].
Proof. unfold discard; destruct (active s); reflexivity. Qed.
Lemma trace_idem l : trace_of (trace_of l) = trace_of l.
Proof.
  unfold trace_of. induction l as [|e l IH]; cbn; [reflexivity|].
  destruct (is_trace e) eqn:E; cbn; rewrite ?E, IH; reflexivity.
Qed.

Ltac pairs :=
  repeat match goal with
         | |- context [let '(_, _) := ?x in _] => destruct x as [? ?] eqn:?
         | H : context [let '(_, _) := ?x in _] |- _ => destruct x as [? ?] eqn:?
         end.

(** ---- C04: recording is transparent ---- *)
Section Transparency.
  Variable P : prm.

  Definition agrees_plain (pb : outcome * list ev) (r : res) : Prop :=
    let '(o, _, l) := r in pb = (o, trace_of l).

  Ltac tr_norm :=
    unfold trace_of in *;
    repeat (progress cbn [filter is_trace app] || rewrite filter_app);
    rewrite <- ?app_assoc; cbn [app]; try reflexivity.
  Ltac split_discard s :=
    unfold discard; destruct (active s) eqn:?; cbn [active enabled force counter icpt set_icpt set_counter].

  Lemma rec_in_call_plain cf a kw body pb s :
    (forall s0, agrees_plain pb (body s0)) ->
    agrees_plain (plain_call (i_alias cf) a kw pb) (rec_in_call cf a kw body s).
  Proof.
    intros H. unfold rec_in_call, agrees_plain, plain_call in *.
    destruct pb as [po pl].
    destruct (should_intercept_rec s).
    - destruct (input_keys cf a kw) as [keys|].
      + specialize (H (set_icpt true s)). destruct (body (set_icpt true s)) as [[o s1] l1]. inversion H; subst.
        destruct o as [v|e|].
        * destruct (active (set_icpt false s1)) eqn:A1; [|tr_norm].
          destruct (i_prep_discards cf).
          -- unfold discard at 1. rewrite A1.
             destruct (prep_input _ _ _ _); [tr_norm|].
             unfold discard; cbn [active]. tr_norm.
          -- destruct (prep_input _ _ _ _); [rewrite A1; tr_norm|].
             unfold discard; rewrite A1. tr_norm.
        * destruct (active (set_icpt false s1)); tr_norm.
        * tr_norm.
      + unfold discard. destruct (active s).
        * specialize (H (set_icpt true (mk_rst false (enabled s) false [] (icpt s)))).
          destruct (body _) as [[o s1] l1]. inversion H; subst. tr_norm.
        * specialize (H (set_icpt true s)). destruct (body _) as [[o s1] l1]. inversion H; subst. tr_norm.
    - specialize (H s). destruct (body s) as [[o s1] l1]. inversion H; subst. tr_norm.
  Qed.

  Lemma rec_out_call_plain cf a kw body pb s :
    (forall s0, agrees_plain pb (body s0)) ->
    agrees_plain (plain_call (o_alias cf) a kw pb) (rec_out_call cf a kw body s).
  Proof.
    intros H. unfold rec_out_call, agrees_plain, plain_call in *.
    destruct pb as [po pl].
    destruct (should_intercept_rec s).
    - destruct (bump (o_alias cf) (counter s)) as [n cnt].
      destruct (out_datum cf a kw) as [d|].
      + specialize (H (set_icpt true (set_counter cnt s))).
        destruct (body (set_icpt true (set_counter cnt s))) as [[o s1] l1]. inversion H; subst.
        destruct o as [v|e|]; try destruct (active (set_icpt false s1)); tr_norm.
      + unfold discard. destruct (active (set_counter cnt s)).
        * specialize (H (mk_rst false (enabled (set_counter cnt s)) false [] (icpt (set_counter cnt s)))).
          destruct (body _) as [[o s2] l1]. inversion H; subst. tr_norm.
        * specialize (H (set_counter cnt s)). destruct (body _) as [[o s2] l1]. inversion H; subst. tr_norm.
    - specialize (H s). destruct (body s) as [[o s1] l1]. inversion H; subst. tr_norm.
  Qed.

  Lemma bind_val_plain pb r pk k :
    agrees_plain pb r -> (forall v s, agrees_plain (pk v) (k v s)) ->
    agrees_plain (pbind_val pb pk) (bind_val r k).
  Proof.
    unfold agrees_plain, pbind_val, bind_val. destruct r as [[o s] l]. intros ->.
    destruct o as [v|e|]; intros Hk; try reflexivity.
    specialize (Hk v s). destruct (k v s) as [[o2 s2] l2]. rewrite Hk, trace_app. reflexivity.
  Qed.

  Lemma bind_exn_plain pb r ph h :
    agrees_plain pb r -> (forall s, agrees_plain ph (h s)) ->
    agrees_plain (pbind_exn pb ph) (bind_exn r h).
  Proof.
    unfold agrees_plain, pbind_exn, bind_exn. destruct r as [[o s] l]. intros ->.
    destruct o as [v|e|]; intros Hk; try reflexivity.
    specialize (Hk s). destruct (h s) as [[o2 s2] l2]. rewrite Hk, trace_app. reflexivity.
  Qed.

  Lemma prepend_plain pb la r : trace_of la = [] -> agrees_plain pb r -> agrees_plain pb (prepend la r).
  Proof.
    unfold agrees_plain, prepend. destruct r as [[o s] l]. intros E ->. rewrite trace_app, E. reflexivity.
  Qed.

  (** every run of every program, from every recorder state, delivers the undecorated twin's
      outcome and executes the wrapped bodies exactly as the twin does *)
  Theorem rec_transparent : forall c env s, agrees_plain (plain_exec c env) (rec_exec P c env s).
  Proof.
    induction c as [e|ty| |cf body IHb args kwargs k IHk|cf body IHb args kwargs k IHk|c1 IH1 h IHh|c1 IHs1 k IHsk
                    |k IHk|k IHk|b k IHk|key e k IHk|key k IHk]; intros env s; cbn [rec_exec plain_exec].
    - reflexivity.
    - reflexivity.
    - reflexivity.
    - apply bind_val_plain; [apply rec_in_call_plain; intros; apply IHb|intros; apply IHk].
    - apply bind_val_plain; [apply rec_out_call_plain; intros; apply IHb|intros; apply IHk].
    - apply bind_exn_plain; [apply IH1|intros; apply IHh].
    - specialize (IHs1 env (set_icpt false s)). unfold agrees_plain in IHs1.
      destruct (rec_exec P c1 env (set_icpt false s)) as [[o1 s1] l1]. destruct (plain_exec c1 env) as [po1 pl1].
      inversion IHs1; subst. specialize (IHsk env (set_icpt (icpt s) s1)). unfold agrees_plain, prepend in *.
      destruct (rec_exec P k env _) as [[o2 s2] l2]. destruct (plain_exec k env) as [po2 pl2].
      inversion IHsk; subst. rewrite trace_app. reflexivity.
    - pose proof (discard_trace s) as D. destruct (discard s) as [s1 la]. apply prepend_plain; [exact D|apply IHk].
    - apply IHk.
    - apply IHk.
    - apply prepend_plain; [apply trace_if_write|apply IHk].
    - apply IHk.
  Qed.
End Transparency.

(** ---- the recorder fields across a recording run (C05, C09, C17) ---- *)
Lemma aborts_app l1 l2 : aborts_of (l1 ++ l2) = (aborts_of l1 + aborts_of l2)%nat.
Proof. unfold aborts_of. rewrite filter_app, app_length. reflexivity. Qed.
Lemma aborts_cons e l : aborts_of (e :: l) = ((if is_abort e then 1 else 0) + aborts_of l)%nat.
Proof. unfold aborts_of. cbn [filter]. destruct (is_abort e); reflexivity. Qed.
Lemma aborts_nil : aborts_of [] = 0%nat. Proof. reflexivity. Qed.
Lemma writes_app l1 l2 : writes_of (l1 ++ l2) = writes_of l1 ++ writes_of l2.
Proof. apply flat_map_app. Qed.
Lemma writes_cons e l : writes_of (e :: l) = write_of e ++ writes_of l.
Proof. reflexivity. Qed.
Lemma writes_nil : writes_of [] = []. Proof. reflexivity. Qed.
Lemma aborts_if_write (b : bool) k d : aborts_of (if b then [EWrite k d] else []) = 0%nat.
Proof. destruct b; reflexivity. Qed.
#[global] Hint Rewrite aborts_app aborts_cons aborts_nil writes_app writes_cons writes_nil aborts_if_write : logs.

Ltac lognorm := autorewrite with logs in *; cbn [is_abort write_of app plus] in *.

Record step_inv (s s' : rst) (l : list ev) : Prop := mk_step {
  si_icpt : icpt s' = icpt s;
  si_dead : active s = false ->
            active s' = false /\ force s' = force s /\ counter s' = counter s /\ writes_of l = [] /\ aborts_of l = 0%nat;
  si_live : active s = true ->
            (active s' = true /\ aborts_of l = 0%nat) \/
            (active s' = false /\ aborts_of l = 1%nat /\ force s' = false /\ counter s' = [])
}.
Definition step_res (s : rst) (r : res) : Prop := let '(_, s', l) := r in step_inv s s' l.

Lemma step_refl s : step_inv s s [].
Proof. constructor; intros; auto. Qed.

Lemma step_trans s s1 s2 l1 l2 : step_inv s s1 l1 -> step_inv s1 s2 l2 -> step_inv s s2 (l1 ++ l2).
Proof.
  intros [I1 D1 L1] [I2 D2 L2]. constructor.
  - congruence.
  - intros A. destruct (D1 A) as (A1 & F1 & C1 & W1 & B1). destruct (D2 A1) as (A2 & F2 & C2 & W2 & B2).
    lognorm. rewrite W1, W2, B1, B2. repeat split; congruence.
  - intros A. destruct (L1 A) as [(A1 & B1)|(A1 & B1 & F1 & C1)].
    + destruct (L2 A1) as [(A2 & B2)|(A2 & B2 & F2 & C2)]; lognorm; [left|right]; repeat split; auto; lia.
    + destruct (D2 A1) as (A2 & F2 & C2 & W2 & B2). right. lognorm. repeat split; try congruence; lia.
Qed.

Lemma should_intercept_true s : should_intercept_rec s = true -> icpt s = false /\ active s = true /\ enabled s = true.
Proof.
  unfold should_intercept_rec, in_rec. destruct (icpt s), (active s), (enabled s); cbn; intros; auto; discriminate.
Qed.

Lemma discard_step s : step_inv s (fst (discard s)) (snd (discard s)).
Proof.
  unfold discard. destruct (active s) eqn:A; cbn [fst snd].
  - constructor; cbn; intros; auto; try congruence.
  - apply step_refl.
Qed.

Lemma step_cons_tr e s s' l :
  is_abort e = false -> write_of e = [] -> step_inv s s' l -> step_inv s s' (e :: l).
Proof.
  intros Ha Hw [I D L]. constructor; auto.
  - intros A. destruct (D A) as (A1 & F1 & C1 & W1 & B1). lognorm. rewrite Ha, Hw, W1, B1. auto.
  - intros A. lognorm. rewrite Ha. cbn [plus]. auto.
Qed.

Lemma step_cons_write k d s s' l :
  active s = true -> step_inv s s' l -> step_inv s s' (EWrite k d :: l).
Proof.
  intros Ac [I D L]. constructor; auto. intros A; congruence.
Qed.

Lemma step_guarded_write k d s : step_inv s s (if active s then [EWrite k d] else []).
Proof.
  destruct (active s) eqn:A; [|apply step_refl]. apply step_cons_write; [exact A|apply step_refl].
Qed.

Lemma step_icpt_flip s s1 l :
  icpt s = false -> step_inv (set_icpt true s) s1 l -> step_inv s (set_icpt false s1) l.
Proof. intros Ic [I D L]. constructor; cbn in *; auto. Qed.

Lemma step_icpt_any b s s1 l :
  step_inv (set_icpt b s) s1 l -> step_inv s (set_icpt (icpt s) s1) l.
Proof. intros [I D L]. constructor; cbn in *; auto. Qed.

Ltac step_chain :=
  cbn [app];
  repeat first
    [ apply step_refl
    | apply step_cons_tr; [reflexivity|reflexivity|]
    | apply step_cons_write; [assumption|]
    | eapply step_trans; [eassumption|]
    | eapply step_trans; [apply step_guarded_write|]
    ].

Section Steps.
  Variable P : prm.

  Lemma rec_in_call_step cf a kw body s :
    (forall s0, step_res s0 (body s0)) -> step_res s (rec_in_call cf a kw body s).
  Proof.
    intros H. unfold rec_in_call, step_res in *.
    destruct (should_intercept_rec s) eqn:SI.
    - destruct (should_intercept_true _ SI) as (Ic & Ac & En).
      destruct (input_keys cf a kw) as [keys|].
      + pose proof (H (set_icpt true s)) as Hb. destruct (body (set_icpt true s)) as [[o s1] l1].
        apply step_icpt_flip in Hb; [|exact Ic].
        set (s2 := set_icpt false s1) in *.
        destruct o as [v|e|].
        * destruct (active s2) eqn:A2; [|step_chain].
          pose proof (discard_step s2) as Ds.
          destruct (i_prep_discards cf).
          -- destruct (discard s2) as [s3 lh]. cbn [fst snd] in Ds.
             destruct (prep_input _ _ _ _).
             ++ step_chain.
             ++ pose proof (discard_step s3) as Ds3. destruct (discard s3) as [s4 la]. cbn [fst snd] in Ds3. step_chain.
          -- destruct (prep_input _ _ _ _).
             ++ rewrite A2. step_chain.
             ++ destruct (discard s2) as [s4 la]. cbn [fst snd] in Ds. step_chain.
        * step_chain.
        * step_chain.
      + pose proof (discard_step s) as Ds. destruct (discard s) as [s0 la] eqn:Ed. cbn [fst snd] in Ds.
        assert (Ic0 : icpt s0 = false) by (destruct Ds as [I _ _]; congruence).
        pose proof (H (set_icpt true s0)) as Hb. destruct (body (set_icpt true s0)) as [[o s1] l1].
        apply step_icpt_flip in Hb; [|exact Ic0]. step_chain.
    - pose proof (H s) as Hb. destruct (body s) as [[o s1] l1]. step_chain.
  Qed.

  Lemma rec_out_call_step cf a kw body s :
    (forall s0, step_res s0 (body s0)) -> step_res s (rec_out_call cf a kw body s).
  Proof.
    intros H. unfold rec_out_call, step_res in *.
    destruct (should_intercept_rec s) eqn:SI.
    - destruct (should_intercept_true _ SI) as (Ic & Ac & En).
      destruct (bump (o_alias cf) (counter s)) as [n cnt].
      set (s0 := set_counter cnt s).
      assert (S0 : step_inv s s0 []).
      { constructor; cbn; intros; auto; congruence. }
      destruct (out_datum cf a kw) as [d|].
      + pose proof (H (set_icpt true s0)) as Hb. destruct (body (set_icpt true s0)) as [[o s1] l1].
        apply step_icpt_flip in Hb; [|exact Ic].
        assert (A0 : active s0 = true) by exact Ac.
        pose proof (step_trans _ _ _ _ _ S0 Hb) as Hb'. cbn [app] in Hb'.
        destruct o as [v|e|]; step_chain.
      + pose proof (discard_step s0) as Ds. destruct (discard s0) as [s1 la]. cbn [fst snd] in Ds.
        pose proof (step_trans _ _ _ _ _ S0 Ds) as Ds'. cbn [app] in Ds'.
        pose proof (H s1) as Hb. destruct (body s1) as [[o s2] l1]. step_chain.
    - pose proof (H s) as Hb. destruct (body s) as [[o s1] l1]. step_chain.
  Qed.

  Lemma bind_val_step s r k :
    step_res s r -> (forall v s', step_res s' (k v s')) -> step_res s (bind_val r k).
  Proof.
    unfold step_res, bind_val. destruct r as [[o s1] l1]. intros H1 Hk.
    destruct o as [v|e|]; auto. specialize (Hk v s1). destruct (k v s1) as [[o2 s2] l2].
    eapply step_trans; eauto.
  Qed.

  Lemma bind_exn_step s r h :
    step_res s r -> (forall s', step_res s' (h s')) -> step_res s (bind_exn r h).
  Proof.
    unfold step_res, bind_exn. destruct r as [[o s1] l1]. intros H1 Hk.
    destruct o as [v|e|]; auto. specialize (Hk s1). destruct (h s1) as [[o2 s2] l2].
    eapply step_trans; eauto.
  Qed.

  Theorem rec_exec_step : forall c env s, step_res s (rec_exec P c env s).
  Proof.
    induction c as [e|ty| |cf body IHb args kwargs k IHk|cf body IHb args kwargs k IHk|c1 IH1 h IHh|c1 IHs1 k IHsk
                    |k IHk|k IHk|b k IHk|key e k IHk|key k IHk]; intros env s; cbn [rec_exec].
    - apply step_refl.
    - apply step_refl.
    - apply step_refl.
    - apply bind_val_step; [apply rec_in_call_step; intros; apply IHb|intros; apply IHk].
    - apply bind_val_step; [apply rec_out_call_step; intros; apply IHb|intros; apply IHk].
    - apply bind_exn_step; [apply IH1|intros; apply IHh].
    - specialize (IHs1 env (set_icpt false s)). unfold step_res in IHs1.
      destruct (rec_exec P c1 env (set_icpt false s)) as [[o1 s1] l1]. apply step_icpt_any in IHs1.
      specialize (IHsk env (set_icpt (icpt s) s1)). unfold prepend, step_res in *.
      destruct (rec_exec P k env _) as [[o2 s2] l2]. eapply step_trans; eauto.
    - pose proof (discard_step s) as Ds. destruct (discard s) as [s1 la]. cbn [fst snd] in Ds.
      specialize (IHk env s1). unfold prepend, step_res in *. destruct (rec_exec P k env s1) as [[o s2] l].
      eapply step_trans; eauto.
    - specialize (IHk env (do_force (p_ignore P) s)). unfold step_res in *.
      destruct (rec_exec P k env (do_force (p_ignore P) s)) as [[o s2] l].
      assert (S0 : step_inv s (do_force (p_ignore P) s) []).
      { unfold do_force. destruct (active s) eqn:A; cbn [andb]; [|apply step_refl].
        destruct (negb (p_ignore P)); [|apply step_refl].
        constructor; cbn; intros; auto; congruence. }
      apply (step_trans _ _ _ _ _ S0 IHk).
    - specialize (IHk env (set_enabled b s)). unfold step_res in *.
      destruct (rec_exec P k env (set_enabled b s)) as [[o s2] l].
      assert (S0 : step_inv s (set_enabled b s) []).
      { constructor; cbn; intros; auto. }
      apply (step_trans _ _ _ _ _ S0 IHk).
    - specialize (IHk env s). unfold prepend, step_res in *. destruct (rec_exec P k env s) as [[o s2] l].
      unfold in_rec. destruct (enabled s); cbn [andb]; [|exact IHk].
      eapply step_trans; [apply step_guarded_write|exact IHk].
    - apply IHk.
  Qed.
End Steps.

(** ---- the operation level ---- *)
Definition idle (s : rst) : Prop := active s = false /\ force s = false /\ counter s = [] /\ icpt s = false.

Definition is_final (ord : nat) (c : cev) : Prop :=
  (exists d m, c = CSave ord d m) \/ c = CSaveFailed ord \/ c = CAbort ord.

Lemma aborts_map_length (ord : nat) l : length (map (fun _ : ev => CAbort ord) (filter is_abort l)) = aborts_of l.
Proof. unfold aborts_of. apply map_length. Qed.

Lemma filter_abort_nil l : aborts_of l = 0%nat -> filter is_abort l = [].
Proof. unfold aborts_of. destruct (filter is_abort l); cbn; [reflexivity|discriminate]. Qed.
Lemma filter_abort_one l : aborts_of l = 1%nat -> exists e, filter is_abort l = [e].
Proof. unfold aborts_of. destruct (filter is_abort l) as [|e [|e' t]]; cbn; try discriminate. eauto. Qed.

Section Operation.
  Variable draws : nat -> Q.

  (** the keep policy as documented (C17): skipped classes start nothing; a discard always wins;
      then forcing (already filtered by ignore_enforced_sampling when it was requested); then the rate *)
  Inductive decision := DNoRecording | DAbort | DSave.
  Definition keep_spec (P : prm) (discarded forced : bool) (draw : Q) : decision :=
    if p_skipped P then DNoRecording
    else if discarded then DAbort
    else if forced then DSave
    else if Qle_bool 1 (p_rate P) then DSave
    else if Qle_bool draw (p_rate P) then DSave else DAbort.

  Definition decision_of (ord : nat) (cs : list cev) : decision :=
    match cs with
    | [] => DNoRecording
    | [CCreate _; CSave _ _ _] | [CCreate _; CSaveFailed _] => DSave
    | _ => DAbort
    end.

  (** everything the later theorems need to know about one recording run, in one statement *)
  Lemma record_run_spec en P op sf s w :
    active s = false ->
    let '(ob, w') := record_run draws en P op sf s w in
    let '(o, s1, l0) := rec_exec P (op_body op) [] (if negb en || p_skipped P then set_enabled en s
                                                    else mk_rst true en (force s) (counter s) (icpt s)) in
    ob_outcome ob = o /\ ob_trace ob = trace_of l0 /\
    if negb en || p_skipped P then
      ob_cass ob = [] /\ w' = w /\ ob_state ob = s1
    else
      let ord := w_next w in
      w_next w' = S ord /\
      (forall st, In st (w_saved w) -> In st (w_saved w')) /\
      if active s1 then
        aborts_of l0 = 0%nat /\ ob_state ob = idle_of s1 /\
        let '(keep, used) := should_sample draws (w_dpos w) P (force s1) in
        w_dpos w' = (w_dpos w + used)%nat /\
        if keep then
          let l := l0 ++ match o with OVal v => [EWrite OPKEY (DOut [v] [])] | OExn (EUser ty) => [EWrite OPKEY (DOpExn ty)] | _ => [] end in
          let snap := snapshot_of l in
          let st := (snap, metadata_of op o snap) in
          if sf || negb (stored_encodable st) then ob_cass ob = [CCreate (op_class op); CSaveFailed ord] /\ w_saved w' = w_saved w
          else ob_cass ob = [CCreate (op_class op); CSave ord snap (metadata_of op o snap)] /\ w_saved w' = (ord, st) :: w_saved w
        else ob_cass ob = [CCreate (op_class op); CAbort ord] /\ w_saved w' = w_saved w
      else
        aborts_of l0 = 1%nat /\ ob_state ob = s1 /\ force s1 = false /\ counter s1 = [] /\
        ob_cass ob = [CCreate (op_class op); CAbort ord] /\ w_saved w' = w_saved w /\ w_dpos w' = w_dpos w.
  Proof.
    intros A. unfold record_run. cbn [enabled active force counter icpt set_enabled].
    destruct (negb en || p_skipped P) eqn:E.
    - destruct (rec_exec P (op_body op) [] (set_enabled en s)) as [[o s1] l]. cbn. auto.
    - rewrite A.
      pose proof (rec_exec_step P (op_body op) [] (mk_rst true en (force s) (counter s) (icpt s))) as St.
      destruct (rec_exec P (op_body op) [] (mk_rst true en (force s) (counter s) (icpt s))) as [[o s1] l0].
      cbn [step_res] in St. destruct St as [I D L]. cbn [active] in L. specialize (L eq_refl).
      destruct (active s1) eqn:A1.
      + destruct L as [(_ & B)|(A1' & _)]; [|discriminate].
        repeat match goal with |- context [if true then ?x else ?y] => change (if true then x else y) with x end.
        set (lop := match o with OVal v => [EWrite OPKEY (DOut [v] [])] | OExn (EUser ty) => [EWrite OPKEY (DOpExn ty)] | _ => [] end).
        assert (Bl : filter is_abort (l0 ++ lop) = []).
        { apply filter_abort_nil. rewrite aborts_app, B. subst lop. destruct o as [v|[]|]; reflexivity. }
        rewrite Bl. cbn [map app].
        destruct (should_sample draws (w_dpos w) P (force s1)) as [keep used].
        destruct keep.
        * destruct (sf || negb (stored_encodable _)); cbn; rewrite trace_app;
            (replace (trace_of lop) with (@nil ev) by (subst lop; destruct o as [v|[]|]; reflexivity));
            rewrite app_nil_r; repeat split; auto; intros; cbn; auto.
        * cbn. rewrite trace_app. (replace (trace_of lop) with (@nil ev) by (subst lop; destruct o as [v|[]|]; reflexivity)).
          rewrite app_nil_r. repeat split; auto.
      + destruct L as [(A1' & _)|(_ & B & F & C)]; [discriminate|].
        repeat match goal with |- context [if false then ?x else ?y] => change (if false then x else y) with y end.
        rewrite app_nil_r. destruct (filter_abort_one _ B) as [e Ee]. rewrite Ee. cbn.
        repeat split; auto.
  Qed.
End Operation.

(** ---- corollaries at the operation level ---- *)
Section Corollaries.
  Variable draws : nat -> Q.

  Lemma idle_set_enabled en s : idle s -> set_enabled en s = mk_rst false en false [] false.
  Proof. destruct s; unfold idle, set_enabled; cbn. intros (-> & -> & -> & ->). reflexivity. Qed.

  (** C04 at the operation level: the caller of the decorated operation sees the undecorated twin's outcome,
      and every wrapped body runs exactly as in the twin, whatever the recorder does on the side *)
  Theorem record_run_transparent en P op sf s w :
    active s = false ->
    let ob := fst (record_run draws en P op sf s w) in
    (ob_outcome ob, ob_trace ob) = plain_exec (op_body op) [].
  Proof.
    intros A. pose proof (record_run_spec draws en P op sf s w A) as H.
    destruct (record_run draws en P op sf s w) as [ob w']. cbn [fst].
    set (s0 := if negb en || p_skipped P then set_enabled en s else mk_rst true en (force s) (counter s) (icpt s)) in *.
    pose proof (rec_transparent P (op_body op) [] s0) as T. unfold agrees_plain in T.
    destruct (rec_exec P (op_body op) [] s0) as [[o s1] l0].
    destruct H as (-> & -> & _). symmetry. exact T.
  Qed.

  Theorem record_run_disabled en P op sf s w :
    active s = false -> negb en || p_skipped P = true ->
    let '(ob, w') := record_run draws en P op sf s w in ob_cass ob = [] /\ w' = w.
  Proof.
    intros A E. pose proof (record_run_spec draws en P op sf s w A) as H.
    destruct (record_run draws en P op sf s w) as [ob w']. rewrite E in H.
    destruct (rec_exec P (op_body op) [] (set_enabled en s)) as [[o s1] l0].
    destruct H as (_ & _ & C & W & _). auto.
  Qed.

  (** C05: a started recording is finalised exactly once *)
  Theorem record_run_finalised en P op sf s w :
    active s = false ->
    let '(ob, w') := record_run draws en P op sf s w in
    (ob_cass ob = [] /\ w_next w' = w_next w) \/
    (exists fin, ob_cass ob = [CCreate (op_class op); fin] /\ is_final (w_next w) fin /\ w_next w' = S (w_next w)).
  Proof.
    intros A. pose proof (record_run_spec draws en P op sf s w A) as H.
    destruct (record_run draws en P op sf s w) as [ob w'].
    destruct (negb en || p_skipped P).
    - destruct (rec_exec P (op_body op) [] (set_enabled en s)) as [[o s1] l0].
      destruct H as (_ & _ & C & -> & _). left; auto.
    - destruct (rec_exec P (op_body op) [] _) as [[o s1] l0].
      destruct H as (_ & _ & N & _ & H). right.
      destruct (active s1).
      + destruct H as (_ & _ & H). destruct (should_sample draws (w_dpos w) P (force s1)) as [keep used].
        destruct H as (_ & H). destruct keep.
        * cbv zeta in H. destruct (sf || negb _); destruct H as (-> & _); eexists; (split; [reflexivity|]);
            (split; [|exact N]); unfold is_final; eauto.
        * destruct H as (-> & _). eexists; (split; [reflexivity|]); (split; [|exact N]). unfold is_final; auto.
      + destruct H as (_ & _ & _ & _ & -> & _). eexists; (split; [reflexivity|]); (split; [|exact N]). unfold is_final; auto.
  Qed.

  (** C05: saved only if nothing was discarded (every capture failure discards: rec_in_call / rec_out_call
      emit EAbort for a key failure, a handler failure and an explicit discard alike), the sampling
      decision was "keep", and what is saved is the snapshot of every write of the run *)
  Theorem record_run_saved_only_if_captured en P op sf s w ord d m :
    active s = false ->
    let '(ob, _) := record_run draws en P op sf s w in
    List.In (CSave ord d m) (ob_cass ob) ->
    let '(o, s1, l0) := rec_exec P (op_body op) [] (mk_rst true en (force s) (counter s) (icpt s)) in
    negb en || p_skipped P = false /\ aborts_of l0 = 0%nat /\ active s1 = true /\
    fst (should_sample draws (w_dpos w) P (force s1)) = true /\ ord = w_next w /\ sf = false /\
    exists lop, d = snapshot_of (l0 ++ lop) /\ m = metadata_of op o d /\
                lop = match o with OVal v => [EWrite OPKEY (DOut [v] [])] | OExn (EUser ty) => [EWrite OPKEY (DOpExn ty)] | _ => [] end.
  Proof.
    intros A. pose proof (record_run_spec draws en P op sf s w A) as H.
    destruct (record_run draws en P op sf s w) as [ob w']. intros I.
    destruct (negb en || p_skipped P).
    - destruct (rec_exec P (op_body op) [] (set_enabled en s)) as [[o s1] l0].
      destruct H as (_ & _ & C & _). rewrite C in I. destruct I.
    - destruct (rec_exec P (op_body op) [] _) as [[o s1] l0].
      destruct H as (_ & _ & N & _ & H).
      destruct (active s1).
      + destruct H as (B & _ & H). destruct (should_sample draws (w_dpos w) P (force s1)) as [keep used].
        destruct H as (_ & H). destruct keep.
        * cbv zeta in H. destruct sf; cbn [orb] in H.
          -- destruct H as (C & _). rewrite C in I. cbn in I. destruct I as [I|[I|[]]]; discriminate.
          -- destruct (negb _).
             ++ destruct H as (C & _). rewrite C in I. cbn in I. destruct I as [I|[I|[]]]; discriminate.
             ++ destruct H as (C & _). rewrite C in I. cbn in I. destruct I as [I|[I|[]]]; try discriminate.
                inversion I; subst. repeat split; auto. eexists; repeat split.
        * destruct H as (C & _). rewrite C in I. cbn in I. destruct I as [I|[I|[]]]; discriminate.
      + destruct H as (_ & _ & _ & _ & C & _). rewrite C in I. cbn in I. destruct I as [I|[I|[]]]; discriminate.
  Qed.

  (** C09: idle in, idle out *)
  Theorem record_run_idle en P op sf s w : idle s -> idle (ob_state (fst (record_run draws en P op sf s w))).
  Proof.
    intros Id. pose proof Id as (A & F & C & I).
    pose proof (record_run_spec draws en P op sf s w A) as H.
    destruct (record_run draws en P op sf s w) as [ob w']. cbn [fst].
    destruct (negb en || p_skipped P).
    - pose proof (rec_exec_step P (op_body op) [] (set_enabled en s)) as St.
      destruct (rec_exec P (op_body op) [] (set_enabled en s)) as [[o s1] l0]. cbn [step_res] in St.
      destruct H as (_ & _ & _ & _ & ->). destruct St as [I1 D1 _]. cbn in D1, I1. destruct (D1 A) as (A1 & F1 & C1 & _).
      unfold idle. repeat split; congruence.
    - pose proof (rec_exec_step P (op_body op) [] (mk_rst true en (force s) (counter s) (icpt s))) as St.
      destruct (rec_exec P (op_body op) [] _) as [[o s1] l0]. cbn [step_res] in St. destruct St as [I1 _ _]. cbn in I1.
      destruct H as (_ & _ & _ & _ & H). destruct (active s1) eqn:A1.
      + destruct H as (_ & -> & _). unfold idle, idle_of; cbn. repeat split; congruence.
      + destruct H as (_ & -> & F1 & C1 & _). unfold idle. repeat split; congruence.
  Qed.

  Theorem play_run_idle en t pf s w : idle s -> idle (ob_state (fst (play_run en t pf s w))).
  Proof.
    intros (A & F & C & I). unfold play_run.
    destruct (find_saved t (w_saved w)) as [st0|]; cbn [fst ob_state].
    - destruct pf as [op|ty]; cbn [fst ob_state].
      + destruct (play_exec _ _ _ _) as [[o ps] l].
        destruct o as [v|[]|]; cbn; unfold idle; cbn; auto.
      + unfold idle; cbn; auto.
    - unfold idle; cbn; auto.
  Qed.

  Theorem do_run_idle r s w : idle s -> idle (ob_state (fst (do_run draws r s w))).
  Proof. destruct r; cbn [do_run]; [apply record_run_idle|apply play_run_idle]. Qed.

  Theorem run_history_idle rs : forall s w, idle s -> Forall (fun ob => idle (ob_state ob)) (run_history draws rs s w).
  Proof.
    induction rs as [|r rs IH]; intros s w Id; cbn [run_history]; [constructor|].
    pose proof (do_run_idle r s w Id) as H. destruct (do_run draws r s w) as [ob w']. cbn [fst] in H.
    constructor; [exact H|apply IH; exact H].
  Qed.

  (** C09: what a run produces does not depend on which idle state it starts from, i.e. not on history *)
  Theorem do_run_history_independent r s1 s2 w : idle s1 -> idle s2 -> do_run draws r s1 w = do_run draws r s2 w.
  Proof.
    intros I1 I2. destruct r as [en P op sf|en t pf]; cbn [do_run].
    - unfold record_run. rewrite (idle_set_enabled en s1 I1), (idle_set_enabled en s2 I2). reflexivity.
    - unfold play_run. rewrite (idle_set_enabled en s1 I1), (idle_set_enabled en s2 I2). reflexivity.
  Qed.

  (** the n-th run of any history equals the same run on a fresh recorder over the same cassette contents
      and draw position *)
  Theorem run_history_fresh rs : forall s w, idle s -> run_history draws rs s w = run_history draws rs fresh_rst w.
  Proof.
    destruct rs as [|r rs]; intros s w Id; [reflexivity|]. cbn [run_history].
    rewrite (do_run_history_independent r s fresh_rst w Id); [reflexivity|]. unfold idle, fresh_rst; cbn; auto.
  Qed.
End Corollaries.

(** ---- state predicates preserved by every piece of code ---- *)
Section Preserve.
  Variable P : prm.
  Variable Q : rst -> Prop.
  Hypothesis Q_icpt : forall b s, Q s -> Q (set_icpt b s).
  Hypothesis Q_counter : forall c s, Q s -> Q (set_counter c s).
  Hypothesis Q_enabled : forall b s, Q s -> Q (set_enabled b s).
  Hypothesis Q_discard : forall s, Q s -> Q (fst (discard s)).
  Hypothesis Q_force : forall s, Q s -> Q (do_force (p_ignore P) s).

  Definition keeps (f : rst -> res) : Prop := forall s, Q s -> Q (snd (fst (f s))).

  Lemma rec_in_call_keeps cf a kw body : keeps body -> keeps (rec_in_call cf a kw body).
  Proof.
    intros H s Qs. unfold rec_in_call.
    destruct (should_intercept_rec s).
    - destruct (input_keys cf a kw) as [keys|].
      + pose proof (H (set_icpt true s) (Q_icpt _ _ Qs)) as Hb. destruct (body (set_icpt true s)) as [[o s1] l1].
        cbn [fst snd] in Hb. pose proof (Q_icpt false _ Hb) as H2.
        destruct o as [v|e|]; cbn [fst snd]; auto.
        destruct (active (set_icpt false s1)); cbn [fst snd]; auto.
        destruct (i_prep_discards cf).
        * pose proof (Q_discard _ H2) as H3. destruct (discard (set_icpt false s1)) as [s3 lh]. cbn [fst] in H3.
          destruct (prep_input _ _ _ _); cbn [fst snd]; auto.
          pose proof (Q_discard _ H3) as H4. destruct (discard s3) as [s4 la]. exact H4.
        * destruct (prep_input _ _ _ _); cbn [fst snd]; auto.
          pose proof (Q_discard _ H2) as H4. destruct (discard (set_icpt false s1)) as [s4 la]. exact H4.
      + pose proof (Q_discard _ Qs) as H0. destruct (discard s) as [s0 la]. cbn [fst] in H0.
        pose proof (H (set_icpt true s0) (Q_icpt _ _ H0)) as Hb. destruct (body (set_icpt true s0)) as [[o s1] l1].
        cbn [fst snd] in *. auto.
    - pose proof (H s Qs) as Hb. destruct (body s) as [[o s1] l1]. exact Hb.
  Qed.

  Lemma rec_out_call_keeps cf a kw body : keeps body -> keeps (rec_out_call cf a kw body).
  Proof.
    intros H s Qs. unfold rec_out_call.
    destruct (should_intercept_rec s).
    - destruct (bump (o_alias cf) (counter s)) as [n cnt].
      pose proof (Q_counter cnt _ Qs) as Q0.
      destruct (out_datum cf a kw) as [d|].
      + pose proof (H _ (Q_icpt true _ Q0)) as Hb. destruct (body (set_icpt true (set_counter cnt s))) as [[o s1] l1].
        cbn [fst snd] in Hb. destruct o as [v|e|]; cbn [fst snd]; auto.
      + pose proof (Q_discard _ Q0) as H1. destruct (discard (set_counter cnt s)) as [s1 la]. cbn [fst] in H1.
        pose proof (H s1 H1) as Hb. destruct (body s1) as [[o s2] l1]. exact Hb.
    - pose proof (H s Qs) as Hb. destruct (body s) as [[o s1] l1]. exact Hb.
  Qed.

  Theorem rec_exec_keeps : forall c env, keeps (rec_exec P c env).
  Proof.
    induction c as [e|ty| |cf body IHb args kwargs k IHk|cf body IHb args kwargs k IHk|c1 IH1 h IHh|c1 IHs1 k IHsk
                    |k IHk|k IHk|b k IHk|key e k IHk|key k IHk]; intros env s Qs; cbn [rec_exec]; try exact Qs.
    - pose proof (rec_in_call_keeps cf (map (eval env) args) (eval_kw env kwargs) _
                    (IHb (body_env (map (eval env) args) (eval_kw env kwargs))) s Qs) as H.
      unfold bind_val. destruct (rec_in_call _ _ _ _ s) as [[o s1] l1]. cbn [fst snd] in H.
      destruct o as [v|e|]; auto. pose proof (IHk (env ++ [v]) s1 H) as H2.
      destruct (rec_exec P k (env ++ [v]) s1) as [[o2 s2] l2]. exact H2.
    - pose proof (rec_out_call_keeps cf (map (eval env) args) (eval_kw env kwargs) _
                    (IHb (body_env (map (eval env) args) (eval_kw env kwargs))) s Qs) as H.
      unfold bind_val. destruct (rec_out_call _ _ _ _ s) as [[o s1] l1]. cbn [fst snd] in H.
      destruct o as [v|e|]; auto. pose proof (IHk (env ++ [v]) s1 H) as H2.
      destruct (rec_exec P k (env ++ [v]) s1) as [[o2 s2] l2]. exact H2.
    - pose proof (IH1 env s Qs) as H. unfold bind_exn. destruct (rec_exec P c1 env s) as [[o s1] l1]. cbn [fst snd] in H.
      destruct o as [v|e|]; auto. pose proof (IHh env s1 H) as H2. destruct (rec_exec P h env s1) as [[o2 s2] l2]. exact H2.
    - pose proof (IHs1 env _ (Q_icpt false _ Qs)) as H. destruct (rec_exec P c1 env (set_icpt false s)) as [[o1 s1] l1].
      cbn [fst snd] in H. pose proof (IHsk env _ (Q_icpt (icpt s) _ H)) as H2. unfold prepend.
      destruct (rec_exec P k env _) as [[o2 s2] l2]. exact H2.
    - pose proof (Q_discard _ Qs) as H. destruct (discard s) as [s1 la]. cbn [fst] in H.
      pose proof (IHk env s1 H) as H2. unfold prepend. destruct (rec_exec P k env s1) as [[o s2] l]. exact H2.
    - apply IHk. apply Q_force. exact Qs.
    - apply IHk. apply Q_enabled. exact Qs.
    - pose proof (IHk env s Qs) as H2. unfold prepend. destruct (rec_exec P k env s) as [[o s2] l]. exact H2.
    - apply IHk. exact Qs.
  Qed.
End Preserve.

(** a class that ignores enforced sampling never gets the force flag set (C17) *)
Theorem rec_exec_ignores_forcing P c env s :
  p_ignore P = true -> force s = false -> force (snd (fst (rec_exec P c env s))) = false.
Proof.
  intros Ig F. apply (rec_exec_keeps P (fun s => force s = false)); auto.
  - intros s0 F0. unfold discard. destruct (active s0); cbn; auto.
  - intros s0 F0. unfold do_force. rewrite Ig. rewrite andb_false_r. exact F0.
Qed.

Section KeepPolicy.
  Variable draws : nat -> Q.

  Definition draws_spec (P : prm) (discarded forced : bool) : nat :=
    if p_skipped P || discarded || forced || Qle_bool 1 (p_rate P) then 0%nat else 1%nat.

  (** C17: the finalisation of a run is the documented function of (skipped, discarded, forced, rate, next draw)
      and consumes a draw exactly when the draw decides; the program's content and outcome do not occur. *)
  Theorem record_run_keep_policy P op sf s w :
    active s = false ->
    let '(ob, w') := record_run draws true P op sf s w in
    let '(_, s1, l0) := rec_exec P (op_body op) [] (if p_skipped P then set_enabled true s
                                                    else mk_rst true true (force s) (counter s) (icpt s)) in
    let discarded := negb (Nat.eqb (aborts_of l0) 0) in
    (p_skipped P = false -> discarded = negb (active s1)) /\
    decision_of (w_next w) (ob_cass ob) = keep_spec P discarded (force s1) (draws (w_dpos w)) /\
    w_dpos w' = (w_dpos w + draws_spec P discarded (force s1))%nat.
  Proof.
    intros A. pose proof (record_run_spec draws true P op sf s w A) as H.
    destruct (record_run draws true P op sf s w) as [ob w']. cbn [negb orb] in H.
    unfold keep_spec, draws_spec.
    destruct (p_skipped P) eqn:Sk.
    - destruct (rec_exec P (op_body op) [] (set_enabled true s)) as [[o s1] l0].
      destruct H as (_ & _ & -> & -> & _). cbn. repeat split; auto. discriminate.
    - destruct (rec_exec P (op_body op) [] _) as [[o s1] l0].
      destruct H as (_ & _ & _ & _ & H). destruct (active s1) eqn:A1.
      + destruct H as (B & _ & H). rewrite B. cbn [Nat.eqb negb orb].
        unfold should_sample in H. destruct (force s1).
        * destruct H as (-> & H). cbv zeta in H. destruct (sf || negb _); destruct H as (-> & _); cbn; auto.
        * destruct (Qle_bool 1 (p_rate P)).
          -- destruct H as (-> & H). cbv zeta in H. destruct (sf || negb _); destruct H as (-> & _); cbn; auto.
          -- destruct H as (-> & H). destruct (Qle_bool (draws (w_dpos w)) (p_rate P)).
             ++ cbv zeta in H. destruct (sf || negb _); destruct H as (-> & _); cbn; auto.
             ++ destruct H as (-> & _). cbn. auto.
      + destruct H as (B & _ & F & _ & -> & _ & ->). rewrite B. cbn. repeat split; auto.
  Qed.
End KeepPolicy.

(** C17: over N equally spaced draws 0/N .. (N-1)/N, exactly floor(rate*N)+1 fall within a rate 0 <= rate < 1 *)
Lemma count_le_seq M : forall N, length (filter (fun k => Nat.leb k M) (seq 0 N)) = Nat.min N (S M).
Proof.
  induction N as [|N IH]; [reflexivity|].
  rewrite seq_S, filter_app, app_length, IH. cbn [filter plus].
  destruct (Nat.leb N M) eqn:E; cbn [length].
  - apply Nat.leb_le in E. lia.
  - apply Nat.leb_gt in E. lia.
Qed.

Theorem kept_fraction (p q N : positive) :
  (Zpos p < Zpos q)%Z ->
  length (filter (fun k => Qle_bool (Z.of_nat k # N) (Zpos p # q)) (seq 0 (Pos.to_nat N))) =
  S (Z.to_nat ((Zpos p * Zpos N) / Zpos q)).
Proof.
  intros Hpq.
  set (M := Z.to_nat ((Zpos p * Zpos N) / Zpos q)).
  rewrite (filter_ext _ (fun k => Nat.leb k M)).
  - rewrite count_le_seq.
    assert (Z.of_nat M < Zpos N)%Z.
    { subst M. rewrite Z2Nat.id by (apply Z.div_pos; lia).
      apply Z.div_lt_upper_bound; nia. }
    lia.
  - intros k. unfold Qle_bool. cbn [Qnum Qden]. subst M.
    destruct (Z.leb_spec (Z.of_nat k * Zpos q) (Zpos p * Zpos N)) as [L|L]; symmetry.
    + apply Nat.leb_le. apply Nat2Z.inj_le. rewrite Z2Nat.id by (apply Z.div_pos; lia).
      apply Z.div_le_lower_bound; lia.
    + apply Nat.leb_gt. apply Nat2Z.inj_lt. rewrite Z2Nat.id by (apply Z.div_pos; lia).
      apply Z.div_lt_upper_bound; lia.
Qed.

(** ---- which keys a run writes (C18, C03) ---- *)
Section WriteKeys.
  Variable P : prm.
  Variable Q : str -> Prop.

  Definition wkeys (l : list ev) : Prop := Forall (fun kd => Q (fst kd)) (writes_of l).
  Lemma wkeys_app l1 l2 : wkeys l1 -> wkeys l2 -> wkeys (l1 ++ l2).
  Proof. unfold wkeys. rewrite writes_app. intros. apply Forall_app; split; auto. Qed.
  Lemma wkeys_nil : wkeys []. Proof. constructor. Qed.
  Lemma wkeys_cons_tr e l : write_of e = [] -> wkeys l -> wkeys (e :: l).
  Proof. unfold wkeys. rewrite writes_cons. intros ->. auto. Qed.
  Lemma wkeys_cons_write k d l : Q k -> wkeys l -> wkeys (EWrite k d :: l).
  Proof. unfold wkeys. rewrite writes_cons. cbn. constructor; auto. Qed.
  Lemma wkeys_if_write (b : bool) k d : Q k -> wkeys (if b then [EWrite k d] else []).
  Proof. destruct b; intros; [apply wkeys_cons_write; auto|]; apply wkeys_nil. Qed.
  Lemma wkeys_discard s : wkeys (snd (discard s)).
  Proof. unfold discard. destruct (active s); cbn; [apply wkeys_cons_tr; [reflexivity|]|]; apply wkeys_nil. Qed.

  (** the sites of a program write only keys satisfying Q *)
  Fixpoint sites_ok (c : code) : Prop :=
    match c with
    | Ret _ | Raise _ | Interrupt => True
    | Inp cf body _ _ k => sites_ok body /\ sites_ok k
    | Out cf body _ _ k => (forall n, Q (okey_output (o_alias cf) n) /\ Q (okey_result (o_alias cf) n)) /\ sites_ok body /\ sites_ok k
    | Try c1 h | Spawn c1 h => sites_ok c1 /\ sites_ok h
    | Discard k | Force k | Enable _ k | PlayData _ k => sites_ok k
    | RecordData key _ k => Q key /\ sites_ok k
    end.

  Hypothesis Q_input : forall cf a kw keys, input_keys cf a kw = Some keys -> Q (hd [] keys).

  Definition wres (r : res) : Prop := let '(_, _, l) := r in wkeys l.

  Ltac wk :=
    cbn [app];
    repeat first
      [ apply wkeys_nil
      | assumption
      | apply wkeys_cons_tr; [reflexivity|]
      | apply wkeys_cons_write; [solve [eauto]|]
      | apply wkeys_app
      | apply wkeys_if_write; solve [eauto]
      ].

  Lemma rec_in_call_wkeys cf a kw body s :
    (forall s0, wres (body s0)) -> wres (rec_in_call cf a kw body s).
  Proof.
    intros H. unfold rec_in_call, wres in *.
    destruct (should_intercept_rec s).
    - destruct (input_keys cf a kw) as [keys|] eqn:Ek.
      + pose proof (Q_input _ _ _ _ Ek) as Qk.
        pose proof (H (set_icpt true s)) as Hb. destruct (body (set_icpt true s)) as [[o s1] l1].
        destruct o as [v|e|].
        * destruct (active (set_icpt false s1)); [|wk].
          pose proof (wkeys_discard (set_icpt false s1)) as D1.
          destruct (i_prep_discards cf).
          -- destruct (discard (set_icpt false s1)) as [s3 lh]. cbn [snd] in D1.
             destruct (prep_input _ _ _ _).
             ++ wk.
             ++ pose proof (wkeys_discard s3) as D3. destruct (discard s3) as [s4 la]. cbn [snd] in D3. wk.
          -- destruct (prep_input _ _ _ _).
             ++ wk.
             ++ destruct (discard (set_icpt false s1)) as [s4 la]. cbn [snd] in D1. wk.
        * wk.
        * wk.
      + pose proof (wkeys_discard s) as D0. destruct (discard s) as [s0 la]. cbn [snd] in D0.
        pose proof (H (set_icpt true s0)) as Hb. destruct (body (set_icpt true s0)) as [[o s1] l1]. wk.
    - pose proof (H s) as Hb. destruct (body s) as [[o s1] l1]. wk.
  Qed.

  Lemma rec_out_call_wkeys cf a kw body s :
    (forall n, Q (okey_output (o_alias cf) n) /\ Q (okey_result (o_alias cf) n)) ->
    (forall s0, wres (body s0)) -> wres (rec_out_call cf a kw body s).
  Proof.
    intros HQ H. unfold rec_out_call, wres in *.
    destruct (should_intercept_rec s).
    - destruct (bump (o_alias cf) (counter s)) as [n cnt]. destruct (HQ n) as [Qo Qr].
      destruct (out_datum cf a kw) as [d|].
      + pose proof (H (set_icpt true (set_counter cnt s))) as Hb.
        destruct (body (set_icpt true (set_counter cnt s))) as [[o s1] l1].
        destruct o as [v|e|]; wk.
      + pose proof (wkeys_discard (set_counter cnt s)) as D0. destruct (discard (set_counter cnt s)) as [s1 la].
        cbn [snd] in D0. pose proof (H s1) as Hb. destruct (body s1) as [[o s2] l1]. wk.
    - pose proof (H s) as Hb. destruct (body s) as [[o s1] l1]. wk.
  Qed.

  Theorem rec_exec_wkeys : forall c env s, sites_ok c -> wres (rec_exec P c env s).
  Proof.
    induction c as [e|ty| |cf body IHb args kwargs k IHk|cf body IHb args kwargs k IHk|c1 IH1 h IHh|c1 IHs1 k IHsk
                    |k IHk|k IHk|b k IHk|key e k IHk|key k IHk]; intros env s Ok; cbn [rec_exec sites_ok] in *.
    - apply wkeys_nil.
    - apply wkeys_nil.
    - apply wkeys_nil.
    - destruct Ok as [Ob Okk].
      pose proof (rec_in_call_wkeys cf (map (eval env) args) (eval_kw env kwargs)
                    (rec_exec P body (body_env (map (eval env) args) (eval_kw env kwargs))) s
                    (fun s0 => IHb _ s0 Ob)) as H.
      unfold bind_val, wres in *. destruct (rec_in_call _ _ _ _ s) as [[o s1] l1].
      destruct o as [v|e|]; auto. pose proof (IHk (env ++ [v]) s1 Okk) as H2.
      destruct (rec_exec P k (env ++ [v]) s1) as [[o2 s2] l2]. apply wkeys_app; auto.
    - destruct Ok as (HQ & Ob & Okk).
      pose proof (rec_out_call_wkeys cf (map (eval env) args) (eval_kw env kwargs)
                    (rec_exec P body (body_env (map (eval env) args) (eval_kw env kwargs))) s HQ
                    (fun s0 => IHb _ s0 Ob)) as H.
      unfold bind_val, wres in *. destruct (rec_out_call _ _ _ _ s) as [[o s1] l1].
      destruct o as [v|e|]; auto. pose proof (IHk (env ++ [v]) s1 Okk) as H2.
      destruct (rec_exec P k (env ++ [v]) s1) as [[o2 s2] l2]. apply wkeys_app; auto.
    - destruct Ok as [O1 Oh]. pose proof (IH1 env s O1) as H. unfold bind_exn, wres in *.
      destruct (rec_exec P c1 env s) as [[o s1] l1]. destruct o as [v|e|]; auto.
      pose proof (IHh env s1 Oh) as H2. destruct (rec_exec P h env s1) as [[o2 s2] l2]. apply wkeys_app; auto.
    - destruct Ok as [O1 Ok2]. pose proof (IHs1 env (set_icpt false s) O1) as H. unfold wres in H.
      destruct (rec_exec P c1 env (set_icpt false s)) as [[o1 s1] l1].
      pose proof (IHsk env (set_icpt (icpt s) s1) Ok2) as H2. unfold prepend, wres in *.
      destruct (rec_exec P k env _) as [[o2 s2] l2]. apply wkeys_app; auto.
    - pose proof (wkeys_discard s) as D. destruct (discard s) as [s1 la]. cbn [snd] in D.
      pose proof (IHk env s1 Ok) as H2. unfold prepend, wres in *. destruct (rec_exec P k env s1) as [[o s2] l].
      apply wkeys_app; auto.
    - apply IHk; auto.
    - apply IHk; auto.
    - destruct Ok as [Qk Okk]. pose proof (IHk env s Okk) as H2. unfold prepend, wres in *.
      destruct (rec_exec P k env s) as [[o s2] l]. apply wkeys_app; auto. apply wkeys_if_write; auto.
    - apply IHk; auto.
  Qed.
End WriteKeys.
