(** Model B, part 3: the operation level and histories of runs on one recorder.
    [record_run]: decorated operation (:349-377) + recording scope (:55-104) + post-operation
    metadata (:137-163) + implicit operation output (:381-411) + sampling (:413-435).
    [play_run]: TapeRecorder.play (:878-908).  Definitions only. *)
From Playback Require Import Base.Str Values.PyVal Values.Codec Values.KeyFormat Recorder.Dsl Recorder.Exec.
From Coq Require Import QArith.
Open Scope list_scope.

Definition OPKEY : str := okey_output OPERATION_ALIAS 1.
Definition K_CLASS : str := U"_tape_recorder_operation_class".
Definition K_EXC : str := U"_tape_recorder_exception_in_operation".
Definition K_INCOMPLETE : str := U"_tape_recorder_incomplete_recording".

(** calls seen by a spy cassette *)
Inductive cev :=
| CCreate (cat : str)
| CSave (ord : nat) (data : recording) (meta : list (str * pyval))
| CSaveFailed (ord : nat)
| CAbort (ord : nat)
| CGet (found : bool).

Definition stored := (recording * list (str * pyval))%type.

Record world := mk_world {
  w_saved : list (nat * stored);     (* cassette contents, by creation ordinal *)
  w_next : nat;                      (* ordinal of the next recording created *)
  w_dpos : nat                       (* number of sampling draws consumed so far *)
}.

Record obs := mk_obs {
  ob_outcome : outcome;              (* record: what the caller of the operation saw; play: OVal None / the exception play() raised *)
  ob_trace : list ev;                (* EBegin / EBody / ECall *)
  ob_cass : list cev;
  ob_pbouts : list (str * datum);    (* Playback.playback_outputs *)
  ob_recouts : list (str * datum);   (* Playback.recorded_outputs *)
  ob_state : rst                     (* recorder fields after the run *)
}.

(** ---- recording ---- *)
Definition snapshot_of (l : list ev) : recording :=
  fold_left (fun r kd => set_item (fst kd) (snd kd) r) (writes_of l) [].

(** _extract_recorded_output (:910-923): keys starting with 'output:' and not ending with 'result' *)
Definition is_output_key (k : str) : bool := prefixb (U"output:") k && negb (suffixb (U"result") k).
Definition outputs_of (r : recording) : recording := filter (fun kd => is_output_key (fst kd)) r.

Definition incomplete_of (r : recording) : bool :=
  negb (existsb (fun kd => infixb OPERATION_ALIAS (fst kd)) (outputs_of r)).      (* :151-156 *)

Fixpoint update_items {A} (d : list (str * A)) (m : list (str * A)) : list (str * A) :=
  match d with
  | [] => m
  | (k, v) :: d' => update_items d' (set_item k v m)
  end.

Definition metadata_of (op : opdef) (o : outcome) (snap : recording) : list (str * pyval) :=
  let m0 := [(K_CLASS, VClass (op_class op))] in
  let m1 := match o with
            | OVal _ => m0 ++ [(K_EXC, VBool false)]          (* :76 *)
            | OExn _ => m0 ++ [(K_EXC, VBool true)]           (* :77-79 *)
            | OInt => m0                                      (* BaseException: neither branch runs *)
            end in
  let m2 := m1 ++ [(K_INCOMPLETE, VBool (incomplete_of snap))] in
  match op_extractor op with
  | XDict d => update_items d m2                              (* :157-159 metadata.update(dict(extractor())) *)
  | _ => m2                                                   (* none, or it failed: nothing of it (:160-162) *)
  end.

Definition datum_encodable (d : datum) : bool :=
  match d with
  | DVal v | DData v => match encode v with Some _ => true | None => false end
  | DOut a kw => match encode (VList a), encode (VDict kw) with Some _, Some _ => true | _, _ => false end
  | DExn (EUser ty) => negb (str_eqb ty (U"UnserError"))     (* an exception object that cannot be encoded *)
  | DExn _ | DOpExn _ => true                                 (* the operation entry holds _serializable_exception_form (:437-449) *)
  end.
Definition stored_encodable (st : stored) : bool :=
  forallb (fun kd => datum_encodable (snd kd)) (fst st) &&
  forallb (fun kv => match encode (snd kv) with Some _ => true | None => false end) (snd st).

(** what a cassette hands back: every value went through encode/decode *)
Definition canon_datum (d : datum) : datum :=
  match d with
  | DVal v => DVal (canon v)
  | DData v => DData (canon v)
  | DOut a kw => DOut (map canon a) (sort_items (map_snd canon kw))
  | _ => d
  end.
Definition fetch (st : stored) : stored :=
  (map (fun kd => (fst kd, canon_datum (snd kd))) (fst st), map_snd canon (snd st)).

(** the keep decision (:413-435): returns (keep?, draws consumed) *)
Definition should_sample (draws : nat -> Q) (pos : nat) (P : prm) (forced : bool) : bool * nat :=
  if forced then (true, 0%nat)
  else if Qle_bool 1 (p_rate P) then (true, 0%nat)
  else (Qle_bool (draws pos) (p_rate P), 1%nat).

Definition idle_of (s : rst) : rst := mk_rst false (enabled s) false [] (icpt s).     (* _reset_active_recording *)

Section History.
  Variable draws : nat -> Q.      (* the stream self._random.random() returns *)

  Definition record_run (en : bool) (P : prm) (op : opdef) (save_fails : bool) (s_ : rst) (w : world)
    : obs * world :=
    let s := set_enabled en s_ in        (* the caller switches recording on or off before the run *)
    if negb (enabled s) || p_skipped P then
      (* :353-360 pass-through; the inner decorators still consult the recorder *)
      let '(o, s1, l) := rec_exec P (op_body op) [] s in
      (mk_obs o (trace_of l) [] [] [] s1, w)
    else if active s then
      (* :67 a recording is already active *)
      (mk_obs (OExn EAssertion) [] [] [] [] s, w)
    else
      let ord := w_next w in
      let s0 := mk_rst true (enabled s) (force s) (counter s) (icpt s) in
      let '(o, s1, l0) := rec_exec P (op_body op) [] s0 in
      (* _execute_operation_func (:393-411) *)
      let lop := if active s1 then
                   match o with
                   | OVal v => [EWrite OPKEY (DOut [v] [])]
                   | OExn (EUser ty) => [EWrite OPKEY (DOpExn ty)]
                   | _ => []
                   end
                 else [] in
      let l := l0 ++ lop in
      let aborts := map (fun _ => CAbort ord) (filter is_abort l) in
      if active s1 then
        (* finally of the recording scope (:80-104) *)
        let '(keep, used) := should_sample draws (w_dpos w) P (force s1) in
        let w1 := mk_world (w_saved w) (S ord) (w_dpos w + used)%nat in
        if keep then
          let snap := snapshot_of l in
          let st := (snap, metadata_of op o snap) in
          if save_fails || negb (stored_encodable st) then
            (mk_obs o (trace_of l) (CCreate (op_class op) :: aborts ++ [CSaveFailed ord]) [] [] (idle_of s1), w1)
          else
            (mk_obs o (trace_of l) (CCreate (op_class op) :: aborts ++ [CSave ord (fst st) (snd st)]) [] [] (idle_of s1),
             mk_world ((ord, st) :: w_saved w) (S ord) (w_dpos w + used)%nat)
        else
          (mk_obs o (trace_of l) (CCreate (op_class op) :: aborts ++ [CAbort ord]) [] [] (idle_of s1), w1)
      else
        (* discarded on the way: already aborted, the finally-block skips (:81-82) *)
        (mk_obs o (trace_of l) (CCreate (op_class op) :: aborts) [] [] s1,
         mk_world (w_saved w) (S ord) (w_dpos w)).

  (** ---- replay ---- *)
  Inductive playfn :=
  | PfOp (op : opdef)            (* lambda recording: Operation().execute() *)
  | PfRaises (ty : str).         (* the playback function itself raises *)

  Fixpoint find_saved (ord : nat) (l : list (nat * stored)) : option stored :=
    match l with
    | [] => None
    | (n, st) :: l' => if Nat.eqb n ord then Some st else find_saved ord l'
    end.

  Definition play_run (en : bool) (target : nat) (pf : playfn) (s_ : rst) (w : world) : obs * world :=
    let s := set_enabled en s_ in
    match find_saved target (w_saved w) with
    | None => (mk_obs (OExn ENoSuchRecording) [] [CGet false] [] [] s, w)         (* :888 raises before anything is set *)
    | Some st0 =>
        let R := fst (fetch st0) in
        let fin (e : bool) := mk_rst (active s) e (force s) [] (icpt s) in        (* :898-904 *)
        match pf with
        | PfRaises ty => (mk_obs (OExn (EUser ty)) [] [CGet true] [] [] (fin (enabled s)), w)
        | PfOp op =>
            let '(o, ps, l) := play_exec R (op_body op) [] (mk_pst (counter s) (enabled s)) in
            let s' := fin (penabled ps) in
            let pb := pbouts_of l in
            match o with
            | OVal v => (mk_obs (OVal VNone) (trace_of l) [CGet true] (pb ++ [(OPKEY, DOut [v] [])]) (outputs_of R) s', w)
            | OExn (EUser ty) =>
                (* recorded as an output, OperationExceptionDuringPlayback swallowed by play (:398-404, :894-897) *)
                (mk_obs (OVal VNone) (trace_of l) [CGet true] (pb ++ [(OPKEY, DOpExn ty)]) (outputs_of R) s', w)
            | _ => (mk_obs o (trace_of l) [CGet true] [] [] s', w)                 (* framework exception / interrupt escapes play *)
            end
        end
    end.

  Inductive run :=
  | RRecord (enabled : bool) (P : prm) (op : opdef) (save_fails : bool)
  | RPlay (enabled : bool) (target : nat) (pf : playfn).

  Definition do_run (r : run) (s : rst) (w : world) : obs * world :=
    match r with
    | RRecord en P op sf => record_run en P op sf s w
    | RPlay en t pf => play_run en t pf s w
    end.

  Fixpoint run_history (rs : list run) (s : rst) (w : world) : list obs :=
    match rs with
    | [] => []
    | r :: rs' => let '(ob, w') := do_run r s w in ob :: run_history rs' (ob_state ob) w'
    end.
End History.

Definition fresh_rst : rst := mk_rst false false false [] false.
Definition fresh_world : world := mk_world [] 0%nat 0%nat.
