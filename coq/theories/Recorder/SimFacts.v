(** C01: replaying a saved, complete recording on the same code reproduces the recorded run.
    A simulation between [rec_exec] and [play_exec], in writer style: the replay only needs a recording that
    agrees with every write the record run performs ([agree]). *)
From Playback Require Import Base.Str Base.StrFacts Values.PyVal Values.Codec Values.KeyFormat Values.KeyFacts
  Recorder.Dsl Recorder.Exec Recorder.Run Recorder.RecFacts Recorder.SnapFacts Recorder.PlayFacts.
From Coq Require Import QArith Lia.
Open Scope list_scope.

(** ---- log projections used here ---- *)
Lemma answers_app l1 l2 : answers_of (l1 ++ l2) = answers_of l1 ++ answers_of l2.
Proof. apply flat_map_app. Qed.
Lemma sent_app l1 l2 : sent_of (l1 ++ l2) = sent_of l1 ++ sent_of l2.
Proof. apply flat_map_app. Qed.
Lemma pbouts_app l1 l2 : pbouts_of l1 ++ pbouts_of l2 = pbouts_of (l1 ++ l2).
Proof. symmetry. apply flat_map_app. Qed.

(** the writes of output captures ('.output' entries and the operation entry) *)
Definition outw_one (e : ev) : list (str * datum) :=
  match e with EWrite k d => if is_output_key k then [(k, d)] else [] | _ => [] end.
Definition outw_of (l : list ev) : list (str * datum) := flat_map outw_one l.
Lemma outw_app l1 l2 : outw_of (l1 ++ l2) = outw_of l1 ++ outw_of l2.
Proof. apply flat_map_app. Qed.

Lemma answers_cons e l : answers_of (e :: l) = answer_of e ++ answers_of l. Proof. reflexivity. Qed.
Lemma sent_cons e l : sent_of (e :: l) = sent_one e ++ sent_of l. Proof. reflexivity. Qed.
Lemma outw_cons e l : outw_of (e :: l) = outw_one e ++ outw_of l. Proof. reflexivity. Qed.
Lemma pbouts_cons e l : pbouts_of (e :: l) = pbout_of e ++ pbouts_of l. Proof. reflexivity. Qed.
Lemma bodies_cons e l : bodies_of (e :: l) = (match e with EBody a _ _ => [a] | _ => [] end) ++ bodies_of l. Proof. reflexivity. Qed.
Lemma pbouts_app' l1 l2 : pbouts_of (l1 ++ l2) = pbouts_of l1 ++ pbouts_of l2. Proof. apply flat_map_app. Qed.
Lemma answers_nil : answers_of [] = []. Proof. reflexivity. Qed.
Lemma sent_nil : sent_of [] = []. Proof. reflexivity. Qed.
Lemma outw_nil : outw_of [] = []. Proof. reflexivity. Qed.
Lemma pbouts_nil : pbouts_of [] = []. Proof. reflexivity. Qed.
Lemma bodies_nil : bodies_of [] = []. Proof. reflexivity. Qed.
#[global] Hint Rewrite answers_app answers_cons answers_nil sent_app sent_cons sent_nil outw_app outw_cons outw_nil
  pbouts_app' pbouts_cons pbouts_nil bodies_app bodies_cons bodies_nil : proj.
Ltac projnorm := autorewrite with proj; cbn [answer_of sent_one outw_one pbout_of app].

Lemma output_key_is_output al n : is_output_key (okey_output al n) = true.
Proof.
  unfold is_output_key, okey_output, suffixb. rewrite rev_app_distr.
  replace (prefixb (rev (U"result")) (rev (U".output") ++ rev (okey al n))) with false by reflexivity. reflexivity.
Qed.

(** ---- static conditions on programs ---- *)
Fixpoint replayable (c : code) : Prop :=
  match c with
  | Ret _ | Interrupt => True
  | Raise ty => exn_of_name ty = EUser ty       (* service code raising framework-typed exceptions: outside this theorem *)
  | Inp cf body _ _ k =>
      (match i_handler cf with
       | None => True
       | Some hh => forall v full kw rv, ih_prep hh v full kw = Some rv -> ih_restore hh rv full kw = Some v
       end) /\ replayable body /\ replayable k
  | Out _ body _ _ k => replayable body /\ replayable k
  | Try c1 h => replayable c1 /\ replayable h
  | Discard k | Force k => replayable k
  | RecordData key _ k => is_output_key key = false /\ replayable k
  | Enable _ _ | PlayData _ _ => False          (* mode-dependent by design: outside "the same deterministic code" *)
  | Spawn _ _ => False                          (* worker threads: outside this (single-threaded) theorem *)
  end.

(** ---- code running where the decorators do not intercept (inside an interception, or no recording) ---- *)
Record passive (s s' : rst) (l : list ev) : Prop := mk_passive {
  pa_counter : counter s' = counter s;
  pa_enabled : enabled s' = enabled s;
  pa_icpt : icpt s' = icpt s;
  pa_active : active s' = active s;
  pa_answers : answers_of l = [];
  pa_sent : sent_of l = [];
  pa_outw : outw_of l = []
}.

Definition pres_passive (s : rst) (r : res) : Prop :=
  let '(_, s', l) := r in aborts_of l = 0%nat -> passive s s' l.

Lemma passive_refl s : passive s s [].
Proof. constructor; reflexivity. Qed.
Lemma passive_trans s s1 s2 l1 l2 : passive s s1 l1 -> passive s1 s2 l2 -> passive s s2 (l1 ++ l2).
Proof.
  intros [C1 E1 I1 A1 N1 S1 O1] [C2 E2 I2 A2 N2 S2 O2].
  constructor; try congruence.
  - rewrite answers_app, N1, N2. reflexivity.
  - rewrite sent_app, S1, S2. reflexivity.
  - rewrite outw_app, O1, O2. reflexivity.
Qed.
Lemma passive_cons e s s' l :
  answer_of e = [] -> sent_one e = [] -> outw_one e = [] -> passive s s' l -> passive s s' (e :: l).
Proof.
  intros N S O [C1 E1 I1 A1 N1 S1 O1]. constructor; auto.
  - change (answer_of e ++ answers_of l = []). rewrite N, N1. reflexivity.
  - change (sent_one e ++ sent_of l = []). rewrite S, S1. reflexivity.
  - change (outw_one e ++ outw_of l = []). rewrite O, O1. reflexivity.
Qed.

Lemma not_intercepting_same s s' :
  icpt s' = icpt s -> active s' = active s -> enabled s' = enabled s ->
  should_intercept_rec s' = should_intercept_rec s.
Proof. unfold should_intercept_rec, in_rec. intros -> -> ->. reflexivity. Qed.

Section Passive.
  Variable P : prm.

  Lemma aborts_split l1 l2 : aborts_of (l1 ++ l2) = 0%nat -> aborts_of l1 = 0%nat /\ aborts_of l2 = 0%nat.
  Proof. rewrite aborts_app. lia. Qed.

  Theorem rec_exec_passive : forall c env s,
    replayable c -> should_intercept_rec s = false -> pres_passive s (rec_exec P c env s).
  Proof.
    induction c as [e|ty| |cf body IHb args kwargs k IHk|cf body IHb args kwargs k IHk|c1 IH1 h IHh|c1 IHs1 k IHsk
                    |k IHk|k IHk|b k IHk|key e k IHk|key k IHk]; intros env s Rp NI; cbn [rec_exec replayable] in *.
    - intros _. apply passive_refl.
    - intros _. apply passive_refl.
    - intros _. apply passive_refl.
    - destruct Rp as (_ & Rb & Rk). unfold rec_in_call. rewrite NI.
      specialize (IHb (body_env (map (eval env) args) (eval_kw env kwargs)) s Rb NI).
      destruct (rec_exec P body _ s) as [[o s1] l1]. cbn [bind_val]. unfold pres_passive in *.
      assert (H1 : aborts_of (EBegin (i_alias cf) (map (eval env) args) (eval_kw env kwargs)
                               :: EBody (i_alias cf) (map (eval env) args) (eval_kw env kwargs) :: l1 ++ [ECall (i_alias cf) o]) = 0%nat ->
                   passive s s1 (EBegin (i_alias cf) (map (eval env) args) (eval_kw env kwargs)
                               :: EBody (i_alias cf) (map (eval env) args) (eval_kw env kwargs) :: l1 ++ [ECall (i_alias cf) o])).
      { intros B. rewrite !aborts_cons, aborts_app in B. cbn in B.
        apply passive_cons; try reflexivity. apply passive_cons; try reflexivity.
        apply passive_trans with s1; [apply IHb; lia|]. apply passive_cons; try reflexivity. apply passive_refl. }
      destruct o as [v|ex|]; auto.
      destruct (rec_exec P k (env ++ [v]) s1) as [[o2 s2] l2] eqn:Ek. intros B. apply aborts_split in B. destruct B as [B1 B2].
      specialize (H1 B1). destruct H1 as [C1 E1 I1 A1 N1 S1 O1].
      specialize (IHk (env ++ [v]) s1 Rk). rewrite Ek in IHk.
      assert (NI1 : should_intercept_rec s1 = false) by (rewrite (not_intercepting_same s s1); auto).
      specialize (IHk NI1 B2). apply passive_trans with s1; auto. constructor; auto.
    - destruct Rp as (Rb & Rk). unfold rec_out_call. rewrite NI.
      specialize (IHb (body_env (map (eval env) args) (eval_kw env kwargs)) s Rb NI).
      destruct (rec_exec P body _ s) as [[o s1] l1]. cbn [bind_val]. unfold pres_passive in *.
      assert (H1 : aborts_of (EBegin (o_alias cf) (map (eval env) args) (eval_kw env kwargs)
                               :: EBody (o_alias cf) (map (eval env) args) (eval_kw env kwargs) :: l1 ++ [ECall (o_alias cf) o]) = 0%nat ->
                   passive s s1 (EBegin (o_alias cf) (map (eval env) args) (eval_kw env kwargs)
                               :: EBody (o_alias cf) (map (eval env) args) (eval_kw env kwargs) :: l1 ++ [ECall (o_alias cf) o])).
      { intros B. rewrite !aborts_cons, aborts_app in B. cbn in B.
        apply passive_cons; try reflexivity. apply passive_cons; try reflexivity.
        apply passive_trans with s1; [apply IHb; lia|]. apply passive_cons; try reflexivity. apply passive_refl. }
      destruct o as [v|ex|]; auto.
      destruct (rec_exec P k (env ++ [v]) s1) as [[o2 s2] l2] eqn:Ek. intros B. apply aborts_split in B. destruct B as [B1 B2].
      specialize (H1 B1). destruct H1 as [C1 E1 I1 A1 N1 S1 O1].
      specialize (IHk (env ++ [v]) s1 Rk). rewrite Ek in IHk.
      assert (NI1 : should_intercept_rec s1 = false) by (rewrite (not_intercepting_same s s1); auto).
      specialize (IHk NI1 B2). apply passive_trans with s1; auto. constructor; auto.
    - destruct Rp as (R1 & Rh). specialize (IH1 env s R1 NI). unfold bind_exn, pres_passive in *.
      destruct (rec_exec P c1 env s) as [[o s1] l1]. destruct o as [v|ex|]; auto.
      destruct (rec_exec P h env s1) as [[o2 s2] l2] eqn:Eh. intros B. apply aborts_split in B. destruct B as [B1 B2].
      specialize (IH1 B1). pose proof IH1 as [C1 E1 I1 A1 N1 S1 O1].
      specialize (IHh env s1 Rh). rewrite Eh in IHh.
      assert (NI1 : should_intercept_rec s1 = false) by (rewrite (not_intercepting_same s s1); auto).
      specialize (IHh NI1 B2). apply passive_trans with s1; auto.
    - destruct Rp.
    - unfold discard. destruct (active s) eqn:A.
      + unfold prepend, pres_passive. destruct (rec_exec P k env _) as [[o s2] l]. intros B.
        rewrite aborts_app in B. cbn in B. lia.
      + specialize (IHk env s Rp NI). unfold prepend, pres_passive in *. destruct (rec_exec P k env s) as [[o s2] l]. exact IHk.
    - assert (NI1 : should_intercept_rec (do_force (p_ignore P) s) = false).
      { rewrite (not_intercepting_same s); auto; unfold do_force; destruct (active s && negb (p_ignore P)); reflexivity. }
      specialize (IHk env _ Rp NI1). unfold pres_passive in *. destruct (rec_exec P k env _) as [[o s2] l].
      intros B. specialize (IHk B). destruct IHk as [C1 E1 I1 A1 N1 S1 O1].
      constructor; auto; rewrite ?C1, ?E1, ?I1, ?A1; unfold do_force; destruct (active s && negb (p_ignore P)); reflexivity.
    - destruct Rp.
    - destruct Rp as [Ku Rk]. specialize (IHk env s Rk NI). unfold prepend, pres_passive in *.
      destruct (rec_exec P k env s) as [[o s2] l]. intros B. apply aborts_split in B. destruct B as [B1 B2].
      specialize (IHk B2). change (passive s s2 ((if in_rec s then [EWrite key (DData (eval env e))] else []) ++ l)).
      apply passive_trans with s; [|exact IHk].
      destruct (in_rec s); [|apply passive_refl]. apply passive_cons; try reflexivity; [|apply passive_refl].
      cbn. rewrite Ku. reflexivity.
    - destruct Rp.
  Qed.
End Passive.

(** ---- the simulation ---- *)
Definition agree (R : recording) (ws : list (str * datum)) : Prop :=
  forall k d, List.In (k, d) ws -> rlookup k R = Some d.
Lemma agree_app R w1 w2 : agree R (w1 ++ w2) <-> agree R w1 /\ agree R w2.
Proof.
  unfold agree; split.
  - intros H; split; intros k d I; apply H; apply in_or_app; auto.
  - intros [A B] k d I; apply in_app_or in I; destruct I; auto.
Qed.
Lemma agree_nil R : agree R []. Proof. intros k d []. Qed.

Definition intercepting (s : rst) : Prop := icpt s = false /\ active s = true /\ enabled s = true.
Lemma intercepting_should s : intercepting s -> should_intercept_rec s = true.
Proof. intros (I & A & E). unfold should_intercept_rec, in_rec. rewrite I, A, E. reflexivity. Qed.

Lemma input_keys_nonempty cf a kw keys : input_keys cf a kw = Some keys -> exists k0 rest, keys = k0 :: rest.
Proof.
  unfold input_keys. destruct (format_alias _ _ _); [|discriminate]. destruct (ikey _ _ _ _ _ _) as [k0|]; [|discriminate].
  destruct (i_fallbacks cf); try discriminate.
  - intros E; inversion E; eauto.
  - destruct (opt_all _); cbn; intros E; inversion E; eauto.
  - destruct (opt_all _); cbn; intros E; inversion E; eauto.
Qed.

Definition sim_res (R : recording) (pe : bool) (r : res) (pr : pres) : Prop :=
  let '(o, s', l) := r in
  aborts_of l = 0%nat -> o <> OInt -> agree R (writes_of l) ->
  intercepting s' /\
  let '(o', ps', l') := pr in
  o' = o /\ ps' = mk_pst (counter s') pe /\ answers_of l' = answers_of l /\ sent_of l' = sent_of l /\
  pbouts_of l' = outw_of l /\ bodies_of l' = [].

Section Sim.
  Variable P : prm.
  Variable R : recording.

  Lemma sim_in_call cf a kw body pbody s pe :
    (match i_handler cf with
     | None => True
     | Some hh => forall v full kw rv, ih_prep hh v full kw = Some rv -> ih_restore hh rv full kw = Some v
     end) ->
    intercepting s ->
    pres_passive (set_icpt true s) (body (set_icpt true s)) ->
    sim_res R pe (rec_in_call cf a kw body s) (play_in_call R cf a kw pbody (mk_pst (counter s) pe)).
  Proof.
    intros Hh Int Pb. pose proof Int as (Ic & Ac & En).
    unfold rec_in_call, play_in_call, sim_res. rewrite (intercepting_should s Int).
    destruct (input_keys cf a kw) as [keys|] eqn:Ek.
    - destruct (input_keys_shape _ _ _ _ Ek) as [r0 Hr0].
      destruct (input_keys_nonempty _ _ _ _ Ek) as (k0 & rest & ->). cbn [hd] in *.
      assert (Hk0 : is_output_key k0 = false) by (rewrite Hr0; apply input_key_not_output).
      destruct (body (set_icpt true s)) as [[o s1] l1]. unfold pres_passive in Pb.
      set (al := i_alias cf) in *.
      assert (Common : aborts_of l1 = 0%nat ->
                intercepting (set_icpt false s1) /\ counter (set_icpt false s1) = counter s /\
                answers_of l1 = [] /\ sent_of l1 = [] /\ outw_of l1 = []).
      { intros B. destruct (Pb B) as [C1 E1 I1 A1 N1 S1 O1].
        cbn [counter enabled icpt active set_icpt] in C1, E1, I1, A1.
        unfold intercepting. cbn [counter enabled icpt active set_icpt]. repeat split; auto; congruence. }
      assert (Found : forall d, rlookup k0 R = Some d -> first_present (k0 :: rest) R = Some k0).
      { intros d L. unfold first_present. cbn [find]. rewrite L. reflexivity. }
      destruct o as [v|e|].
      + (* the body returned *)
        destruct (active (set_icpt false s1)) eqn:A2.
        * destruct (i_prep_discards cf).
          -- unfold discard. rewrite A2. destruct (prep_input _ _ _ _); cbv beta iota zeta;
               intros B; exfalso; lognorm; cbn in B; lia.
          -- destruct (prep_input (i_handler cf) v (full_args (i_static cf) a) kw) as [rv|] eqn:Ep.
             ++ rewrite A2. intros B _ Ag. lognorm. cbn in B.
                assert (B1 : aborts_of l1 = 0%nat) by lia. destruct (Common B1) as (I2 & C2 & N1 & S1 & O1).
                split; [exact I2|].
                assert (L : rlookup k0 R = Some (DVal rv)).
                { apply Ag. apply in_or_app. right. left. reflexivity. }
                rewrite (Found _ L), L.
                assert (Rs : restore_input (i_handler cf) rv (full_args (i_static cf) a) kw = OVal v).
                { unfold restore_input, prep_input in *. destruct (i_handler cf) as [hh|].
                  - rewrite (Hh _ _ _ _ Ep). reflexivity.
                  - inversion Ep; subst. reflexivity. }
                rewrite Rs. repeat split; auto.
                ** rewrite C2. reflexivity.
                ** projnorm. rewrite N1. reflexivity.
                ** projnorm. rewrite S1. reflexivity.
                ** projnorm. rewrite O1, Hk0. reflexivity.
             ++ unfold discard. rewrite A2. cbv beta iota zeta. intros B. exfalso. lognorm. cbn in B. lia.
        * intros B. exfalso. assert (B1 : aborts_of l1 = 0%nat) by (lognorm; cbn in B; lia).
          destruct (Common B1) as ((_ & A2' & _) & _). congruence.
      + (* the body raised an ordinary exception *)
        intros B _ Ag. lognorm.
        assert (B1 : aborts_of l1 = 0%nat) by (destruct (active (set_icpt false s1)); cbn in B; lia).
        destruct (Common B1) as (I2 & C2 & N1 & S1 & O1). pose proof I2 as (_ & A2 & _). rewrite A2 in *.
        split; [exact I2|].
        assert (L : rlookup k0 R = Some (DExn e)).
        { apply Ag. apply in_or_app. right. left. reflexivity. }
        rewrite (Found _ L), L. repeat split; auto.
        ** rewrite C2. reflexivity.
        ** projnorm. rewrite N1. reflexivity.
        ** projnorm. rewrite S1. reflexivity.
        ** projnorm. rewrite O1, Hk0. reflexivity.
      + intros _ N. exfalso. apply N. reflexivity.
    - unfold discard. rewrite Ac. cbv beta iota zeta.
      match goal with |- context [body ?x] => destruct (body x) as [[o s1] l1] end. cbv beta iota zeta.
      intros B. exfalso. lognorm. cbn in B. lia.
  Qed.

  Lemma sim_out_call cf a kw body s pe :
    intercepting s ->
    (forall s0, should_intercept_rec s0 = false -> pres_passive s0 (body s0)) ->
    sim_res R pe (rec_out_call cf a kw body s) (play_out_call R cf a kw (mk_pst (counter s) pe)).
  Proof.
    intros Int Pb. pose proof Int as (Ic & Ac & En).
    unfold rec_out_call, play_out_call, sim_res. rewrite (intercepting_should s Int). cbn [pcounter penabled].
    destruct (bump (o_alias cf) (counter s)) as [n cnt].
    set (al := o_alias cf) in *.
    destruct (out_datum cf a kw) as [d|].
    - assert (NI : should_intercept_rec (set_icpt true (set_counter cnt s)) = false) by reflexivity.
      specialize (Pb _ NI). destruct (body (set_icpt true (set_counter cnt s))) as [[o s1] l1]. unfold pres_passive in Pb.
      assert (Common : aborts_of l1 = 0%nat ->
                intercepting (set_icpt false s1) /\ counter (set_icpt false s1) = cnt /\
                answers_of l1 = [] /\ sent_of l1 = [] /\ outw_of l1 = []).
      { intros B. destruct (Pb B) as [C1 E1 I1 A1 N1 S1 O1].
        cbn [counter enabled icpt active set_icpt set_counter] in C1, E1, I1, A1.
        unfold intercepting. cbn [counter enabled icpt active set_icpt]. repeat split; auto; congruence. }
      pose proof (output_key_is_output al n) as Ko. pose proof (result_key_not_output al n) as Kr.
      destruct o as [v|e|].
      + intros B _ Ag. lognorm.
        assert (B1 : aborts_of l1 = 0%nat) by (destruct (active (set_icpt false s1)); cbn in B; lia).
        destruct (Common B1) as (I2 & C2 & N1 & S1 & O1). pose proof I2 as (_ & A2 & _). rewrite A2 in *.
        split; [exact I2|].
        assert (L : rlookup (okey_result al n) R = Some (DVal v)).
        { apply Ag. cbn. right. apply in_or_app. right. left. reflexivity. }
        rewrite L. repeat split; auto.
        ** rewrite C2. reflexivity.
        ** projnorm. rewrite N1. reflexivity.
        ** projnorm. rewrite S1. reflexivity.
        ** projnorm. rewrite O1, Ko, Kr. reflexivity.
      + intros B _ Ag. lognorm.
        assert (B1 : aborts_of l1 = 0%nat) by (destruct (active (set_icpt false s1)); cbn in B; lia).
        destruct (Common B1) as (I2 & C2 & N1 & S1 & O1). pose proof I2 as (_ & A2 & _). rewrite A2 in *.
        split; [exact I2|].
        assert (L : rlookup (okey_result al n) R = Some (DExn e)).
        { apply Ag. cbn. right. apply in_or_app. right. left. reflexivity. }
        rewrite L. repeat split; auto.
        ** rewrite C2. reflexivity.
        ** projnorm. rewrite N1. reflexivity.
        ** projnorm. rewrite S1. reflexivity.
        ** projnorm. rewrite O1, Ko, Kr. reflexivity.
      + intros _ N. exfalso. apply N. reflexivity.
    - unfold discard. cbn [active set_counter]. rewrite Ac. cbv beta iota zeta.
      match goal with |- context [body ?x] => destruct (body x) as [[o s1] l1] end. cbv beta iota zeta.
      intros B. exfalso. lognorm. cbn in B. lia.
  Qed.

  Lemma sim_bind_val pe r pr k pk :
    sim_res R pe r pr ->
    (forall v s1, intercepting s1 -> sim_res R pe (k v s1) (pk v (mk_pst (counter s1) pe))) ->
    sim_res R pe (bind_val r k) (bind_val pr pk).
  Proof.
    unfold sim_res, bind_val. destruct r as [[o s1] l1]. destruct pr as [[o' ps'] l1']. intros H1 Hk.
    destruct o as [v|e|].
    - destruct (k v s1) as [[o2 s2] l2] eqn:Ek. intros B N Ag.
      lognorm. apply agree_app in Ag. destruct Ag as [Ag1 Ag2].
      assert (B1 : aborts_of l1 = 0%nat) by lia. assert (B2 : aborts_of l2 = 0%nat) by lia.
      destruct (H1 B1 ltac:(discriminate) Ag1) as (I1 & -> & -> & N1 & S1 & O1 & Bd1).
      specialize (Hk v s1 I1). rewrite Ek in Hk. destruct (Hk B2 N Ag2) as (I2 & Hk2). split; [exact I2|].
      destruct (pk v (mk_pst (counter s1) pe)) as [[o2' ps2'] l2']. destruct Hk2 as (-> & -> & N2 & S2 & O2 & Bd2).
      repeat split; auto; projnorm; rewrite ?N1, ?N2, ?S1, ?S2, ?O1, ?O2, ?Bd1, ?Bd2; reflexivity.
    - intros B N Ag. destruct (H1 B N Ag) as (I1 & -> & -> & N1 & S1 & O1 & Bd1). auto 10.
    - intros _ N. exfalso. apply N. reflexivity.
  Qed.

  Lemma sim_bind_exn pe r pr h ph :
    sim_res R pe r pr ->
    (forall s1, intercepting s1 -> sim_res R pe (h s1) (ph (mk_pst (counter s1) pe))) ->
    sim_res R pe (bind_exn r h) (bind_exn pr ph).
  Proof.
    unfold sim_res, bind_exn. destruct r as [[o s1] l1]. destruct pr as [[o' ps'] l1']. intros H1 Hk.
    destruct o as [v|e|].
    - intros B N Ag. destruct (H1 B N Ag) as (I1 & -> & -> & N1 & S1 & O1 & Bd1). auto 10.
    - destruct (h s1) as [[o2 s2] l2] eqn:Ek. intros B N Ag.
      lognorm. apply agree_app in Ag. destruct Ag as [Ag1 Ag2].
      assert (B1 : aborts_of l1 = 0%nat) by lia. assert (B2 : aborts_of l2 = 0%nat) by lia.
      destruct (H1 B1 ltac:(discriminate) Ag1) as (I1 & -> & -> & N1 & S1 & O1 & Bd1).
      specialize (Hk s1 I1). rewrite Ek in Hk. destruct (Hk B2 N Ag2) as (I2 & Hk2). split; [exact I2|].
      destruct (ph (mk_pst (counter s1) pe)) as [[o2' ps2'] l2']. destruct Hk2 as (-> & -> & N2 & S2 & O2 & Bd2).
      repeat split; auto; projnorm; rewrite ?N1, ?N2, ?S1, ?S2, ?O1, ?O2, ?Bd1, ?Bd2; reflexivity.
    - intros _ N. exfalso. apply N. reflexivity.
  Qed.

  (** the simulation: a replay against any recording that agrees with the writes of the record run gives
      every intercepting decorator's answer, every captured output and the final outcome of the record run,
      and runs no wrapped body *)
  Theorem sim_exec : forall c env s pe,
    replayable c -> intercepting s ->
    sim_res R pe (rec_exec P c env s) (play_exec R c env (mk_pst (counter s) pe)).
  Proof.
    induction c as [e|ty| |cf body IHb args kwargs k IHk|cf body IHb args kwargs k IHk|c1 IH1 h IHh|c1 IHs1 k IHsk
                    |k IHk|k IHk|b k IHk|key e k IHk|key k IHk]; intros env s pe Rp Int;
      cbn [rec_exec play_exec replayable] in *.
    - unfold sim_res. intros _ _ _. split; [exact Int|]. repeat split; reflexivity.
    - unfold sim_res. intros _ _ _. split; [exact Int|]. repeat split; reflexivity.
    - unfold sim_res. intros _ N. exfalso. apply N. reflexivity.
    - destruct Rp as (Hh & Rb & Rk).
      apply sim_bind_val.
      + apply sim_in_call; auto. apply rec_exec_passive; auto.
      + intros v s1 I1. apply IHk; auto.
    - destruct Rp as (Rb & Rk).
      apply sim_bind_val.
      + apply sim_out_call; auto. intros s0 NI. apply rec_exec_passive; auto.
      + intros v s1 I1. apply IHk; auto.
    - destruct Rp as (R1 & Rh). apply sim_bind_exn; [apply IH1; auto|intros s1 I1; apply IHh; auto].
    - destruct Rp.
    - destruct Int as (Ic & Ac & En). unfold discard. rewrite Ac. unfold prepend, sim_res.
      destruct (rec_exec P k env _) as [[o s2] l]. intros B. exfalso. lognorm. cbn in B. lia.
    - assert (I1 : intercepting (do_force (p_ignore P) s)).
      { destruct Int as (Ic & Ac & En). unfold do_force, intercepting. destruct (active s && negb (p_ignore P)); cbn; auto. }
      specialize (IHk env (do_force (p_ignore P) s) pe Rp I1).
      replace (counter (do_force (p_ignore P) s)) with (counter s) in IHk
        by (unfold do_force; destruct (active s && negb (p_ignore P)); reflexivity).
      exact IHk.
    - destruct Rp.
    - destruct Rp as [Ku Rk]. specialize (IHk env s pe Rk Int). unfold prepend, sim_res in *.
      destruct (rec_exec P k env s) as [[o s2] l]. destruct (play_exec R k env _) as [[o' ps'] l'].
      assert (Ir : in_rec s = true) by (destruct Int as (Ic & Ac & En); unfold in_rec; rewrite Ac, En; reflexivity).
      rewrite Ir. intros B N Ag. lognorm.
      assert (Ag2 : agree R (writes_of l)) by (intros k0 d0 I0; apply Ag; right; exact I0).
      cbn in B. destruct (IHk B N Ag2) as (I2 & -> & -> & N2 & S2 & O2 & Bd2). split; [exact I2|].
      repeat split; auto; projnorm; rewrite ?Ku; cbn [app]; auto.
    - destruct Rp.
  Qed.
End Sim.

(** ---- from the simulation to saved recordings ---- *)
Definition functional (ws : list (str * datum)) : Prop :=
  forall k d1 d2, List.In (k, d1) ws -> List.In (k, d2) ws -> d1 = d2.

Lemma set_item_nodup {A} k (v : A) d : NoDup (map fst d) -> NoDup (map fst (set_item k v d)).
Proof.
  induction d as [|[k0 v0] d IH]; cbn; intros N.
  - constructor; [intros []|constructor].
  - destruct (str_eqb k k0) eqn:E; cbn.
    + apply str_eqb_eq in E. subst. exact N.
    + inversion N; subst. constructor; [|auto]. rewrite set_item_keys. intros [X|X]; [|contradiction].
      apply str_eqb_neq in E. congruence.
Qed.

Lemma snapshot_nodup l : NoDup (map fst (snapshot_of l)).
Proof.
  unfold snapshot_of. change (fun r kd => set_item (fst kd) (snd kd) r) with step_item.
  assert (G : forall ws acc, NoDup (map fst acc) -> NoDup (map fst (fold_left step_item ws acc))).
  { induction ws as [|[k d] ws IH]; intros acc N; cbn [fold_left]; [exact N|]. apply IH. apply set_item_nodup. exact N. }
  apply G. constructor.
Qed.

Lemma rlookup_in r k d : rlookup k r = Some d -> List.In (k, d) r.
Proof.
  induction r as [|[k0 d0] r IH]; cbn; [discriminate|].
  destruct (str_eqb k k0) eqn:E.
  - apply str_eqb_eq in E. subst. intros X; inversion X. left. reflexivity.
  - intros X. right. auto.
Qed.
Lemma in_rlookup r k d : NoDup (map fst r) -> List.In (k, d) r -> rlookup k r = Some d.
Proof.
  induction r as [|[k0 d0] r IH]; cbn; intros N I; [contradiction|].
  inversion N; subst. destruct I as [I|I].
  - inversion I; subst. rewrite str_eqb_refl. reflexivity.
  - destruct (str_eqb k k0) eqn:E.
    + apply str_eqb_eq in E. subst. exfalso. apply H1. apply in_map_iff. exists (k0, d). auto.
    + auto.
Qed.

Lemma snapshot_entries l k d :
  functional (writes_of l) -> (List.In (k, d) (snapshot_of l) <-> List.In (k, d) (writes_of l)).
Proof.
  intros F. split.
  - intros I. apply in_rlookup in I; [|apply snapshot_nodup]. rewrite snapshot_lookup in I. apply last_write_in. exact I.
  - intros I. apply rlookup_in. rewrite snapshot_lookup.
    destruct (last_write k (writes_of l)) as [d'|] eqn:E.
    + apply last_write_in in E. rewrite (F k d d' I E). reflexivity.
    + exfalso. apply last_write_none in E. apply E. apply in_map_iff. exists (k, d). auto.
Qed.

Lemma outw_in l k d : List.In (k, d) (outw_of l) <-> List.In (k, d) (writes_of l) /\ is_output_key k = true.
Proof.
  induction l as [|e l IH]; [cbn; intuition|].
  rewrite outw_cons, writes_cons, !in_app_iff, IH. destruct e; cbn [outw_one write_of]; try (cbn; intuition; fail).
  destruct (is_output_key k0) eqn:E; cbn.
  - split.
    + intros [[X|[]]|[X Y]]; [inversion X; subst; auto|auto].
    + intros [[[X|[]]|X] Y]; [left; left; exact X|right; auto].
  - split.
    + intros [[]|[X Y]]. auto.
    + intros [[[X|[]]|X] Y]; [inversion X; subst; congruence|right; auto].
Qed.

Definition fetched (snap : recording) : recording := map (fun kd => (fst kd, canon_datum (snd kd))) snap.
Lemma rlookup_fetched snap k : rlookup k (fetched snap) = option_map canon_datum (rlookup k snap).
Proof. induction snap as [|[k0 d0] r IH]; cbn; [reflexivity|]. destruct (str_eqb k k0); auto. Qed.

Definition op_pbout (o : outcome) : list (str * datum) :=
  match o with OVal v => [(OPKEY, DOut [v] [])] | OExn (EUser ty) => [(OPKEY, DOpExn ty)] | _ => [] end.
Definition op_writes (o : outcome) : list ev :=
  match o with OVal v => [EWrite OPKEY (DOut [v] [])] | OExn (EUser ty) => [EWrite OPKEY (DOpExn ty)] | _ => [] end.

Section Reproduce.
  Variable P : prm.

  (** C01.  A record run that was saved (no abort) and is complete (not cut short), whose writes are
      functional (two writes under one key carry the same datum: "an input is a function of its alias and
      captured arguments") and canonical (every stored value is its own serializer round trip), replays -
      on the same code, against what the cassette hands back - with the same answer at every intercepting
      decorator, the same final outcome, no wrapped body executed, and captured outputs (operation entry
      included) equal entry for entry to the recorded outputs. *)
  Theorem replay_reproduces c s0 pe :
    replayable c -> intercepting s0 ->
    let '(o, s1, l0) := rec_exec P c [] s0 in
    aborts_of l0 = 0%nat -> o <> OInt ->
    let l := l0 ++ op_writes o in
    functional (writes_of l) ->
    (forall k d, List.In (k, d) (writes_of l) -> canon_datum d = d) ->
    let R := fetched (snapshot_of l) in
    let '(o', ps', l') := play_exec R c [] (mk_pst (counter s0) pe) in
    o' = o /\ answers_of l' = answers_of l0 /\ bodies_of l' = [] /\
    (forall k d, List.In (k, d) (pbouts_of l' ++ op_pbout o) <-> List.In (k, d) (outputs_of R)).
  Proof.
    intros Rp Int. pose proof (sim_exec P) as Sim.
    destruct (rec_exec P c [] s0) as [[o s1] l0] eqn:Er. intros B N. cbv zeta. intros F Cn.
    set (l := l0 ++ op_writes o) in *. set (R := fetched (snapshot_of l)).
    assert (LR : forall k d, List.In (k, d) (writes_of l) -> rlookup k R = Some d).
    { intros k d I. unfold R. rewrite rlookup_fetched.
      assert (X : rlookup k (snapshot_of l) = Some d) by (apply in_rlookup; [apply snapshot_nodup|apply snapshot_entries; auto]).
      rewrite X. cbn. rewrite (Cn k d I). reflexivity. }
    assert (Ag : agree R (writes_of l0)).
    { intros k d I. apply LR. unfold l. rewrite writes_app. apply in_or_app. left. exact I. }
    specialize (Sim R c [] s0 pe Rp Int). rewrite Er in Sim. unfold sim_res in Sim.
    destruct (Sim B N Ag) as (I1 & Sim2). destruct (play_exec R c [] (mk_pst (counter s0) pe)) as [[o' ps'] l'].
    destruct Sim2 as (-> & _ & N1 & _ & O1 & Bd). repeat split; auto.
    - intros I. rewrite O1 in I.
      assert (I2 : List.In (k, d) (outw_of l)).
      { unfold l. rewrite outw_app. apply in_app_or in I. apply in_or_app. destruct I as [I|I]; [left; exact I|right].
        destruct o as [v|[]|]; cbn in I |- *; auto. }
      apply outw_in in I2. destruct I2 as [Iw Ok]. unfold outputs_of. apply filter_In. split; [|exact Ok].
      apply rlookup_in. apply LR. exact Iw.
    - intros I. unfold outputs_of in I. apply filter_In in I. destruct I as [I Ok]. cbn [fst] in Ok.
      unfold R, fetched in I. apply in_map_iff in I. destruct I as ([k0 d0] & E & I0). cbn in E. inversion E; subst k0 d; clear E.
      apply snapshot_entries in I0; [|exact F]. rewrite (Cn k d0 I0).
      assert (I2 : List.In (k, d0) (outw_of l)) by (apply outw_in; auto).
      unfold l in I2. rewrite outw_app in I2. rewrite O1. apply in_app_or in I2. apply in_or_app.
      destruct I2 as [I2|I2]; [left; exact I2|right]. destruct o as [v|[]|]; cbn in I2 |- *; auto.
  Qed.
End Reproduce.

(** ---- run level ---- *)
Definition user_outcome (o : outcome) : Prop := match o with OExn (EUser _) | OVal _ | OInt => True | _ => False end.

Lemma plain_exec_user : forall c env, replayable c -> user_outcome (fst (plain_exec c env)).
Proof.
  induction c as [e|ty| |cf body IHb args kwargs k IHk|cf body IHb args kwargs k IHk|c1 IH1 h IHh|c1 IHs1 k IHsk
                  |k IHk|k IHk|b k IHk|key e k IHk|key k IHk]; intros env Rp; cbn [plain_exec replayable] in *; try exact I; auto.
  - rewrite Rp. exact I.
  - destruct Rp as (_ & Rb & Rk). specialize (IHb (body_env (map (eval env) args) (eval_kw env kwargs)) Rb).
    unfold plain_call, pbind_val. destruct (plain_exec body _) as [o l1]. cbn [fst] in *.
    destruct o as [v|ex|]; auto. specialize (IHk (env ++ [v]) Rk). destruct (plain_exec k _) as [o2 l2]. exact IHk.
  - destruct Rp as (Rb & Rk). specialize (IHb (body_env (map (eval env) args) (eval_kw env kwargs)) Rb).
    unfold plain_call, pbind_val. destruct (plain_exec body _) as [o l1]. cbn [fst] in *.
    destruct o as [v|ex|]; auto. specialize (IHk (env ++ [v]) Rk). destruct (plain_exec k _) as [o2 l2]. exact IHk.
  - destruct Rp as (R1 & Rh). specialize (IH1 env R1). unfold pbind_exn. destruct (plain_exec c1 env) as [o l1]. cbn [fst] in *.
    destruct o as [v|ex|]; auto. specialize (IHh env Rh). destruct (plain_exec h env) as [o2 l2]. exact IHh.
  - destruct Rp.
  - destruct Rp.
  - destruct Rp as [_ Rk]. auto.
  - destruct Rp.
Qed.

Lemma rec_exec_user P c env s : replayable c -> user_outcome (fst (fst (rec_exec P c env s))).
Proof.
  intros Rp. pose proof (rec_transparent P c env s) as T. pose proof (plain_exec_user c env Rp) as Hu.
  unfold agrees_plain in T. destruct (rec_exec P c env s) as [[o s1] l]. rewrite T in Hu. exact Hu.
Qed.

Section ReproduceRun.
  Variable draws : nat -> Q.

  (** the same at the level of decorated-operation run + play(): what Playback.playback_outputs holds equals,
      entry for entry, what Playback.recorded_outputs holds, and play() returns normally *)
  Theorem replay_reproduces_run P op s w en' :
    idle s -> replayable (op_body op) ->
    let '(ob, w') := record_run draws true P op false s w in
    let '(o, s1, l0) := rec_exec P (op_body op) [] (mk_rst true true false [] false) in
    let l := l0 ++ op_writes o in
    (exists d m, List.In (CSave (w_next w) d m) (ob_cass ob)) -> o <> OInt ->
    functional (writes_of l) -> (forall k d, List.In (k, d) (writes_of l) -> canon_datum d = d) ->
    let '(ob2, w2) := play_run en' (w_next w) (PfOp op) (ob_state ob) w' in
    ob_outcome ob2 = OVal VNone /\ w2 = w' /\
    (forall k d, List.In (k, d) (ob_pbouts ob2) <-> List.In (k, d) (ob_recouts ob2)).
  Proof.
    intros Id Rp. pose proof Id as (A & Fo & Co & Ic).
    pose proof (record_run_spec draws true P op false s w A) as Sp.
    destruct (record_run draws true P op false s w) as [ob w']. cbn [negb orb] in Sp.
    destruct (p_skipped P) eqn:Sk.
    { destruct (rec_exec P (op_body op) [] (set_enabled true s)) as [[o1 s1'] l1].
      destruct Sp as (_ & _ & C & _). destruct (rec_exec P (op_body op) [] (mk_rst true true false [] false)) as [[o s1] l0].
      cbv zeta. intros (d & m & I). rewrite C in I. destruct I. }
    rewrite Fo, Co, Ic in Sp.
    pose proof (replay_reproduces P (op_body op) (mk_rst true true false [] false)) as RR.
    pose proof (rec_exec_user P (op_body op) [] (mk_rst true true false [] false) Rp) as Hu.
    destruct (rec_exec P (op_body op) [] (mk_rst true true false [] false)) as [[o s1] l0]. cbn [fst] in Hu.
    cbv zeta. intros (d & m & I) N F Cn.
    destruct Sp as (Eo & _ & _ & _ & Sp).
    destruct (active s1) eqn:A1.
    - destruct Sp as (B & St & Sp). destruct (should_sample draws (w_dpos w) P (force s1)) as [keep used].
      destruct Sp as (_ & Sp). destruct keep.
      + cbv zeta in Sp. change (match o with OVal v => [EWrite OPKEY (DOut [v] [])] | OExn (EUser ty) => [EWrite OPKEY (DOpExn ty)] | _ => [] end)
          with (op_writes o) in Sp. cbn [orb] in Sp.
        destruct (negb (stored_encodable _)).
        * destruct Sp as (C & _). rewrite C in I. cbn in I. destruct I as [I|[I|[]]]; discriminate.
        * destruct Sp as (C & Ws). unfold play_run. rewrite Ws. cbn [find_saved]. rewrite Nat.eqb_refl.
          rewrite St. cbn [counter enabled idle_of set_enabled fetch fst].
          specialize (RR en' Rp ltac:(unfold intercepting; cbn; auto) B N F Cn). cbn [counter] in RR.
          change (map (fun kd : str * datum => (fst kd, canon_datum (snd kd))) (snapshot_of (l0 ++ op_writes o)))
            with (fetched (snapshot_of (l0 ++ op_writes o))).
          destruct (play_exec (fetched (snapshot_of (l0 ++ op_writes o))) (op_body op) [] (mk_pst [] en')) as [[o' ps'] l'].
          destruct RR as (-> & _ & _ & Out).
          destruct o as [v|[ty| | | | |]|]; try (exfalso; exact Hu); try (exfalso; apply N; reflexivity);
            cbn [ob_outcome ob_pbouts ob_recouts fst snd]; repeat split; auto; apply Out.
      + destruct Sp as (C & _). rewrite C in I. cbn in I. destruct I as [I|[I|[]]]; discriminate.
    - destruct Sp as (_ & _ & _ & _ & C & _). rewrite C in I. cbn in I. destruct I as [I|[I|[]]]; discriminate.
  Qed.
End ReproduceRun.
