(** Model B, part 1: the first-order program DSL shared by the Coq model and the Python driver
    (harness/impl/recorder_driver.py builds real decorated classes from the same terms).
    Definitions only. *)
From Playback Require Import Base.Str Values.PyVal Values.Codec Values.KeyFormat.
From Coq Require Import QArith.
Open Scope list_scope.

(** expressions: a literal or the n-th value bound so far (None when out of range: DSL semantics,
    the driver does the same) *)
Inductive expr := Lit (v : pyval) | Var (n : nat).
Definition eval (env : list pyval) (e : expr) : pyval :=
  match e with Lit v => v | Var n => nth n env VNone end.

(** exceptions that can travel through a run *)
Inductive exn :=
| EUser (ty : str)        (* an ordinary exception (type name); what user code raises *)
| EKeyMissing             (* playback.exceptions.RecordingKeyError *)
| EKeyCreation            (* InputInterceptionKeyCreationError *)
| ENoSuchRecording        (* NoSuchRecording *)
| EAssertion              (* AssertionError raised by the framework *)
| EOutside.               (* the run left the modelled domain (never produced by the generators) *)

Inductive outcome := OVal (v : pyval) | OExn (e : exn) | OInt.   (* OInt: a non-Exception BaseException *)

(** what [raise <type>()] in service code raises: service code may itself raise a framework-typed exception
    (e.g. NoSuchRecording out of a cassette lookup made by an intercepted function) *)
Definition exn_of_name (ty : str) : exn :=
  if str_eqb ty (U"NoSuchRecording") then ENoSuchRecording else EUser ty.

(** data handlers (playback/interception/*.py): functions of (value, full positional args, kwargs);
    None = the handler raises *)
Record ihandler := {
  ih_prep : pyval -> list pyval -> list (str * pyval) -> option pyval;     (* prepare_input_for_recording *)
  ih_restore : pyval -> list pyval -> list (str * pyval) -> option pyval   (* restore_input_from_recording *)
}.
Record ohandler := {
  oh_prep : list pyval -> list (str * pyval) -> option pyval               (* prepare_output_for_recording *)
}.

Inductive resolver :=
| RNone
| RArg (i : nat)          (* alias_params_resolver returns {"p": args[i]}; args[i] must be a str, else it raises *)
| RRaises.

Inductive vmiss :=
| VMNone
| VMLit (v : pyval)       (* value_when_missing=v  (None means "not configured") *)
| VMCall (f : list pyval -> list (str * pyval) -> pyval).   (* a callable substitute, applied to the call's arguments *)

Inductive fallbacks :=
| FbNone
| FbList (l : list str)   (* a list of aliases *)
| FbFun (l : list str)    (* a function returning the list *)
| FbRaises.               (* a function that raises *)

Record icfg := {
  i_alias : str;
  i_resolver : resolver;
  i_cap : capture;
  i_static : bool;
  i_handler : option ihandler;
  i_prep_discards : bool;   (* the prepare handler itself calls discard_recording() before it returns *)
  i_run_missing : bool;
  i_vmiss : vmiss;
  i_fallbacks : fallbacks
}.

Record ocfg := {
  o_alias : str;
  o_static : bool;
  o_handler : option ohandler;
  o_fail : bool;            (* fail_on_no_recorded_result *)
  o_default : pyval         (* default_result_when_not_recorded *)
}.

(** One syntactic class for operation bodies and for the bodies of intercepted functions
    (inlined at the call: every recursion is structural).  A body runs in an environment
    holding the call's evaluated positional then keyword argument values. *)
Inductive code :=
| Ret (e : expr)
| Raise (ty : str)
| Interrupt
| Inp (c : icfg) (body : code) (args : list expr) (kwargs : list (str * expr)) (k : code)
| Out (c : ocfg) (body : code) (args : list expr) (kwargs : list (str * expr)) (k : code)
| Try (c h : code)                       (* try: c  except Exception: h *)
| Spawn (c : code) (k : code)            (* t = Thread(target=c); t.start(); t.join(); k   - a worker thread inside the operation;
                                            whatever c returns or raises dies with the thread *)
| Discard (k : code)                     (* tape_recorder.discard_recording() *)
| Force (k : code)                       (* tape_recorder.force_sample_recording() *)
| Enable (b : bool) (k : code)           (* tape_recorder.enable_recording() / disable_recording() *)
| RecordData (key : str) (e : expr) (k : code)
| PlayData (key : str) (k : code).

(** what a recording holds under a key *)
Inductive datum :=
| DVal (v : pyval)                                   (* {'value': v} *)
| DExn (e : exn)                                     (* {'exception': ex} *)
| DOut (args : list pyval) (kwargs : list (str * pyval))   (* {'args': [...], 'kwargs': {...}} *)
| DOpExn (ty : str)                                  (* {'args': [<exception of type ty>], 'kwargs': {}} *)
| DData (v : pyval).                                 (* a user value (record_data) or a handler-prepared output *)

(** per-class recording parameters (RecordingParameters, tape_recorder.py:990-1007) *)
Record prm := {
  p_rate : Q;
  p_ignore : bool;          (* ignore_enforced_sampling *)
  p_skipped : bool;
  p_copy : bool             (* copy_data_on_intercepion *)
}.

Inductive extractor :=
| XNone
| XDict (d : list (str * pyval))      (* returns a dict (or anything dict() accepts giving these items) *)
| XRaises
| XJunk.                              (* returns something dict() rejects, e.g. 7 or [('k', 1), 7] *)

Record opdef := {
  op_class : str;                     (* class name = category *)
  op_classlevel : bool;               (* class_operation instead of operation *)
  op_extractor : extractor;
  op_body : code
}.

(** the event log of a run (writer style: the log of c1;c2 is literally l1 ++ l2) *)
Inductive ev :=
| EBegin (alias : str) (args : list pyval) (kwargs : list (str * pyval))   (* a call site calls an intercepted function *)
| EBody (alias : str) (args : list pyval) (kwargs : list (str * pyval))    (* a wrapped body starts executing *)
| ECall (alias : str) (o : outcome)                                        (* the call returns o to its caller *)
| ESent (alias : str) (d : option datum)                                   (* an output decorator intercepts this call; d = what it captures (None: the handler failed) *)
| EAnswer (alias : str) (o : outcome)                                      (* an intercepting decorator hands o to the caller (ghost: specification only) *)
| EWrite (k : str) (d : datum)                                             (* active_recording[k] = d *)
| EAbort                                                                   (* tape_cassette.abort_recording(active) *)
| EPbOut (k : str) (d : datum).                                            (* playback_outputs.append(Output(k, d)) *)

Definition is_trace (e : ev) : bool :=
  match e with EBegin _ _ _ | EBody _ _ _ | ECall _ _ => true | _ => false end.
Definition trace_of (l : list ev) : list ev := filter is_trace l.

Definition write_of (e : ev) : list (str * datum) := match e with EWrite k d => [(k, d)] | _ => [] end.
Definition writes_of (l : list ev) : list (str * datum) := flat_map write_of l.
Definition pbout_of (e : ev) : list (str * datum) := match e with EPbOut k d => [(k, d)] | _ => [] end.
Definition pbouts_of (l : list ev) : list (str * datum) := flat_map pbout_of l.
Definition sent_one (e : ev) : list (str * option datum) := match e with ESent a d => [(a, d)] | _ => [] end.
Definition sent_of (l : list ev) : list (str * option datum) := flat_map sent_one l.
Definition answer_of (e : ev) : list (str * outcome) := match e with EAnswer a o => [(a, o)] | _ => [] end.
Definition answers_of (l : list ev) : list (str * outcome) := flat_map answer_of l.
Definition is_abort (e : ev) : bool := match e with EAbort => true | _ => false end.
Definition aborts_of (l : list ev) : nat := length (filter is_abort l).

(** the instance placeholder at position 0 of the positional tuple of an instance function *)
Definition SELF : pyval := VStr (U"SELF").
Definition full_args (static : bool) (a : list pyval) : list pyval := if static then a else SELF :: a.

Definition eval_kw (env : list pyval) (kw : list (str * expr)) : list (str * pyval) :=
  map (fun ke => (fst ke, eval env (snd ke))) kw.
Definition body_env (a : list pyval) (kw : list (str * pyval)) : list pyval := a ++ map snd kw.
