(** Safety of the repaired recorder methods under every interleaving of any number of threads
    (Owicki-Gries style: a local invariant per thread, a pairwise invariant, a global invariant; the
    three preservation checks range over finite domains and are decided by computation, then lifted),
    and refutation of the same statements for the code before the repair. *)
From Playback Require Import Recorder.Threads.
From Coq Require Import List Bool Arith Lia.
Import ListNotations.

(** ---- finite domains ---- *)
Definition all_bool := [true; false].
Definition all_meth := [MDiscard; MFinalise; MForce; MRecordData; MPost; MCurrentId].
Definition all_status := [Running; Done; Crashed].
Definition MAXPC := 8.
Definition all_shared : list shared :=
  flat_map (fun a => flat_map (fun p => flat_map (fun f => map (fun n => mk_sh a p f n) [0; 1; 2]) all_bool) all_bool) all_bool.
Definition all_local : list local :=
  flat_map (fun m => flat_map (fun c => flat_map (fun a => flat_map (fun p => map (fun s => mk_loc m c a p s) all_status)
    all_bool) all_bool) (seq 0 (S MAXPC))) all_meth.

Definition sh_ok (sh : shared) : bool := Nat.leb (fin sh) 2.
Definition loc_ok (l : local) : bool := Nat.leb (pc l) MAXPC.

Lemma in_all_bool b : In b all_bool. Proof. destruct b; cbn; auto. Qed.
Lemma in_all_shared sh : sh_ok sh = true -> In sh all_shared.
Proof.
  destruct sh as [a p f n]. unfold sh_ok; cbn [fin]. intros H. apply Nat.leb_le in H.
  unfold all_shared. apply in_flat_map. exists a. split; [apply in_all_bool|].
  apply in_flat_map. exists p. split; [apply in_all_bool|].
  apply in_flat_map. exists f. split; [apply in_all_bool|].
  apply in_map_iff. exists n. split; [reflexivity|]. cbn. lia.
Qed.
Lemma in_all_local l : loc_ok l = true -> In l all_local.
Proof.
  destruct l as [m c a p s]. unfold loc_ok; cbn [pc]. intros H. apply Nat.leb_le in H.
  unfold all_local. apply in_flat_map. exists m. split; [destruct m; cbn; auto 10|].
  apply in_flat_map. exists c. split; [apply in_seq; unfold MAXPC in *; lia|].
  apply in_flat_map. exists a. split; [apply in_all_bool|].
  apply in_flat_map. exists p. split; [apply in_all_bool|].
  apply in_map_iff. exists s. split; [reflexivity|]. destruct s; cbn; auto.
Qed.

(** ---- the invariants (Fixed variant) ---- *)
(** the thread holds the detached recording and has not handed it to the cassette yet *)
Definition pending (l : local) : bool :=
  match st l, lm l with
  | Running, MDiscard | Running, MFinalise => Nat.leb 1 (pc l)
  | _, _ => false
  end.

Definition G (sh : shared) : bool :=
  Bool.eqb (ar sh) (ap sh) && (ar sh || negb (fs sh)) && Nat.leb (fin sh) 1 && (negb (ar sh) || Nat.eqb (fin sh) 0).
Definition L (l : local) (sh : shared) : bool :=
  negb (crashed l) && loc_ok l &&
  (negb (pending l) || (negb (ar sh) && Nat.eqb (fin sh) 0 && ra l &&
                        (match lm l with MFinalise => rp l | _ => true end))).
Definition P (l1 l2 : local) : bool := negb (pending l1 && pending l2).

(** the three checks, each over a finite domain *)
Definition check_actor : bool :=
  forallb (fun sh => forallb (fun l =>
    implb (G sh && L l sh)
          (let '(l', sh') := step Fixed l sh in G sh' && L l' sh' && sh_ok sh')) all_local) all_shared.
Definition check_interference : bool :=
  forallb (fun sh => forallb (fun l => forallb (fun l2 =>
    implb (G sh && L l sh && L l2 sh && P l l2)
          (let '(l', sh') := step Fixed l sh in L l2 sh' && P l' l2)) all_local) all_local) all_shared.
Definition check_begin : bool :=
  forallb (fun sh => forallb (fun m => forallb (fun l2 => L (start m) sh && P (start m) l2 && P l2 (start m)) all_local) all_meth) all_shared.

Lemma check_actor_ok : check_actor = true. Proof. vm_compute. reflexivity. Qed.
Lemma check_interference_ok : check_interference = true. Proof. vm_compute. reflexivity. Qed.
Lemma check_begin_ok : check_begin = true. Proof. vm_compute. reflexivity. Qed.

Lemma G_sh_ok sh : G sh = true -> sh_ok sh = true.
Proof. unfold G, sh_ok. intros H. repeat (apply andb_prop in H; destruct H as [H ?]). apply Nat.leb_le. apply Nat.leb_le in H1. lia. Qed.
Lemma L_loc_ok l sh : L l sh = true -> loc_ok l = true.
Proof. unfold L. intros H. repeat (apply andb_prop in H; destruct H as [H ?]). assumption. Qed.

Lemma actor_step sh l : G sh = true -> L l sh = true ->
  let '(l', sh') := step Fixed l sh in G sh' = true /\ L l' sh' = true.
Proof.
  intros HG HL. pose proof check_actor_ok as C. unfold check_actor in C.
  rewrite forallb_forall in C. specialize (C sh (in_all_shared sh (G_sh_ok sh HG))).
  rewrite forallb_forall in C. specialize (C l (in_all_local l (L_loc_ok l sh HL))).
  rewrite HG, HL in C. cbn [andb implb] in C. destruct (step Fixed l sh) as [l' sh'].
  apply andb_prop in C. destruct C as [C _]. apply andb_prop in C. exact C.
Qed.

Lemma other_step sh l l2 : G sh = true -> L l sh = true -> L l2 sh = true -> P l l2 = true ->
  let '(l', sh') := step Fixed l sh in L l2 sh' = true /\ P l' l2 = true.
Proof.
  intros HG HL HL2 HP. pose proof check_interference_ok as C. unfold check_interference in C.
  rewrite forallb_forall in C. specialize (C sh (in_all_shared sh (G_sh_ok sh HG))).
  rewrite forallb_forall in C. specialize (C l (in_all_local l (L_loc_ok l sh HL))).
  rewrite forallb_forall in C. specialize (C l2 (in_all_local l2 (L_loc_ok l2 sh HL2))).
  rewrite HG, HL, HL2, HP in C. cbn [andb implb] in C. destruct (step Fixed l sh) as [l' sh'].
  apply andb_prop in C. exact C.
Qed.

Lemma begin_ok sh m l2 : sh_ok sh = true -> loc_ok l2 = true ->
  L (start m) sh = true /\ P (start m) l2 = true /\ P l2 (start m) = true.
Proof.
  intros Hs Hl. pose proof check_begin_ok as C. unfold check_begin in C.
  rewrite forallb_forall in C. specialize (C sh (in_all_shared sh Hs)).
  rewrite forallb_forall in C. assert (Im : In m all_meth) by (destruct m; cbn; auto 10). specialize (C m Im).
  rewrite forallb_forall in C. specialize (C l2 (in_all_local l2 Hl)).
  apply andb_prop in C. destruct C as [C C3]. apply andb_prop in C. destruct C as [C1 C2]. auto.
Qed.

Lemma P_sym a b : P a b = P b a.
Proof. unfold P. rewrite andb_comm. reflexivity. Qed.

(** ---- the invariant of a whole configuration ---- *)
Definition Inv (c : config) : Prop :=
  let '(sh, ls) := c in
  G sh = true /\ (forall i l, nth_error ls i = Some l -> L l sh = true) /\
  (forall i j li lj, i <> j -> nth_error ls i = Some li -> nth_error ls j = Some lj -> P li lj = true).

Lemma nth_upd_same {A} i (x : A) l y : nth_error l i = Some y -> nth_error (upd i x l) i = Some x.
Proof. revert l. induction i as [|i IH]; intros [|h t]; cbn; try discriminate; auto. Qed.
Lemma nth_upd_other {A} i j (x : A) l : i <> j -> nth_error (upd i x l) j = nth_error l j.
Proof.
  revert j l. induction i as [|i IH]; intros [|j] [|h t] N; cbn; auto; try congruence.
Qed.

Lemma inv_action a c : Inv c -> Inv (do_action Fixed a c).
Proof.
  destruct c as [sh ls]. intros (HG & HL & HP). destruct a as [i|i m]; cbn [do_action].
  - destruct (nth_error ls i) as [l|] eqn:Ei; [|cbn; auto].
    pose proof (actor_step sh l HG (HL i l Ei)) as A.
    destruct (step Fixed l sh) as [l' sh'] eqn:Es. destruct A as [HG' HL'].
    cbn. split; [exact HG'|]. split.
    + intros j lj Ej. destruct (Nat.eq_dec i j) as [<-|N].
      * rewrite (nth_upd_same i l' ls l Ei) in Ej. injection Ej as <-. exact HL'.
      * rewrite (nth_upd_other i j l' ls N) in Ej.
        pose proof (other_step sh l lj HG (HL i l Ei) (HL j lj Ej) (HP i j l lj N Ei Ej)) as O. rewrite Es in O. apply O.
    + intros j k lj lk Njk Ej Ek.
      destruct (Nat.eq_dec i j) as [<-|Nij]; destruct (Nat.eq_dec i k) as [<-|Nik]; try congruence.
      * rewrite (nth_upd_same i l' ls l Ei) in Ej. injection Ej as <-.
        rewrite (nth_upd_other i k l' ls Nik) in Ek.
        pose proof (other_step sh l lk HG (HL i l Ei) (HL k lk Ek) (HP i k l lk Nik Ei Ek)) as O. rewrite Es in O. apply O.
      * rewrite (nth_upd_same i l' ls l Ei) in Ek. injection Ek as <-.
        rewrite (nth_upd_other i j l' ls Nij) in Ej. rewrite P_sym.
        pose proof (other_step sh l lj HG (HL i l Ei) (HL j lj Ej) (HP i j l lj Nij Ei Ej)) as O. rewrite Es in O. apply O.
      * rewrite (nth_upd_other i j l' ls Nij) in Ej. rewrite (nth_upd_other i k l' ls Nik) in Ek.
        exact (HP j k lj lk Njk Ej Ek).
  - destruct (nth_error ls i) as [l|] eqn:Ei; [|cbn; auto]. destruct (st l) eqn:Est; cbn; auto.
    split; [exact HG|]. split.
    + intros j lj Ej. destruct (Nat.eq_dec i j) as [<-|N].
      * rewrite (nth_upd_same i _ ls l Ei) in Ej. injection Ej as <-.
        apply (begin_ok sh m l (G_sh_ok sh HG) (L_loc_ok l sh (HL i l Ei))).
      * rewrite (nth_upd_other i j _ ls N) in Ej. eauto.
    + intros j k lj lk Njk Ej Ek.
      destruct (Nat.eq_dec i j) as [<-|Nij]; destruct (Nat.eq_dec i k) as [<-|Nik]; try congruence.
      * rewrite (nth_upd_same i _ ls l Ei) in Ej. injection Ej as <-. rewrite (nth_upd_other i k _ ls Nik) in Ek.
        apply (begin_ok sh m lk (G_sh_ok sh HG) (L_loc_ok lk sh (HL k lk Ek))).
      * rewrite (nth_upd_same i _ ls l Ei) in Ek. injection Ek as <-. rewrite (nth_upd_other i j _ ls Nij) in Ej.
        apply (begin_ok sh m lj (G_sh_ok sh HG) (L_loc_ok lj sh (HL j lj Ej))).
      * rewrite (nth_upd_other i j _ ls Nij) in Ej. rewrite (nth_upd_other i k _ ls Nik) in Ek.
        exact (HP j k lj lk Njk Ej Ek).
Qed.

Lemma inv_run sched : forall c, Inv c -> Inv (run Fixed sched c).
Proof.
  unfold run. induction sched as [|a sched IH]; intros c H; cbn [fold_left]; [exact H|].
  apply IH. apply inv_action. exact H.
Qed.

Lemma inv_init n : Inv (sh0, repeat idle_thread n).
Proof.
  cbn. split; [reflexivity|]. split.
  - intros i l E. apply nth_error_In in E. apply repeat_spec in E. subst. reflexivity.
  - intros i j li lj _ Ei Ej. apply nth_error_In in Ei. apply repeat_spec in Ei. subst. reflexivity.
Qed.

(** the repaired code: for any number of threads, each calling any sequence of the recorder's methods,
    under any schedule: no method ever fails on a vanished recording (nothing leaks into the service), the
    recording is handed to the cassette at most once, the force flag never outlives the recording, and the
    recording and its parameters vanish together *)
Theorem fixed_safe n sched :
  let '(sh, ls) := run Fixed sched (sh0, repeat idle_thread n) in
  (forall l, In l ls -> crashed l = false) /\ fin sh <= 1 /\ (ar sh = false -> fs sh = false) /\ ar sh = ap sh.
Proof.
  pose proof (inv_run sched _ (inv_init n)) as H. destruct (run Fixed sched (sh0, repeat idle_thread n)) as [sh ls].
  destruct H as (HG & HL & _). split.
  - intros l I. apply In_nth_error in I. destruct I as [i Ei]. specialize (HL i l Ei).
    unfold L in HL. repeat (apply andb_prop in HL; destruct HL as [HL ?]). destruct (crashed l); [discriminate|reflexivity].
  - unfold G in HG. repeat (apply andb_prop in HG; destruct HG as [HG ?]).
    repeat split.
    + apply Nat.leb_le. assumption.
    + intros A. rewrite A in *. destruct (fs sh); [discriminate|reflexivity].
    + apply eqb_prop. assumption.
Qed.

(** ---- exactly once: the recording is never lost ----
    At every moment the recording is still active, or some thread holds it (detached, not yet handed over),
    or it has been handed to the cassette exactly once. *)
Definition check_holder : bool :=
  forallb (fun sh => forallb (fun l =>
    implb (G sh && L l sh)
          (let '(l', sh') := step Fixed l sh in
           implb (ar sh) (ar sh' || pending l') &&
           implb (pending l) (pending l' || Nat.eqb (fin sh') 1) &&
           implb (Nat.eqb (fin sh) 1) (Nat.eqb (fin sh') 1))) all_local) all_shared.
Lemma check_holder_ok : check_holder = true. Proof. vm_compute. reflexivity. Qed.

Lemma holder_step sh l : G sh = true -> L l sh = true ->
  let '(l', sh') := step Fixed l sh in
  (ar sh = true -> ar sh' = true \/ pending l' = true) /\
  (pending l = true -> pending l' = true \/ fin sh' = 1) /\
  (fin sh = 1 -> fin sh' = 1).
Proof.
  intros HG HL. pose proof check_holder_ok as C. unfold check_holder in C.
  rewrite forallb_forall in C. specialize (C sh (in_all_shared sh (G_sh_ok sh HG))).
  rewrite forallb_forall in C. specialize (C l (in_all_local l (L_loc_ok l sh HL))).
  rewrite HG, HL in C. cbn [andb implb] in C. destruct (step Fixed l sh) as [l' sh'].
  apply andb_prop in C. destruct C as [C C3]. apply andb_prop in C. destruct C as [C1 C2].
  repeat split.
  - intros A. rewrite A in C1. cbn [implb] in C1. apply orb_prop in C1. exact C1.
  - intros A. rewrite A in C2. cbn [implb] in C2. apply orb_prop in C2. destruct C2 as [C2|C2]; [left; exact C2|right; apply Nat.eqb_eq; exact C2].
  - intros A. rewrite A in C3. cbn [Nat.eqb implb] in C3. apply Nat.eqb_eq. exact C3.
Qed.

Definition Held (c : config) : Prop :=
  let '(sh, ls) := c in
  ar sh = true \/ (exists i l, nth_error ls i = Some l /\ pending l = true) \/ fin sh = 1.

Lemma held_action a c : Inv c -> Held c -> Held (do_action Fixed a c).
Proof.
  destruct c as [sh ls]. intros (HG & HL & HP) HH. destruct a as [i|i m]; cbn [do_action].
  - destruct (nth_error ls i) as [l|] eqn:Ei; [|exact HH].
    pose proof (holder_step sh l HG (HL i l Ei)) as S.
    destruct (step Fixed l sh) as [l' sh'] eqn:Es. destruct S as (S1 & S2 & S3). cbn.
    destruct HH as [A|[(j & lj & Ej & Pj)|F]].
    + destruct (S1 A) as [A'|P']; [left; exact A'|].
      right; left. exists i, l'. split; [apply (nth_upd_same i l' ls l Ei)|exact P'].
    + destruct (Nat.eq_dec i j) as [<-|N].
      * rewrite Ei in Ej. injection Ej as <-. destruct (S2 Pj) as [P'|F'].
        -- right; left. exists i, l'. split; [apply (nth_upd_same i l' ls l Ei)|exact P'].
        -- right; right. exact F'.
      * right; left. exists j, lj. split; [rewrite (nth_upd_other i j l' ls N); exact Ej|exact Pj].
    + right; right. exact (S3 F).
  - destruct (nth_error ls i) as [l|] eqn:Ei; [|exact HH]. destruct (st l) eqn:Est; try exact HH. cbn.
    destruct HH as [A|[(j & lj & Ej & Pj)|F]]; [left; exact A| |right; right; exact F].
    right; left. exists j, lj. split; [|exact Pj].
    destruct (Nat.eq_dec i j) as [<-|N]; [|rewrite (nth_upd_other i j _ ls N); exact Ej].
    rewrite Ei in Ej. injection Ej as <-. unfold pending in Pj. rewrite Est in Pj. discriminate.
Qed.

Lemma held_run sched : forall c, Inv c -> Held c -> Held (run Fixed sched c).
Proof.
  unfold run. induction sched as [|a sched IH]; intros c HI HH; cbn [fold_left]; [exact HH|].
  apply IH; [apply inv_action; exact HI|apply held_action; assumption].
Qed.

Definition quiescent (ls : list local) : Prop := forall l, In l ls -> st l = Done.

(** the repaired code: for any number of threads and any schedule, once the recording is no longer active
    and every thread is between calls, the recording has been handed to the cassette EXACTLY once
    (with [fixed_safe]: never twice at any moment, and never lost) *)
Theorem fixed_exactly_once n sched :
  let '(sh, ls) := run Fixed sched (sh0, repeat idle_thread n) in
  ar sh = false -> quiescent ls -> fin sh = 1.
Proof.
  pose proof (held_run sched _ (inv_init n)) as H.
  assert (H0 : Held (sh0, repeat idle_thread n)) by (left; reflexivity). specialize (H H0).
  destruct (run Fixed sched (sh0, repeat idle_thread n)) as [sh ls]. intros A Q.
  destruct H as [A'|[(j & lj & Ej & Pj)|F]]; [congruence| |exact F].
  apply nth_error_In in Ej. specialize (Q lj Ej). unfold pending in Pj. rewrite Q in Pj. discriminate.
Qed.

(** corollaries in the form the property files state them *)
Theorem fixed_finalised_exactly_once n sched :
  let '(sh, ls) := run Fixed sched (sh0, repeat idle_thread n) in
  fin sh <= 1 /\ (ar sh = false -> quiescent ls -> fin sh = 1).
Proof.
  pose proof (fixed_safe n sched) as S. pose proof (fixed_exactly_once n sched) as E.
  destruct (run Fixed sched (sh0, repeat idle_thread n)) as [sh ls]. split; [apply S|exact E].
Qed.

Theorem fixed_idle_when_gone n sched :
  let '(sh, _) := run Fixed sched (sh0, repeat idle_thread n) in
  ar sh = false -> ap sh = false /\ fs sh = false.
Proof.
  pose proof (fixed_safe n sched) as S.
  destruct (run Fixed sched (sh0, repeat idle_thread n)) as [sh ls].
  destruct S as (_ & _ & F & E). intros A. split; [rewrite <- E; exact A|exact (F A)].
Qed.

(** ---- the code before the repair ---- *)
Definition two := [start MDiscard; start MDiscard].

(** two racing discards: the second one dies on the vanished recording (AttributeError into the service) *)
Theorem legacy_discard_race_crashes :
  exists sched, let '(_, ls) := run Legacy sched (sh0, two) in existsb crashed ls = true.
Proof. exists [AStep 0; AStep 1; AStep 1; AStep 1; AStep 1; AStep 1; AStep 0]. vm_compute. reflexivity. Qed.

(** two racing discards: the recording is aborted twice *)
Theorem legacy_double_finalisation :
  exists sched, let '(sh, _) := run Legacy sched (sh0, two) in fin sh = 2.
Proof. exists [AStep 0; AStep 0; AStep 0; AStep 1; AStep 1; AStep 1; AStep 0; AStep 1]. vm_compute. reflexivity. Qed.

(** a discard racing with force_sample_recording: the force flag outlives the recording (sticky forcing) *)
Theorem legacy_force_outlives_recording :
  exists sched, let '(sh, _) := run Legacy sched (sh0, [start MForce; start MDiscard]) in ar sh = false /\ fs sh = true.
Proof.
  exists [AStep 0; AStep 0; AStep 0; AStep 1; AStep 1; AStep 1; AStep 1; AStep 1; AStep 1; AStep 1; AStep 0]. vm_compute. auto.
Qed.

(** a discard racing with record_data / an output capture / the end of the recording scope / current_recording_id *)
Theorem legacy_other_races_crash :
  forall m, In m [MRecordData; MFinalise; MForce; MCurrentId] ->
  exists sched, let '(_, ls) := run Legacy sched (sh0, [start m; start MDiscard]) in existsb crashed ls = true.
Proof.
  intros m [<-|[<-|[<-|[<-|[]]]]].
  - exists [AStep 0; AStep 1; AStep 1; AStep 1; AStep 1; AStep 1; AStep 0]. vm_compute. reflexivity.
  - exists [AStep 0; AStep 1; AStep 1; AStep 1; AStep 1; AStep 1; AStep 1; AStep 0; AStep 0; AStep 0; AStep 0; AStep 0; AStep 0; AStep 0].
    vm_compute. reflexivity.
  - exists [AStep 0; AStep 1; AStep 1; AStep 1; AStep 1; AStep 1; AStep 1; AStep 0]. vm_compute. reflexivity.
  - exists [AStep 0; AStep 1; AStep 1; AStep 1; AStep 1; AStep 1; AStep 0]. vm_compute. reflexivity.
Qed.
