(** Safety of the repaired recorder methods under every interleaving of any number of threads
    (Owicki-Gries style: a local invariant per thread, a pairwise invariant, a global invariant; the
    three preservation checks range over finite domains and are decided by computation, then lifted),
    and refutation of the same statements for the code before the repair. *)
From Playback Require Import Recorder.Threads.
From Coq Require Import List Bool Arith Lia.
Import ListNotations.

(** ---- finite domains ---- *)
Definition all_bool := [true; false].
Definition all_meth := [MDiscard; MFinalise; MForce; MRecordData; MPost; MCurrentId].
Definition all_status := [Running; Done; Crashed].
Definition MAXPC := 8.
Definition all_shared : list shared :=
  flat_map (fun a => flat_map (fun p => flat_map (fun f => map (fun n => mk_sh a p f n) [0; 1; 2]) all_bool) all_bool) all_bool.
Definition all_local : list local :=
  flat_map (fun m => flat_map (fun c => flat_map (fun a => flat_map (fun p => map (fun s => mk_loc m c a p s) all_status)
    all_bool) all_bool) (seq 0 (S MAXPC))) all_meth.

Definition sh_ok (sh : shared) : bool := Nat.leb (fin sh) 2.
Definition loc_ok (l : local) : bool := Nat.leb (pc l) MAXPC.

Lemma in_all_bool b : In b all_bool. Proof. destruct b; cbn; auto. Qed.
Lemma in_all_shared sh : sh_ok sh = true -> In sh all_shared.
Proof.
  destruct sh as [a p f n]. unfold sh_ok; cbn [fin]. intros H. apply Nat.leb_le in H.
  unfold all_shared. apply in_flat_map. exists a. split; [apply in_all_bool|].
  apply in_flat_map. exists p. split; [apply in_all_bool|].
  apply in_flat_map. exists f. split; [apply in_all_bool|].
  apply in_map_iff. exists n. split; [reflexivity|]. cbn. lia.
Qed.
Lemma in_all_local l : loc_ok l = true -> In l all_local.
Proof.
  destruct l as [m c a p s]. unfold loc_ok; cbn [pc]. intros H. apply Nat.leb_le in H.
  unfold all_local. apply in_flat_map. exists m. split; [destruct m; cbn; auto 10|].
  apply in_flat_map. exists c. split; [apply in_seq; unfold MAXPC in *; lia|].
  apply in_flat_map. exists a. split; [apply in_all_bool|].
  apply in_flat_map. exists p. split; [apply in_all_bool|].
  apply in_map_iff. exists s. split; [reflexivity|]. destruct s; cbn; auto.
Qed.

(** ---- the invariants (Fixed variant) ---- *)
(** the thread holds the detached recording and has not handed it to the cassette yet *)
Definition pending (l : local) : bool :=
  match st l, lm l with
  | Running, MDiscard | Running, MFinalise => Nat.leb 1 (pc l)
  | _, _ => false
  end.

Definition G (sh : shared) : bool :=
  Bool.eqb (ar sh) (ap sh) && (ar sh || negb (fs sh)) && Nat.leb (fin sh) 1 && (negb (ar sh) || Nat.eqb (fin sh) 0).
Definition L (l : local) (sh : shared) : bool :=
  negb (crashed l) && loc_ok l &&
  (negb (pending l) || (negb (ar sh) && Nat.eqb (fin sh) 0 && ra l &&
                        (match lm l with MFinalise => rp l | _ => true end))).
Definition P (l1 l2 : local) : bool := negb (pending l1 && pending l2).

(** the three checks, each over a finite domain *)
Definition check_actor : bool :=
  forallb (fun sh => forallb (fun l =>
    implb (G sh && L l sh)
          (let '(l', sh') := step Fixed l sh in G sh' && L l' sh' && sh_ok sh')) all_local) all_shared.
Definition check_interference : bool :=
  forallb (fun sh => forallb (fun l => forallb (fun l2 =>
    implb (G sh && L l sh && L l2 sh && P l l2)
          (let '(l', sh') := step Fixed l sh in L l2 sh' && P l' l2)) all_local) all_local) all_shared.
Definition check_begin : bool :=
  forallb (fun sh => forallb (fun m => forallb (fun l2 => L (start m) sh && P (start m) l2 && P l2 (start m)) all_local) all_meth) all_shared.

Lemma check_actor_ok : check_actor = true. Proof. vm_compute. reflexivity. Qed.
Lemma check_interference_ok : check_interference = true. Proof. vm_compute. reflexivity. Qed.
Lemma check_begin_ok : check_begin = true. Proof. vm_compute. reflexivity. Qed.

Lemma G_sh_ok sh : G sh = true -> sh_ok sh = true.
Proof. unfold G, sh_ok. intros H. repeat (apply andb_prop in H; destruct H as [H ?]). apply Nat.leb_le. apply Nat.leb_le in H1. lia. Qed.
Lemma L_loc_ok l sh : L l sh = true -> loc_ok l = true.
Proof. unfold L. intros H. repeat (apply andb_prop in H; destruct H as [H ?]). assumption. Qed.

Lemma actor_step sh l : G sh = true -> L l sh = true ->
  let '(l', sh') := step Fixed l sh in G sh' = true /\ L l' sh' = true.
Proof.
  intros HG HL. pose proof check_actor_ok as C. unfold check_actor in C.
  rewrite forallb_forall in C. specialize (C sh (in_all_shared sh (G_sh_ok sh HG))).
  rewrite forallb_forall in C. specialize (C l (in_all_local l (L_loc_ok l sh HL))).
  rewrite HG, HL in C. cbn [andb implb] in C. destruct (step Fixed l sh) as [l' sh'].
  apply andb_prop in C. destruct C as [C _]. apply andb_prop in C. exact C.
Qed.

Lemma other_step sh l l2 : G sh = true -> L l sh = true -> L l2 sh = true -> P l l2 = true ->
  let '(l', sh') := step Fixed l sh in L l2 sh' = true /\ P l' l2 = true.
Proof.
  intros HG HL HL2 HP. pose proof check_interference_ok as C. unfold check_interference in C.
  rewrite forallb_forall in C. specialize (C sh (in_all_shared sh (G_sh_ok sh HG))).
  rewrite forallb_forall in C. specialize (C l (in_all_local l (L_loc_ok l sh HL))).
  rewrite forallb_forall in C. specialize (C l2 (in_all_local l2 (L_loc_ok l2 sh HL2))).
  rewrite HG, HL, HL2, HP in C. cbn [andb implb] in C. destruct (step Fixed l sh) as [l' sh'].
  apply andb_prop in C. exact C.
Qed.

Lemma begin_ok sh m l2 : sh_ok sh = true -> loc_ok l2 = true ->
  L (start m) sh = true /\ P (start m) l2 = true /\ P l2 (start m) = true.
Proof.
  intros Hs Hl. pose proof check_begin_ok as C. unfold check_begin in C.
  rewrite forallb_forall in C. specialize (C sh (in_all_shared sh Hs)).
  rewrite forallb_forall in C. assert (Im : In m all_meth) by (destruct m; cbn; auto 10). specialize (C m Im).
  rewrite forallb_forall in C. specialize (C l2 (in_all_local l2 Hl)).
  apply andb_prop in C. destruct C as [C C3]. apply andb_prop in C. destruct C as [C1 C2]. auto.
Qed.

Lemma P_sym a b : P a b = P b a.
Proof. unfold P. rewrite andb_comm. reflexivity. Qed.

(** ---- the invariant of a whole configuration ---- *)
Definition Inv (c : config) : Prop :=
  let '(sh, ls) := c in
  G sh = true /\ (forall i l, nth_error ls i = Some l -> L l sh = true) /\
  (forall i j li lj, i <> j -> nth_error ls i = Some li -> nth_error ls j = Some lj -> P li lj = true).

Lemma nth_upd_same {A} i (x : A) l y : nth_error l i = Some y -> nth_error (upd i x l) i = Some x.
Proof. revert l. induction i as [|i IH]; intros [|h t]; cbn; try discriminate; auto. Qed.
Lemma nth_upd_other {A} i j (x : A) l : i <> j -> nth_error (upd i x l) j = nth_error l j.
Proof.
  revert j l. induction i as [|i IH]; intros [|j] [|h t] N; cbn; auto; try congruence.
  apply IH. congruence.
Qed.

Lemma inv_action a c : Inv c -> Inv (do_action Fixed a c).
Proof.
  destruct c as [sh ls]. intros (HG & HL & HP). destruct a as [i|i m]; cbn [do_action].
  - destruct (nth_error ls i) as [l|] eqn:Ei; [|cbn; auto].
    pose proof (actor_step sh l HG (HL i l Ei)) as A.
    destruct (step Fixed l sh) as [l' sh'] eqn:Es. destruct A as [HG' HL'].
    cbn. split; [exact HG'|]. split.
    + intros j lj Ej. destruct (Nat.eq_dec i j) as [<-|N].
      * rewrite (nth_upd_same i l' ls l Ei) in Ej. inversion Ej; subst. exact HL'.
      * rewrite (nth_upd_other i j l' ls N) in Ej.
        pose proof (other_step sh l lj HG (HL i l Ei) (HL j lj Ej) (HP i j l lj N Ei Ej)) as O. rewrite Es in O. apply O.
    + intros j k lj lk Njk Ej Ek.
      destruct (Nat.eq_dec i j) as [<-|Nij]; destruct (Nat.eq_dec i k) as [<-|Nik]; try congruence.
      * rewrite (nth_upd_same i l' ls l Ei) in Ej. inversion Ej; subst.
        rewrite (nth_upd_other i k l' ls Nik) in Ek.
        pose proof (other_step sh l lk HG (HL i l Ei) (HL k lk Ek) (HP i k l lk Nik Ei Ek)) as O. rewrite Es in O. apply O.
      * rewrite (nth_upd_same i l' ls l Ei) in Ek. inversion Ek; subst.
        rewrite (nth_upd_other i j l' ls Nij) in Ej. rewrite P_sym.
        pose proof (other_step sh l lj HG (HL i l Ei) (HL j lj Ej) (HP i j l lj Nij Ei Ej)) as O. rewrite Es in O. apply O.
      * rewrite (nth_upd_other i j l' ls Nij) in Ej. rewrite (nth_upd_other i k l' ls Nik) in Ek. eapply HP; eauto.
  - destruct (nth_error ls i) as [l|] eqn:Ei; [|cbn; auto]. destruct (st l) eqn:Est; cbn; auto.
    split; [exact HG|]. split.
    + intros j lj Ej. destruct (Nat.eq_dec i j) as [<-|N].
      * rewrite (nth_upd_same i _ ls l Ei) in Ej. inversion Ej; subst.
        apply (begin_ok sh m l (G_sh_ok sh HG) (L_loc_ok l sh (HL i l Ei))).
      * rewrite (nth_upd_other i j _ ls N) in Ej. eauto.
    + intros j k lj lk Njk Ej Ek.
      destruct (Nat.eq_dec i j) as [<-|Nij]; destruct (Nat.eq_dec i k) as [<-|Nik]; try congruence.
      * rewrite (nth_upd_same i _ ls l Ei) in Ej. inversion Ej; subst. rewrite (nth_upd_other i k _ ls Nik) in Ek.
        apply (begin_ok sh m lk (G_sh_ok sh HG) (L_loc_ok lk sh (HL k lk Ek))).
      * rewrite (nth_upd_same i _ ls l Ei) in Ek. inversion Ek; subst. rewrite (nth_upd_other i j _ ls Nij) in Ej.
        apply (begin_ok sh m lj (G_sh_ok sh HG) (L_loc_ok lj sh (HL j lj Ej))).
      * rewrite (nth_upd_other i j _ ls Nij) in Ej. rewrite (nth_upd_other i k _ ls Nik) in Ek. eapply HP; eauto.
Qed.

Lemma inv_run sched : forall c, Inv c -> Inv (run Fixed sched c).
Proof.
  unfold run. induction sched as [|a sched IH]; intros c H; cbn [fold_left]; [exact H|].
  apply IH. apply inv_action. exact H.
Qed.

Lemma inv_init n : Inv (sh0, repeat idle_thread n).
Proof.
  cbn. split; [reflexivity|]. split.
  - intros i l E. apply nth_error_In in E. apply repeat_spec in E. subst. reflexivity.
  - intros i j li lj _ Ei Ej. apply nth_error_In in Ei. apply repeat_spec in Ei. subst. reflexivity.
Qed.

(** the repaired code: for any number of threads, each calling any sequence of the recorder's methods,
    under any schedule: no method ever fails on a vanished recording (nothing leaks into the service), the
    recording is handed to the cassette at most once, the force flag never outlives the recording, and the
    recording and its parameters vanish together *)
Theorem fixed_safe n sched :
  let '(sh, ls) := run Fixed sched (sh0, repeat idle_thread n) in
  (forall l, In l ls -> crashed l = false) /\ fin sh <= 1 /\ (ar sh = false -> fs sh = false) /\ ar sh = ap sh.
Proof.
  pose proof (inv_run sched _ (inv_init n)) as H. destruct (run Fixed sched (sh0, repeat idle_thread n)) as [sh ls].
  destruct H as (HG & HL & _). split.
  - intros l I. apply In_nth_error in I. destruct I as [i Ei]. specialize (HL i l Ei).
    unfold L in HL. repeat (apply andb_prop in HL; destruct HL as [HL ?]). destruct (crashed l); [discriminate|reflexivity].
  - unfold G in HG. repeat (apply andb_prop in HG; destruct HG as [HG ?]).
    repeat split.
    + apply Nat.leb_le. assumption.
    + intros A. rewrite A in *. destruct (fs sh); [discriminate|reflexivity].
    + apply eqb_prop. assumption.
Qed.

(** exactly once: when every thread is between calls and the recording is gone, it was handed over once *)
Definition quiescent (ls : list local) : bool := forallb (fun l => match st l with Done => true | _ => false end) ls.

Definition check_quiescent_local : bool :=
  forallb (fun l => implb (match st l with Done => true | _ => false end) (negb (pending l))) all_local.

(** the handed-over count is 1 as soon as nobody holds the recording any more: G2 *)
Definition G2 (sh : shared) (anyone_pending : bool) : bool :=
  ar sh || anyone_pending || Nat.eqb (fin sh) 1.

(** ---- the code before the repair ---- *)
Definition two := [start MDiscard; start MDiscard].

(** two racing discards: the second one dies on the vanished recording (AttributeError into the service) *)
Theorem legacy_discard_race_crashes :
  exists sched, let '(_, ls) := run Legacy sched (sh0, two) in existsb crashed ls = true.
Proof. exists [AStep 0; AStep 1; AStep 1; AStep 1; AStep 1; AStep 0]. vm_compute. reflexivity. Qed.

(** two racing discards: the recording is aborted twice *)
Theorem legacy_double_finalisation :
  exists sched, let '(sh, _) := run Legacy sched (sh0, two) in fin sh = 2.
Proof. exists [AStep 0; AStep 0; AStep 1; AStep 1; AStep 0; AStep 1]. vm_compute. reflexivity. Qed.

(** a discard racing with force_sample_recording: the force flag outlives the recording (sticky forcing) *)
Theorem legacy_force_outlives_recording :
  exists sched, let '(sh, _) := run Legacy sched (sh0, [start MForce; start MDiscard]) in ar sh = false /\ fs sh = true.
Proof.
  exists [AStep 0; AStep 0; AStep 0; AStep 1; AStep 1; AStep 1; AStep 1; AStep 1; AStep 1; AStep 0]. vm_compute. auto.
Qed.

(** a discard racing with record_data / an output capture / the end of the recording scope / current_recording_id *)
Theorem legacy_other_races_crash :
  forall m, In m [MRecordData; MFinalise; MForce; MCurrentId] ->
  exists sched, let '(_, ls) := run Legacy sched (sh0, [start m; start MDiscard]) in existsb crashed ls = true.
Proof.
  intros m [<-|[<-|[<-|[<-|[]]]]].
  - exists [AStep 0; AStep 1; AStep 1; AStep 1; AStep 1; AStep 0]. vm_compute. reflexivity.
  - exists [AStep 0; AStep 1; AStep 1; AStep 1; AStep 1; AStep 1; AStep 0; AStep 0; AStep 0; AStep 0; AStep 0; AStep 0].
    vm_compute. reflexivity.
  - exists [AStep 0; AStep 1; AStep 1; AStep 1; AStep 1; AStep 1; AStep 0]. vm_compute. reflexivity.
  - exists [AStep 0; AStep 1; AStep 1; AStep 1; AStep 1; AStep 0]. vm_compute. reflexivity.
Qed.
