(** Model B, part 2: what a run does.  Three structural recursions over [code]:
      [plain_exec]  the undecorated twin (specification of transparency),
      [rec_exec]    the decorators while recording  (tape_recorder.py:632-666, 701-756, 823-876, 193-232),
      [play_exec]   the decorators while replaying  (:650-659, :738-750, :780-808, :224-226),
    then the operation level ([record_run]: :349-377, :55-104, :137-163, :381-435; [play_run]: :878-908).
    Definitions only.  Line numbers refer to /repo/playback/tape_recorder.py. *)
From Playback Require Import Base.Str Values.PyVal Values.Codec Values.KeyFormat Recorder.Dsl.
From Coq Require Import QArith.
Open Scope list_scope.

(** ---- alias formatting (:758-778): alias.format applied to the resolver dict, which is p -> t ---- *)
Fixpoint fmt_alias (t : str) (s : str) : option str :=
  match s with
  | [] => Some []
  | c :: r =>
      if (c =? 123)%N then                      (* '{' *)
        match r with
        | c1 :: r1 =>
            if (c1 =? 123)%N then option_map (cons 123%N) (fmt_alias t r1)       (* "{{" -> "{" *)
            else if (c1 =? 112)%N then                                           (* "{p}" -> t *)
              match r1 with
              | c2 :: r2 => if (c2 =? 125)%N then option_map (app t) (fmt_alias t r2) else None
              | [] => None
              end
            else None
        | [] => None
        end
      else if (c =? 125)%N then                 (* '}' *)
        match r with
        | c1 :: r1 => if (c1 =? 125)%N then option_map (cons 125%N) (fmt_alias t r1) else None   (* "}}" -> "}" *)
        | [] => None
        end
      else option_map (cons c) (fmt_alias t r)
  end.

(** None = formatting raises *)
Definition format_alias (alias : str) (r : resolver) (a : list pyval) : option str :=
  match r with
  | RNone => Some alias
  | RRaises => None
  | RArg i => match nth_error a i with
              | Some (VStr t) => fmt_alias t alias
              | _ => None
              end
  end.

(** main key and fallback keys (:711-725); None = key creation fails.  [a] = user positional
    arguments (without the instance), [kw] = keyword arguments *)
Fixpoint opt_all {A} (l : list (option A)) : option (list A) :=
  match l with
  | [] => Some []
  | Some x :: l' => option_map (cons x) (opt_all l')
  | None :: _ => None
  end.

Definition input_keys (c : icfg) (a : list pyval) (kw : list (str * pyval)) : option (list str) :=
  let full := full_args (i_static c) a in
  match format_alias (i_alias c) (i_resolver c) a with
  | None => None
  | Some fa =>
      match ikey encode fa (i_cap c) (i_static c) full kw with
      | None => None
      | Some k0 =>
          match i_fallbacks c with
          | FbNone => Some [k0]
          | FbRaises => None
          | FbList l | FbFun l =>
              option_map (cons k0) (opt_all (map (fun al => ikey encode al (i_cap c) (i_static c) full kw) l))
          end
      end
  end.

(** ---- per-alias invocation counter (collections.Counter, :639-640) ---- *)
Definition count_of (a : str) (cnt : list (str * N)) : N :=
  match assoc a cnt with Some n => n | None => 0%N end.
Definition bump (a : str) (cnt : list (str * N)) : N * list (str * N) :=
  let n := (count_of a cnt + 1)%N in (n, set_item a n cnt).

(** ---- the undecorated twin ---- *)
Definition plain_call (al : str) (a : list pyval) (kw : list (str * pyval)) (r : outcome * list ev) : outcome * list ev :=
  let '(o, l1) := r in (o, EBegin al a kw :: EBody al a kw :: l1 ++ [ECall al o]).
Definition pbind_val (r : outcome * list ev) (k : pyval -> outcome * list ev) : outcome * list ev :=
  match r with
  | (OVal v, l) => let '(o2, l2) := k v in (o2, l ++ l2)
  | _ => r
  end.
Definition pbind_exn (r : outcome * list ev) (h : outcome * list ev) : outcome * list ev :=
  match r with
  | (OExn _, l1) => let '(o2, l2) := h in (o2, l1 ++ l2)
  | _ => r
  end.

Fixpoint plain_exec (c : code) (env : list pyval) : outcome * list ev :=
  match c with
  | Ret e => (OVal (eval env e), [])
  | Raise ty => (OExn (exn_of_name ty), [])
  | Interrupt => (OInt, [])
  | Inp cf body args kwargs k =>
      let a := map (eval env) args in let kw := eval_kw env kwargs in
      pbind_val (plain_call (i_alias cf) a kw (plain_exec body (body_env a kw))) (fun v => plain_exec k (env ++ [v]))
  | Out cf body args kwargs k =>
      let a := map (eval env) args in let kw := eval_kw env kwargs in
      pbind_val (plain_call (o_alias cf) a kw (plain_exec body (body_env a kw))) (fun v => plain_exec k (env ++ [v]))
  | Try c1 h => pbind_exn (plain_exec c1 env) (plain_exec h env)
  | Spawn c1 k => let '(_, l1) := plain_exec c1 env in let '(o2, l2) := plain_exec k env in (o2, l1 ++ l2)
  | Discard k | Force k | Enable _ k => plain_exec k env
  | RecordData _ _ k => plain_exec k env
  | PlayData _ k => plain_exec k (env ++ [VNone])
  end.

(** ---- recording ---- *)
(** the recorder fields a recording run reads and writes (:44-53): [active] = _active_recording is not None
    (then _active_recording_parameters is not None either), [enabled] = recording_enabled *)
Record rst := mk_rst {
  active : bool;
  enabled : bool;
  force : bool;                      (* _force_sample *)
  counter : list (str * N);          (* _invoke_counter *)
  icpt : bool                        (* thread-local currently_in_interception (single thread) *)
}.
Definition in_rec (s : rst) : bool := enabled s && active s.                      (* in_recording_mode, :248-254 *)
Definition set_icpt (b : bool) (s : rst) : rst := mk_rst (active s) (enabled s) (force s) (counter s) b.
Definition set_counter (c : list (str * N)) (s : rst) : rst := mk_rst (active s) (enabled s) (force s) c (icpt s).
Definition set_enabled (b : bool) (s : rst) : rst := mk_rst (active s) b (force s) (counter s) (icpt s).
(** discard_recording (:106-114) = abort + _reset_active_recording (:165-173); a no-op without an active recording *)
Definition discard (s : rst) : rst * list ev :=
  if active s then (mk_rst false (enabled s) false [] (icpt s), [EAbort]) else (s, []).
Definition do_force (ignore : bool) (s : rst) : rst :=
  if active s && negb ignore then mk_rst (active s) (enabled s) true (counter s) (icpt s) else s.
Definition should_intercept_rec (s : rst) : bool := negb (icpt s) && in_rec s.      (* :296-302 *)

Definition prep_input (h : option ihandler) (v : pyval) (full : list pyval) (kw : list (str * pyval)) : option pyval :=
  match h with None => Some v | Some hh => ih_prep hh v full kw end.

(** results of running a piece of code: outcome, recorder fields afterwards, event log *)
Definition res := (outcome * rst * list ev)%type.

Definition bind_val {S} (r : outcome * S * list ev) (k : pyval -> S -> outcome * S * list ev) : outcome * S * list ev :=
  match r with
  | (OVal v, s', l) => let '(o2, s2, l2) := k v s' in (o2, s2, l ++ l2)
  | _ => r
  end.
Definition bind_exn {S} (r : outcome * S * list ev) (h : S -> outcome * S * list ev) : outcome * S * list ev :=
  match r with
  | (OExn _, s1, l1) => let '(o2, s2, l2) := h s1 in (o2, s2, l1 ++ l2)
  | _ => r
  end.
Definition prepend {S} (la : list ev) (r : outcome * S * list ev) : outcome * S * list ev :=
  let '(o, s, l) := r in (o, s, la ++ l).

(** the input decorator while recording (:707-752 + :823-876); [body] runs the wrapped function *)
Definition rec_in_call (cf : icfg) (a : list pyval) (kw : list (str * pyval)) (body : rst -> res) (s : rst) : res :=
  let al := i_alias cf in
  if should_intercept_rec s then
    match input_keys cf a kw with
    | None =>
        (* key creation failed (:726-736): discard, then run the original under the flag with key None *)
        let '(s0, la) := discard s in
        let '(o, s1, l1) := body (set_icpt true s0) in
        (o, set_icpt false s1, EBegin al a kw :: la ++ EBody al a kw :: l1 ++ [ECall al o])
    | Some keys =>
        let key := hd [] keys in
        (* _execute_func_and_record_interception (:823-876) *)
        let '(o, s1, l1) := body (set_icpt true s) in
        let s2 := set_icpt false s1 in
        let pre := EBegin al a kw :: EBody al a kw :: l1 in
        match o with
        | OExn e => (o, s2, pre ++ (if active s2 then [EWrite key (DExn e)] else []) ++ [EAnswer al o; ECall al o])
        | OVal v =>
            if active s2 then
              (* the recording and its parameters are snapshotted before the handler runs (:850-853) *)
              let '(s3, lh) := if i_prep_discards cf then discard s2 else (s2, []) in
              match prep_input (i_handler cf) v (full_args (i_static cf) a) kw with
              | None => let '(s4, la) := discard s3 in (o, s4, pre ++ lh ++ la ++ [EAnswer al o; ECall al o])
              | Some rv =>
                  (* written into the snapshotted recording; invisible if that one was just aborted *)
                  (o, s3, pre ++ lh ++ (if active s3 then [EWrite key (DVal rv)] else []) ++ [EAnswer al o; ECall al o])
              end
            else (o, s2, pre ++ [EAnswer al o; ECall al o])
        | OInt => (o, s2, pre ++ [EAnswer al o; ECall al o])
        end
    end
  else
    let '(o, s1, l1) := body s in
    (o, s1, EBegin al a kw :: EBody al a kw :: l1 ++ [ECall al o]).

Definition out_datum (cf : ocfg) (a : list pyval) (kw : list (str * pyval)) : option datum :=
  match o_handler cf with None => Some (DOut a kw) | Some h => option_map DData (oh_prep h a kw) end.

(** the output decorator while recording (:634-662 + :193-232 + :823-876) *)
Definition rec_out_call (cf : ocfg) (a : list pyval) (kw : list (str * pyval)) (body : rst -> res) (s : rst) : res :=
  let al := o_alias cf in
  if should_intercept_rec s then
    let '(n, cnt) := bump al (counter s) in
    let s0 := set_counter cnt s in
    (* _record_output (:193-232) *)
    match out_datum cf a kw with
    | None =>
        (* prepare failed: discard, then the original is called plainly (:646-648) *)
        let '(s1, la) := discard s0 in
        let '(o, s2, l1) := body s1 in
        (o, s2, EBegin al a kw :: ESent al None :: la ++ EBody al a kw :: l1 ++ [ECall al o])
    | Some d =>
        let '(o, s1, l1) := body (set_icpt true s0) in
        let s2 := set_icpt false s1 in
        let pre := EBegin al a kw :: ESent al (Some d) :: EWrite (okey_output al n) d :: EBody al a kw :: l1 in
        match o with
        | OExn e => (o, s2, pre ++ (if active s2 then [EWrite (okey_result al n) (DExn e)] else []) ++ [EAnswer al o; ECall al o])
        | OVal v => (o, s2, pre ++ (if active s2 then [EWrite (okey_result al n) (DVal v)] else []) ++ [EAnswer al o; ECall al o])
        | OInt => (o, s2, pre ++ [EAnswer al o; ECall al o])
        end
    end
  else
    let '(o, s1, l1) := body s in
    (o, s1, EBegin al a kw :: EBody al a kw :: l1 ++ [ECall al o]).

Section Rec.
  Variable P : prm.

  Fixpoint rec_exec (c : code) (env : list pyval) (s : rst) : res :=
    match c with
    | Ret e => (OVal (eval env e), s, [])
    | Raise ty => (OExn (exn_of_name ty), s, [])
    | Interrupt => (OInt, s, [])
    | Inp cf body args kwargs k =>
        let a := map (eval env) args in let kw := eval_kw env kwargs in
        bind_val (rec_in_call cf a kw (rec_exec body (body_env a kw)) s) (fun v s' => rec_exec k (env ++ [v]) s')
    | Out cf body args kwargs k =>
        let a := map (eval env) args in let kw := eval_kw env kwargs in
        bind_val (rec_out_call cf a kw (rec_exec body (body_env a kw)) s) (fun v s' => rec_exec k (env ++ [v]) s')
    | Try c1 h => bind_exn (rec_exec c1 env s) (rec_exec h env)
    | Spawn c1 k =>
        (* the worker thread starts with its own (clear) thread-local interception flag (:276-293); the flag of the
           spawning thread is untouched; everything else on the recorder is shared *)
        let '(_, s1, l1) := rec_exec c1 env (set_icpt false s) in
        prepend l1 (rec_exec k env (set_icpt (icpt s) s1))
    | Discard k => let '(s1, la) := discard s in prepend la (rec_exec k env s1)
    | Force k => rec_exec k env (do_force (p_ignore P) s)
    | Enable b k => rec_exec k env (set_enabled b s)
    | RecordData key e k =>
        (* record_data (:451-462): only in recording mode; not guarded by the interception flag *)
        prepend (if in_rec s then [EWrite key (DData (eval env e))] else []) (rec_exec k env s)
    | PlayData _ k => rec_exec k (env ++ [VNone]) s           (* play_data outside playback returns None *)
    end.
End Rec.

(** ---- replaying ---- *)
Definition recording := list (str * datum).     (* data of the recording being played (get_data view) *)

Fixpoint rlookup (k : str) (r : recording) : option datum :=
  match r with
  | [] => None
  | (k', d) :: r' => if str_eqb k k' then Some d else rlookup k r'
  end.
Definition first_present (keys : list str) (r : recording) : option str :=
  find (fun k => match rlookup k r with Some _ => true | None => false end) keys.

(** the recorder fields a replay reads or writes besides the playback outputs: _invoke_counter, and
    recording_enabled (written by enable/disable_recording, never read while replaying).
    (The interception flag is never set while replaying: _enter_interception_context is entered only by
    _execute_func_and_record_interception, which no playback path reaches, :652-659, :738-750.) *)
Record pst := mk_pst {
  pcounter : list (str * N);
  penabled : bool
}.

(** what get_data(key) returns for a user read (play_data) *)
Definition datum_value (d : datum) : option pyval :=
  match d with
  | DData v => Some v
  | DVal v => Some (VDict [(U"value", v)])
  | DOut a kw => Some (VDict [(U"args", VList a); (U"kwargs", VDict kw)])
  | _ => None
  end.

Definition restore_input (h : option ihandler) (v : pyval) (full : list pyval) (kw : list (str * pyval)) : outcome :=
  match h with
  | None => OVal v
  | Some hh => match ih_restore hh v full kw with Some v' => OVal v' | None => OExn (EUser (U"HandlerError")) end
  end.

(** the documented policy for a missing input (C02): decided after the lookup failed *)
Inductive missing_action := RunOriginal | Substitute (v : pyval) | RaiseMissing.
Definition missing_policy (cf : icfg) (a : list pyval) (kw : list (str * pyval)) : missing_action :=
  if i_run_missing cf then RunOriginal
  else match i_vmiss cf with
       | VMLit VNone | VMNone => RaiseMissing
       | VMLit v => Substitute v
       | VMCall f => Substitute (f a kw)
       end.

Definition pres := (outcome * pst * list ev)%type.

Section Play.
  Variable R : recording.

  (** the input decorator while replaying (:707-750 + :780-808); [body] runs the wrapped function *)
  Definition play_in_call (cf : icfg) (a : list pyval) (kw : list (str * pyval)) (body : pst -> pres) (s : pst) : pres :=
    let al := i_alias cf in
    match input_keys cf a kw with
    | None => (OExn EKeyCreation, s, [EBegin al a kw; EAnswer al (OExn EKeyCreation); ECall al (OExn EKeyCreation)])     (* :730-731 *)
    | Some keys =>
        match first_present keys R with
        | Some key =>
            let o := match rlookup key R with
                     | Some (DExn e) => OExn e
                     | Some (DVal v) => restore_input (i_handler cf) v (full_args (i_static cf) a) kw
                     | _ => OExn EOutside
                     end in
            (o, s, [EBegin al a kw; EAnswer al o; ECall al o])
        | None =>
            match missing_policy cf a kw with
            | RunOriginal =>
                (* :743-745: the original runs outside any interception context *)
                let '(o, s1, l1) := body s in
                (o, s1, EBegin al a kw :: EBody al a kw :: l1 ++ [ECall al o])
            | Substitute v => (OVal v, s, [EBegin al a kw; EAnswer al (OVal v); ECall al (OVal v)])
            | RaiseMissing => (OExn EKeyMissing, s, [EBegin al a kw; EAnswer al (OExn EKeyMissing); ECall al (OExn EKeyMissing)])
            end
        end
    end.

  (** the output decorator while replaying (:634-659 + :224-226): the body never runs *)
  Definition play_out_call (cf : ocfg) (a : list pyval) (kw : list (str * pyval)) (s : pst) : pres :=
    let al := o_alias cf in
    let '(n, cnt) := bump al (pcounter s) in
    let s0 := mk_pst cnt (penabled s) in
    let lo := match out_datum cf a kw with
              | Some d => [EPbOut (okey_output al n) d]
              | None => []                       (* a failing handler drops the entry silently (:210-220) *)
              end in
    let o := match rlookup (okey_result al n) R with
             | Some (DExn e) => OExn e
             | Some (DVal v) => OVal v
             | Some _ => OExn EOutside
             | None => if o_fail cf then OExn EKeyMissing else OVal (o_default cf)
             end in
    (o, s0, EBegin al a kw :: ESent al (out_datum cf a kw) :: lo ++ [EAnswer al o; ECall al o]).

  Fixpoint play_exec (c : code) (env : list pyval) (s : pst) : pres :=
    match c with
    | Ret e => (OVal (eval env e), s, [])
    | Raise ty => (OExn (exn_of_name ty), s, [])
    | Interrupt => (OInt, s, [])
    | Inp cf body args kwargs k =>
        let a := map (eval env) args in let kw := eval_kw env kwargs in
        bind_val (play_in_call cf a kw (play_exec body (body_env a kw)) s) (fun v s' => play_exec k (env ++ [v]) s')
    | Out cf body args kwargs k =>
        let a := map (eval env) args in let kw := eval_kw env kwargs in
        bind_val (play_out_call cf a kw s) (fun v s' => play_exec k (env ++ [v]) s')
    | Try c1 h => bind_exn (play_exec c1 env s) (play_exec h env)
    | Spawn c1 k => let '(_, s1, l1) := play_exec c1 env s in prepend l1 (play_exec k env s1)
    | Discard k | Force k => play_exec k env s                  (* no active recording: no-ops *)
    | Enable b k => play_exec k env (mk_pst (pcounter s) b)
    | RecordData _ _ k => play_exec k env s
    | PlayData key k =>
        match rlookup key R with
        | None => (OExn EKeyMissing, s, [])
        | Some d => match datum_value d with
                    | Some v => play_exec k (env ++ [v]) s
                    | None => (OExn EOutside, s, [])
                    end
        end
    end.
End Play.
