(** C03: captured outputs are exactly what the executing code sent.
    [sent_of l] is the list of calls that reached an output decorator while it intercepts (ESent events,
    each carrying what the decorator captures: the default {args, kwargs} envelope or the data handler's
    prepared form; None when the handler failed).  The captured outputs are that list, numbered per alias. *)
From Playback Require Import Base.Str Base.StrFacts Values.PyVal Values.Codec Values.KeyFormat Values.KeyFacts
  Recorder.Dsl Recorder.Exec Recorder.Run Recorder.RecFacts Recorder.SnapFacts Recorder.PlayFacts Recorder.SimFacts.
From Coq Require Import QArith Lia.
Open Scope list_scope.

Definition sent := list (str * option datum).

(** per-alias numbering starting from counter [cnt] *)
Fixpoint number (cnt : list (str * N)) (se : sent) : list (str * datum) :=
  match se with
  | [] => []
  | (al, od) :: r =>
      let '(n, cnt') := bump al cnt in
      (match od with Some d => [(okey_output al n, d)] | None => [] end) ++ number cnt' r
  end.
Fixpoint advance (cnt : list (str * N)) (se : sent) : list (str * N) :=
  match se with
  | [] => cnt
  | (al, _) :: r => advance (snd (bump al cnt)) r
  end.

Lemma number_app cnt s1 s2 : number cnt (s1 ++ s2) = number cnt s1 ++ number (advance cnt s1) s2.
Proof.
  revert cnt. induction s1 as [|[al od] s1 IH]; intros cnt; cbn [number advance app]; [reflexivity|].
  destruct (bump al cnt) as [n cnt'] eqn:E. cbn [snd]. rewrite IH, app_assoc. reflexivity.
Qed.
Lemma advance_app cnt s1 s2 : advance cnt (s1 ++ s2) = advance (advance cnt s1) s2.
Proof. revert cnt. induction s1 as [|[al od] s1 IH]; intros cnt; cbn [advance app]; auto. Qed.

(** ---- replay ---- *)
Section PlayOut.
  Variable R : recording.

  Definition pnum (s : pst) (r : pres) : Prop :=
    let '(_, s', l) := r in
    pbouts_of l = number (pcounter s) (sent_of l) /\ pcounter s' = advance (pcounter s) (sent_of l).

  Lemma pnum_trans s r k :
    pnum s r -> (forall v s1, pnum s1 (k v s1)) -> pnum s (bind_val r k).
  Proof.
    unfold pnum, bind_val. destruct r as [[o s1] l1]. intros [H1 C1] Hk. destruct o as [v|e|]; auto.
    specialize (Hk v s1). destruct (k v s1) as [[o2 s2] l2]. destruct Hk as [H2 C2].
    rewrite pbouts_app', sent_app, number_app, advance_app, H1, <- C1, H2, C2. auto.
  Qed.

  Theorem play_exec_numbered : forall c env s, pnum s (play_exec R c env s).
  Proof.
    induction c as [e|ty| |cf body IHb args kwargs k IHk|cf body IHb args kwargs k IHk|c1 IH1 h IHh|c1 IHs1 k IHsk
                    |k IHk|k IHk|b k IHk|key e k IHk|key k IHk]; intros env s; cbn [play_exec]; try (split; reflexivity); auto.
    - apply pnum_trans; [|intros; apply IHk].
      unfold play_in_call, pnum. destruct (input_keys _ _ _); [|split; reflexivity].
      destruct (first_present _ _); [split; reflexivity|]. destruct (missing_policy _ _ _); try (split; reflexivity).
      specialize (IHb (body_env (map (eval env) args) (eval_kw env kwargs)) s). unfold pnum in IHb.
      destruct (play_exec R body _ s) as [[o s1] l1]. destruct IHb as [H C].
      projnorm. rewrite !app_nil_r. auto.
    - apply pnum_trans; [|intros; apply IHk].
      unfold play_out_call, pnum. destruct (bump (o_alias cf) (pcounter s)) as [n cnt] eqn:E.
      cbn [pcounter].
      destruct (out_datum cf (map (eval env) args) (eval_kw env kwargs)); projnorm; cbn [number advance app];
        rewrite E; cbn [snd app]; rewrite ?app_nil_r; auto.
    - specialize (IH1 env s). unfold bind_exn, pnum in *. destruct (play_exec R c1 env s) as [[o s1] l1].
      destruct IH1 as [H1 C1]. destruct o as [v|ex|]; auto.
      specialize (IHh env s1). destruct (play_exec R h env s1) as [[o2 s2] l2]. destruct IHh as [H2 C2].
      rewrite pbouts_app', sent_app, number_app, advance_app, H1, <- C1, H2, C2. auto.
    - specialize (IHs1 env s). unfold pnum in IHs1. destruct (play_exec R c1 env s) as [[o1 s1] l1]. destruct IHs1 as [H1 C1].
      specialize (IHsk env s1). unfold prepend, pnum in *. destruct (play_exec R k env s1) as [[o2 s2] l2]. destruct IHsk as [H2 C2].
      rewrite pbouts_app', sent_app, number_app, advance_app, H1, <- C1, H2, C2. auto.
    - specialize (IHk env (mk_pst (pcounter s) b)). unfold pnum in *. cbn [pcounter] in IHk. exact IHk.
    - destruct (rlookup key R) as [d|]; [|split; reflexivity]. destruct (datum_value d); [apply IHk|split; reflexivity].
  Qed.
End PlayOut.

(** ---- recording ---- *)
Fixpoint ukeys_ok (c : code) : Prop :=
  match c with
  | Ret _ | Raise _ | Interrupt => True
  | Inp _ body _ _ k | Out _ body _ _ k => ukeys_ok body /\ ukeys_ok k
  | Try c1 h | Spawn c1 h => ukeys_ok c1 /\ ukeys_ok h
  | Discard k | Force k | Enable _ k | PlayData _ k => ukeys_ok k
  | RecordData key _ k => is_output_key key = false /\ ukeys_ok k
  end.

Definition rnum (s : rst) (r : res) : Prop :=
  let '(_, s', l) := r in
  aborts_of l = 0%nat ->
  outw_of l = number (counter s) (sent_of l) /\ counter s' = advance (counter s) (sent_of l).

Lemma rnum_bind_val s r k : rnum s r -> (forall v s1, rnum s1 (k v s1)) -> rnum s (bind_val r k).
Proof.
  unfold rnum, bind_val. destruct r as [[o s1] l1]. intros H1 Hk. destruct o as [v|e|]; auto.
  specialize (Hk v s1). destruct (k v s1) as [[o2 s2] l2]. intros B. lognorm.
  destruct (H1 ltac:(lia)) as [X1 C1]. destruct (Hk ltac:(lia)) as [X2 C2].
  rewrite outw_app, sent_app, number_app, advance_app, X1, <- C1, X2, C2. auto.
Qed.
Lemma rnum_bind_exn s r h : rnum s r -> (forall s1, rnum s1 (h s1)) -> rnum s (bind_exn r h).
Proof.
  unfold rnum, bind_exn. destruct r as [[o s1] l1]. intros H1 Hk. destruct o as [v|e|]; auto.
  specialize (Hk s1). destruct (h s1) as [[o2 s2] l2]. intros B. lognorm.
  destruct (H1 ltac:(lia)) as [X1 C1]. destruct (Hk ltac:(lia)) as [X2 C2].
  rewrite outw_app, sent_app, number_app, advance_app, X1, <- C1, X2, C2. auto.
Qed.

Section RecOut.
  Variable P : prm.

  Lemma rec_in_call_rnum cf a kw body s : (forall s0, rnum s0 (body s0)) -> rnum s (rec_in_call cf a kw body s).
  Proof.
    intros H. unfold rec_in_call, rnum in *.
    destruct (should_intercept_rec s).
    - destruct (input_keys cf a kw) as [keys|] eqn:Ek.
      + destruct (input_keys_shape _ _ _ _ Ek) as [r0 Hr0].
        assert (Hk0 : is_output_key (hd [] keys) = false) by (rewrite Hr0; apply input_key_not_output).
        specialize (H (set_icpt true s)). destruct (body (set_icpt true s)) as [[o s1] l1]. cbn [counter set_icpt] in H.
        destruct o as [v|e|].
        * destruct (active (set_icpt false s1)) eqn:A2.
          -- destruct (i_prep_discards cf).
             ++ unfold discard. rewrite A2. destruct (prep_input _ _ _ _); cbv beta iota zeta;
                  intros B; exfalso; lognorm; cbn in B; lia.
             ++ destruct (prep_input _ _ _ _).
                ** rewrite A2. intros B. lognorm. cbn in B. destruct (H ltac:(lia)) as [X C].
                   projnorm; cbn [counter set_icpt set_counter]; cbn [counter set_icpt set_counter]. rewrite Hk0, X, C. cbn. rewrite !app_nil_r. auto.
                ** unfold discard. rewrite A2. cbv beta iota zeta. intros B. exfalso. lognorm. cbn in B. lia.
          -- intros B. lognorm. cbn in B. destruct (H ltac:(lia)) as [X C]. projnorm; cbn [counter set_icpt set_counter]; cbn [counter set_icpt set_counter]. rewrite X, C. cbn. rewrite !app_nil_r. auto.
        * intros B. lognorm. assert (B1 : aborts_of l1 = 0%nat) by (destruct (active (set_icpt false s1)); cbn in B; lia).
          destruct (H B1) as [X C]. projnorm.
          destruct (active (set_icpt false s1)); projnorm; cbn [counter set_icpt set_counter]; rewrite ?Hk0, X, C; cbn; rewrite ?app_nil_r; auto.
        * intros B. lognorm. cbn in B. destruct (H ltac:(lia)) as [X C]. projnorm; cbn [counter set_icpt set_counter]; cbn [counter set_icpt set_counter]. rewrite X, C. cbn. rewrite !app_nil_r. auto.
      + unfold discard. destruct (active s) eqn:Ac; cbv beta iota zeta.
        * match goal with |- context [body ?x] => destruct (body x) as [[o s1] l1] end. cbv beta iota zeta.
          intros B. exfalso. lognorm. cbn in B. lia.
        * specialize (H (set_icpt true s)). destruct (body (set_icpt true s)) as [[o s1] l1]. cbn [counter set_icpt] in H.
          intros B. lognorm. cbn in B. destruct (H ltac:(lia)) as [X C]. projnorm; cbn [counter set_icpt set_counter]; cbn [counter set_icpt set_counter]. rewrite X, C. cbn. rewrite !app_nil_r. auto.
    - specialize (H s). destruct (body s) as [[o s1] l1].
      intros B. lognorm. cbn in B. destruct (H ltac:(lia)) as [X C]. projnorm; cbn [counter set_icpt set_counter]; cbn [counter set_icpt set_counter]. rewrite X, C. cbn. rewrite !app_nil_r. auto.
  Qed.

  Lemma rec_out_call_rnum cf a kw body s : (forall s0, rnum s0 (body s0)) -> rnum s (rec_out_call cf a kw body s).
  Proof.
    intros H. unfold rec_out_call, rnum in *.
    destruct (should_intercept_rec s) eqn:SI.
    - destruct (should_intercept_true _ SI) as (Ic & Ac & En).
      destruct (bump (o_alias cf) (counter s)) as [n cnt] eqn:Eb.
      pose proof (output_key_is_output (o_alias cf) n) as Ko. pose proof (result_key_not_output (o_alias cf) n) as Kr.
      destruct (out_datum cf a kw) as [d|].
      + specialize (H (set_icpt true (set_counter cnt s))).
        destruct (body (set_icpt true (set_counter cnt s))) as [[o s1] l1]. cbn [counter set_icpt set_counter] in H.
        destruct o as [v|e|]; intros B; lognorm;
          (assert (B1 : aborts_of l1 = 0%nat) by (try destruct (active (set_icpt false s1)); cbn in B; lia));
          destruct (H B1) as [X C]; projnorm; cbn [counter set_icpt set_counter]; try destruct (active (set_icpt false s1)); projnorm; cbn [counter set_icpt set_counter];
          cbn [number advance]; rewrite Eb, ?Ko, ?Kr, X, C; cbn; rewrite ?app_nil_r; auto.
      + unfold discard. cbn [active set_counter]. rewrite Ac. cbv beta iota zeta.
        match goal with |- context [body ?x] => destruct (body x) as [[o s1] l1] end. cbv beta iota zeta.
        intros B. exfalso. lognorm. cbn in B. lia.
    - specialize (H s). destruct (body s) as [[o s1] l1].
      intros B. lognorm. cbn in B. destruct (H ltac:(lia)) as [X C]. projnorm; cbn [counter set_icpt set_counter]; cbn [counter set_icpt set_counter]. rewrite X, C. cbn. rewrite !app_nil_r. auto.
  Qed.

  (** while recording, as long as nothing is discarded: the '.output' entries written are the calls sent,
      numbered per alias from the current counter, and the counter advances by exactly those calls *)
  Theorem rec_exec_numbered : forall c env s, ukeys_ok c -> rnum s (rec_exec P c env s).
  Proof.
    induction c as [e|ty| |cf body IHb args kwargs k IHk|cf body IHb args kwargs k IHk|c1 IH1 h IHh|c1 IHs1 k IHsk
                    |k IHk|k IHk|b k IHk|key e k IHk|key k IHk]; intros env s Uk; cbn [rec_exec ukeys_ok] in *.
    - intros _. split; reflexivity.
    - intros _. split; reflexivity.
    - intros _. split; reflexivity.
    - destruct Uk as [Ub Ukk]. apply rnum_bind_val; [apply rec_in_call_rnum; intros; apply IHb; auto|intros; apply IHk; auto].
    - destruct Uk as [Ub Ukk]. apply rnum_bind_val; [apply rec_out_call_rnum; intros; apply IHb; auto|intros; apply IHk; auto].
    - destruct Uk as [U1 Uh]. apply rnum_bind_exn; [apply IH1; auto|intros; apply IHh; auto].
    - destruct Uk as [U1 Ukk]. specialize (IHs1 env (set_icpt false s) U1). unfold rnum in IHs1.
      destruct (rec_exec P c1 env (set_icpt false s)) as [[o1 s1] l1]. cbn [counter set_icpt] in IHs1.
      specialize (IHsk env (set_icpt (icpt s) s1) Ukk). unfold prepend, rnum in *. cbn [counter set_icpt] in IHsk.
      destruct (rec_exec P k env _) as [[o2 s2] l2]. intros B. lognorm.
      destruct (IHs1 ltac:(lia)) as [X1 C1]. destruct (IHsk ltac:(lia)) as [X2 C2].
      rewrite outw_app, sent_app, number_app, advance_app, X1, <- C1, X2, C2. auto.
    - unfold discard. destruct (active s).
      + unfold prepend, rnum. destruct (rec_exec P k env _) as [[o s2] l]. intros B. exfalso. lognorm. cbn in B. lia.
      + specialize (IHk env s Uk). unfold prepend, rnum in *. destruct (rec_exec P k env s) as [[o s2] l]. exact IHk.
    - specialize (IHk env (do_force (p_ignore P) s) Uk). unfold rnum in *.
      replace (counter (do_force (p_ignore P) s)) with (counter s) in IHk
        by (unfold do_force; destruct (active s && negb (p_ignore P)); reflexivity).
      exact IHk.
    - specialize (IHk env (set_enabled b s) Uk). exact IHk.
    - destruct Uk as [Ku Ukk]. specialize (IHk env s Ukk). unfold prepend, rnum in *.
      destruct (rec_exec P k env s) as [[o s2] l]. intros B. lognorm.
      assert (B2 : aborts_of l = 0%nat) by (destruct (in_rec s); cbn in B; lia).
      destruct (IHk B2) as [X C]. destruct (in_rec s); projnorm; cbn [counter set_icpt set_counter]; rewrite ?Ku, X, C; auto.
    - apply IHk; auto.
  Qed.
End RecOut.

(** ---- the numbered list as a map: entry (alias, n) is the n-th call of that alias ---- *)
Definition per_alias (al : str) (se : sent) : sent := filter (fun x => str_eqb (fst x) al) se.

Lemma count_set_item al al0 m cnt : count_of al (set_item al0 m cnt) = if str_eqb al al0 then m else count_of al cnt.
Proof.
  unfold count_of. induction cnt as [|[k v] cnt IH]; cbn.
  - destruct (str_eqb al al0); reflexivity.
  - destruct (str_eqb al0 k) eqn:E0; cbn.
    + apply str_eqb_eq in E0. subst k. destruct (str_eqb al al0); reflexivity.
    + destruct (str_eqb al k) eqn:E1.
      * apply str_eqb_eq in E1. subst k. rewrite str_eqb_sym, E0. reflexivity.
      * exact IH.
Qed.

Lemma rlookup_app k r1 r2 : rlookup k (r1 ++ r2) = match rlookup k r1 with Some d => Some d | None => rlookup k r2 end.
Proof. induction r1 as [|[k0 d0] r1 IH]; cbn; [reflexivity|]. destruct (str_eqb k k0); auto. Qed.

Lemma okey_output_eqb al n al0 m : str_eqb (okey_output al n) (okey_output al0 m) = str_eqb al al0 && N.eqb n m.
Proof.
  destruct (str_eqb (okey_output al n) (okey_output al0 m)) eqn:E.
  - apply str_eqb_eq in E. apply okey_output_injective in E. destruct E as [-> ->]. rewrite str_eqb_refl, N.eqb_refl. reflexivity.
  - destruct (str_eqb al al0) eqn:E1; [|reflexivity]. destruct (N.eqb n m) eqn:E2; [|reflexivity].
    apply str_eqb_eq in E1. apply N.eqb_eq in E2. subst. rewrite str_eqb_refl in E. discriminate.
Qed.

Definition nth_sent (al : str) (se : sent) (i : nat) : option datum :=
  match nth_error (per_alias al se) i with Some (_, Some d) => Some d | _ => None end.

Theorem number_lookup : forall se cnt al n,
  rlookup (okey_output al n) (number cnt se) =
  if (n <=? count_of al cnt)%N then None else nth_sent al se (N.to_nat (n - count_of al cnt - 1)).
Proof.
  induction se as [|[al0 od] se IH]; intros cnt al n; cbn [number].
  - unfold nth_sent, per_alias. cbn. destruct (n <=? count_of al cnt)%N; [reflexivity|]. destruct (N.to_nat _); reflexivity.
  - unfold bump. rewrite rlookup_app, IH, count_set_item. unfold nth_sent, per_alias. cbn [filter fst].
    rewrite (str_eqb_sym al0 al).
    destruct (str_eqb al al0) eqn:Ea.
    + apply str_eqb_eq in Ea. subst al0.
      destruct (N.leb_spec n (count_of al cnt)) as [L|L].
      * (* n is an ordinal already used *)
        assert (X : (n <=? count_of al cnt + 1)%N = true) by (apply N.leb_le; lia). rewrite X.
        destruct od as [d|]; cbn [rlookup]; [|reflexivity].
        rewrite okey_output_eqb, str_eqb_refl. cbn [andb].
        destruct (N.eqb_spec n (count_of al cnt + 1)); [lia|reflexivity].
      * destruct (N.eqb_spec n (count_of al cnt + 1)) as [->|D].
        -- (* exactly this call *)
           replace (N.to_nat (count_of al cnt + 1 - count_of al cnt - 1)) with 0%nat by lia. cbn [nth_error].
           assert (X : (count_of al cnt + 1 <=? count_of al cnt + 1)%N = true) by (apply N.leb_le; lia). rewrite X.
           destruct od as [d|]; cbn [rlookup]; [|reflexivity].
           rewrite okey_output_eqb, str_eqb_refl, N.eqb_refl. reflexivity.
        -- assert (X : (n <=? count_of al cnt + 1)%N = false) by (apply N.leb_gt; lia). rewrite X.
           replace (N.to_nat (n - count_of al cnt - 1)) with (S (N.to_nat (n - (count_of al cnt + 1) - 1))) by lia.
           cbn [nth_error].
           destruct od as [d|]; cbn [rlookup]; [|reflexivity].
           rewrite okey_output_eqb, str_eqb_refl. cbn [andb]. destruct (N.eqb_spec n (count_of al cnt + 1)); [lia|reflexivity].
    + destruct od as [d|]; cbn [rlookup]; [|reflexivity].
      rewrite okey_output_eqb, Ea. reflexivity.
Qed.

(** C03 "diff localised": two runs' captured outputs differ at entry (alias, n) exactly if the n-th calls
    of that alias differ (or exist in one run only); every other entry is equal *)
Corollary outputs_diff_localised se1 se2 al n :
  (1 <= n)%N ->
  (rlookup (okey_output al n) (number [] se1) = rlookup (okey_output al n) (number [] se2) <->
   nth_sent al se1 (N.to_nat (n - 1)) = nth_sent al se2 (N.to_nat (n - 1))).
Proof.
  intros Hn. rewrite !number_lookup. unfold count_of. cbn [assoc].
  assert (X : (n <=? 0)%N = false) by (apply N.leb_gt; lia). rewrite X.
  replace (n - 0 - 1)%N with (n - 1)%N by lia. reflexivity.
Qed.
