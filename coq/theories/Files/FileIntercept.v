(** Model H, part 2: the file data handlers
      playback/interception/files/file_interception.py          (FileInterception)
      playback/interception/files/input_file_interception.py    (InputInterceptionFileDataHandler)
      playback/interception/files/output_file_interception.py   (OutputInterceptionFileDataHandler)
    followed line by line.  Executable definitions only; the facts are in FileFacts.v.

    Externals are explicit arguments, never axioms:
      [fsize]    os.path.getsize            path -> size | OSError
      [fread]    open(path, "rb").read()    path -> bytes | OSError
      [writable] open(path, "wb") succeeds  path -> bool
      [qp], [qp_dec]  jsonpickle's quoted-printable coding of bytes (model A, Values/Codec.v)
    Numbers: sizes are [Z]; the limit (MB) is an exact rational [Q].  Python compares the floats
    [size / (1024.0 * 1024.0)] and [limit]: for 0 <= size < 2^53 the conversion of size to float and
    the division by 2^20 are exact, every finite float limit (and every int limit) is a rational, and
    Python's float/float and float/int comparisons are exact - so the comparison in Q is the
    comparison Python makes (NaN / inf limits are outside the model). *)
From Coq Require Import QArith.
From Playback Require Import Base.Str Values.PyVal Values.Codec Files.Base64.
Open Scope list_scope.

Inductive exn := IndexError | KeyError | TypeError | OSError | ValueError.
Inductive res (A : Type) := Ans (a : A) | Raises (e : exn).
Arguments Ans {A} a.
Arguments Raises {A} e.

(** an invocation argument, as far as [_get_file_path] and [open]/[getsize] can tell them apart:
    None, a str, or any other object that is not a path (a list, a float, ...) with its truth value *)
Inductive arg := ANone | AStr (s : str) | AOther (truth : bool).

Definition truthy (a : arg) : bool :=
  match a with
  | ANone => false
  | AStr [] => false
  | AStr (_ :: _) => true
  | AOther t => t
  end.

(** file_interception.py:13 *)
Definition PLACEHOLDER : list N := U"above interception limit".
Definition K_PATH : str := U"file_path".
Definition K_CONTENT : str := U"file_content".

(** the handler's three fields, file_interception.py:24-26; [h_limit] is [intercepted_size_limit]
    (None is only reachable by assigning the attribute after construction, :97) *)
Record handler := Handler { h_index : Z; h_name : str; h_limit : option Q }.

(** PLAYBACK_INTERCEPTED_FILE_SIZE_LIMIT: unset, a text [float()] parses (carried as the exact value
    of that float), or a text it rejects *)
Inductive envvar := EnvUnset | EnvFloat (q : Q) | EnvJunk.

(** Python's [int(x)] on a float: truncation toward zero *)
Definition Qtrunc (q : Q) : Z := Z.quot (Qnum q) (Zpos (Qden q)).

(** file_interception.py:38-47 *)
Definition calc_limit (explicit : option Q) (env : envvar) : res Q :=
  match explicit with
  | Some q => Ans q                                            (* :44-45 *)
  | None =>
      match env with                                           (* :47  int(float(os.getenv(.., "500"))) *)
      | EnvUnset => Ans (inject_Z 500)
      | EnvFloat q => Ans (inject_Z (Qtrunc q))
      | EnvJunk => Raises ValueError
      end
  end.

Definition mk_handler (index : Z) (name : str) (explicit : option Q) (env : envvar) : res handler :=
  match calc_limit explicit env with
  | Ans q => Ans (Handler index name (Some q))
  | Raises e => Raises e
  end.

(** Python's [seq[i]] for an int index: negative indices count from the end *)
Definition py_index {A} (l : list A) (i : Z) : res A :=
  let n := Z.of_nat (length l) in
  let j := if (i <? 0)%Z then (i + n)%Z else i in
  if ((0 <=? j) && (j <? n))%Z
  then match nth_error l (Z.to_nat j) with Some x => Ans x | None => Raises IndexError end
  else Raises IndexError.

(** file_interception.py:49-61: keyword first - tested with [not], so a falsy keyword value falls
    back to the position - then [args[index]] *)
Definition get_path (h : handler) (args : list arg) (kwargs : list (str * arg)) : res arg :=
  let file_path := match assoc (h_name h) kwargs with Some a => a | None => ANone end in   (* :58 kwargs.get *)
  if truthy file_path then Ans file_path                                                    (* :59 *)
  else py_index args (h_index h).                                                           (* :60 *)

(** file_interception.py:28-34 *)
Definition mb_size (size : Z) : Q := (size # 1048576)%Q.

(** file_interception.py:99  [file_size_in_mb > self.intercepted_size_limit] *)
Definition is_above (size : Z) (limit : Q) : bool := negb (Qle_bool (mb_size size) limit).

(** file_interception.py:89-104 *)
Definition above_check (h : handler) (fsize : str -> res Z) (p : str) : res bool :=
  match h_limit h with
  | None => Ans false                                          (* :97, :104 *)
  | Some lim =>
      match fsize p with                                       (* :98 os.path.getsize *)
      | Ans n => Ans (is_above n lim)                          (* :99-104 *)
      | Raises e => Raises e
      end
  end.

(** file_interception.py:106-119 *)
Definition above_limit_result (p : str) : pyval :=
  VDict [(K_PATH, VStr p); (K_CONTENT, VBytes PLACEHOLDER)].

(** file_interception.py:121-144 (Python 3 branch: base64.b64encode returns bytes) *)
Definition serialize_file (content : list N) (p : str) : pyval :=
  VDict [(K_PATH, VStr p); (K_CONTENT, VBytes (b64enc content))].

(** file_interception.py:63-87.  Second component: the paths opened for reading, in order. *)
Definition intercept_file (h : handler) (fsize : str -> res Z) (fread : str -> res (list N))
           (args : list arg) (kwargs : list (str * arg)) : res pyval * list str :=
  match get_path h args kwargs with                            (* :73 *)
  | Raises e => (Raises e, [])
  | Ans (AStr p) =>
      match above_check h fsize p with                         (* :75 *)
      | Raises e => (Raises e, [])
      | Ans true => (Ans (above_limit_result p), [])           (* :76  the content is not consulted *)
      | Ans false =>
          match fread p with                                   (* :81-82 *)
          | Ans content => (Ans (serialize_file content p), [p])   (* :84 *)
          | Raises e => (Raises e, [p])
          end
      end
  | Ans _ => (Raises TypeError, [])                            (* os.path.getsize / open on a non-path *)
  end.

(** file_interception.py:146-159.  The decoder is the strict RFC 4648 one: on canonical text (all the
    model ever stores) it is what [base64.b64decode] computes; on other text Python either raises
    binascii.Error (a ValueError) or, in its lenient default mode, skips characters - not modelled. *)
Definition decode_content (c : pyval) : res (list N) :=
  match c with
  | VBytes t =>
      if list_eqb N.eqb t PLACEHOLDER then Ans t               (* :153 *)
      else match b64dec t with Some b => Ans b | None => Raises ValueError end   (* :157 *)
  | VStr t =>                                                  (* a str never equals the bytes placeholder *)
      match b64dec t with Some b => Ans b | None => Raises ValueError end
  | _ => Raises TypeError
  end.

Definition deserialize_file (recorded : pyval) : res (pyval * list N) :=
  match recorded with
  | VDict d =>
      match assoc K_CONTENT d with                             (* :151 *)
      | None => Raises KeyError
      | Some c =>
          match decode_content c with
          | Raises e => Raises e
          | Ans b =>
              match assoc K_PATH d with                        (* :159 *)
              | None => Raises KeyError
              | Some p => Ans (p, b)
              end
          end
      end
  | _ => Raises TypeError
  end.

(** input_file_interception.py:9-23 / output_file_interception.py:9-21 *)
Definition prepare_input := intercept_file.
Definition prepare_output := intercept_file.

(** ---- the file system the replay writes into ----
    A state maps paths to contents; a path that is absent does not exist.  The replay may find ANY
    state: in particular the path of the replayed call may already hold a file (longer, shorter, of the
    same size - e.g. what an earlier replay restored there). *)
Definition fstate := list (str * list N).
Definition fs_get (p : str) (fs : fstate) : option (list N) := assoc p fs.
Fixpoint fs_set (p : str) (c : list N) (fs : fstate) : fstate :=
  match fs with
  | [] => [(p, c)]
  | (q, d) :: r => if str_eqb p q then (p, c) :: r else (q, d) :: fs_set p c r
  end.

(** POSIX [write] of [new] at offset 0 of a file holding [old]: bytes beyond the written range stay *)
Definition write_at0 (old new : list N) : list N := new ++ skipn (length new) old.

(** [open(p, "wb")]: O_WRONLY|O_CREAT|O_TRUNC - the file exists and is EMPTY afterwards *)
Definition open_wb (p : str) (fs : fstate) : fstate := fs_set p [] fs.
(** [f.write(b)] on the freshly opened file (position 0), then close *)
Definition write_file (p : str) (b : list N) (fs : fstate) : fstate :=
  fs_set p (write_at0 (match fs_get p fs with Some old => old | None => [] end) b) fs.

(** input_file_interception.py:25-42.  The path comes from the arguments of the call being replayed
    (:37); the file is opened - created or TRUNCATED - before the recorded data is decoded (:38-39), then
    the content is written (:40).  Second component: the file system after the call. *)
Definition restore_input (h : handler) (writable : str -> bool) (recorded : pyval)
           (args : list arg) (kwargs : list (str * arg)) (fs : fstate) : res str * fstate :=
  match get_path h args kwargs with                            (* :37 *)
  | Raises e => (Raises e, fs)
  | Ans (AStr p) =>
      if writable p then                                       (* :38 open(file_path, "wb") *)
        let fs1 := open_wb p fs in
        match deserialize_file recorded with                   (* :39 *)
        | Ans (_, content) => (Ans p, write_file p content fs1)    (* :40, :42 *)
        | Raises e => (Raises e, fs1)
        end
      else (Raises OSError, fs)
  | Ans _ => (Raises TypeError, fs)
  end.

(** replaying several recordings one after another with the same call (same working path) *)
Fixpoint restore_all (h : handler) (writable : str -> bool) (recs : list pyval)
         (args : list arg) (kwargs : list (str * arg)) (fs : fstate) : fstate :=
  match recs with
  | [] => fs
  | r :: rs => restore_all h writable rs args kwargs (snd (restore_input h writable r args kwargs fs))
  end.

(** output_file_interception.py:36-56 *)
Record holder := Holder { file_content : list N; output_file_path : pyval }.

(** output_file_interception.py:23-32 *)
Definition restore_output (recorded : pyval) : res holder :=
  match deserialize_file recorded with
  | Ans (p, content) => Ans (Holder content p)
  | Raises e => Raises e
  end.

(** what the recorder hands to the handlers: input handlers see the full positional arguments
    (tape_recorder.py:741, :752 - [self] included for instance methods), output handlers see them
    without [self] (tape_recorder.py:643) *)
Definition handler_args_input (args : list arg) : list arg := args.
Definition handler_args_output (static : bool) (args : list arg) : list arg :=
  if static then args else tl args.

(** ---- the trip through a cassette ----
    Every cassette stores [jsonpickle.encode] of the recording and hands back [decode] of the stored
    text (in_memory_tape_cassette.py:38/:52, file_based_tape_cassette.py, s3_tape_cassette.py:86/:148
    with zlib in between).  On the value level that is [restore (flatten v)] of model A
    (json.loads . json.dumps = id and decompress . compress = id are model A's / C07's concern). *)
Definition cassette_trip (qp : list N -> str) (qp_dec : str -> list N) (v : pyval) : option pyval :=
  match flatten qp v with
  | Some j => restore qp_dec j
  | None => None
  end.

Inductive trip (A : Type) :=
| Discarded (e : exn)          (* prepare raised: the recorder discards the recording (tape_recorder.py:213-221, :857-864) *)
| StoreFailed                  (* the value did not survive the cassette *)
| Replayed (a : A).
Arguments Discarded {A} e.
Arguments StoreFailed {A}.
Arguments Replayed {A} a.

(** record an input with the file handler, save, fetch, replay the call with (possibly different)
    arguments on a file system in state [fs_play]: outcome of the replayed call, file system afterwards,
    and the read-open journal of the recording *)
Definition input_trip (h : handler) (fsize : str -> res Z) (fread : str -> res (list N))
           (writable : str -> bool) (qp : list N -> str) (qp_dec : str -> list N)
           (args_rec : list arg) (kw_rec : list (str * arg))
           (args_play : list arg) (kw_play : list (str * arg)) (fs_play : fstate)
  : trip (res str * fstate) * list str :=
  match intercept_file h fsize fread args_rec kw_rec with
  | (Raises e, opened) => (Discarded e, opened)
  | (Ans v, opened) =>
      match cassette_trip qp qp_dec v with
      | None => (StoreFailed, opened)
      | Some v' => (Replayed (restore_input h writable v' args_play kw_play fs_play), opened)
      end
  end.

(** record an output with the file handler, save, fetch, build the holder *)
Definition output_trip (h : handler) (fsize : str -> res Z) (fread : str -> res (list N))
           (qp : list N -> str) (qp_dec : str -> list N)
           (args : list arg) (kwargs : list (str * arg)) : trip (res holder) * list str :=
  match intercept_file h fsize fread args kwargs with
  | (Raises e, opened) => (Discarded e, opened)
  | (Ans v, opened) =>
      match cassette_trip qp qp_dec v with
      | None => (StoreFailed, opened)
      | Some v' => (Replayed (restore_output v'), opened)
      end
  end.

(** a file system given by a finite table: path -> (size reported by getsize, bytes read) *)
Definition fs_table := list (str * (Z * list N)).
Definition fs_size (t : fs_table) (p : str) : res Z :=
  match assoc p t with Some (n, _) => Ans n | None => Raises OSError end.
Definition fs_read (t : fs_table) (p : str) : res (list N) :=
  match assoc p t with Some (_, b) => Ans b | None => Raises OSError end.
