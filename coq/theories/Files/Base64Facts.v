(** Facts about the concrete base64 codec: decoding inverts encoding on every byte string, every
    output character is in the 65-character alphabet (so no space ever occurs), length law.
    Finite sweeps run over the 64 digits / the 123 smallest code points only (never over byte
    triples); the arithmetic of a 3-byte group is done by lia per 6-bit digit. *)
From Coq Require Import ZArith NArith List Bool Lia ZifyBool ZifyN.
From Playback Require Import Base.Str Files.Base64.
Open Scope N_scope.
Open Scope list_scope.

Ltac Zify.zify_post_hook ::= Z.to_euclidean_division_equations.

(** ---- induction in steps of three ---- *)
Lemma list_ind3 {A} (P : list A -> Prop) :
  P [] -> (forall x, P [x]) -> (forall x y, P [x; y]) ->
  (forall x y z r, P r -> P (x :: y :: z :: r)) -> forall l, P l.
Proof.
  intros H0 H1 H2 H3. fix IH 1.
  intros [|x [|y [|z r]]]; [exact H0 | apply H1 | apply H2 | apply H3; apply IH].
Qed.

(** ---- finite ranges ---- *)
Lemma N_upto_spec n d : In d (N_upto n) <-> d < N.of_nat n.
Proof.
  induction n as [|n IH]; cbn [N_upto].
  - split; [intros []| lia].
  - rewrite in_app_iff, IH. cbn [In]. split.
    + intros [H|[H|[]]]; lia.
    + intros H. destruct (N.eq_dec d (N.of_nat n)) as [E|E]; [right; left; auto | left; lia].
Qed.

Lemma sweep_upto (f : N -> bool) n : forallb f (N_upto n) = true -> forall d, d < N.of_nat n -> f d = true.
Proof. intros H d Hd. rewrite forallb_forall in H. apply H. apply N_upto_spec. exact Hd. Qed.

(** ---- the alphabet ---- *)
Lemma b64val_b64char d : d < 64 -> b64val (b64char d) = Some d.
Proof.
  intros Hd.
  assert (S : forallb (fun d => match b64val (b64char d) with Some d' => d' =? d | None => false end) DIGITS = true)
    by (vm_compute; reflexivity).
  pose proof (sweep_upto _ 64 S d Hd) as E. cbv beta in E.
  destruct (b64val (b64char d)) as [d'|]; [|discriminate].
  apply N.eqb_eq in E. congruence.
Qed.

Lemma b64char_alphabet d : is_b64char (b64char d) = true.
Proof.
  unfold is_b64char, b64char.
  destruct (d <? 26) eqn:E1; [lia|].
  destruct (d <? 52) eqn:E2; [lia|].
  destruct (d <? 62) eqn:E3; [lia|].
  destruct (d =? 62) eqn:E4; reflexivity.
Qed.

Lemma b64char_not_pad d : (b64char d =? PAD) = false.
Proof.
  unfold b64char, PAD.
  destruct (d <? 26) eqn:E1; [lia|].
  destruct (d <? 52) eqn:E2; [lia|].
  destruct (d <? 62) eqn:E3; [lia|].
  destruct (d =? 62) eqn:E4; reflexivity.
Qed.

Lemma pad_alphabet : is_b64char PAD = true.
Proof. reflexivity. Qed.

Lemma is_b64char_bound c : is_b64char c = true -> c < 123.
Proof. unfold is_b64char. lia. Qed.

Lemma is_b64char_In c : is_b64char c = true <-> In c ALPHABET.
Proof.
  split.
  - intros H.
    assert (S : forallb (fun c => implb (is_b64char c) (existsb (N.eqb c) ALPHABET)) (N_upto 123) = true)
      by (vm_compute; reflexivity).
    pose proof (sweep_upto _ 123 S c (is_b64char_bound c H)) as E. cbv beta in E.
    rewrite H in E. cbn [implb] in E. apply existsb_exists in E. destruct E as [x [Hx Ex]].
    apply N.eqb_eq in Ex. subst x. exact Hx.
  - intros H.
    assert (S : forallb is_b64char ALPHABET = true) by (vm_compute; reflexivity).
    rewrite forallb_forall in S. apply S. exact H.
Qed.

Lemma alphabet_size : length ALPHABET = 65%nat /\ NoDup ALPHABET.
Proof.
  split; [reflexivity|].
  assert (D : forall l : list N, (fix nd (l : list N) : bool :=
            match l with [] => true | x :: l' => negb (existsb (N.eqb x) l') && nd l' end) l = true -> NoDup l).
  { induction l as [|x l IH]; intros H; [constructor|].
    apply andb_true_iff in H. destruct H as [H1 H2]. constructor; [|auto].
    intros HI. apply negb_true_iff in H1.
    assert (existsb (N.eqb x) l = true) as E by (apply existsb_exists; exists x; split; [exact HI | apply N.eqb_refl]).
    congruence. }
  apply D. vm_compute. reflexivity.
Qed.

Lemma space_not_alphabet : is_b64char 32 = false.
Proof. reflexivity. Qed.

(** ---- digits of a group ---- *)
Lemma d1_lt x : x < 256 -> d1 x < 64.
Proof. unfold d1. lia. Qed.
Lemma d2_lt x y : y < 256 -> d2 x y < 64.
Proof. unfold d2. lia. Qed.
Lemma d3_lt y z : z < 256 -> d3 y z < 64.
Proof. unfold d3. lia. Qed.
Lemma d4_lt z : d4 z < 64.
Proof. unfold d4. lia. Qed.

Lemma group1 x y : x < 256 -> y < 256 -> o1 (d1 x) (d2 x y) = x.
Proof. unfold o1, d1, d2. lia. Qed.
Lemma group2 x y z : y < 256 -> z < 256 -> o2 (d2 x y) (d3 y z) = y.
Proof. unfold o2, d2, d3. lia. Qed.
Lemma group3 y z : z < 256 -> o3 (d3 y z) (d4 z) = z.
Proof. unfold o3, d3, d4. lia. Qed.

(** ---- the codec ---- *)
Local Arguments b64char : simpl never.
Local Arguments b64val : simpl never.
Local Arguments N.eqb : simpl never.
Local Arguments N.ltb : simpl never.

Lemma bytes_ok_cons x b : bytes_ok (x :: b) = true <-> x < 256 /\ bytes_ok b = true.
Proof. unfold bytes_ok. cbn [forallb]. rewrite andb_true_iff. rewrite N.ltb_lt. tauto. Qed.

(** decoding what the encoder produced gives the bytes back, for every byte string *)
Theorem b64_roundtrip : forall b, bytes_ok b = true -> b64dec (b64enc b) = Some b.
Proof.
  induction b as [|x|x y|x y z r IH] using list_ind3; intros Hb.
  - reflexivity.
  - apply bytes_ok_cons in Hb. destruct Hb as [Hx _].
    cbn [b64enc b64dec].
    rewrite (b64val_b64char _ (d1_lt x Hx)), (b64val_b64char (d2 x 0)) by (apply d2_lt; lia).
    rewrite N.eqb_refl. rewrite group1 by lia. reflexivity.
  - apply bytes_ok_cons in Hb. destruct Hb as [Hx Hb]. apply bytes_ok_cons in Hb. destruct Hb as [Hy _].
    cbn [b64enc b64dec].
    rewrite (b64val_b64char _ (d1_lt x Hx)), (b64val_b64char _ (d2_lt x y Hy)).
    rewrite b64char_not_pad.
    rewrite (b64val_b64char (d3 y 0)) by (apply d3_lt; lia).
    rewrite N.eqb_refl. rewrite group1 by lia. rewrite group2 by lia. reflexivity.
  - apply bytes_ok_cons in Hb. destruct Hb as [Hx Hb]. apply bytes_ok_cons in Hb. destruct Hb as [Hy Hb].
    apply bytes_ok_cons in Hb. destruct Hb as [Hz Hr].
    cbn [b64enc b64dec].
    rewrite (b64val_b64char _ (d1_lt x Hx)), (b64val_b64char _ (d2_lt x y Hy)).
    rewrite b64char_not_pad.
    rewrite (b64val_b64char _ (d3_lt y z Hz)).
    rewrite b64char_not_pad.
    rewrite (b64val_b64char _ (d4_lt z)).
    rewrite (IH Hr).
    rewrite group1, group2, group3 by lia. reflexivity.
Qed.

Corollary b64enc_injective a b : bytes_ok a = true -> bytes_ok b = true -> b64enc a = b64enc b -> a = b.
Proof.
  intros Ha Hb E. apply b64_roundtrip in Ha. apply b64_roundtrip in Hb. rewrite E in Ha. congruence.
Qed.

(** every character of the encoding is one of the 65 alphabet characters (for any list, bytes or not) *)
Theorem b64enc_alphabet : forall b, forallb is_b64char (b64enc b) = true.
Proof.
  induction b as [|x|x y|x y z r IH] using list_ind3; cbn [b64enc forallb];
    rewrite ?b64char_alphabet, ?pad_alphabet, ?IH; reflexivity.
Qed.

Corollary b64enc_chars_in_alphabet b c : In c (b64enc b) -> In c ALPHABET.
Proof.
  intros H. apply is_b64char_In. pose proof (b64enc_alphabet b) as F.
  rewrite forallb_forall in F. apply F. exact H.
Qed.

Corollary b64enc_no_space b : ~ In 32 (b64enc b).
Proof.
  intros H. pose proof (b64enc_alphabet b) as F. rewrite forallb_forall in F.
  apply F in H. rewrite space_not_alphabet in H. discriminate.
Qed.

(** hence the encoding never equals a text that contains a character outside the alphabet *)
Corollary b64enc_neq_foreign b s c : In c s -> is_b64char c = false -> b64enc b <> s.
Proof.
  intros Hc Hn E. subst s. pose proof (b64enc_alphabet b) as F. rewrite forallb_forall in F.
  apply F in Hc. congruence.
Qed.

(** length law: 4 characters per started group of 3 bytes *)
Theorem b64enc_length b : (Z.of_nat (length (b64enc b)) = 4 * ((Z.of_nat (length b) + 2) / 3))%Z.
Proof.
  induction b as [|x|x y|x y z r IH] using list_ind3; try reflexivity.
  cbn [b64enc length]. lia.
Qed.

Corollary b64enc_length_mod4 b : (Z.of_nat (length (b64enc b)) mod 4 = 0)%Z.
Proof. rewrite b64enc_length. lia. Qed.

Corollary b64enc_nil_iff b : b64enc b = [] <-> b = [].
Proof.
  split; [|intros ->; reflexivity].
  destruct b as [|x [|y [|z r]]]; cbn [b64enc]; intros H; [reflexivity | discriminate..].
Qed.
