(** Model H, part 1: a concrete RFC 4648 base64 encoder / decoder on byte lists ([list N], one
    element per byte / per ASCII character).  It stands for Python 3's [base64.b64encode] and for
    [base64.b64decode] on canonical input (file_interception.py:138-139, :156-157).
    Executable definitions only; the facts are in Base64Facts.v. *)
From Playback Require Import Base.Str.
Open Scope N_scope.
Open Scope list_scope.

(** the character of a 6-bit digit: A-Z a-z 0-9 + /  (total: anything >= 63 prints as '/') *)
Definition b64char (d : N) : N :=
  if d <? 26 then 65 + d
  else if d <? 52 then 71 + d          (* 'a' = 97 = 71 + 26 *)
  else if d <? 62 then d - 4           (* '0' = 48 = 52 - 4 *)
  else if d =? 62 then 43              (* '+' *)
  else 47.                             (* '/' *)

Definition PAD : N := 61.              (* '=' *)

(** the 6-bit digit of a character; None for anything outside the 64-character alphabet *)
Definition b64val (c : N) : option N :=
  if (65 <=? c) && (c <=? 90) then Some (c - 65)
  else if (97 <=? c) && (c <=? 122) then Some (c - 71)
  else if (48 <=? c) && (c <=? 57) then Some (c + 4)
  else if c =? 43 then Some 62
  else if c =? 47 then Some 63
  else None.

(** membership in the 65-character alphabet (64 digits and the padding character) *)
Definition is_b64char (c : N) : bool :=
  ((65 <=? c) && (c <=? 90)) || ((97 <=? c) && (c <=? 122)) || ((48 <=? c) && (c <=? 57))
  || (c =? 43) || (c =? 47) || (c =? 61).

Definition ALPHABET : list N :=
  U"ABCDEFGHIJKLMNOPQRSTUVWXYZabcdefghijklmnopqrstuvwxyz0123456789+/=".

(** the four 6-bit digits of a 3-byte group *)
Definition d1 (x : N) : N := x / 4.
Definition d2 (x y : N) : N := (x mod 4) * 16 + y / 16.
Definition d3 (y z : N) : N := (y mod 16) * 4 + z / 64.
Definition d4 (z : N) : N := z mod 64.

(** [base64.b64encode]: 3-byte groups -> 4 characters; 1 or 2 trailing bytes are padded with '=' *)
Fixpoint b64enc (b : list N) : list N :=
  match b with
  | [] => []
  | [x] => [b64char (d1 x); b64char (d2 x 0); PAD; PAD]
  | [x; y] => [b64char (d1 x); b64char (d2 x y); b64char (d3 y 0); PAD]
  | x :: y :: z :: r =>
      b64char (d1 x) :: b64char (d2 x y) :: b64char (d3 y z) :: b64char (d4 z) :: b64enc r
  end.

(** the bytes of a group of digits *)
Definition o1 (a b : N) : N := a * 4 + b / 16.
Definition o2 (b c : N) : N := (b mod 16) * 16 + c / 4.
Definition o3 (c d : N) : N := (c mod 4) * 64 + d.

(** decoder for canonical base64 text (length a multiple of 4, alphabet characters only, padding only
    at the very end).  None = not canonical (Python: binascii.Error, or - in its lenient default
    mode - some other byte string; such input is never produced by [b64enc]). *)
Fixpoint b64dec (s : list N) : option (list N) :=
  match s with
  | [] => Some []
  | a :: b :: c :: d :: r =>
      match b64val a, b64val b with
      | Some va, Some vb =>
          if c =? PAD then
            match r with
            | [] => if d =? PAD then Some [o1 va vb] else None
            | _ => None
            end
          else
            match b64val c with
            | None => None
            | Some vc =>
                if d =? PAD then
                  match r with
                  | [] => Some [o1 va vb; o2 vb vc]
                  | _ => None
                  end
                else
                  match b64val d, b64dec r with
                  | Some vd, Some rest => Some (o1 va vb :: o2 vb vc :: o3 vc vd :: rest)
                  | _, _ => None
                  end
            end
      | _, _ => None
      end
  | _ => None
  end.

(** every element is a byte *)
Definition bytes_ok (b : list N) : bool := forallb (fun x => x <? 256) b.

(** the digits 0..63, for the finite sweeps *)
Fixpoint N_upto (n : nat) : list N :=
  match n with
  | O => []
  | S n' => N_upto n' ++ [N.of_nat n']
  end.
Definition DIGITS : list N := N_upto 64.
