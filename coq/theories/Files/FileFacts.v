(** Facts about the file data handler model (model H). *)
From Coq Require Import QArith ZArith NArith List Bool Lia ZifyBool.
From Playback Require Import Base.Str Base.StrFacts Values.PyVal Values.Codec Values.CodecFacts
     Files.Base64 Files.Base64Facts Files.FileIntercept.
Open Scope list_scope.

Definition MB : Q := inject_Z 1048576.

(** ---- the size limit ---- *)

(** [is_above] is the exact rational comparison [size > limit * 2^20] *)
Theorem is_above_spec size limit : is_above size limit = true <-> (limit * MB < inject_Z size)%Q.
Proof.
  unfold is_above, mb_size, MB. rewrite negb_true_iff.
  destruct (Qle_bool (size # 1048576) limit) eqn:E.
  - split; [discriminate|]. intros H. exfalso.
    apply Qle_bool_iff in E. revert E H. unfold Qle, Qlt, Qmult, inject_Z. cbn.
    rewrite Pos.mul_1_r. lia.
  - split; [|reflexivity]. intros _.
    assert (~ (size # 1048576 <= limit)%Q) as N by (rewrite <- Qle_bool_iff; congruence).
    apply Qnot_le_lt in N. revert N. unfold Qlt, Qmult, inject_Z. cbn.
    rewrite Pos.mul_1_r. lia.
Qed.

Corollary is_above_false size limit : is_above size limit = false <-> (inject_Z size <= limit * MB)%Q.
Proof.
  split.
  - intros H. apply Qnot_lt_le. intros L. apply is_above_spec in L. congruence.
  - intros H. destruct (is_above size limit) eqn:E; [|reflexivity].
    apply is_above_spec in E. apply Qlt_not_le in E. contradiction.
Qed.

(** the three boundary cases, for a limit of exactly [n] bytes *)
Section Boundary.
  Variables (limit : Q) (n : Z).
  Hypothesis exact : (limit * MB == inject_Z n)%Q.

  Lemma above_iff_gt size : is_above size limit = true <-> (n < size)%Z.
  Proof. rewrite is_above_spec, exact. rewrite <- Zlt_Qlt. tauto. Qed.

  Corollary boundary_minus_one : is_above (n - 1) limit = false.
  Proof. destruct (is_above (n - 1) limit) eqn:E; [|reflexivity]. apply above_iff_gt in E. lia. Qed.
  Corollary boundary_exact : is_above n limit = false.
  Proof. destruct (is_above n limit) eqn:E; [|reflexivity]. apply above_iff_gt in E. lia. Qed.
  Corollary boundary_plus_one : is_above (n + 1) limit = true.
  Proof. apply above_iff_gt. lia. Qed.
End Boundary.

(** a limit of [m] whole MB is [m * 2^20] bytes; the environment variable always gives such a limit *)
Lemma int_limit_exact m : (inject_Z m * MB == inject_Z (m * 1048576))%Q.
Proof. unfold MB. rewrite <- inject_Z_mult. reflexivity. Qed.

Lemma Qtrunc_inject m : Qtrunc (inject_Z m) = m.
Proof. unfold Qtrunc, inject_Z. cbn. apply Z.quot_1_r. Qed.

(** [int(float(env))] truncates toward zero: the integer part in absolute value, keeping the sign *)
Lemma Qtrunc_spec q : let t := Qtrunc q in
  ((0 <= q -> inject_Z t <= q /\ q < inject_Z (t + 1)) /\
   (q <= 0 -> inject_Z (t - 1) < q /\ q <= inject_Z t))%Q.
Proof.
  destruct q as [a d]. unfold Qtrunc, Qle, Qlt, inject_Z. cbn [Qnum Qden].
  pose proof (Z.quot_rem' a (Zpos d)) as E.
  split; intros H; rewrite ?Z.mul_1_r in *.
  - assert (0 <= a)%Z as Ha by lia.
    pose proof (Z.rem_bound_pos a (Zpos d) Ha ltac:(lia)) as B.
    set (t := (a ÷ Z.pos d)%Z) in *. set (r := Z.rem a (Z.pos d)) in *. clearbody t r. nia.
  - assert (a <= 0)%Z as Ha by lia.
    pose proof (Z.rem_bound_pos_neg a (Zpos d) ltac:(lia) Ha) as B.
    set (t := (a ÷ Z.pos d)%Z) in *. set (r := Z.rem a (Z.pos d)) in *. clearbody t r. nia.
Qed.

Lemma calc_limit_explicit q env : calc_limit (Some q) env = Ans q.
Proof. reflexivity. Qed.
Lemma calc_limit_env q : calc_limit None (EnvFloat q) = Ans (inject_Z (Qtrunc q)).
Proof. reflexivity. Qed.
Lemma calc_limit_default : calc_limit None EnvUnset = Ans (inject_Z 500).
Proof. reflexivity. Qed.

(** ---- the path ---- *)

(** the call passes path [p] where the handler looks for it: by keyword (a non-empty str), or - no
    truthy value under the keyword - at the configured position *)
Definition passes_path (h : handler) (args : list arg) (kwargs : list (str * arg)) (p : str) : Prop :=
  (assoc (h_name h) kwargs = Some (AStr p) /\ p <> [])
  \/ ((forall a, assoc (h_name h) kwargs = Some a -> truthy a = false) /\ py_index args (h_index h) = Ans (AStr p)).

Lemma get_path_passes h args kwargs p : passes_path h args kwargs p -> get_path h args kwargs = Ans (AStr p).
Proof.
  unfold get_path. intros [[E Hp]|[F I]].
  - rewrite E. destruct p; [congruence|]. reflexivity.
  - destruct (assoc (h_name h) kwargs) as [a|]; [rewrite (F a eq_refl)|cbn]; exact I.
Qed.

Lemma py_index_nonneg {A} (l : list A) i x :
  (0 <= i)%Z -> nth_error l (Z.to_nat i) = Some x -> py_index l i = Ans x.
Proof.
  intros Hi E. unfold py_index.
  assert (Z.to_nat i < length l)%nat as L by (apply nth_error_Some; congruence).
  destruct (i <? 0)%Z eqn:E0; [lia|].
  destruct ((0 <=? i) && (i <? Z.of_nat (length l)))%Z eqn:E1; [|lia].
  rewrite E. reflexivity.
Qed.

Lemma py_index_out {A} (l : list A) i :
  (Z.of_nat (length l) <= i \/ i < - Z.of_nat (length l))%Z -> py_index l i = Raises IndexError.
Proof.
  intros H. unfold py_index.
  destruct (i <? 0)%Z eqn:E0.
  - destruct ((0 <=? i + Z.of_nat (length l)) && (i + Z.of_nat (length l) <? Z.of_nat (length l)))%Z eqn:E1;
      [lia|reflexivity].
  - destruct ((0 <=? i) && (i <? Z.of_nat (length l)))%Z eqn:E1; [lia|reflexivity].
Qed.

(** ---- recording a file ---- *)

Definition placeholder_has_space : In 32%N PLACEHOLDER.
Proof. vm_compute. tauto. Qed.

Lemma b64enc_not_placeholder b : list_eqb N.eqb (b64enc b) PLACEHOLDER = false.
Proof.
  destruct (list_eqb N.eqb (b64enc b) PLACEHOLDER) eqn:E; [|reflexivity]. exfalso.
  assert (b64enc b = PLACEHOLDER) as EQ.
  { clear - E. revert E. generalize PLACEHOLDER. generalize (b64enc b).
    induction l as [|x l IH]; intros [|y m]; cbn; intros H; try discriminate; [reflexivity|].
    apply andb_true_iff in H. destruct H as [H1 H2]. apply N.eqb_eq in H1. f_equal; auto. }
  revert EQ. apply b64enc_neq_foreign with (c := 32%N); [exact placeholder_has_space | reflexivity].
Qed.

Lemma placeholder_bytes_ok : bytes_ok PLACEHOLDER = true.
Proof. reflexivity. Qed.

(** the size condition of a file that is recorded with its content *)
Definition within_limit (h : handler) (fsize : str -> res Z) (p : str) : Prop :=
  match h_limit h with
  | None => True
  | Some lim => exists n, fsize p = Ans n /\ (inject_Z n <= lim * MB)%Q
  end.

Definition beyond_limit (h : handler) (fsize : str -> res Z) (p : str) : Prop :=
  exists lim n, h_limit h = Some lim /\ fsize p = Ans n /\ (lim * MB < inject_Z n)%Q.

Lemma above_check_within h fsize p : within_limit h fsize p -> above_check h fsize p = Ans false.
Proof.
  unfold within_limit, above_check. destruct (h_limit h) as [lim|]; [|reflexivity].
  intros [n [E L]]. rewrite E. apply is_above_false in L. rewrite L. reflexivity.
Qed.

Lemma above_check_beyond h fsize p : beyond_limit h fsize p -> above_check h fsize p = Ans true.
Proof.
  unfold above_check. intros [lim [n [E1 [E2 L]]]]. rewrite E1, E2.
  apply is_above_spec in L. rewrite L. reflexivity.
Qed.

Lemma above_check_iff h fsize p lim n : h_limit h = Some lim -> fsize p = Ans n ->
  (above_check h fsize p = Ans true <-> (lim * MB < inject_Z n)%Q).
Proof.
  intros E1 E2. unfold above_check. rewrite E1, E2. rewrite <- is_above_spec.
  split; [congruence | intros ->; reflexivity].
Qed.

(** below or at the limit: the file is read once and its base64 text recorded *)
Lemma intercept_within h fsize fread args kwargs p b :
  passes_path h args kwargs p -> within_limit h fsize p -> fread p = Ans b ->
  intercept_file h fsize fread args kwargs = (Ans (serialize_file b p), [p]).
Proof.
  intros P W R. unfold intercept_file.
  rewrite (get_path_passes _ _ _ _ P), (above_check_within _ _ _ W), R. reflexivity.
Qed.

(** above the limit: the placeholder is recorded and nothing is opened, whatever the read oracle is *)
Lemma intercept_beyond h fsize fread args kwargs p :
  passes_path h args kwargs p -> beyond_limit h fsize p ->
  intercept_file h fsize fread args kwargs = (Ans (above_limit_result p), []).
Proof.
  intros P B. unfold intercept_file.
  rewrite (get_path_passes _ _ _ _ P), (above_check_beyond _ _ _ B). reflexivity.
Qed.

Corollary intercept_beyond_ignores_content h fsize fread1 fread2 args kwargs p :
  passes_path h args kwargs p -> beyond_limit h fsize p ->
  intercept_file h fsize fread1 args kwargs = intercept_file h fsize fread2 args kwargs.
Proof. intros P B. rewrite !(intercept_beyond _ _ _ _ _ _ P B). reflexivity. Qed.

(** ---- restoring ---- *)

Lemma assoc_content_sorted (p c : pyval) :
  sort_items [(K_PATH, p); (K_CONTENT, c)] = [(K_CONTENT, c); (K_PATH, p)].
Proof. reflexivity. Qed.

Lemma deserialize_pair (p c : pyval) b :
  decode_content c = Ans b ->
  deserialize_file (VDict [(K_PATH, p); (K_CONTENT, c)]) = Ans (p, b) /\
  deserialize_file (VDict [(K_CONTENT, c); (K_PATH, p)]) = Ans (p, b).
Proof. intros D. split; cbn; rewrite D; reflexivity. Qed.

Lemma decode_b64 b : bytes_ok b = true -> decode_content (VBytes (b64enc b)) = Ans b.
Proof.
  intros Hb. unfold decode_content. rewrite b64enc_not_placeholder, (b64_roundtrip b Hb). reflexivity.
Qed.

Lemma decode_placeholder : decode_content (VBytes PLACEHOLDER) = Ans PLACEHOLDER.
Proof. reflexivity. Qed.

(** [_deserialize_file] inverts [_serialize_file], for every byte string and path *)
Theorem deserialize_serialize b p : bytes_ok b = true ->
  deserialize_file (serialize_file b p) = Ans (VStr p, b).
Proof. intros Hb. apply (deserialize_pair (VStr p) _ b (decode_b64 b Hb)). Qed.

Theorem deserialize_above_limit p : deserialize_file (above_limit_result p) = Ans (VStr p, PLACEHOLDER).
Proof. apply (deserialize_pair (VStr p) _ _ decode_placeholder). Qed.

(** ---- the file system state ---- *)
Lemma fs_get_set_same p c fs : fs_get p (fs_set p c fs) = Some c.
Proof.
  unfold fs_get. induction fs as [|[q d] r IH]; cbn.
  - rewrite str_eqb_refl. reflexivity.
  - destruct (str_eqb p q) eqn:E; cbn; [rewrite str_eqb_refl; reflexivity|]. rewrite E. exact IH.
Qed.

Lemma fs_get_set_other p q c fs : q <> p -> fs_get q (fs_set p c fs) = fs_get q fs.
Proof.
  intros N. unfold fs_get. apply str_eqb_neq in N.
  induction fs as [|[q' d] r IH]; cbn.
  - rewrite N. reflexivity.
  - destruct (str_eqb p q') eqn:E; cbn.
    + apply str_eqb_eq in E. subst q'. rewrite N. reflexivity.
    + destruct (str_eqb q q'); [reflexivity|exact IH].
Qed.

Lemma fs_set_set p a b fs : fs_set p b (fs_set p a fs) = fs_set p b fs.
Proof.
  induction fs as [|[q d] r IH]; cbn.
  - rewrite str_eqb_refl. reflexivity.
  - destruct (str_eqb p q) eqn:E; cbn; [rewrite str_eqb_refl; reflexivity|]. rewrite E, IH. reflexivity.
Qed.

Lemma write_at0_empty b : write_at0 [] b = b.
Proof. unfold write_at0. rewrite skipn_nil. apply app_nil_r. Qed.

(** opening for writing and then writing b leaves exactly b, whatever the file held before
    (longer, shorter, equal, absent): the truncation of "wb" is what makes this true *)
Lemma write_after_open p b fs : write_file p b (open_wb p fs) = fs_set p b fs.
Proof.
  unfold write_file, open_wb. rewrite fs_get_set_same, write_at0_empty. apply fs_set_set.
Qed.

(** without the truncation the old tail would survive *)
Lemma write_without_truncate_keeps_tail old b :
  (length b < length old)%nat -> write_at0 old b <> b.
Proof.
  intros L E. unfold write_at0 in E.
  assert (length (b ++ skipn (length b) old) = length b) as EL by (rewrite E; reflexivity).
  rewrite app_length, skipn_length in EL. lia.
Qed.

(** one restore, on ANY previous state: the replayed path holds exactly the decoded bytes afterwards,
    every other path is untouched *)
Lemma restore_input_sets h writable recorded args kwargs fs p pth b :
  passes_path h args kwargs p -> writable p = true -> deserialize_file recorded = Ans (pth, b) ->
  restore_input h writable recorded args kwargs fs = (Ans p, fs_set p b fs).
Proof.
  intros P W D. unfold restore_input. rewrite (get_path_passes _ _ _ _ P), W, D.
  rewrite write_after_open. reflexivity.
Qed.

(** several recordings replayed one after another into the same path: the last one wins, byte for byte,
    whatever the earlier ones (longer, shorter, even undecodable) and the initial state were *)
Lemma restore_all_app h writable r1 r2 args kwargs fs :
  restore_all h writable (r1 ++ r2) args kwargs fs =
  restore_all h writable r2 args kwargs (restore_all h writable r1 args kwargs fs).
Proof. revert fs. induction r1 as [|r rs IH]; intros fs; cbn; [reflexivity|apply IH]. Qed.

Theorem restore_sequence_last h writable recs recorded args kwargs fs p pth b :
  passes_path h args kwargs p -> writable p = true -> deserialize_file recorded = Ans (pth, b) ->
  fs_get p (restore_all h writable (recs ++ [recorded]) args kwargs fs) = Some b.
Proof.
  intros P W D. rewrite restore_all_app. cbn [restore_all].
  rewrite (restore_input_sets _ _ _ _ _ _ _ _ _ P W D). cbn [snd]. apply fs_get_set_same.
Qed.

Theorem restore_sequence_others h writable recs args kwargs fs p q :
  passes_path h args kwargs p -> q <> p ->
  fs_get q (restore_all h writable recs args kwargs fs) = fs_get q fs.
Proof.
  intros P N. revert fs. induction recs as [|r rs IH]; intros fs; cbn [restore_all]; [reflexivity|].
  rewrite IH. unfold restore_input. rewrite (get_path_passes _ _ _ _ P).
  destruct (writable p); [|reflexivity].
  destruct (deserialize_file r) as [[pth c]|e]; cbn [snd].
  - rewrite write_after_open. apply fs_get_set_other. exact N.
  - unfold open_wb. apply fs_get_set_other. exact N.
Qed.

(** replaying the same recording twice gives the same file system as replaying it once *)
Theorem restore_twice h writable recorded args kwargs fs p pth b :
  passes_path h args kwargs p -> writable p = true -> deserialize_file recorded = Ans (pth, b) ->
  restore_all h writable [recorded; recorded] args kwargs fs = restore_all h writable [recorded] args kwargs fs.
Proof.
  intros P W D. cbn [restore_all]. rewrite !(restore_input_sets _ _ _ _ _ _ _ _ _ P W D). cbn [snd].
  apply fs_set_set.
Qed.

(** ---- through the cassette ---- *)
(** the characters of a base64 text are bytes (in fact ASCII) *)
Lemma b64enc_bytes_ok b : bytes_ok (b64enc b) = true.
Proof.
  unfold bytes_ok. apply forallb_forall. intros c I. apply b64enc_chars_in_alphabet in I.
  assert (A : forallb (fun x => (x <? 256)%N) ALPHABET = true) by (vm_compute; reflexivity).
  rewrite forallb_forall in A. exact (A c I).
Qed.

Section Trip.
  Variable qp : list N -> str.
  Variable qp_dec : str -> list N.
  (** wp-audit: the coding of bytes has to invert on BYTE strings only (every element < 256): the only byte
      strings that travel here are a base64 text and the placeholder.  The earlier hypothesis
      [forall b, qp_dec (qp b) = b], over every [list N], is met by [Codec.qp_simple] with the decoder
      [JsonParse.qp_dec_simple] but not with the heap model's decoder [Heap.qp_dec_simple] ([256] comes back as
      [0]); the guarded form is met by both and is all the proofs below need. *)
  Hypothesis qp_roundtrip : forall b, bytes_ok b = true -> qp_dec (qp b) = b.

  (** the file record through flatten / restore, computed directly: dict items come back in key order *)
  Lemma cassette_trip_record (p : str) (c : list N) :
    cassette_trip qp qp_dec (VDict [(K_PATH, VStr p); (K_CONTENT, VBytes c)])
    = Some (VDict [(K_CONTENT, VBytes (qp_dec (qp c))); (K_PATH, VStr p)]).
  Proof. reflexivity. Qed.

  Lemma trip_serialized b p : str_ok p = true -> bytes_ok b = true ->
    exists v', cassette_trip qp qp_dec (serialize_file b p) = Some v' /\ deserialize_file v' = Ans (VStr p, b).
  Proof.
    intros _ Hb. eexists. split.
    - unfold serialize_file. rewrite cassette_trip_record, (qp_roundtrip _ (b64enc_bytes_ok b)). reflexivity.
    - apply (deserialize_pair (VStr p) _ b (decode_b64 b Hb)).
  Qed.

  Lemma trip_above p : str_ok p = true ->
    exists v', cassette_trip qp qp_dec (above_limit_result p) = Some v' /\
               deserialize_file v' = Ans (VStr p, PLACEHOLDER).
  Proof.
    intros _. eexists. split.
    - unfold above_limit_result. rewrite cassette_trip_record, (qp_roundtrip _ placeholder_bytes_ok). reflexivity.
    - apply (deserialize_pair (VStr p) _ _ decode_placeholder).
  Qed.

  Variable fsize : str -> res Z.
  Variable fread : str -> res (list N).
  Variable writable : str -> bool.

  (** input handler: the bytes read while recording are written, unchanged, at the path named by the
      REPLAYED call - whatever the recorded path was *)
  Theorem input_roundtrip h args_rec kw_rec args_play kw_play p_rec p_play b fs_play :
    passes_path h args_rec kw_rec p_rec -> passes_path h args_play kw_play p_play ->
    str_ok p_rec = true -> within_limit h fsize p_rec -> fread p_rec = Ans b -> bytes_ok b = true ->
    writable p_play = true ->
    input_trip h fsize fread writable qp qp_dec args_rec kw_rec args_play kw_play fs_play
    = (Replayed (Ans p_play, fs_set p_play b fs_play), [p_rec]).
  Proof.
    intros P1 P2 Hp W R Hb Wr. unfold input_trip.
    rewrite (intercept_within _ _ _ _ _ _ _ P1 W R).
    destruct (trip_serialized b p_rec Hp Hb) as [v' [T D]]. rewrite T.
    rewrite (restore_input_sets _ _ _ _ _ _ _ _ _ P2 Wr D). reflexivity.
  Qed.

  (** output handler: the holder built from the stored recording carries exactly the bytes *)
  Theorem output_roundtrip h args kwargs p b :
    passes_path h args kwargs p -> str_ok p = true -> within_limit h fsize p -> fread p = Ans b ->
    bytes_ok b = true ->
    output_trip h fsize fread qp qp_dec args kwargs = (Replayed (Ans (Holder b (VStr p))), [p]).
  Proof.
    intros P Hp W R Hb. unfold output_trip.
    rewrite (intercept_within _ _ _ _ _ _ _ P W R).
    destruct (trip_serialized b p Hp Hb) as [v' [T D]]. rewrite T.
    unfold restore_output. rewrite D. reflexivity.
  Qed.

  (** above the limit: nothing is opened for reading, the recording holds the placeholder (and the
      placeholder is what a replay materialises) *)
  Theorem input_above_limit h args_rec kw_rec args_play kw_play p_rec p_play fs_play :
    passes_path h args_rec kw_rec p_rec -> passes_path h args_play kw_play p_play ->
    str_ok p_rec = true -> beyond_limit h fsize p_rec -> writable p_play = true ->
    intercept_file h fsize fread args_rec kw_rec = (Ans (above_limit_result p_rec), []) /\
    input_trip h fsize fread writable qp qp_dec args_rec kw_rec args_play kw_play fs_play
    = (Replayed (Ans p_play, fs_set p_play PLACEHOLDER fs_play), []).
  Proof.
    intros P1 P2 Hp B Wr. pose proof (intercept_beyond _ _ fread _ _ _ P1 B) as I. split; [exact I|].
    unfold input_trip. rewrite I.
    destruct (trip_above p_rec Hp) as [v' [T D]]. rewrite T.
    rewrite (restore_input_sets _ _ _ _ _ _ _ _ _ P2 Wr D). reflexivity.
  Qed.

  Theorem output_above_limit h args kwargs p :
    passes_path h args kwargs p -> str_ok p = true -> beyond_limit h fsize p ->
    output_trip h fsize fread qp qp_dec args kwargs = (Replayed (Ans (Holder PLACEHOLDER (VStr p))), []).
  Proof.
    intros P Hp B. unfold output_trip. rewrite (intercept_beyond _ _ fread _ _ _ P B).
    destruct (trip_above p Hp) as [v' [T D]]. rewrite T.
    unfold restore_output. rewrite D. reflexivity.
  Qed.
  (** replaying, after any number of other recordings (of longer, shorter, equal or no content), the stored
      recording of a file with bytes b into the same path leaves exactly b there *)
  Theorem stored_sequence_last h recs args kwargs fs p p_rec b v' :
    passes_path h args kwargs p -> writable p = true -> str_ok p_rec = true -> bytes_ok b = true ->
    cassette_trip qp qp_dec (serialize_file b p_rec) = Some v' ->
    fs_get p (restore_all h writable (recs ++ [v']) args kwargs fs) = Some b.
  Proof.
    intros P W Hp Hb T. destruct (trip_serialized b p_rec Hp Hb) as [v'' [T' D]].
    rewrite T in T'. inversion T'; subst v''.
    apply (restore_sequence_last _ _ _ _ _ _ _ _ _ _ P W D).
  Qed.
End Trip.

(** ---- histories on one path ----
    The handlers carry nothing from one interception to the next.  When the same path is intercepted again
    and again - the file rewritten in between with other bytes, of the same length or not - the k-th
    recording is made of what the file holds at the k-th interception.  A history is a list of file
    system oracles (what getsize / read answer at that moment); whatever else the file system knows about
    the file (modification time, inode) is not an input of the handlers. *)
Section History.
  Variable qp : list N -> str.
  Variable qp_dec : str -> list N.
  Hypothesis qp_roundtrip : forall b, bytes_ok b = true -> qp_dec (qp b) = b.

  Definition fs_oracle : Type := (str -> res Z) * (str -> res (list N)).
  Definition holds_at (h : handler) (p : str) (o : fs_oracle) (b : list N) : Prop :=
    within_limit h (fst o) p /\ snd o p = Ans b /\ bytes_ok b = true.

  Theorem output_history h args kwargs p (hist : list fs_oracle) (bs : list (list N)) :
    passes_path h args kwargs p -> str_ok p = true -> Forall2 (holds_at h p) hist bs ->
    map (fun o : fs_oracle => output_trip h (fst o) (snd o) qp qp_dec args kwargs) hist
    = map (fun b => (Replayed (Ans (Holder b (VStr p))), [p])) bs.
  Proof.
    intros P Hp F. induction F as [|o b hist bs [W [R Hb]] _ IH]; [reflexivity|].
    cbn [map]. rewrite IH. f_equal.
    apply (output_roundtrip qp qp_dec qp_roundtrip (fst o) (snd o) h args kwargs p b P Hp W R Hb).
  Qed.

  Theorem input_history h writable args_rec kw_rec args_play kw_play p_rec p_play fs_play
          (hist : list fs_oracle) (bs : list (list N)) :
    passes_path h args_rec kw_rec p_rec -> passes_path h args_play kw_play p_play ->
    str_ok p_rec = true -> writable p_play = true -> Forall2 (holds_at h p_rec) hist bs ->
    map (fun o : fs_oracle => input_trip h (fst o) (snd o) writable qp qp_dec args_rec kw_rec args_play kw_play fs_play) hist
    = map (fun b => (Replayed (Ans p_play, fs_set p_play b fs_play), [p_rec])) bs.
  Proof.
    intros P1 P2 Hp Wr F. induction F as [|o b hist bs [W [R Hb]] _ IH]; [reflexivity|].
    cbn [map]. rewrite IH. f_equal.
    apply (input_roundtrip qp qp_dec qp_roundtrip (fst o) (snd o) writable h args_rec kw_rec args_play kw_play
                           p_rec p_play b fs_play P1 P2 Hp W R Hb Wr).
  Qed.
End History.

(** the read journal of [intercept_file] is empty or the one path it was asked about *)
Lemma intercept_opens_at_most_path h fsize fread args kwargs :
  snd (intercept_file h fsize fread args kwargs) = [] \/
  exists p, get_path h args kwargs = Ans (AStr p) /\ above_check h fsize p = Ans false /\
            snd (intercept_file h fsize fread args kwargs) = [p].
Proof.
  unfold intercept_file. destruct (get_path h args kwargs) as [[|p|t]|e]; cbn; auto.
  destruct (above_check h fsize p) as [[|]|e] eqn:A; cbn; auto.
  right. exists p. destruct (fread p); cbn; auto.
Qed.

(** whenever a file above the limit is recorded successfully, nothing was read: full converse form *)
Theorem limit_honoured h fsize fread args kwargs p lim n :
  get_path h args kwargs = Ans (AStr p) -> h_limit h = Some lim -> fsize p = Ans n ->
  ((lim * MB < inject_Z n)%Q ->
     intercept_file h fsize fread args kwargs = (Ans (above_limit_result p), [])) /\
  ((inject_Z n <= lim * MB)%Q ->
     intercept_file h fsize fread args kwargs =
     (match fread p with Ans b => Ans (serialize_file b p) | Raises e => Raises e end, [p])).
Proof.
  intros G L S. unfold intercept_file, above_check. rewrite G, L, S. split; intros H.
  - apply is_above_spec in H. rewrite H. reflexivity.
  - apply is_above_false in H. rewrite H. destruct (fread p); reflexivity.
Qed.

(** ---- the two ways of passing the path ---- *)
Lemma passes_by_keyword h args kwargs p :
  assoc (h_name h) kwargs = Some (AStr p) -> p <> [] -> passes_path h args kwargs p.
Proof. intros E Hp. left. split; assumption. Qed.

Lemma passes_by_position h args kwargs p :
  assoc (h_name h) kwargs = None -> (0 <= h_index h)%Z ->
  nth_error args (Z.to_nat (h_index h)) = Some (AStr p) -> passes_path h args kwargs p.
Proof.
  intros E Hi N. right. split.
  - intros a Ha. congruence.
  - apply py_index_nonneg; assumption.
Qed.

(** a falsy keyword value (None, '') does not hide the positional path *)
Lemma passes_by_position_falsy_keyword h args kwargs p a :
  assoc (h_name h) kwargs = Some a -> truthy a = false -> (0 <= h_index h)%Z ->
  nth_error args (Z.to_nat (h_index h)) = Some (AStr p) -> passes_path h args kwargs p.
Proof.
  intros E Ta Hi N. right. split.
  - intros a' Ha. congruence.
  - apply py_index_nonneg; assumption.
Qed.

(** the environment variable gives a whole number of MB: the three boundary sizes *)
Corollary int_limit_boundary m :
  is_above (m * 1048576 - 1) (inject_Z m) = false /\
  is_above (m * 1048576) (inject_Z m) = false /\
  is_above (m * 1048576 + 1) (inject_Z m) = true.
Proof.
  pose proof (int_limit_exact m) as E. split; [|split].
  - apply (boundary_minus_one _ _ E).
  - apply (boundary_exact _ _ E).
  - apply (boundary_plus_one _ _ E).
Qed.

(** a file whose content is the placeholder text is recorded as its base64 text (which differs from the
    above-limit record) and comes back as that file *)
Theorem input_roundtrip_placeholder_content
  (qp : list N -> str) (qp_dec : str -> list N) (qp_roundtrip : forall b, bytes_ok b = true -> qp_dec (qp b) = b)
  fsize fread writable h args_rec kw_rec args_play kw_play p_rec p_play fs_play :
    passes_path h args_rec kw_rec p_rec -> passes_path h args_play kw_play p_play ->
    str_ok p_rec = true -> within_limit h fsize p_rec -> fread p_rec = Ans PLACEHOLDER ->
    writable p_play = true ->
    fst (intercept_file h fsize fread args_rec kw_rec) = Ans (serialize_file PLACEHOLDER p_rec) /\
    serialize_file PLACEHOLDER p_rec <> above_limit_result p_rec /\
    input_trip h fsize fread writable qp qp_dec args_rec kw_rec args_play kw_play fs_play
    = (Replayed (Ans p_play, fs_set p_play PLACEHOLDER fs_play), [p_rec]).
Proof.
  intros P1 P2 Hp W R Wr. split; [|split].
  - rewrite (intercept_within _ _ _ _ _ _ _ P1 W R). reflexivity.
  - unfold serialize_file, above_limit_result. intros E.
    apply (f_equal (fun v => match v with VDict [_; (_, VBytes c)] => c | _ => [] end)) in E.
    vm_compute in E. discriminate E.
  - apply (input_roundtrip qp qp_dec qp_roundtrip fsize fread writable); auto.
Qed.
