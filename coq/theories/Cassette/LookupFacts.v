(** Proofs about the lookup models (Lookup.v).  C10. *)
From Playback Require Import Base.Str Base.StrFacts Cassette.Matcher Cassette.MatcherFacts
     Cassette.Window Cassette.WindowFacts Cassette.Lookup.
From Coq Require Import Permutation Lia.
Open Scope nat_scope.
Open Scope list_scope.

(** * generic list facts *)

Lemma filter_false {A} (l : list A) : filter (fun _ => false) l = [].
Proof. induction l; cbn; auto. Qed.

Lemma filter_filter {A} (p q : A -> bool) l : filter q (filter p l) = filter (fun x => p x && q x) l.
Proof.
  induction l as [|x l IH]; cbn; [reflexivity|].
  destruct (p x); cbn; [destruct (q x); cbn; congruence|exact IH].
Qed.

Lemma filter_perm {A} (p : A -> bool) l l' : Permutation l l' -> Permutation (filter p l) (filter p l').
Proof.
  induction 1; cbn.
  - constructor.
  - destruct (p x); [constructor|]; assumption.
  - destruct (p x); destruct (p y); try reflexivity; try constructor.
  - etransitivity; eassumption.
Qed.

Lemma filter_or_disjoint {A} (p q : A -> bool) l :
  (forall x, p x = true -> q x = true -> False) ->
  Permutation (filter p l ++ filter q l) (filter (fun x => p x || q x) l).
Proof.
  intros D. induction l as [|x l IH]; cbn; [constructor|].
  destruct (p x) eqn:P; destruct (q x) eqn:Q; cbn.
  - exfalso; eauto.
  - constructor; exact IH.
  - rewrite <- Permutation_middle. constructor; exact IH.
  - exact IH.
Qed.

Lemma NoDup_map_filter {A B} (f : A -> B) (p : A -> bool) l : NoDup (map f l) -> NoDup (map f (filter p l)).
Proof.
  induction l as [|x l IH]; cbn; intros H; [constructor|].
  inversion H as [|? ? N H']; subst.
  destruct (p x); cbn; [constructor|]; auto.
  intros C. apply N. apply in_map_iff in C. destruct C as [y [E I]]. apply filter_In in I.
  apply in_map_iff. exists y. tauto.
Qed.

Lemma NoDup_map_inj_in {A B} (f : A -> B) l :
  (forall a b, In a l -> In b l -> f a = f b -> a = b) -> NoDup l -> NoDup (map f l).
Proof.
  induction l as [|x l IH]; cbn; intros Inj H; [constructor|].
  inversion H as [|? ? N H']; subst. constructor.
  - intros C. apply in_map_iff in C. destruct C as [y [E I]].
    assert (y = x) by (apply Inj; auto). subst. contradiction.
  - apply IH; auto.
Qed.

Lemma NoDup_map_inv' {A B} (f : A -> B) l : NoDup (map f l) -> NoDup l.
Proof.
  induction l as [|x l IH]; cbn; intros H; [constructor|].
  inversion H as [|? ? N H']; subst. constructor; auto.
  intros C. apply N. apply in_map. exact C.
Qed.

Lemma NoDup_app_l {A} (a b : list A) : NoDup (a ++ b) -> NoDup a.
Proof.
  induction a as [|x a IH]; cbn; intros H; [constructor|].
  inversion H as [|? ? N H']; subst. constructor; [|auto].
  intros C. apply N. apply in_or_app. left; exact C.
Qed.

Lemma firstn_incl {A} n (l : list A) : incl (firstn n l) l.
Proof. intros x H. rewrite <- (firstn_skipn n l). apply in_or_app. left; exact H. Qed.

Lemma firstn_nodup {A} n (l : list A) : NoDup l -> NoDup (firstn n l).
Proof. intros H. rewrite <- (firstn_skipn n l) in H. eapply NoDup_app_l. exact H. Qed.

Lemma perm_app_nodup_l {A} (a b c : list A) : Permutation (a ++ b) c -> NoDup c -> NoDup a.
Proof.
  intros P N. apply Permutation_sym in P. eapply Permutation_NoDup in P; [|exact N].
  eapply NoDup_app_l. exact P.
Qed.

Lemma perm_app_incl_l {A} (a b c : list A) : Permutation (a ++ b) c -> incl a c.
Proof. intros P x H. eapply Permutation_in; [exact P|]. apply in_or_app. left; exact H. Qed.

Lemma perm_app_full {A} (a b c : list A) : Permutation (a ++ b) c -> length a = length c -> Permutation a c.
Proof.
  intros P L. pose proof (Permutation_length P) as E. rewrite app_length in E.
  assert (b = []) by (destruct b; cbn in *; [reflexivity|lia]). subst. rewrite app_nil_r in P. exact P.
Qed.

Lemma Permutation_concat_map {A B} (F G : A -> list B) ds :
  (forall d, In d ds -> Permutation (F d) (G d)) ->
  Permutation (concat (map F ds)) (concat (map G ds)).
Proof.
  induction ds as [|d ds IH]; cbn; intros H; [constructor|].
  apply Permutation_app; [apply H; left; reflexivity|apply IH; intros; apply H; right; assumption].
Qed.

(** * exact_listing *)

Definition firstn_opt {A} (limit : option nat) (l : list A) : list A :=
  match limit with Some n => firstn n l | None => l end.
Definition skipn_opt {A} (limit : option nat) (l : list A) : list A :=
  match limit with Some n => skipn n l | None => [] end.

Lemma firstn_skipn_opt {A} limit (l : list A) : firstn_opt limit l ++ skipn_opt limit l = l.
Proof. destruct limit; cbn; [apply firstn_skipn|apply app_nil_r]. Qed.

Lemma apply_limit_ok {A} limit (l : list A) : limit_ok limit -> apply_limit limit l = firstn_opt limit l.
Proof. unfold limit_ok. destruct limit as [[|n]|]; cbn; intros H; congruence. Qed.

Lemma exact_of_selection out rest spec limit :
  NoDup spec -> Permutation (out ++ rest) spec -> length out = expected_count limit (length spec) ->
  exact_listing out spec limit.
Proof.
  intros N P L. repeat split.
  - eapply perm_app_nodup_l; eassumption.
  - eapply perm_app_incl_l; eassumption.
  - exact L.
  - intros ->. cbn in L. eapply perm_app_full; eassumption.
Qed.

Lemma exact_firstn full spec limit :
  NoDup spec -> Permutation full spec -> exact_listing (firstn_opt limit full) spec limit.
Proof.
  intros N P. apply exact_of_selection with (rest := skipn_opt limit full); [exact N| |].
  - rewrite firstn_skipn_opt. exact P.
  - rewrite <- (Permutation_length P). destruct limit; cbn; [apply firstn_length|reflexivity].
Qed.

Lemma exact_perm out out' spec limit :
  Permutation out out' -> exact_listing out spec limit -> exact_listing out' spec limit.
Proof.
  intros P (N & I & L & F). repeat split.
  - eapply Permutation_NoDup; eassumption.
  - intros x H. apply I. eapply Permutation_in; [apply Permutation_sym; exact P|exact H].
  - rewrite <- (Permutation_length P). exact L.
  - intros E. etransitivity; [apply Permutation_sym; exact P|auto].
Qed.

Lemma exact_map (g strip : str -> str) keys ids limit :
  (forall x, strip (g x) = x) ->
  exact_listing keys (map g ids) limit -> exact_listing (map strip keys) ids limit.
Proof.
  intros S (N & I & L & F).
  assert (R : forall k, In k keys -> exists x, In x ids /\ k = g x).
  { intros k H. apply I in H. apply in_map_iff in H. destruct H as [x [E H]]. eauto. }
  repeat split.
  - apply NoDup_map_inj_in; [|exact N].
    intros a b Ha Hb E. destruct (R a Ha) as [x [_ ->]]. destruct (R b Hb) as [y [_ ->]].
    rewrite !S in E. congruence.
  - intros x H. apply in_map_iff in H. destruct H as [k [E H]]. destruct (R k H) as [y [Hy ->]].
    rewrite S in E. subst. exact Hy.
  - rewrite map_length. rewrite L. rewrite map_length. reflexivity.
  - intros E. specialize (F E). apply (Permutation_map strip) in F. rewrite map_map in F.
    rewrite (map_ext (fun x => strip (g x)) (fun x => x)) in F by exact S. rewrite map_id in F. exact F.
Qed.

(** * keyed stores *)

Section Upsert.
  Variable key : rec -> str.

  Lemma upsert_in x r s : In x (upsert key r s) -> x = r \/ In x s.
  Proof.
    induction s as [|y s IH]; cbn.
    - intros [<-|[]]; auto.
    - destruct (str_eqb (key y) (key r)); cbn; intros [<-|H]; auto. destruct (IH H); auto.
  Qed.

  Lemma upsert_nodup r s : NoDup (map key s) -> NoDup (map key (upsert key r s)).
  Proof.
    induction s as [|y s IH]; cbn; intros H.
    - constructor; [intros []|constructor].
    - inversion H as [|? ? N H']; subst.
      destruct (str_eqb (key y) (key r)) eqn:E; cbn.
      + apply str_eqb_eq in E. rewrite <- E. constructor; assumption.
      + constructor; [|auto]. intros C. apply in_map_iff in C. destruct C as [z [Ez Hz]].
        apply upsert_in in Hz. destruct Hz as [->|Hz].
        * apply str_eqb_neq in E. congruence.
        * apply N. apply in_map_iff. eauto.
  Qed.

  Lemma fold_upsert_nodup h : forall s, NoDup (map key s) -> NoDup (map key (fold_left (fun s r => upsert key r s) h s)).
  Proof. induction h as [|r h IH]; cbn; intros s H; [exact H|]. apply IH, upsert_nodup, H. Qed.

  Lemma store_nodup h : NoDup (map key (store_of key h)).
  Proof. apply fold_upsert_nodup. constructor. Qed.

  Lemma fold_upsert_in h : forall s x, In x (fold_left (fun s r => upsert key r s) h s) -> In x s \/ In x h.
  Proof.
    induction h as [|r h IH]; cbn; intros s x H; [auto|].
    apply IH in H. destruct H as [H|H]; [|auto]. apply upsert_in in H. destruct H; auto.
  Qed.

  (** the store holds only recordings that were saved *)
  Lemma store_incl h : incl (store_of key h) h.
  Proof. intros x H. apply fold_upsert_in in H. destruct H as [[]|H]; exact H. Qed.
End Upsert.

Lemma upsert_ext k1 k2 r s :
  (forall x, In x s -> str_eqb (k1 x) (k1 r) = str_eqb (k2 x) (k2 r)) -> upsert k1 r s = upsert k2 r s.
Proof.
  induction s as [|y s IH]; cbn; intros H; [reflexivity|].
  rewrite (H y) by (left; reflexivity). destruct (str_eqb (k2 y) (k2 r)); [reflexivity|].
  f_equal. apply IH. intros; apply H; right; assumption.
Qed.

Lemma fold_upsert_ext k1 k2 h : forall s,
  (forall x y, In x (s ++ h) -> In y (s ++ h) -> str_eqb (k1 x) (k1 y) = str_eqb (k2 x) (k2 y)) ->
  fold_left (fun s r => upsert k1 r s) h s = fold_left (fun s r => upsert k2 r s) h s.
Proof.
  induction h as [|r h IH]; cbn; intros s H; [reflexivity|].
  rewrite <- (upsert_ext k1 k2 r s).
  - apply IH. intros x y Hx Hy. apply H.
    + apply in_app_or in Hx. apply in_or_app. destruct Hx as [Hx|Hx]; [|right; right; exact Hx].
      apply upsert_in in Hx. destruct Hx as [->|Hx]; [right; left; reflexivity|left; exact Hx].
    + apply in_app_or in Hy. apply in_or_app. destruct Hy as [Hy|Hy]; [|right; right; exact Hy].
      apply upsert_in in Hy. destruct Hy as [->|Hy]; [right; left; reflexivity|left; exact Hy].
  - intros x Hx. apply H; apply in_or_app; [left; exact Hx|right; left; reflexivity].
Qed.

(** two key functions that identify the same saves yield the same store *)
Lemma store_ext k1 k2 h :
  (forall x y, In x h -> In y h -> (k1 x = k1 y <-> k2 x = k2 y)) -> store_of k1 h = store_of k2 h.
Proof.
  intros H. apply fold_upsert_ext. cbn. intros x y Hx Hy.
  specialize (H x y Hx Hy).
  destruct (str_eqb (k1 x) (k1 y)) eqn:E1; destruct (str_eqb (k2 x) (k2 y)) eqn:E2; try reflexivity.
  - apply str_eqb_eq in E1. apply str_eqb_neq in E2. tauto.
  - apply str_eqb_neq in E1. apply str_eqb_eq in E2. tauto.
Qed.

Lemma find_unique (key : rec -> str) dir e :
  NoDup (map key dir) -> In e dir -> find (fun x => str_eqb (key x) (key e)) dir = Some e.
Proof.
  induction dir as [|y dir IH]; cbn; intros N H; [contradiction|].
  inversion N as [|? ? Ny N']; subst.
  destruct H as [->|H]; [rewrite str_eqb_refl; reflexivity|].
  destruct (str_eqb (key y) (key e)) eqn:E; [|auto].
  exfalso. apply Ny. apply str_eqb_eq in E. rewrite E. apply in_map. exact H.
Qed.

(** * strings *)

Lemma split_first_app c a b : ~ In c a -> split_first c (a ++ c :: b) = (a, Some b).
Proof.
  induction a as [|x a IH]; cbn; intros H.
  - rewrite N.eqb_refl. reflexivity.
  - destruct (N.eqb x c) eqn:E; [apply N.eqb_eq in E; exfalso; apply H; left; exact E|].
    rewrite IH; [reflexivity|]. intros C; apply H; right; exact C.
Qed.

Lemma before_first_app c a b : ~ In c a -> before_first c (a ++ c :: b) = a.
Proof. intros H. unfold before_first. rewrite split_first_app by exact H. reflexivity. Qed.

Lemma replace_char_id c d s : ~ In c s -> replace_char c d s = s.
Proof.
  unfold replace_char. induction s as [|x s IH]; cbn; intros H; [reflexivity|].
  destruct (N.eqb x c) eqn:E; [apply N.eqb_eq in E; exfalso; apply H; left; exact E|].
  f_equal. apply IH. intros C; apply H; right; exact C.
Qed.

Lemma replace_char_notin c d s : c <> d -> ~ In c (replace_char c d s).
Proof.
  unfold replace_char. intros D H. apply in_map_iff in H. destruct H as [x [E _]].
  destruct (N.eqb x c) eqn:X; [congruence|]. apply N.eqb_neq in X. congruence.
Qed.

Lemma replace_char_keeps_out c d e s : e <> d -> ~ In e s -> ~ In e (replace_char c d s).
Proof.
  unfold replace_char. intros D N H. apply in_map_iff in H. destruct H as [x [E I]].
  destruct (N.eqb x c); [congruence|]. subst. contradiction.
Qed.

Lemma replace_char_app c d a b : replace_char c d (a ++ b) = replace_char c d a ++ replace_char c d b.
Proof. apply map_app. Qed.

Lemma prefixb_app_same a x y : prefixb (a ++ x) (a ++ y) = prefixb x y.
Proof. induction a as [|c a IH]; cbn; [reflexivity|]. rewrite N.eqb_refl. exact IH. Qed.

(** a '/'-terminated field is a prefix of another '/'-terminated field only if the fields are equal *)
Lemma prefix_field c : forall a q rest, ~ In SLASH c -> ~ In SLASH a ->
  prefixb (c ++ SLASH :: q) (a ++ SLASH :: rest) = str_eqb a c && prefixb q rest.
Proof.
  unfold str_eqb.
  induction c as [|y c IH]; intros a q rest Hc Ha; destruct a as [|x a]; cbn [prefixb app list_eqb].
  - rewrite N.eqb_refl. reflexivity.
  - destruct (N.eqb SLASH x) eqn:E; [|reflexivity].
    apply N.eqb_eq in E. exfalso. apply Ha. left. symmetry; exact E.
  - destruct (N.eqb y SLASH) eqn:E; [|reflexivity].
    apply N.eqb_eq in E. exfalso. apply Hc. left; exact E.
  - rewrite IH; [|intros C; apply Hc; right; exact C|intros C; apply Ha; right; exact C].
    rewrite (N.eqb_sym y x). rewrite andb_assoc. reflexivity.
Qed.

(** * in-memory and file-based listing *)

Section Listing.
  Variable glob : str -> str -> bool.

  Lemma passes_spec f m : passes glob f m = Ans (meta_spec glob f m).
  Proof. destruct f as [|kf f]; [reflexivity|]. cbn [passes]. apply meta_meaning. Qed.

  Lemma category_of_mem_id r : ~ In SLASH (r_cat r) -> category_of (mem_id r) = r_cat r.
  Proof. intros H. unfold category_of, mem_id. apply before_first_app. exact H. Qed.

  Lemma mem_scan_spec c f s :
    (forall r, In r s -> ~ In SLASH (r_cat r)) ->
    mem_scan glob c f s = Listed (lookup_spec glob mem_id same s c f).
  Proof.
    unfold lookup_spec, spec_recs.
    induction s as [|r s IH]; intros H; [reflexivity|].
    cbn [mem_scan filter]. unfold wanted at 1. unfold same at 1.
    rewrite category_of_mem_id by (apply H; left; reflexivity).
    rewrite passes_spec. rewrite IH by (intros; apply H; right; assumption).
    destruct (str_eqb (r_cat r) c); cbn [negb andb]; [|reflexivity].
    destruct (meta_spec glob f (r_meta r)); reflexivity.
  Qed.

  Lemma spec_nodup (idf : rec -> str) view s c f :
    NoDup (map idf s) -> NoDup (lookup_spec glob idf view s c f).
  Proof. apply NoDup_map_filter. Qed.

  (** in-memory: for every history of saves, category, filter, limit (None or >= 1), ordered or shuffled *)
  Lemma lookup_exact_mem shuf h c f limit random :
    (forall l, Permutation (shuf l) l) ->
    (forall r, In r h -> ~ In SLASH (r_cat r)) ->
    limit_ok limit ->
    exists out, mem_iter glob shuf (store_of mem_id h) c f limit random = Listed out /\
                exact_listing out (lookup_spec glob mem_id same (store_of mem_id h) c f) limit.
  Proof.
    intros Hs Hc Hl. unfold mem_iter.
    rewrite mem_scan_spec by (intros r Hr; apply Hc; eapply store_incl; exact Hr).
    eexists; split; [reflexivity|].
    rewrite apply_limit_ok by exact Hl.
    assert (E : exact_listing (firstn_opt limit (lookup_spec glob mem_id same (store_of mem_id h) c f))
                              (lookup_spec glob mem_id same (store_of mem_id h) c f) limit).
    { apply exact_firstn; [apply spec_nodup, store_nodup|reflexivity]. }
    destruct random; [|exact E].
    eapply exact_perm; [apply Permutation_sym, Hs|exact E].
  Qed.

  (** file names *)
  Lemma file_name_shape r : ~ In SLASH (r_cat r) ->
    file_name r = r_cat r ++ USCORE :: replace_char SLASH USCORE (r_uuid r) ++ U".json".
  Proof.
    intros H. unfold file_name, file_name_of_id, mem_id.
    rewrite replace_char_app. rewrite replace_char_id by exact H.
    cbn [replace_char map]. rewrite N.eqb_refl. rewrite <- app_assoc. reflexivity.
  Qed.

  Lemma file_stem r : ~ In DOT (r_cat r) -> ~ In DOT (r_uuid r) ->
    before_first DOT (file_name r) = replace_char SLASH USCORE (mem_id r).
  Proof.
    intros Hc Hu. unfold file_name, file_name_of_id.
    change (U".json") with (DOT :: U"json").
    apply before_first_app. apply replace_char_keeps_out; [discriminate|].
    unfold mem_id. intros C. apply in_app_or in C. destruct C as [C|[C|C]]; [auto|discriminate|auto].
  Qed.

  Lemma file_name_of_stem r :
    file_name_of_id (replace_char SLASH USCORE (mem_id r)) = file_name r.
  Proof.
    unfold file_name, file_name_of_id. f_equal. apply replace_char_id. apply replace_char_notin. discriminate.
  Qed.

  Lemma file_prefix_wanted r c : ~ In SLASH (r_cat r) -> r_cat r = c -> prefixb c (file_name r) = true.
  Proof. intros H <-. rewrite file_name_shape by exact H. apply prefixb_app. Qed.

  Lemma file_scan_spec dir c f listing :
    NoDup (map file_name dir) -> incl listing dir -> (forall r, In r dir -> wf_file r) ->
    file_scan glob dir c f listing = Listed (lookup_spec glob mem_id same listing c f).
  Proof.
    unfold lookup_spec, spec_recs. intros N.
    induction listing as [|e l IH]; intros I W; [reflexivity|].
    assert (He : In e dir) by (apply I; left; reflexivity).
    destruct (W e He) as (W1 & W2 & W3).
    cbn [file_scan filter]. unfold wanted at 1, same at 1.
    rewrite IH by (auto; intros x Hx; apply I; right; exact Hx).
    destruct (prefixb c (file_name e)) eqn:P; cbn [negb].
    - rewrite file_stem by assumption. unfold file_get. rewrite file_name_of_stem.
      rewrite find_unique by assumption.
      rewrite category_of_mem_id by exact W1. rewrite passes_spec.
      destruct (str_eqb (r_cat e) c); cbn [negb andb]; [|reflexivity].
      destruct (meta_spec glob f (r_meta e)); reflexivity.
    - destruct (str_eqb (r_cat e) c) eqn:E; cbn [andb]; [|reflexivity].
      apply str_eqb_eq in E. rewrite file_prefix_wanted in P by assumption. discriminate.
  Qed.

  (** file-based: the directory listing order is arbitrary *)
  Lemma lookup_exact_file h listing c f limit :
    Permutation listing (store_of file_name h) ->
    (forall r, In r h -> wf_file r) ->
    limit_ok limit ->
    exists out, file_iter glob (store_of file_name h) listing c f limit = Listed out /\
                exact_listing out (lookup_spec glob mem_id same (store_of file_name h) c f) limit.
  Proof.
    intros P W Hl. unfold file_iter.
    rewrite file_scan_spec.
    - eexists; split; [reflexivity|]. rewrite apply_limit_ok by exact Hl.
      apply exact_firstn.
      + apply spec_nodup. eapply (NoDup_map_inv' (fun id => file_name_of_id id)).
        rewrite map_map. apply (store_nodup file_name).
      + unfold lookup_spec, spec_recs. apply Permutation_map, filter_perm, P.
    - apply store_nodup.
    - intros x Hx. eapply Permutation_in; eassumption.
    - intros r Hr. apply W. eapply store_incl; exact Hr.
  Qed.
End Listing.

(** * the round-robin merge *)

Lemma remove_nth_app {A} (l1 : list A) x l2 : remove_nth (length l1) (l1 ++ x :: l2) = l1 ++ l2.
Proof. induction l1 as [|y l1 IH]; cbn; [reflexivity|]. f_equal. exact IH. Qed.

Lemma set_nth_app {A} (l1 : list A) x y l2 : set_nth (length l1) y (l1 ++ x :: l2) = l1 ++ y :: l2.
Proof. induction l1 as [|z l1 IH]; cbn; [reflexivity|]. f_equal. exact IH. Qed.

Definition cap (b : option nat) (n : nat) : nat := match b with Some k => Nat.min k n | None => n end.
Definition budget (limit : option nat) (count : nat) : option nat :=
  match limit with Some l => Some (l - count) | None => None end.

Lemma rr_spec sched limit : forall fuel iters step count,
  length (concat iters) + length iters < fuel ->
  (forall k, In k (concat iters) -> k <> []) ->
  (forall l, limit = Some l -> count <= l) ->
  exists out rest, rr fuel sched limit iters step count = Listed out /\
     Permutation (out ++ rest) (concat iters) /\
     length out = cap (budget limit count) (length (concat iters)).
Proof.
  induction fuel as [|fuel IH]; intros iters step count Hf Hk Hc; [lia|].
  cbn [rr].
  destruct (limit_reached limit count) eqn:LR.
  { exists [], (concat iters). repeat split; [reflexivity|].
    unfold limit_reached in LR. destruct limit as [l|]; [|discriminate].
    apply Nat.eqb_eq in LR. subst. cbn. rewrite Nat.sub_diag. reflexivity. }
  destruct iters as [|it0 iters0].
  { exists [], []. repeat split; cbn; [constructor|]. destruct limit; cbn; [rewrite Nat.min_0_r|]; reflexivity. }
  match goal with |- context [@nth_error ?T ?a ?i] =>
    assert (Hi : i < @length T a) by (apply Nat.mod_upper_bound; cbn; lia);
    destruct (@nth_error T a i) as [it|] eqn:NE; [|apply nth_error_None in NE; lia];
    destruct (nth_error_split _ _ NE) as (l1 & l2 & E & L1);
    rewrite <- L1; clear NE Hi L1
  end.
  rewrite E in *. clear E.
  assert (Hcount : forall l, limit = Some l -> S count <= l).
  { intros l ->. specialize (Hc l eq_refl). cbn in LR. apply Nat.eqb_neq in LR. lia. }
  rewrite concat_app in *. cbn [concat] in *. rewrite !app_length in *. cbn [length] in *.
  destruct it as [|k rest_it].
  - (* exhausted iterator: dropped *)
    rewrite remove_nth_app.
    destruct (IH (l1 ++ l2) (S step) count) as (out & rest & R & P & L).
    + rewrite concat_app, !app_length. cbn [app length] in Hf. lia.
    + intros k Hin. apply Hk. rewrite concat_app in Hin. cbn [app]. exact Hin.
    + exact Hc.
    + exists out, rest. split; [exact R|]. rewrite concat_app in P, L. rewrite app_length in L. cbn [app]. auto.
  - destruct k as [|k0 k'].
    { exfalso. apply (Hk []); [|reflexivity]. apply in_or_app. right. left. reflexivity. }
    rewrite set_nth_app.
    destruct (IH (l1 ++ rest_it :: l2) (S step) (S count)) as (out & rest & R & P & L).
    + rewrite concat_app. cbn [concat]. rewrite !app_length. cbn [length] in *. lia.
    + intros k Hin. apply Hk. rewrite concat_app in Hin. cbn [concat] in Hin.
      apply in_app_or in Hin. apply in_or_app. destruct Hin as [Hin|Hin]; [left; exact Hin|right].
      apply in_app_or in Hin. apply in_or_app. destruct Hin as [Hin|Hin]; [left; right; exact Hin|right; exact Hin].
    + exact Hcount.
    + exists ((k0 :: k') :: out), rest.
      match goal with |- context [rr ?a ?b ?c ?d ?e ?f] =>
        replace (rr a b c d e f) with (@Listed (list str) out) by (symmetry; exact R) end.
      split; [reflexivity|]. split.
      * rewrite concat_app in P. cbn [concat] in P. cbn [app].
        rewrite <- Permutation_middle. constructor. exact P.
      * cbn [length]. rewrite L. rewrite concat_app. cbn [concat]. rewrite !app_length. cbn [length].
        unfold cap, budget. destruct limit as [l|]; [|lia].
        specialize (Hcount l eq_refl). lia.
Qed.

(** C10_round_robin_total: the fuel computed from the iterators always suffices *)
Lemma rr_total sched limit iters :
  (forall k, In k (concat iters) -> k <> []) ->
  exists out, rr (rr_fuel iters) sched limit iters 0 0 = Listed out.
Proof.
  intros Hk. destruct (rr_spec sched limit (rr_fuel iters) iters 0 0) as (out & rest & R & _).
  - unfold rr_fuel. apply le_n.
  - exact Hk.
  - intros; lia.
  - eauto.
Qed.

(** each iterator is cut at [limit] of its own: the merge still delivers min(limit, total) *)
Lemma sel_firstn {A} limit (Fs : list (list A)) :
  Permutation (concat (map (firstn_opt limit) Fs) ++ concat (map (skipn_opt limit) Fs)) (concat Fs).
Proof.
  induction Fs as [|F Fs IH]; cbn; [constructor|].
  rewrite <- (firstn_skipn_opt limit F) at 3.
  rewrite <- !app_assoc. apply Permutation_app_head.
  rewrite app_assoc. rewrite (Permutation_app_comm (concat _) (skipn_opt limit F)).
  rewrite <- app_assoc. apply Permutation_app_head. exact IH.
Qed.

Lemma cap_firstn {A} limit (Fs : list (list A)) :
  cap limit (length (concat (map (firstn_opt limit) Fs))) = cap limit (length (concat Fs)).
Proof.
  destruct limit as [l|]; cbn [cap firstn_opt].
  - induction Fs as [|F Fs IH]; cbn; [reflexivity|]. rewrite !app_length, firstn_length. lia.
  - rewrite map_id. reflexivity.
Qed.

Lemma merge_exact sched limit (Fs : list (list str)) spec :
  Permutation (concat Fs) spec -> NoDup spec -> (forall k, In k spec -> k <> []) ->
  exists keys, rr (rr_fuel (map (firstn_opt limit) Fs)) sched limit (map (firstn_opt limit) Fs) 0 0 = Listed keys /\
               exact_listing keys spec limit.
Proof.
  intros P N Hk.
  set (iters := map (firstn_opt limit) Fs).
  assert (Sel : Permutation (concat iters ++ concat (map (skipn_opt limit) Fs)) spec).
  { etransitivity; [apply sel_firstn|exact P]. }
  destruct (rr_spec sched limit (rr_fuel iters) iters 0 0) as (out & rest & R & Pr & L).
  - unfold rr_fuel. apply le_n.
  - intros k H. apply Hk. eapply Permutation_in; [exact Sel|]. apply in_or_app; left; exact H.
  - intros; lia.
  - exists out. split; [exact R|].
    apply exact_of_selection with (rest := rest ++ concat (map (skipn_opt limit) Fs)); [exact N| |].
    + rewrite app_assoc. etransitivity; [|exact Sel]. apply Permutation_app_tail. exact Pr.
    + rewrite L. rewrite <- (Permutation_length P).
      replace (budget limit 0) with limit by (destruct limit; cbn; [rewrite Nat.sub_0_r|]; reflexivity).
      unfold iters. rewrite cap_firstn. destruct limit; reflexivity.
Qed.

(** * S3 listing *)

Lemma insert_by_perm key r l : Permutation (insert_by key r l) (r :: l).
Proof.
  induction l as [|x l IH]; cbn; [reflexivity|].
  destruct (str_ltb (key x) (key r)); [|reflexivity].
  rewrite IH. apply perm_swap.
Qed.

Lemma sort_by_perm key l : Permutation (sort_by key l) l.
Proof. induction l as [|x l IH]; cbn; [reflexivity|]. rewrite insert_by_perm. constructor; exact IH. Qed.

Lemma all_listed_map {A} (f : A -> lres (list str)) (g : A -> list str) l :
  (forall x, In x l -> f x = Listed (g x)) -> all_listed (map f l) = Listed (map g l).
Proof.
  induction l as [|x l IH]; cbn; intros H; [reflexivity|].
  rewrite (H x) by (left; reflexivity). rewrite IH by (intros; apply H; right; assumption). reflexivity.
Qed.

Lemma concat_filter_days (g : rec -> bool) l ds : NoDup ds ->
  Permutation (concat (map (fun d => filter (fun r => Z.eqb (r_day r) d && g r) l) ds))
              (filter (fun r => existsb (Z.eqb (r_day r)) ds && g r) l).
Proof.
  induction ds as [|d ds IH]; intros N.
  - cbn. rewrite filter_false. constructor.
  - inversion N as [|? ? Nd N']; subst. cbn [map concat existsb].
    etransitivity; [apply Permutation_app_head, IH, N'|].
    etransitivity; [apply filter_or_disjoint|].
    + intros r P Q. apply andb_true_iff in P. destruct P as [P _]. apply andb_true_iff in Q. destruct Q as [Q _].
      apply Z.eqb_eq in P. apply existsb_exists in Q. destruct Q as [d' [Hd' Q]]. apply Z.eqb_eq in Q.
      apply Nd. congruence.
    + erewrite filter_ext; [reflexivity|]. intros r. cbn beta.
      destruct (Z.eqb (r_day r) d), (existsb (Z.eqb (r_day r)) ds), (g r); reflexivity.
Qed.

Section S3.
  Variable glob : str -> str -> bool.
  Variable fmt : Z -> str.
  Variable enc : meta -> meta.
  Hypothesis fmt_inj : forall d d', fmt d = fmt d' -> d = d'.
  Hypothesis fmt_noslash : forall d, ~ In SLASH (fmt d).

  Definition okb (so eo : option Z) (f : meta) (r : rec) : bool :=
    date_pred so eo r && meta_spec glob f (enc (r_meta r)).

  Lemma s3_pred_spec so eo f r : s3_pred glob enc so eo f r = Ans (okb so eo f r).
  Proof. unfold s3_pred, okb. destruct (date_pred so eo r); [apply passes_spec|reflexivity]. Qed.

  Lemma take_matching_spec kp limit pred ok objs :
    (forall o, In o objs -> pred o = Ans (ok o)) ->
    forall count, (forall l, limit = Some l -> count <= l) ->
    take_matching fmt kp limit pred count objs =
    Listed (map (s3_key fmt kp) (firstn_opt (budget limit count) (filter ok objs))).
  Proof.
    induction objs as [|o objs IH]; intros Hp count Hc.
    - cbn. destruct limit; cbn; [rewrite firstn_nil|]; reflexivity.
    - cbn [take_matching filter].
      destruct (limit_reached limit count) eqn:LR.
      { unfold limit_reached in LR. destruct limit as [l|]; [|discriminate].
        apply Nat.eqb_eq in LR. subst. cbn. rewrite Nat.sub_diag. reflexivity. }
      rewrite (Hp o) by (left; reflexivity).
      destruct (ok o).
      + rewrite IH.
        * destruct limit as [l|]; cbn [budget firstn_opt]; [|reflexivity].
          specialize (Hc l eq_refl). cbn in LR. apply Nat.eqb_neq in LR.
          replace (l - count) with (S (l - S count)) by lia. reflexivity.
        * intros; apply Hp; right; assumption.
        * intros l ->. specialize (Hc l eq_refl). cbn in LR. apply Nat.eqb_neq in LR. lia.
      + apply IH; [intros; apply Hp; right; assumption|exact Hc].
  Qed.

  Lemma fmt_eqb d d' : str_eqb (fmt d) (fmt d') = Z.eqb d d'.
  Proof.
    destruct (Z.eqb d d') eqn:E.
    - apply Z.eqb_eq in E. subst. apply str_eqb_refl.
    - apply str_eqb_neq. intros C. apply fmt_inj in C. apply Z.eqb_neq in E. contradiction.
  Qed.

  Lemma prefix_category kp c r : ~ In SLASH c -> ~ In SLASH (r_cat r) ->
    prefixb (s3_root kp ++ c ++ [SLASH]) (s3_key fmt kp r) = str_eqb (r_cat r) c.
  Proof.
    intros Hc Hr. unfold s3_key, s3_id. rewrite prefixb_app_same.
    rewrite prefix_field by assumption. cbn [prefixb]. apply andb_true_r.
  Qed.

  Lemma prefix_day kp c d r : ~ In SLASH c -> ~ In SLASH (r_cat r) ->
    prefixb (s3_root kp ++ c ++ SLASH :: fmt d ++ [SLASH]) (s3_key fmt kp r) =
    str_eqb (r_cat r) c && Z.eqb (r_day r) d.
  Proof.
    intros Hc Hr. unfold s3_key, s3_id. rewrite prefixb_app_same.
    rewrite prefix_field by assumption. rewrite prefix_field by apply fmt_noslash.
    cbn [prefixb]. rewrite andb_true_r. rewrite fmt_eqb. reflexivity.
  Qed.

  Lemma s3_key_nonempty kp r : s3_key fmt kp r <> [].
  Proof. unfold s3_key, s3_root. cbn. discriminate. Qed.

  Lemma s3_strip kp id : skipn (length (s3_root kp)) (s3_root kp ++ id) = id.
  Proof. induction (s3_root kp) as [|x l IH]; cbn; auto. Qed.

  Section Query.
    Variable shuf : list rec -> list rec.
    Hypothesis shuf_perm : forall l, Permutation (shuf l) l.
    Variables (kp : str) (bucket : list rec) (so eo : option Z) (f : meta) (limit : option nat) (random : bool).

    (** the matching objects under a prefix, in the order the iterator meets them *)
    Definition fulls (prefix : str) : list rec :=
      filter (okb so eo f)
             (let objs := list_prefix fmt kp bucket prefix in if random then shuf objs else objs).

    Lemma iter_keys_spec prefix :
      iter_keys glob fmt enc shuf kp bucket prefix so eo f limit random =
      Listed (map (s3_key fmt kp) (firstn_opt limit (fulls prefix))).
    Proof.
      unfold iter_keys, fulls. cbv zeta.
      rewrite (take_matching_spec kp limit _ (okb so eo f)).
      - replace (budget limit 0) with limit by (destruct limit; cbn; [rewrite Nat.sub_0_r|]; reflexivity).
        reflexivity.
      - intros; apply s3_pred_spec.
      - intros; lia.
    Qed.

    Lemma fulls_perm prefix (sel : rec -> bool) :
      (forall r, In r bucket -> prefixb prefix (s3_key fmt kp r) = sel r) ->
      Permutation (fulls prefix) (filter (fun r => sel r && okb so eo f r) bucket).
    Proof.
      intros H. unfold fulls, list_prefix. cbv zeta.
      etransitivity.
      - apply filter_perm. instantiate (1 := filter (fun r => prefixb prefix (s3_key fmt kp r)) bucket).
        destruct random; [etransitivity; [apply shuf_perm|]|]; apply sort_by_perm.
      - rewrite filter_filter. erewrite filter_ext_in; [reflexivity|].
        intros r Hr. cbn beta. rewrite H by exact Hr. reflexivity.
    Qed.

    (** the iterators created for a family of prefixes, and what the merge makes of them *)
    Lemma merge_prefixes {D} (ds : list D) (pf : D -> str) sched spec_recs' :
      NoDup (map (s3_key fmt kp) bucket) ->
      Permutation (concat (map (fun d => fulls (s3_root kp ++ pf d)) ds)) spec_recs' ->
      incl spec_recs' bucket ->
      NoDup (map (s3_key fmt kp) spec_recs') ->
      exists iters keys,
        all_listed (map (fun p => iter_keys glob fmt enc shuf kp bucket (s3_root kp ++ p) so eo f limit random)
                        (map pf ds)) = Listed iters /\
        rr (rr_fuel iters) sched limit iters 0 0 = Listed keys /\
        exact_listing (map (skipn (length (s3_root kp))) keys) (map (s3_id fmt) spec_recs') limit.
    Proof.
      intros Nb P I Ns.
      set (Fs := map (fun d => map (s3_key fmt kp) (fulls (s3_root kp ++ pf d))) ds).
      destruct (merge_exact sched limit Fs (map (s3_key fmt kp) spec_recs')) as (keys & R & E).
      - unfold Fs. rewrite <- (map_map (fun d => fulls (s3_root kp ++ pf d)) (map (s3_key fmt kp))).
        rewrite <- concat_map. apply Permutation_map. exact P.
      - exact Ns.
      - intros k Hk. apply in_map_iff in Hk. destruct Hk as [r [<- _]]. apply s3_key_nonempty.
      - exists (map (firstn_opt limit) Fs), keys. split; [|split; [exact R|]].
        + rewrite map_map. unfold Fs. rewrite map_map.
          apply all_listed_map. intros d _. rewrite iter_keys_spec.
          destruct limit; cbn [firstn_opt]; [rewrite firstn_map|]; reflexivity.
        + apply (exact_map (fun id => s3_root kp ++ id)); [apply s3_strip|].
          rewrite map_map. exact E.
    Qed.
  End Query.

  (** S3: for every history of saves, key prefix, category, filter, limit, window, shuffle and choice oracle *)
  Lemma lookup_exact_s3 shuf sched kp h c so eo now f limit random :
    (forall l, Permutation (shuf l) l) ->
    (forall r, In r h -> ~ In SLASH (r_cat r)) ->
    ~ In SLASH c ->
    let bucket := store_of (s3_key fmt kp) h in
    exists out, s3_iter glob fmt enc shuf sched kp bucket c so eo now f limit random = Listed out /\
                exact_listing out (map (s3_id fmt) (spec_recs_s3 glob enc bucket c so eo now f)) limit.
  Proof.
    intros Hs Hh Hc bucket.
    assert (Nb : NoDup (map (s3_key fmt kp) bucket)) by apply store_nodup.
    assert (Hb : forall r, In r bucket -> ~ In SLASH (r_cat r)).
    { intros r Hr. apply Hh. eapply store_incl; exact Hr. }
    assert (Ns : NoDup (map (s3_key fmt kp) (spec_recs_s3 glob enc bucket c so eo now f))).
    { apply NoDup_map_filter. exact Nb. }
    assert (Is : incl (spec_recs_s3 glob enc bucket c so eo now f) bucket).
    { intros r Hr. apply filter_In in Hr. tauto. }
    unfold s3_iter, s3_iter_fuel, day_iterators, id_prefixes.
    destruct so as [s|].
    - (* one folder per enumerated day *)
      set (ds := days_enumerated s (resolve_end eo now)).
      destruct (merge_prefixes shuf kp bucket (Some s) eo f limit random ds
                  (fun d => c ++ SLASH :: fmt d ++ [SLASH])
                  (if random then sched else fun n => n)
                  (spec_recs_s3 glob enc bucket c (Some s) eo now f) Nb) as (iters & keys & A & R & E); auto.
      + etransitivity.
        * apply Permutation_concat_map. intros d _.
          apply (fulls_perm shuf Hs kp bucket (Some s) eo f random _
                            (fun r => str_eqb (r_cat r) c && Z.eqb (r_day r) d)).
          intros r Hr. apply prefix_day; auto.
        * etransitivity.
          -- erewrite map_ext; [apply (concat_filter_days (fun r => str_eqb (r_cat r) c && okb (Some s) eo f r))|].
             ++ apply days_nodup.
             ++ intros d. cbn beta. apply filter_ext. intros r.
                destruct (str_eqb (r_cat r) c), (Z.eqb (r_day r) d), (okb (Some s) eo f r); reflexivity.
          -- unfold spec_recs_s3. erewrite filter_ext; [reflexivity|]. intros r.
             unfold wanted, in_window, okb. fold ds.
             destruct (existsb (Z.eqb (r_day r)) ds), (str_eqb (r_cat r) c), (date_pred (Some s) eo r),
               (meta_spec glob f (enc (r_meta r))); reflexivity.
      + match goal with |- context [all_listed ?x] =>
          replace (all_listed x) with (@Listed (list (list str)) iters) by (symmetry; exact A) end.
        match goal with |- context [rr ?a ?b ?c ?d ?e ?g] =>
          replace (rr a b c d e g) with (@Listed (list str) keys) by (symmetry; exact R) end.
        eexists; split; [reflexivity|exact E].
    - (* no start date: the category folder *)
      destruct (merge_prefixes shuf kp bucket None eo f limit random [tt]
                  (fun _ => c ++ [SLASH])
                  (if random then sched else fun n => n)
                  (spec_recs_s3 glob enc bucket c None eo now f) Nb) as (iters & keys & A & R & E); auto.
      + cbn [map concat]. rewrite app_nil_r.
        etransitivity.
        * apply (fulls_perm shuf Hs kp bucket None eo f random _ (fun r => str_eqb (r_cat r) c)).
          intros r Hr. apply prefix_category; auto.
        * unfold spec_recs_s3. erewrite filter_ext; [reflexivity|]. intros r.
          unfold wanted, in_window, okb.
          destruct (str_eqb (r_cat r) c), (date_pred None eo r), (meta_spec glob f (enc (r_meta r))); reflexivity.
      + match goal with |- context [all_listed ?x] =>
          replace (all_listed x) with (@Listed (list (list str)) iters) by (symmetry; exact A) end.
        match goal with |- context [rr ?a ?b ?c ?d ?e ?g] =>
          replace (rr a b c d e g) with (@Listed (list str) keys) by (symmetry; exact R) end.
        eexists; split; [reflexivity|exact E].
  Qed.
End S3.

(** * the three cassettes store and list the same recordings *)

Lemma mem_id_eq x y : ~ In SLASH (r_cat x) -> ~ In SLASH (r_cat y) ->
  (mem_id x = mem_id y <-> r_cat x = r_cat y /\ r_uuid x = r_uuid y).
Proof.
  intros Hx Hy. unfold mem_id. split.
  - intros E. apply split_first_unique in E; assumption.
  - intros [-> ->]. reflexivity.
Qed.

Lemma file_name_eq x y : wf_all x -> wf_all y ->
  (file_name x = file_name y <-> r_cat x = r_cat y /\ r_uuid x = r_uuid y).
Proof.
  intros ((Hx1 & _ & _) & Hx2 & Hx3) ((Hy1 & _ & _) & Hy2 & Hy3).
  rewrite !file_name_shape by assumption. rewrite !replace_char_id by assumption. split.
  - intros E. change (?a ++ USCORE :: ?b ++ ?c) with (a ++ (USCORE :: b) ++ c) in E.
    rewrite !app_assoc in E. apply app_inv_tail in E.
    apply split_last_unique in E; assumption.
  - intros [-> ->]. reflexivity.
Qed.

Section Agree.
  Variable glob : str -> str -> bool.
  Variable fmt : Z -> str.
  Variable enc : meta -> meta.
  Hypothesis fmt_inj : forall d d', fmt d = fmt d' -> d = d'.
  Hypothesis fmt_noslash : forall d, ~ In SLASH (fmt d).

  Lemma s3_key_eq kp x y : ~ In SLASH (r_cat x) -> ~ In SLASH (r_cat y) ->
    (s3_key fmt kp x = s3_key fmt kp y <-> r_cat x = r_cat y /\ r_day x = r_day y /\ r_uuid x = r_uuid y).
  Proof.
    intros Hx Hy. unfold s3_key, s3_id. split.
    - intros E. apply app_inv_head in E. apply split_first_unique in E; [|assumption|assumption].
      destruct E as [E1 E2]. apply split_first_unique in E2; [|apply fmt_noslash|apply fmt_noslash].
      destruct E2 as [E2 E3]. apply fmt_inj in E2. auto.
    - intros (-> & -> & ->). reflexivity.
  Qed.

  Lemma stores_equal kp h :
    (forall r, In r h -> wf_all r) -> resave_consistent h ->
    store_of file_name h = store_of mem_id h /\ store_of (s3_key fmt kp) h = store_of mem_id h.
  Proof.
    intros W C. split; apply store_ext; intros x y Hx Hy.
    - pose proof (W x Hx) as Wx. pose proof (W y Hy) as Wy.
      rewrite file_name_eq by assumption.
      destruct Wx as ((? & _) & _). destruct Wy as ((? & _) & _). rewrite mem_id_eq by assumption. tauto.
    - destruct (W x Hx) as ((? & _) & _). destruct (W y Hy) as ((? & _) & _).
      rewrite s3_key_eq by assumption. rewrite mem_id_eq by assumption.
      split; [tauto|]. intros [E1 E2]. repeat split; auto.
  Qed.

  Lemma cassettes_agree shuf_m shuf_s sched kp h listing c f now random :
    (forall l, Permutation (shuf_m l) l) -> (forall l, Permutation (shuf_s l) l) ->
    (forall r, In r h -> wf_all r) -> resave_consistent h -> ~ In SLASH c ->
    (forall r, In r h -> enc (r_meta r) = r_meta r) ->
    Permutation listing (store_of file_name h) ->
    let recs := spec_recs glob same (store_of mem_id h) c f in
    exists o_mem o_file o_s3,
      mem_iter glob shuf_m (store_of mem_id h) c f None random = Listed o_mem /\
      file_iter glob (store_of file_name h) listing c f None = Listed o_file /\
      s3_iter glob fmt enc shuf_s sched kp (store_of (s3_key fmt kp) h) c None None now f None random = Listed o_s3 /\
      Permutation o_mem (map mem_id recs) /\ Permutation o_file (map mem_id recs) /\ Permutation o_s3 (map (s3_id fmt) recs).
  Proof.
    intros Hm Hs W C Hc Henc P recs.
    assert (Hslash : forall r, In r h -> ~ In SLASH (r_cat r)).
    { intros r Hr. destruct (W r Hr) as ((? & _) & _). assumption. }
    assert (Hfile : forall r, In r h -> wf_file r) by (intros r Hr; apply (W r Hr)).
    assert (Lok : limit_ok None) by discriminate.
    destruct (lookup_exact_mem glob shuf_m h c f None random Hm Hslash Lok) as (o_mem & Em & _ & _ & _ & Pm).
    destruct (lookup_exact_file glob h listing c f None P Hfile Lok) as (o_file & Ef & _ & _ & _ & Pf).
    destruct (lookup_exact_s3 glob fmt enc fmt_inj fmt_noslash shuf_s sched kp h c None None now f None random
                Hs Hslash Hc) as (o_s3 & Es & _ & _ & _ & Ps).
    exists o_mem, o_file, o_s3. repeat split; try assumption.
    - apply Pm. reflexivity.
    - specialize (Pf eq_refl). destruct (stores_equal kp h W C) as [E1 _]. rewrite E1 in Pf. exact Pf.
    - specialize (Ps eq_refl). destruct (stores_equal kp h W C) as [_ E2]. rewrite E2 in Ps.
      etransitivity; [exact Ps|]. unfold recs, spec_recs, spec_recs_s3.
      erewrite filter_ext_in; [reflexivity|]. intros r Hr. cbn beta.
      unfold wanted, in_window, date_pred, same. rewrite Henc by (eapply store_incl; exact Hr).
      rewrite !andb_true_r. reflexivity.
  Qed.
End Agree.

(** * the default lookup: skip incomplete recordings *)

Section Skip.
  Variable glob : str -> str -> bool.

  Lemma remove_key_absent k f : ~ In k (map fst f) -> remove_key k f = f.
  Proof.
    induction f as [|[k' v'] f IH]; cbn; intros H; [reflexivity|].
    destruct (str_eqb k' k) eqn:E; [apply str_eqb_eq in E; exfalso; apply H; left; exact E|].
    f_equal. apply IH. intros C; apply H; right; exact C.
  Qed.

  Lemma set_key_spec k v f m : NoDup (map fst f) ->
    meta_spec glob (set_key k v f) m = meta_spec glob (remove_key k f) m && match_spec glob v (get_meta k m).
  Proof.
    unfold meta_spec.
    induction f as [|[k' v'] f IH]; intros N.
    - cbn. apply andb_true_r.
    - inversion N as [|? ? Nk N']; subst. cbn [set_key remove_key].
      destruct (str_eqb k' k) eqn:E.
      + apply str_eqb_eq in E. subst. rewrite remove_key_absent by exact Nk.
        cbn [forallb fst snd]. apply andb_comm.
      + cbn [forallb fst snd]. rewrite IH by exact N'. rewrite andb_assoc. reflexivity.
  Qed.

  (** what the extra filter [False, None] accepts *)
  Lemma skip_filter_flag v :
    v = MBool true \/ v = MBool false \/ v = MNone ->
    match_spec glob SKIP_FILTER v = negb (match v with MBool true => true | _ => false end).
  Proof. intros [ -> | [ -> | -> ] ]; reflexivity. Qed.

  (** the default lookup keeps exactly the recordings that the caller's filter (without its own entry for
      the flag, which the lookup overwrites) accepts and whose incomplete flag is not True *)
  Lemma skip_incomplete view c f r :
    NoDup (map fst f) -> flag_domain (view (r_meta r)) ->
    wanted glob view c (lookup_filter true f) r =
    wanted glob view c (remove_key INCOMPLETE f) r && negb (flag_true (view (r_meta r))).
  Proof.
    intros N D. unfold wanted, lookup_filter. rewrite set_key_spec by exact N.
    rewrite skip_filter_flag by exact D. unfold flag_true. rewrite andb_assoc. reflexivity.
  Qed.

  Lemma skip_incomplete_listing view s c f r :
    NoDup (map fst f) -> (forall x, In x s -> flag_domain (view (r_meta x))) ->
    (In r (spec_recs glob view s c (lookup_filter true f)) <->
     In r (spec_recs glob view s c (remove_key INCOMPLETE f)) /\ flag_true (view (r_meta r)) = false).
  Proof.
    intros N D. unfold spec_recs. rewrite !filter_In. split.
    - intros [Hr H]. rewrite skip_incomplete in H by auto. apply andb_true_iff in H. destruct H as [H1 H2].
      apply negb_true_iff in H2. auto.
    - intros [[Hr H1] H2]. split; [exact Hr|]. rewrite skip_incomplete by auto. rewrite H1, H2. reflexivity.
  Qed.

  Lemma absent_or_none_kept m :
    lookup INCOMPLETE m = None \/ lookup INCOMPLETE m = Some MNone \/ lookup INCOMPLETE m = Some (MBool false) ->
    flag_domain m /\ flag_true m = false.
  Proof.
    unfold flag_domain, flag_true, get_meta. intros [ -> | [ -> | -> ] ]; split; auto.
  Qed.
End Skip.

(** * category recovered from a created id *)

Lemma split_field_app a rest : a <> [] -> ~ In SLASH a -> split_field (a ++ SLASH :: rest) = Some (a, rest).
Proof.
  destruct a as [|x a]; [congruence|]. intros _ H. cbn [app split_field].
  rewrite split_first_app; [reflexivity|]. intros C; apply H; right; exact C.
Qed.

Lemma s3_category_created fmt r :
  r_cat r <> [] -> ~ In SLASH (r_cat r) -> fmt (r_day r) <> [] -> ~ In SLASH (fmt (r_day r)) -> r_uuid r <> [] ->
  s3_category_of (s3_id fmt r) = Listed (r_cat r).
Proof.
  intros H1 H2 H3 H4 H5. unfold s3_category_of, s3_id.
  rewrite split_field_app by assumption. rewrite split_field_app by assumption.
  destruct (r_uuid r); [congruence|reflexivity].
Qed.

(** * non-vacuity: a concrete history that meets every hypothesis used above *)

Definition ex_code (d : Z) : Z := if Z.ltb d 0 then 99 - 2 * d else 100 + 2 * d.
Definition ex_fmt (d : Z) : str := [Z.to_N (ex_code d)].

Lemma ex_code_bounds d : (100 <= ex_code d)%Z.
Proof. unfold ex_code. destruct (Z.ltb d 0) eqn:A; [apply Z.ltb_lt in A|apply Z.ltb_ge in A]; lia. Qed.

Lemma ex_code_inj d d' : ex_code d = ex_code d' -> d = d'.
Proof.
  unfold ex_code.
  destruct (Z.ltb d 0) eqn:A; [apply Z.ltb_lt in A|apply Z.ltb_ge in A];
    (destruct (Z.ltb d' 0) eqn:B; [apply Z.ltb_lt in B|apply Z.ltb_ge in B]); lia.
Qed.

Lemma ex_fmt_inj d d' : ex_fmt d = ex_fmt d' -> d = d'.
Proof.
  unfold ex_fmt. intros E. assert (E' : Z.to_N (ex_code d) = Z.to_N (ex_code d')) by congruence.
  apply (f_equal Z.of_N) in E'. pose proof (ex_code_bounds d). pose proof (ex_code_bounds d').
  rewrite !Z2N.id in E' by lia. apply ex_code_inj. exact E'.
Qed.

Lemma ex_fmt_noslash d : ~ In SLASH (ex_fmt d).
Proof.
  unfold ex_fmt, SLASH. intros [E|[]]. apply (f_equal Z.of_N) in E. pose proof (ex_code_bounds d).
  rewrite Z2N.id in E by lia. change (Z.of_N 47) with 47%Z in E. lia.
Qed.

Definition ex_hist : list rec :=
  [ Rec (U"Op")   (U"a1") 0 10%Z          [(INCOMPLETE, MBool false); (U"tenant", MStr (U"a"))];
    Rec (U"OpX")  (U"b2") 0 20%Z          [(U"tenant", MStr (U"a"))];
    Rec (U"Op_Y") (U"c3") 0 30%Z          [];
    Rec (U"O")    (U"d4") 1 (D + 5)%Z     [(INCOMPLETE, MBool false)];
    Rec (U"Op_")  (U"e5") 1 (D + 6)%Z     [(U"tenant", MStr (U"a"))];
    Rec (U"Op")   (U"f6") 1 (D + 40)%Z    [(INCOMPLETE, MBool true); (U"tenant", MStr (U"a"))];
    Rec (U"Op")   (U"a1") 0 (D + 50)%Z    [(U"tenant", MStr (U"ab"))];      (* the first recording saved again *)
    Rec (U"Op")   (U"07") 2 (2 * D + 1)%Z [(INCOMPLETE, MNone)] ].

Ltac notin_tac := cbv; intuition discriminate.

Lemma ex_wf : forall r, In r ex_hist -> wf_all r.
Proof.
  intros r H. cbn in H.
  repeat (destruct H as [<-|H]; [unfold wf_all, wf_file; cbn [r_cat r_uuid]; repeat split; notin_tac|]).
  contradiction.
Qed.

Lemma ex_consistent : resave_consistent ex_hist.
Proof.
  intros x y Hx Hy. cbn in Hx, Hy.
  repeat (destruct Hx as [<-|Hx]; [|]); try contradiction;
    repeat (destruct Hy as [<-|Hy]; [|]); try contradiction; cbn [r_cat r_uuid r_day];
    intros E1 E2; try reflexivity; exfalso; cbv in E1, E2; try discriminate E1; discriminate E2.
Qed.

Lemma ex_flags : forall r, In r ex_hist -> flag_domain (same (r_meta r)).
Proof.
  intros r H. cbn in H.
  repeat (destruct H as [<-|H]; [unfold flag_domain; vm_compute; tauto|]). contradiction.
Qed.

Definition ex_filter : meta := [(U"tenant", MStr (U"a*"))].

Lemma ex_runs :
  (* plain listing of a category that is a prefix of three others *)
  mem_iter glob_simple (fun l => l) (store_of mem_id ex_hist) (U"Op") [] None false
    = Listed [U"Op/a1"; U"Op/f6"; U"Op/07"] /\
  file_iter glob_simple (store_of file_name ex_hist) (List.rev (store_of file_name ex_hist)) (U"Op") [] None
    = Listed [U"Op/07"; U"Op/f6"; U"Op/a1"] /\
  (* the default lookup drops the incomplete one, keeps the one without a flag and the one whose flag is None *)
  find_mem glob_simple (fun l => l) (store_of mem_id ex_hist) (U"Op") [] None false true
    = Listed [U"Op/a1"; U"Op/07"] /\
  (* a pattern filter, the default empty key prefix, three day folders, limit 2, round-robin merge *)
  map (map (fun c => N.to_nat c)) (match
    find_s3 glob_simple ex_fmt same (fun l => l) (fun n => n) [] (store_of (s3_key ex_fmt []) ex_hist)
            (U"Op") (Some 0%Z) (Some (3 * D)%Z) (3 * D)%Z ex_filter (Some 2) false false
    with Listed l => l | _ => [] end)
    = map (map (fun c => N.to_nat c))
          [U"Op" ++ SLASH :: ex_fmt 0 ++ SLASH :: U"a1"; U"Op" ++ SLASH :: ex_fmt 1 ++ SLASH :: U"f6"].
Proof. repeat split; vm_compute; reflexivity. Qed.

(** * statements as used by Properties/C10.v *)

Lemma store_of_saves key h : incl (store_of key h) h /\ NoDup (map key (store_of key h)).
Proof. split; [apply store_incl|apply store_nodup]. Qed.

Lemma skip_incomplete_full glob view s c f r :
  NoDup (map fst f) -> (forall x, In x s -> flag_domain (view (r_meta x))) ->
  (In r (spec_recs glob view s c (lookup_filter true f)) <->
   In r (spec_recs glob view s c (remove_key INCOMPLETE f)) /\ flag_true (view (r_meta r)) = false) /\
  lookup_filter false f = f.
Proof. intros. split; [apply skip_incomplete_listing; assumption|reflexivity]. Qed.

Lemma category_of_created_id fmt r :
  ~ In SLASH (r_cat r) ->
  category_of (mem_id r) = r_cat r /\
  (r_cat r <> [] -> fmt (r_day r) <> [] -> ~ In SLASH (fmt (r_day r)) -> r_uuid r <> [] ->
   s3_category_of (s3_id fmt r) = Listed (r_cat r)).
Proof. intros H. split; [apply category_of_mem_id; exact H|intros; apply s3_category_created; assumption]. Qed.

Definition ex_s3_listing : list str :=
  match find_s3 glob_simple ex_fmt same (fun l => l) (fun n => n) [] (store_of (s3_key ex_fmt []) ex_hist)
                (U"Op") (Some 0%Z) (Some (3 * D)%Z) (3 * D)%Z ex_filter (Some 2) false false
  with Listed l => l | _ => [] end.

Lemma ex_nonvacuous :
  (forall r, In r ex_hist -> wf_all r) /\ resave_consistent ex_hist /\
  (forall r, In r ex_hist -> flag_domain (same (r_meta r))) /\
  (forall d d', ex_fmt d = ex_fmt d' -> d = d') /\ (forall d, ~ In SLASH (ex_fmt d)) /\
  mem_iter glob_simple (fun l => l) (store_of mem_id ex_hist) (U"Op") [] None false
    = Listed [U"Op/a1"; U"Op/f6"; U"Op/07"] /\
  file_iter glob_simple (store_of file_name ex_hist) (List.rev (store_of file_name ex_hist)) (U"Op") [] None
    = Listed [U"Op/07"; U"Op/f6"; U"Op/a1"] /\
  find_mem glob_simple (fun l => l) (store_of mem_id ex_hist) (U"Op") [] None false true
    = Listed [U"Op/a1"; U"Op/07"] /\
  map (map (fun c => N.to_nat c)) ex_s3_listing
    = map (map (fun c => N.to_nat c))
          [U"Op" ++ SLASH :: ex_fmt 0 ++ SLASH :: U"a1"; U"Op" ++ SLASH :: ex_fmt 1 ++ SLASH :: U"f6"].
Proof.
  pose proof ex_runs as (A & B & C & E).
  exact (conj ex_wf (conj ex_consistent (conj ex_flags (conj ex_fmt_inj (conj ex_fmt_noslash
          (conj A (conj B (conj C E)))))))).
Qed.

(** * the defects repaired in /repo (de4e2f4, 9fc7a09, 91a8799), kept as replayable witnesses *)

(** F10a: with only the file-name prefix test, a lookup for "Op" also lists OpX, Op_Y and Op_ recordings *)
Lemma legacy_file_prefix_leak :
  exists out, legacy_file_scan glob_simple false true (store_of file_name ex_hist) (U"Op") []
                               (store_of file_name ex_hist) = Listed out /\
              In (U"OpX/b2") out /\ In (U"Op_Y/c3") out /\ In (U"Op_/e5") out /\
              ~ In (U"OpX/b2") (lookup_spec glob_simple mem_id same (store_of file_name ex_hist) (U"Op") []).
Proof.
  eexists. split; [vm_compute; reflexivity|]. repeat split; try (vm_compute; tauto).
  vm_compute. intuition discriminate.
Qed.

(** F10b: per-key == never matches the default filter [False, None] (O/d4 is complete and is not listed), and a
    recording without the key aborts the listing with KeyError *)
Lemma legacy_file_filter_broken :
  legacy_file_scan glob_simple true false (store_of file_name ex_hist) (U"O") (lookup_filter true [])
                   (store_of file_name ex_hist) = Listed [] /\
  lookup_spec glob_simple mem_id same (store_of file_name ex_hist) (U"O") (lookup_filter true []) = [U"O/d4"] /\
  legacy_file_scan glob_simple true false (store_of file_name ex_hist) (U"Op_") (lookup_filter true [])
                   (store_of file_name ex_hist) = LRaises KeyError.
Proof. repeat split; vm_compute; reflexivity. Qed.

(** F10c: with the default empty key prefix the parsed-back id does not exist (AttributeError); a key prefix
    containing "metadata/" is cut short and the id comes back with a piece of the prefix in front *)
Lemma legacy_s3_id_parse_broken :
  legacy_s3_iter glob_simple ex_fmt same (fun l => l) (fun n => n) [] (store_of (s3_key ex_fmt []) ex_hist)
                 (U"Op") None None 0%Z [] None false = LRaises AttributeError /\
  legacy_key_id (s3_key ex_fmt (U"xmetadata/y") (Rec (U"Op") (U"a1") 0 0%Z []))
    = Listed (U"y/metadata/" ++ s3_id ex_fmt (Rec (U"Op") (U"a1") 0 0%Z [])) /\
  (exists out, s3_iter glob_simple ex_fmt same (fun l => l) (fun n => n) [] (store_of (s3_key ex_fmt []) ex_hist)
                 (U"Op") None None 0%Z [] None false = Listed out /\ length out = 3).
Proof. repeat split; try (vm_compute; reflexivity). eexists. split; vm_compute; reflexivity. Qed.

(** observation (not a defect of the listing property, which is stated for limit None or >= 1):
    limit = 0 means "no limit" on the in-memory cassette and "nothing" on S3 *)
Lemma limit_zero_diverges :
  mem_iter glob_simple (fun l => l) (store_of mem_id ex_hist) (U"Op") [] (Some 0) false
    = Listed [U"Op/a1"; U"Op/f6"; U"Op/07"] /\
  s3_iter glob_simple ex_fmt same (fun l => l) (fun n => n) [] (store_of (s3_key ex_fmt []) ex_hist)
          (U"Op") None None 0%Z [] (Some 0) false = Listed [].
Proof. split; vm_compute; reflexivity. Qed.
