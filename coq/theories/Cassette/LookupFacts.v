From Playback Require Import Base.Str Base.StrFacts Cassette.Matcher Cassette.MatcherFacts Cassette.Window Cassette.WindowFacts Cassette.Lookup.
Lemma stub : True. Proof. exact I. Qed.
