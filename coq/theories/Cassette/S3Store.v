(** Model C, part 2: the storage side of [S3TapeCassette]
    (playback/tape_cassettes/s3/s3_tape_cassette.py; line numbers below refer to it):
    constructor normalisation, create, save, get, get_metadata, close / context exit.
    Lookup ([iter_recording_ids]) belongs to C10; here it only appears as a call that leaves the
    bucket alone.  Externals are section variables: the quoted-printable codec for bytes values,
    [json.loads], zlib.  Definitions only. *)
From Playback Require Import Base.Str Values.PyVal Values.Codec Values.JsonWf Cassette.Bucket.
From Coq Require Import QArith.
Open Scope list_scope.

Inductive exn :=
| AssertionError      (* read-only guard :134, unparsable id :357 *)
| NoSuchRecording     (* playback.exceptions.NoSuchRecording *)
| EncodeError         (* jsonpickle.encode raised (unserializable value) *)
| DecodeError         (* zlib / json / jsonpickle could not decode a stored object *)
| ShapeError          (* decoded object has not the shape the code expects (AttributeError / TypeError) *)
| InjectedCrash.      (* the bucket refused a mutation (crash injection of the harness) *)

Inductive res (A : Type) := Ans (a : A) | Raises (e : exn).
Arguments Ans {A} a.
Arguments Raises {A} e.

Definition exn_eqb (a b : exn) : bool :=
  match a, b with
  | AssertionError, AssertionError | NoSuchRecording, NoSuchRecording | EncodeError, EncodeError
  | DecodeError, DecodeError | ShapeError, ShapeError | InjectedCrash, InjectedCrash => true
  | _, _ => false
  end.

(** a recording handed to save_recording: MemoryRecording(id, recording_data, recording_metadata) *)
Record recording := Rec {
  r_id : str;
  r_closed : bool;                       (* Recording._closed at the time of the save *)
  r_data : list (str * pyval);           (* recording_data, insertion order *)
  r_meta : list (str * pyval)            (* recording_metadata *)
}.

(** what a fetched MemoryRecording shows: id, recording_data, recording_metadata *)
Record fetched := Fetched { f_id : pyval; f_data : pyval; f_meta : pyval }.

(** Python truthiness of a decoded value ([x or {}] in MemoryRecording.__init__, memory_recording.py:18-19) *)
Definition falsy (v : pyval) : bool :=
  match v with
  | VNone | VBool false | VInt 0%Z | VStr [] | VBytes [] | VList [] | VTuple [] | VSet [] | VDict [] => true
  | VFloat r => str_eqb r (U"0.0") || str_eqb r (U"-0.0")
  | _ => false
  end.
Definition or_empty_dict (v : pyval) : pyval := if falsy v then VDict [] else v.

(** [d[k] = v] and [d.pop(k, default)] on insertion-ordered items *)
Fixpoint dict_set {A} (k : str) (v : A) (d : list (str * A)) : list (str * A) :=
  match d with
  | [] => [(k, v)]
  | (k', v') :: d' => if str_eqb k k' then (k, v) :: d' else (k', v') :: dict_set k v d'
  end.
Definition dict_remove {A} (k : str) (d : list (str * A)) : list (str * A) :=
  filter (fun kv => negb (str_eqb k (fst kv))) d.

(** ---- keys ---- *)
Definition ROOT : str := U"tape_recorder_recordings/".
Definition META : str := U"_metadata".
(** :57  self.key_prefix = (key_prefix + '/') if key_prefix else '' *)
Definition norm_prefix (p : str) : str := match p with [] => [] | _ => p ++ U"/" end.
(** :27-28 FULL_KEY / METADATA_KEY with the normalised prefix *)
Definition full_key (np id : str) : str := ROOT ++ np ++ U"full/" ++ id.
Definition meta_key (np id : str) : str := ROOT ++ np ++ U"metadata/" ++ id.

Record cfg := Cfg { c_prefix : str; c_read_only : bool; c_transient : bool }.
Definition np (c : cfg) : str := norm_prefix (c_prefix c).
Definition own_prefix (c : cfg) : str := ROOT ++ np c.

(** :349-358 extract_recording_category through parse('{category}/{day}/{id}'): the id matches
    (.+?)/(.+?)/(.+?) iff there is a '/' at index i >= 1 and another at some j >= i+2 that is not
    the last character.  [id_category] returns the category (shortest non-empty text before a '/'). *)
Fixpoint has_sep_inside (s : str) : bool :=      (* some '/' at index >= 1 that is not last *)
  match s with
  | _ :: ((c :: (_ :: _)) as s') => (c =? 47)%N || has_sep_inside s'
  | _ => false
  end.
Fixpoint id_category_from (acc : str) (s : str) : option str :=   (* acc: reversed non-empty category so far *)
  match s with
  | [] => None
  | c :: s' => if (c =? 47)%N then (if has_sep_inside s' then Some (rev acc) else None)
               else id_category_from (c :: acc) s'
  end.
Definition id_category (id : str) : option str :=
  match id with
  | [] => None
  | c :: s' => id_category_from [c] s'
  end.

(** :197-216 _should_sample.  [NoCalc]: no sampling_calculator.  [Calc ratio draw]: the calculator
    answered [ratio] for this recording; [draw] is what self._random.random() returns if asked. *)
Inductive sampling := NoCalc | Calc (ratio draw : Q).
Definition should_sample (s : sampling) : bool :=
  match s with
  | NoCalc => true
  | Calc ratio draw => if Qle_bool 1 ratio then true else Qle_bool draw ratio
  end.

Inductive call :=
| CCreate (category day uuid : str)    (* create_new_recording; [day], [uuid]: what strftime / uuid1().hex answer *)
| CSave (r : recording) (s : sampling) (* save_recording *)
| CSaveCrash (r : recording) (s : sampling) (n : nat)   (* the bucket fails on mutation number n (0-based) of this save *)
| CGet (id : str)                      (* get_recording *)
| CGetMeta (id : str)                  (* get_recording_metadata *)
| CList (category : str)               (* iter_recording_ids: reads only (C10) *)
| CClose                               (* close *)
| CExit.                               (* leaving a [with cassette:] block = close (tape_cassette.py:15-16) *)

Inductive outcome :=
| OId (id : str)
| OUnit
| ORec (f : fetched)
| OVal (v : pyval).

Section S3.
  Variable qp : list N -> str.
  Variable qp_dec : str -> list N.
  Variable loads : str -> option json.
  Variable compress : bytes -> bytes.
  Variable decompress : bytes -> option bytes.      (* None = zlib.error *)

  Definition enc (v : pyval) : option str := encode_with qp v.
  Definition dec (s : str) : option pyval := match loads s with Some j => restore qp_dec j | None => None end.

  (** :113-128 *)
  Definition s3_create (c : cfg) (category day uuid : str) : res str :=
    if c_read_only c then Raises AssertionError
    else Ans (category ++ U"/" ++ day ++ U"/" ++ uuid).

  (** :144-157  full_data = copy(recording_data); full_data['_metadata'] = recording_metadata; encode; compress.
      The encoded text is pure ASCII (json.dumps escapes everything else), so its UTF-8 bytes are its code points. *)
  Definition full_value (r : recording) : pyval := VDict (dict_set META (VDict (r_meta r)) (r_data r)).
  Definition full_body (r : recording) : option bytes := option_map compress (enc (full_value r)).
  Definition meta_body (r : recording) : option bytes := enc (VDict (r_meta r)).

  (** the bucket mutations of one save, in program order (:172 then :176), or the exception raised
      before the first of them; [None] after a put = the second encode raised *)
  Definition save_plan (c : cfg) (r : recording) (s : sampling) : res (list (str * bytes)) :=
    if c_read_only c then Raises AssertionError                                   (* :142 *)
    else match full_body r with
         | None => Raises EncodeError                                              (* :149 *)
         | Some fb =>
             match s, id_category (r_id r) with
             | Calc _ _, None => Raises AssertionError                             (* :210 -> :357 *)
             | _, _ =>
                 if should_sample s then
                   match meta_body r with
                   | Some mb => Ans [(full_key (np c) (r_id r), fb); (meta_key (np c) (r_id r), mb)]
                   | None => Ans [(full_key (np c) (r_id r), fb)]
                   end
                 else Ans []                                                       (* :161-164 *)
             end
         end.

  Fixpoint apply_puts (ps : list (str * bytes)) (st : bstate) : bstate :=
    match ps with
    | [] => st
    | (k, v) :: ps' => apply_puts ps' (st_put k v st)
    end.

  (** the bucket after each single mutation of the plan (the crash points of a save) *)
  Fixpoint put_states (ps : list (str * bytes)) (st : bstate) : list bstate :=
    match ps with
    | [] => []
    | (k, v) :: ps' => st_put k v st :: put_states ps' (st_put k v st)
    end.

  Definition plan_complete (r : recording) (s : sampling) : bool :=
    match meta_body r with Some _ => true | None => negb (should_sample s) end.

  Definition s3_save (c : cfg) (r : recording) (s : sampling) (st : bstate) : bstate * res unit :=
    match save_plan c r s with
    | Raises e => (st, Raises e)
    | Ans ps => (apply_puts ps st, if plan_complete r s then Ans tt else Raises EncodeError)
    end.

  (** the bucket refuses mutation number [n] of this save: the first [n] puts happen *)
  Definition s3_save_crash (c : cfg) (r : recording) (s : sampling) (n : nat) (st : bstate) : bstate * res unit :=
    match save_plan c r s with
    | Raises e => (st, Raises e)
    | Ans ps => if (n <? length ps)%nat then (apply_puts (firstn n ps) st, Raises InjectedCrash)
                else (apply_puts ps st, if plan_complete r s then Ans tt else Raises EncodeError)
    end.

  (** :68-91 *)
  Definition s3_get (c : cfg) (id : str) (b : bucket) : res fetched :=
    match b_get (full_key (np c) id) b with
    | None => Raises NoSuchRecording                                               (* :83-84 *)
    | Some body =>
        match decompress body with
        | None => Raises DecodeError                                               (* :85 re-raised *)
        | Some text =>
            match dec text with
            | None => Raises DecodeError
            | Some (VDict d) =>                                                    (* :89 pop('_metadata', {}) *)
                let m := match assoc META d with Some v => v | None => VDict [] end in
                Ans (Fetched (VStr id) (or_empty_dict (VDict (dict_remove META d))) (or_empty_dict m))
            | Some _ => Raises ShapeError
            end
        end
    end.

  (** :93-111 (the metadata object is not compressed) *)
  Definition s3_get_meta (c : cfg) (id : str) (b : bucket) : res pyval :=
    match b_get (meta_key (np c) id) b with
    | None => Raises NoSuchRecording
    | Some body => match dec body with Some v => Ans v | None => Raises DecodeError end
    end.

  (** :360-372 *)
  Definition s3_close (c : cfg) (st : bstate) : bstate :=
    if c_read_only c || negb (c_transient c) then st
    else st_delete_prefix (meta_key (np c) []) (st_delete_prefix (full_key (np c) []) st).

  Definition step (c : cfg) (k : call) (st : bstate) : bstate * res outcome :=
    match k with
    | CCreate cat day uuid =>
        (st, match s3_create c cat day uuid with Ans i => Ans (OId i) | Raises e => Raises e end)
    | CSave r s => let '(st', x) := s3_save c r s st in
                   (st', match x with Ans _ => Ans OUnit | Raises e => Raises e end)
    | CSaveCrash r s n => let '(st', x) := s3_save_crash c r s n st in
                          (st', match x with Ans _ => Ans OUnit | Raises e => Raises e end)
    | CGet id => (st, match s3_get c id (objs st) with Ans f => Ans (ORec f) | Raises e => Raises e end)
    | CGetMeta id => (st, match s3_get_meta c id (objs st) with Ans v => Ans (OVal v) | Raises e => Raises e end)
    | CList _ => (st, Ans OUnit)
    | CClose | CExit => (s3_close c st, Ans OUnit)
    end.

  (** a history: calls on several cassettes (each call names the configuration of the cassette it is
      made on) sharing one bucket *)
  Fixpoint run (h : list (cfg * call)) (st : bstate) : bstate :=
    match h with
    | [] => st
    | (c, k) :: h' => run h' (fst (step c k st))
    end.

  (** every bucket state that exists at some instant of the history: after each single mutation of
      each save (a crash there leaves exactly this bucket), and after each call *)
  Definition call_states (c : cfg) (k : call) (st : bstate) : list bstate :=
    match k with
    | CSave r s => match save_plan c r s with Ans ps => put_states ps st | Raises _ => [] end
    | CSaveCrash r s n => match save_plan c r s with Ans ps => put_states (firstn n ps) st | Raises _ => [] end
    | _ => [fst (step c k st)]
    end.
  Fixpoint all_states (h : list (cfg * call)) (st : bstate) : list bstate :=
    match h with
    | [] => []
    | (c, k) :: h' => call_states c k st ++ all_states h' (fst (step c k st))
    end.

  (** ---- specification vocabulary (used by the C15 / C07 statements) ---- *)
  (** both objects of the recording can be fetched through cassette [c] *)
  Definition fetchable (c : cfg) (id : str) (b : bucket) : Prop :=
    (exists f, s3_get c id b = Ans f) /\ (exists m, s3_get_meta c id b = Ans m).
  (** every recording that lookup can discover through [c] (lookup lists the metadata objects under
      the cassette's metadata prefix, :237-245) is completely fetchable *)
  Definition discoverable_complete (c : cfg) (b : bucket) : Prop :=
    forall id, b_has (meta_key (np c) id) b = true -> fetchable c id b.
End S3.

(** the keys that hold recordings of cassette [c]: .../<prefix>/full/* and .../<prefix>/metadata/* *)
Definition is_recording_key (c : cfg) (k : str) : bool :=
  prefixb (full_key (np c) []) k || prefixb (meta_key (np c) []) k.
(** neither normalised prefix is a (string = path, thanks to the trailing slash) prefix of the other *)
Definition independent (c c' : cfg) : Prop :=
  prefixb (np c) (np c') = false /\ prefixb (np c') (np c) = false.

(** weaker and decidable: the two cassettes' recording-key prefixes are pairwise incomparable, so no
    key is a recording key of both (holds for "" / "a", "a" / "ab", "a" / "a/b"; fails for "a" / "a/full") *)
Definition incomparable (a b : str) : bool := negb (prefixb a b) && negb (prefixb b a).
Definition key_disjoint (c c' : cfg) : bool :=
  incomparable (full_key (np c) []) (full_key (np c') []) && incomparable (full_key (np c) []) (meta_key (np c') []) &&
  incomparable (meta_key (np c) []) (full_key (np c') []) && incomparable (meta_key (np c) []) (meta_key (np c') []).

(** recordings in the serializer's faithful domain *)
Definition rec_wf (r : recording) : bool :=
  str_ok (r_id r) && wf (VDict (r_data r)) && wf (VDict (r_meta r)).
(** ... whose floats carry float.__repr__ texts and whose bytes values are lists of bytes
    (JsonWf.leaves_ok: the domain on which json.loads inverts json.dumps) *)
Definition rec_leaves_ok (r : recording) : bool :=
  leaves_ok (VDict (r_data r)) && leaves_ok (VDict (r_meta r)).
