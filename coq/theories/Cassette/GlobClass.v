(** A concrete fnmatch for the correspondence runs of the lookups (C10): CPython 3.12 fnmatch.translate
    (Lib/fnmatch.py) followed by re.match on a posix system (normcase is the identity, matching is case
    sensitive, the expression is compiled with the flag s and anchored at both ends), for every pattern text:
    literals, the question mark, the star, and character classes: [seq], [!seq], ranges lo-hi, a closing bracket
    first in the class, an opening bracket without a closing one (a literal), empty ranges (removed together
    with their end points), the empty class (never matches) and the negated empty class (any character).
    The theorems of C10 / C14 hold for EVERY fnmatch oracle (section variable glob); this instance only has to
    agree with Python on the patterns the harness sends, which the correspondence checks on every run.
    Definitions only. *)
From Playback Require Import Base.Str.
Open Scope list_scope.

(** the text between the brackets as the regular expression's set sees it: characters (all of them literal:
    translate escapes the backslash, the hyphens inside a chunk and the set operators) and the hyphens that
    join two chunks (they make ranges) *)
Inductive ctok := TChar (c : N) | TDash.

Fixpoint until_close (s : str) : option str :=
  match s with
  | [] => None
  | c :: s' => if N.eqb c 93 then Some [] else option_map (cons c) (until_close s')
  end.

(** [s] = the pattern after an opening bracket.  j = i; skip one exclamation mark; skip one closing bracket;
    scan to the next closing bracket.  None = there is none (the opening bracket is a literal) *)
Definition class_body (s : str) : option str :=
  let '(pre1, s1) := match s with
                     | c :: s' => if N.eqb c 33 then ([33%N], s') else ([], s)
                     | [] => ([], s)
                     end in
  let '(pre2, s2) := match s1 with
                     | c :: s' => if N.eqb c 93 then ([93%N], s') else ([], s1)
                     | [] => ([], s1)
                     end in
  option_map (fun body => pre1 ++ pre2 ++ body) (until_close s2).

(** split at the hyphens that make ranges: k = pat.find('-', k, j) ... k = k + 3.  [skip] = how many of the
    next characters cannot be such a hyphen; [cur] = the current chunk, reversed *)
Fixpoint chunks_of (skip : nat) (cur : str) (s : str) : list str :=
  match s with
  | [] => [List.rev cur]
  | c :: s' =>
      match skip with
      | O => if N.eqb c 45 then List.rev cur :: chunks_of 2 [] s' else chunks_of 0 (c :: cur) s'
      | S k => chunks_of k (c :: cur) s'
      end
  end.

(** chunk = pat[i:j]; an empty last chunk means the text ends with a hyphen, which is a literal *)
Fixpoint fix_last (l : list str) : list str :=
  match l with
  | [] => []
  | c :: l' =>
      match l' with
      | [] => [c]
      | [[]] => [c ++ [45%N]]
      | _ => c :: fix_last l'
      end
  end.

Fixpoint last_opt {A} (l : list A) : option A :=
  match l with [] => None | [x] => Some x | _ :: l' => last_opt l' end.

(** "Remove empty ranges": for k from the last chunk down to 1, if chunks[k-1][-1] > chunks[k][0] the two end
    points go and the chunks are glued.  Chunks are never empty here (a first chunk has at least one character,
    a middle one at least two), the last clause is not reachable *)
Fixpoint merge_chunks (l : list str) : list str :=
  match l with
  | [] => []
  | c :: rest =>
      match merge_chunks rest with
      | [] => [c]
      | d :: more =>
          match last_opt c, d with
          | Some a, b :: d' => if N.ltb b a then (List.removelast c ++ d') :: more else c :: d :: more
          | _, _ => c :: d :: more
          end
      end
  end.

Fixpoint join_chunks (l : list str) : list ctok :=
  match l with
  | [] => []
  | c :: l' => match l' with [] => map TChar c | _ => map TChar c ++ TDash :: join_chunks l' end
  end.

Definition class_toks (stuff : str) : list ctok :=
  if existsb (N.eqb 45) stuff then
    let neg := match stuff with c :: _ => N.eqb c 33 | [] => false end in
    join_chunks (merge_chunks (fix_last (chunks_of (if neg then 2 else 1) [] stuff)))
  else map TChar stuff.

(** membership in the set as re parses it: char, or char-hyphen-char = inclusive range; a hyphen that is not
    between two characters (first after the negation mark) is a literal *)
Fixpoint in_set (x : N) (l : list ctok) : bool :=
  match l with
  | [] => false
  | TChar a :: l1 =>
      match l1 with
      | TDash :: TChar b :: l2 => (N.leb a x && N.leb x b) || in_set x l2
      | _ => N.eqb x a || in_set x l1
      end
  | TDash :: l1 => N.eqb x 45 || in_set x l1
  end.

Inductive cls := CNever | CAny | CPos (l : list ctok) | CNeg (l : list ctok).

(** not stuff: never; stuff == '!': any character; stuff[0] == '!': negated set; else the set (a caret or an
    opening bracket first is escaped, i.e. a literal like every other character) *)
Definition class_of (stuff : str) : cls :=
  match class_toks stuff with
  | [] => CNever
  | TChar c :: l =>
      if N.eqb c 33 then match l with [] => CAny | _ => CNeg l end
      else CPos (TChar c :: l)
  | l => CPos l
  end.

Definition cls_match (k : cls) (x : N) : bool :=
  match k with
  | CNever => false
  | CAny => true
  | CPos l => in_set x l
  | CNeg l => negb (in_set x l)
  end.

Inductive ptok := PStar | PAny | PLit (c : N) | PCls (k : cls).

(** [skip] = characters of the pattern already consumed as a class body (and its closing bracket) *)
Fixpoint toks (skip : nat) (pat : str) : list ptok :=
  match pat with
  | [] => []
  | c :: p' =>
      match skip with
      | S k => toks k p'
      | O =>
          if N.eqb c 42 then PStar :: toks 0 p'
          else if N.eqb c 63 then PAny :: toks 0 p'
          else if N.eqb c 91 then
            match class_body p' with
            | Some stuff => PCls (class_of stuff) :: toks (S (length stuff)) p'
            | None => PLit 91 :: toks 0 p'
            end
          else PLit c :: toks 0 p'
      end
  end.

Fixpoint tmatch (pat : list ptok) : str -> bool :=
  match pat with
  | [] => fun s => match s with [] => true | _ => false end
  | t :: pat' =>
      match t with
      | PStar =>
          fix star (s : str) : bool :=
            tmatch pat' s || match s with [] => false | _ :: s' => star s' end
      | PAny => fun s => match s with [] => false | _ :: s' => tmatch pat' s' end
      | PLit p => fun s => match s with [] => false | c :: s' => N.eqb c p && tmatch pat' s' end
      | PCls k => fun s => match s with [] => false | c :: s' => cls_match k c && tmatch pat' s' end
      end
  end.

(** fnmatch.fnmatch(s, pat) *)
Definition glob_fn (s pat : str) : bool := tmatch (toks 0 pat) s.
