(** Model D: metadata filter matching, tape_cassette.py:121-190
    (match_against_recorded_metadata, _match_metadata_value, _operator_filter, _apply_operator).
    Executable definitions only. *)
From Playback Require Import Base.Str.
From Coq Require Import QArith.
Open Scope list_scope.

(** Python values that can occur in metadata and in filters.  Floats are exact rationals
    (every finite float is one; Python compares int/float exactly); [MOpaque] stands for any
    other object (class reference, ...): equal only to itself, unordered, not a string. *)
Inductive mval :=
| MNone
| MBool (b : bool)
| MInt (z : Z)
| MFloat (q : Q)
| MStr (s : str)
| MList (l : list mval)
| MDict (d : list (str * mval))
| MOpaque (tag : N).

Inductive res (A : Type) := Ans (a : A) | RaisesTypeError.
Arguments Ans {A} a.
Arguments RaisesTypeError {A}.

Definition num_of (v : mval) : option Q :=
  match v with
  | MBool b => Some (if b then 1 else 0)%Q
  | MInt z => Some (inject_Z z)
  | MFloat q => Some q
  | _ => None
  end.

Definition Qlt_bool (a b : Q) : bool := negb (Qle_bool b a).

Fixpoint lookup (k : str) (d : list (str * mval)) : option mval :=
  match d with
  | [] => None
  | (k', v) :: d' => if str_eqb k k' then Some v else lookup k d'
  end.

(** Python [==] *)
Fixpoint py_eq (a b : mval) : bool :=
  match num_of a, num_of b with
  | Some x, Some y => Qeq_bool x y
  | _, _ =>
    match a, b with
    | MNone, MNone => true
    | MStr s, MStr t => str_eqb s t
    | MOpaque s, MOpaque t => N.eqb s t
    | MList l1, MList l2 =>
        (fix go (l1 l2 : list mval) : bool :=
           match l1, l2 with
           | [], [] => true
           | x :: l1', y :: l2' => py_eq x y && go l1' l2'
           | _, _ => false
           end) l1 l2
    | MDict d1, MDict d2 =>
        Nat.eqb (length d1) (length d2) &&
        (fix all (d1 : list (str * mval)) : bool :=
           match d1 with
           | [] => true
           | (k, v) :: d1' =>
               (fix find (d2 : list (str * mval)) : bool :=
                  match d2 with
                  | [] => false
                  | (k', v') :: d2' => if str_eqb k k' then py_eq v v' else find d2'
                  end) d2 && all d1'
           end) d1
    | _, _ => false
    end
  end.

(** Python [<] and [<=] ([strict = false]); unordered operands raise TypeError.
    Lists compare lexicographically: the first pair of elements that are not [==] decides. *)
Fixpoint py_cmp (strict : bool) (a b : mval) : res bool :=
  match num_of a, num_of b with
  | Some x, Some y => Ans (if strict then Qlt_bool x y else Qle_bool x y)
  | _, _ =>
    match a, b with
    | MStr s, MStr t => Ans (if strict then str_ltb s t else str_leb s t)
    | MList l1, MList l2 =>
        (fix go (l1 l2 : list mval) : res bool :=
           match l1, l2 with
           | [], [] => Ans (negb strict)
           | [], _ :: _ => Ans true
           | _ :: _, [] => Ans false
           | x :: l1', y :: l2' => if py_eq x y then go l1' l2' else py_cmp strict x y
           end) l1 l2
    | _, _ => RaisesTypeError
    end
  end.

Definition py_lt := py_cmp true.
Definition py_le := py_cmp false.

Definition OPERATOR : str := U"operator".
Definition VALUE : str := U"value".

(** [_apply_operator]: five independent [if]s on the operator text; [recorded OP value] *)
Definition is_op (o : mval) (s : str) : bool := match o with MStr t => str_eqb t s | _ => false end.

Definition apply_operator (r op v : mval) : res bool :=
  if is_op op (U"=") then Ans (py_eq r v)
  else if is_op op (U"<") then py_lt r v
  else if is_op op (U"<=") then py_le r v
  else if is_op op (U">") then py_lt v r
  else if is_op op (U">=") then py_le v r
  else Ans false.

Section Glob.
  (** [fnmatch(recorded, pattern)] on two strings is an oracle *)
  Variable glob : str -> str -> bool.

  (** [fixed = true]: the current code.  [fixed = false]: the code before /repo commit 88e34ec
      (TypeError escapes from the operator filter, and fnmatch is applied to non-strings). *)
  Definition operator_filter (fixed : bool) (r : mval) (d : list (str * mval)) (op v : mval) : res bool :=
    match apply_operator r op v with
    | RaisesTypeError => if fixed then Ans false else RaisesTypeError
    | a => a
    end.

  Fixpoint match_value_gen (fixed : bool) (f r : mval) {struct f} : res bool :=
    match f with
    | MList l =>
        (* any(...) over a generator: first True wins, an exception before it propagates *)
        (fix any (l : list mval) : res bool :=
           match l with
           | [] => Ans false
           | x :: l' => match match_value_gen fixed x r with
                        | Ans true => Ans true
                        | Ans false => any l'
                        | RaisesTypeError => RaisesTypeError
                        end
           end) l
    | _ =>
      match (match f with
             | MDict d => match lookup OPERATOR d, lookup VALUE d with
                          | Some op, Some v => Some (d, op, v)
                          | _, _ => None
                          end
             | _ => None
             end) with
      | Some (d, op, v) => operator_filter fixed r d op v
      | None =>
        match r, f with
        | MNone, MNone => Ans true          (* falls through to recorded == match *)
        | MNone, _ => Ans false
        | _, MStr p => match r with
                       | MStr s => Ans (glob s p)
                       | _ => if fixed then Ans false else RaisesTypeError
                       end
        | _, _ => Ans (py_eq r f)
        end
      end
    end.

  Definition match_value := match_value_gen true.
  Definition legacy_match_value := match_value_gen false.

  (** [match_against_recorded_metadata]: every filter key must match; an absent key reads as None *)
  Definition get_meta (k : str) (meta : list (str * mval)) : mval :=
    match lookup k meta with Some v => v | None => MNone end.

  Fixpoint match_meta_gen (fixed : bool) (filter meta : list (str * mval)) : res bool :=
    match filter with
    | [] => Ans true
    | (k, f) :: filter' =>
        match match_value_gen fixed f (get_meta k meta) with
        | Ans true => match_meta_gen fixed filter' meta
        | Ans false => Ans false
        | RaisesTypeError => RaisesTypeError
        end
    end.
  Definition match_meta := match_meta_gen true.

  (** The documented meaning, as a total boolean function (the specification). *)
  Definition ordered_spec (strict : bool) (a b : mval) : bool :=
    match py_cmp strict a b with Ans x => x | RaisesTypeError => false end.

  Definition op_spec (r op v : mval) : bool :=
    if is_op op (U"=") then py_eq r v
    else if is_op op (U"<") then ordered_spec true r v
    else if is_op op (U"<=") then ordered_spec false r v
    else if is_op op (U">") then ordered_spec true v r
    else if is_op op (U">=") then ordered_spec false v r
    else false.

  Definition is_operator_object (f : mval) : option (mval * mval) :=
    match f with
    | MDict d => match lookup OPERATOR d, lookup VALUE d with
                 | Some op, Some v => Some (op, v)
                 | _, _ => None
                 end
    | _ => None
    end.

  Fixpoint match_spec (f r : mval) {struct f} : bool :=
    match f with
    | MList l => existsb (fun x => match_spec x r) l              (* any alternative matches *)
    | _ =>
      match is_operator_object f with
      | Some (op, v) => op_spec r op v                              (* operator object: comparison *)
      | None =>
        match r with
        | MNone => match f with MNone => true | _ => false end     (* missing: only a None alternative *)
        | MStr s => match f with MStr p => glob s p | _ => py_eq r f end   (* pattern against string values *)
        | _ => match f with MStr _ => false | _ => py_eq r f end   (* plain value: equality *)
        end
      end
    end.

  Definition meta_spec (filter meta : list (str * mval)) : bool :=
    forallb (fun kf => match_spec (snd kf) (get_meta (fst kf) meta)) filter.
End Glob.

(** A concrete glob for the correspondence runs: literals, [?] and [*] (patterns with
    character classes are exercised on the implementation side only). *)
Fixpoint glob_star (pat : str) : str -> bool :=
  match pat with
  | [] => fun s => match s with [] => true | _ => false end
  | p :: pat' =>
      if N.eqb p 42 (* '*' *) then
        fix star (s : str) : bool :=
          glob_star pat' s || match s with [] => false | _ :: s' => star s' end
      else if N.eqb p 63 (* '?' *) then
        fun s => match s with [] => false | _ :: s' => glob_star pat' s' end
      else
        fun s => match s with [] => false | c :: s' => N.eqb c p && glob_star pat' s' end
  end.
Definition glob_simple (s pat : str) : bool := glob_star pat s.
