(** Facts about the bucket model: get/put/delete-by-prefix algebra, key order, prefixes. *)
From Playback Require Import Base.Str Base.StrFacts Values.PyVal Values.SortFacts Cassette.Bucket.
From Coq Require Import Lia.
Open Scope list_scope.

Lemma b_get_put_same k v b : b_get k (b_put k v b) = Some v.
Proof.
  induction b as [|[k' v'] b IH]; cbn; [rewrite str_eqb_refl; reflexivity|].
  destruct (str_eqb k k') eqn:E; cbn; [rewrite str_eqb_refl; reflexivity|].
  destruct (str_ltb k k'); cbn; [rewrite str_eqb_refl; reflexivity|]. rewrite E. exact IH.
Qed.

Lemma b_get_put_other k k' v b : k <> k' -> b_get k' (b_put k v b) = b_get k' b.
Proof.
  intros N. assert (N' : str_eqb k' k = false) by (apply str_eqb_neq; congruence).
  induction b as [|[k2 v2] b IH]; cbn; [rewrite N'; reflexivity|].
  destruct (str_eqb k k2) eqn:E.
  - apply str_eqb_eq in E; subst k2. cbn. rewrite N'. reflexivity.
  - destruct (str_ltb k k2); cbn; [rewrite N'; reflexivity|].
    destruct (str_eqb k' k2); [reflexivity|exact IH].
Qed.

Lemma b_has_put_same k v b : b_has k (b_put k v b) = true.
Proof. unfold b_has. rewrite b_get_put_same. reflexivity. Qed.

Lemma b_has_put_other k k' v b : k <> k' -> b_has k' (b_put k v b) = b_has k' b.
Proof. intros N. unfold b_has. rewrite b_get_put_other by exact N. reflexivity. Qed.

Lemma b_get_In k v b : b_get k b = Some v -> In (k, v) b.
Proof.
  induction b as [|[k' v'] b IH]; cbn; [discriminate|].
  destruct (str_eqb k k') eqn:E.
  - apply str_eqb_eq in E; subst. intros H; inversion H; subst. left; reflexivity.
  - intros H. right. apply IH; exact H.
Qed.

Lemma b_get_None k b : b_get k b = None <-> ~ In k (b_keys b).
Proof.
  induction b as [|[k' v'] b IH]; cbn; [split; [auto|reflexivity]|].
  destruct (str_eqb k k') eqn:E.
  - apply str_eqb_eq in E; subst. split; [discriminate|intros H; exfalso; apply H; left; reflexivity].
  - apply str_eqb_neq in E. rewrite IH. split; [intros H [C|C]; [congruence|auto]|intros H C; apply H; right; exact C].
Qed.

Lemma b_has_In k b : b_has k b = true <-> In k (b_keys b).
Proof.
  unfold b_has. destruct (b_get k b) eqn:E.
  - split; [intros _|reflexivity]. apply b_get_In in E. apply in_map_iff. exists (k, b0). split; [reflexivity|exact E].
  - split; [discriminate|]. intros I. apply b_get_None in E. contradiction.
Qed.

Lemma b_keys_put k v b k' : In k' (b_keys (b_put k v b)) <-> k' = k \/ In k' (b_keys b).
Proof.
  rewrite <- !b_has_In. destruct (list_eq_dec N.eq_dec k k') as [->|N].
  - rewrite b_has_put_same. split; [left; reflexivity|reflexivity].
  - rewrite b_has_put_other by exact N. split; [right; assumption|intros [C|C]; [congruence|exact C]].
Qed.

(** delete by prefix *)
Lemma b_get_drop_prefix p k b :
  b_get k (b_drop_prefix p b) = if prefixb p k then None else b_get k b.
Proof.
  unfold b_drop_prefix.
  induction b as [|[k' v'] b IH]; cbn [filter b_get fst]; [destruct (prefixb p k); reflexivity|].
  destruct (prefixb p k') eqn:P; cbn [negb b_get].
  - rewrite IH. destruct (str_eqb k k') eqn:E; [|reflexivity].
    apply str_eqb_eq in E; subst. rewrite P. reflexivity.
  - rewrite IH. destruct (str_eqb k k') eqn:E; [|reflexivity].
    apply str_eqb_eq in E; subst. rewrite P. reflexivity.
Qed.

Lemma b_list_prefix_keys p b k :
  In k (b_keys (b_list_prefix p b)) <-> In k (b_keys b) /\ prefixb p k = true.
Proof.
  unfold b_keys, b_list_prefix. rewrite !in_map_iff. split.
  - intros [[k' v] [E I]]. cbn in E; subst. apply filter_In in I. destruct I as [I P]. split; [|exact P].
    exists (k, v). split; [reflexivity|exact I].
  - intros [[[k' v] [E I]] P]. cbn in E; subst. exists (k, v). split; [reflexivity|].
    apply filter_In. split; assumption.
Qed.

(** key order: the bucket stays strictly sorted (S3 lists in key order) *)
Lemma b_put_In k v b x : In x (b_put k v b) -> x = (k, v) \/ In x b.
Proof.
  induction b as [|[k' v'] b IH]; cbn; [intros [H|[]]; left; congruence|].
  destruct (str_eqb k k').
  - intros [H|H]; [left; congruence|right; right; exact H].
  - destruct (str_ltb k k'); [intros [H|H]; [left; congruence|right; exact H]|].
    intros [H|H]; [right; left; exact H|]. destruct (IH H) as [E|I]; [left; exact E|right; right; exact I].
Qed.

Lemma b_put_sorted k v (b : bucket) : ssorted b -> ssorted (b_put k v b).
Proof.
  induction 1 as [|[k' v'] b Hall Hs IH]; cbn; [constructor; constructor|].
  destruct (str_eqb k k') eqn:E.
  - apply str_eqb_eq in E; subst. constructor; assumption.
  - destruct (str_ltb k k') eqn:L.
    + constructor; [|constructor; assumption].
      constructor; [exact L|]. rewrite Forall_forall in *. intros x Hx. cbn.
      eapply str_ltb_trans; [exact L|apply (Hall x Hx)].
    + assert (L2 : str_ltb k' k = true).
      { destruct (str_ltb k' k) eqn:L2; [reflexivity|]. exfalso. apply str_eqb_neq in E. apply E.
        apply str_ltb_total; assumption. }
      constructor; [|exact IH].
      rewrite Forall_forall in *. intros x Hx. apply b_put_In in Hx. destruct Hx as [->|Hx]; [exact L2|apply Hall; exact Hx].
Qed.

Lemma filter_sorted {A} (f : str * A -> bool) (b : list (str * A)) : ssorted b -> ssorted (filter f b).
Proof.
  induction 1 as [|kv b Hall Hs IH]; cbn; [constructor|].
  destruct (f kv); [|exact IH]. constructor; [|exact IH].
  rewrite Forall_forall in *. intros x Hx. apply filter_In in Hx. apply Hall. apply Hx.
Qed.

Lemma ssorted_sortedb (b : bucket) : ssorted b -> sortedb (b_keys b) = true.
Proof.
  induction 1 as [|[k v] b Hall Hs IH]; [reflexivity|].
  cbn. destruct b as [|[k' v'] b']; [reflexivity|].
  cbn in *. inversion Hall; subst. cbn in H1. rewrite H1. exact IH.
Qed.

(** prefixes *)
Lemma prefixb_app_l p a b : prefixb (p ++ a) (p ++ b) = prefixb a b.
Proof. induction p as [|x p IH]; cbn; [reflexivity|]. rewrite N.eqb_refl. exact IH. Qed.

Lemma prefixb_trans a b c : prefixb a b = true -> prefixb b c = true -> prefixb a c = true.
Proof.
  rewrite !prefixb_spec. intros [r ->] [r' ->]. exists (r ++ r'). rewrite app_assoc. reflexivity.
Qed.

Lemma prefixb_app_r a b c : prefixb a b = true -> prefixb a (b ++ c) = true.
Proof. rewrite !prefixb_spec. intros [r ->]. exists (r ++ c). rewrite app_assoc. reflexivity. Qed.

(** two prefixes of one text are comparable *)
Lemma app_eq_comparable (a b x y : str) : a ++ x = b ++ y -> prefixb a b = true \/ prefixb b a = true.
Proof.
  revert b; induction a as [|c a IH]; intros b E; [left; reflexivity|].
  destruct b as [|d b]; [right; reflexivity|].
  cbn in E. inversion E; subst. cbn. rewrite N.eqb_refl. cbn. apply IH. assumption.
Qed.

Lemma prefixb_comparable a b k : prefixb a k = true -> prefixb b k = true -> prefixb a b = true \/ prefixb b a = true.
Proof.
  intros A B. apply prefixb_spec in A. apply prefixb_spec in B. destruct A as [r ->]. destruct B as [r' E].
  eapply app_eq_comparable; exact E.
Qed.
