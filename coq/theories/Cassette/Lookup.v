(** Model C (listing part): lookup of recording ids on the three cassettes and the default
    (skip-incomplete) lookup of the studio.  Executable definitions only; facts are in LookupFacts.v.

    Anchors (paths relative to /repo/playback):
      tape_cassettes/in_memory/in_memory_tape_cassette.py:26 (create), :36 (save), :54-75 (iter), :77-84 (category)
      tape_cassettes/file_based/file_based_tape_cassette.py:48 (create), :50-57 (category), :59-67 (save),
        :69-106 (iter), :108-115 (file path), :23-39 (get_recording)
      tape_cassettes/s3/s3_tape_cassette.py:27-30 (key templates), :57 (prefix normalisation), :113-128 (create),
        :168-176 (save: metadata object), :218-245 (per-prefix iterators), :247-260 (content filter),
        :262-283 (id prefixes), :310-347 (round-robin merge), :349-358 (category by parse)
      tape_cassettes/s3/s3_basic_facade.py:55-101 (iter_keys)
      studio/recordings_lookup.py:27-49 (find_matching_recording_ids)
    The shared matcher is Cassette/Matcher.v (C14), the day enumeration Cassette/Window.v (C16).

    A saved recording is described by what listing can observe of it: category, the uuid text drawn at
    creation, the day (index) at creation, the last-modified instant of its latest save, its metadata.
    Ids are *computed* the way create_new_recording formats them; every listing then has to recover the
    category (and the id) from the id text / file name / bucket key the way the code does. *)
From Playback Require Import Base.Str Cassette.Matcher Cassette.Window.
From Coq Require Import Permutation.
Open Scope nat_scope.
Open Scope list_scope.

Definition meta := list (str * mval).

Record rec := Rec {
  r_cat : str;          (* category given to create_new_recording *)
  r_uuid : str;         (* uuid.uuid1().hex drawn at creation (external: any text) *)
  r_day : Z;            (* S3 only: calendar day (index) of creation, datetime.today() *)
  r_mtime : Z;          (* S3 only: last-modified instant of the metadata object (latest save) *)
  r_meta : meta         (* recording_metadata at the (latest) save *)
}.

Inductive exn := TypeError | NoSuchRecording | AssertionError | IndexError | KeyError | AttributeError.
Inductive lres (A : Type) := Listed (a : A) | LRaises (e : exn) | OutOfFuel.
Arguments Listed {A} a.
Arguments LRaises {A} e.
Arguments OutOfFuel {A}.

Definition SLASH : N := 47.
Definition USCORE : N := 95.
Definition DOT : N := 46.

(** [s.split(c)[0]] *)
Definition before_first (c : N) (s : str) : str := fst (split_first c s).

(** in-memory / file: [u'{}/{}'.format(category, uuid.uuid1().hex)] (in_memory:32, file_based:48) *)
Definition mem_id (r : rec) : str := r_cat r ++ SLASH :: r_uuid r.
(** in-memory / file: [recording_id.split('/')[0]] (in_memory:84, file_based:57) *)
Definition category_of (id : str) : str := before_first SLASH id.

(** a keyed store: saving an id that is already present replaces the stored recording in place
    (OrderedDict assignment in_memory:43; file overwritten file_based:66; put_object s3:176),
    otherwise it is added *)
Fixpoint upsert (key : rec -> str) (r : rec) (s : list rec) : list rec :=
  match s with
  | [] => [r]
  | x :: s' => if str_eqb (key x) (key r) then r :: s' else x :: upsert key r s'
  end.
(** the store reached by a history of saves (oldest first) *)
Definition store_of (key : rec -> str) (h : list rec) : list rec :=
  fold_left (fun s r => upsert key r s) h [].

(** [if limit: result = result[:limit]]  (in_memory:69, file_based:103): None and 0 mean "no limit" *)
Definition apply_limit {A} (limit : option nat) (l : list A) : list A :=
  match limit with
  | Some (S n) => firstn (S n) l
  | _ => l
  end.

(** file-based: [os.path.join(directory, recording_id.replace('/', '_')) + '.json'] (file_based:115) *)
Definition file_name_of_id (id : str) : str := replace_char SLASH USCORE id ++ U".json".
Definition file_name (r : rec) : str := file_name_of_id (mem_id r).

(** S3: [self.key_prefix = (key_prefix + '/') if key_prefix else ''] (s3:57) and
    [METADATA_KEY = 'tape_recorder_recordings/{key_prefix}metadata/{id}'] with id = '' (s3:28, :342) *)
Definition norm_prefix (kp : str) : str := match kp with [] => [] | _ => kp ++ [SLASH] end.
Definition s3_root (kp : str) : str := U"tape_recorder_recordings/" ++ norm_prefix kp ++ U"metadata/".

(** membership of the current count in the limit: [count == limit] (facade:95), [count != limit] (s3:334) *)
Definition limit_reached (limit : option nat) (count : nat) : bool :=
  match limit with Some l => Nat.eqb count l | None => false end.

Fixpoint remove_nth {A} (n : nat) (l : list A) : list A :=
  match l with
  | [] => []
  | x :: l' => match n with 0 => l' | S n' => x :: remove_nth n' l' end
  end.
Fixpoint set_nth {A} (n : nat) (y : A) (l : list A) : list A :=
  match l with
  | [] => []
  | x :: l' => match n with 0 => y :: l' | S n' => x :: set_nth n' y l' end
  end.

(** The merge loop of S3TapeCassette.iter_recording_ids (s3:332-347).  Every day iterator is the list
    of keys it still has to yield.  [sched step] is the raw choice made in iteration [step]:
    ordered listing uses [iter_index] (= step, incremented in every iteration, s3:338-339), random
    listing [random.choice] (any function); the index is taken modulo the current number of
    iterators.  An exhausted iterator - or one that yields an empty (falsy) key, [if key:] s3:341 - is
    removed from the list (s3:347).  Fuel exhaustion is reported, never silent. *)
Fixpoint rr (fuel : nat) (sched : nat -> nat) (limit : option nat) (iters : list (list str))
         (step count : nat) : lres (list str) :=
  match fuel with
  | 0 => OutOfFuel
  | S fuel' =>
      if limit_reached limit count then Listed []
      else match iters with
           | [] => Listed []
           | _ :: _ =>
               let i := Nat.modulo (sched step) (length iters) in
               match nth_error iters i with
               | None => LRaises IndexError
               | Some [] => rr fuel' sched limit (remove_nth i iters) (S step) count
               | Some ([] :: _) => rr fuel' sched limit (remove_nth i iters) (S step) count
               | Some (k :: rest) =>
                   match rr fuel' sched limit (set_nth i rest iters) (S step) (S count) with
                   | Listed l => Listed (k :: l)
                   | e => e
                   end
               end
           end
  end.

(** fuel that always suffices (LookupFacts.rr_total): every iteration consumes a key or drops an iterator *)
Definition rr_fuel (iters : list (list str)) : nat := S (length (concat iters) + length iters).

(** insertion sort by key text = the bucket's key-ordered listing *)
Fixpoint insert_by (key : rec -> str) (r : rec) (l : list rec) : list rec :=
  match l with
  | [] => [r]
  | x :: l' => if str_ltb (key x) (key r) then x :: insert_by key r l' else r :: x :: l'
  end.
Fixpoint sort_by (key : rec -> str) (l : list rec) : list rec :=
  match l with [] => [] | x :: l' => insert_by key x (sort_by key l') end.

(** S3TapeCassette.extract_recording_category (s3:349-358): parse('{category}/{day}/{id}') - every
    field is a non-empty, non-greedy match, so the category ends at the first '/' found at position >= 1
    and the day at the first '/' at position >= 1 of the rest, with something left for the id. *)
Definition split_field (s : str) : option (str * str) :=
  match s with
  | [] => None
  | x :: s' => match split_first SLASH s' with
               | (a, Some b) => Some (x :: a, b)
               | (_, None) => None
               end
  end.
Definition s3_category_of (id : str) : lres str :=
  match split_field id with
  | Some (c, rest) => match split_field rest with
                      | Some (_, _ :: _) => Listed c
                      | _ => LRaises AssertionError
                      end
  | None => LRaises AssertionError
  end.

Definition INCOMPLETE : str := U"_tape_recorder_incomplete_recording".

(** dict item assignment [metadata[k] = v]: replace in place or append *)
Fixpoint set_key (k : str) (v : mval) (f : meta) : meta :=
  match f with
  | [] => [(k, v)]
  | (k', v') :: f' => if str_eqb k' k then (k, v) :: f' else (k', v') :: set_key k v f'
  end.
Fixpoint remove_key (k : str) (f : meta) : meta :=
  match f with
  | [] => []
  | (k', v') :: f' => if str_eqb k' k then remove_key k f' else (k', v') :: remove_key k f'
  end.

(** find_matching_recording_ids (recordings_lookup.py:38-42): [metadata = metadata or {}];
    [metadata[INCOMPLETE_RECORDING] = [False, None]] *)
Definition SKIP_FILTER : mval := MList [MBool false; MNone].
Definition lookup_filter (skip_incomplete : bool) (f : meta) : meta :=
  if skip_incomplete then set_key INCOMPLETE SKIP_FILTER f else f.

Section Model.
  Variable glob : str -> str -> bool.          (* fnmatch oracle (C14) *)

  (** [if metadata: if not match_against_recorded_metadata(metadata, ...): continue]
      (in_memory:63-66, file_based:97-100); for S3 [content_filter = ... if metadata else None] (s3:304) *)
  Definition passes (f : meta) (m : meta) : res bool :=
    match f with [] => Ans true | _ :: _ => match_meta glob f m end.

  (** ------------------------------------------------------------------ in-memory (in_memory:54-75) *)
  Fixpoint mem_scan (c : str) (f : meta) (s : list rec) : lres (list str) :=
    match s with
    | [] => Listed []
    | r :: s' =>
        if negb (str_eqb (category_of (mem_id r)) c) then mem_scan c f s'
        else match passes f (r_meta r) with
             | RaisesTypeError => LRaises TypeError
             | Ans false => mem_scan c f s'
             | Ans true => match mem_scan c f s' with
                           | Listed l => Listed (mem_id r :: l)
                           | e => e
                           end
             end
    end.

  (** [shuf] is random.shuffle (an arbitrary rearrangement) *)
  Definition mem_iter (shuf : list str -> list str) (s : list rec) (c : str) (f : meta)
             (limit : option nat) (random : bool) : lres (list str) :=
    match mem_scan c f s with
    | Listed l => let l' := apply_limit limit l in Listed (if random then shuf l' else l')
    | e => e
    end.

  (** ------------------------------------------------------------------ file-based (file_based:69-106) *)
  (** the directory is the list of stored recordings, one file each, named [file_name r];
      get_recording(id) reads the file [file_name_of_id id] (file_based:23-39) *)
  Definition file_get (dir : list rec) (id : str) : option rec :=
    find (fun x => str_eqb (file_name x) (file_name_of_id id)) dir.

  (** [listing] is os.listdir(directory): the same files in an arbitrary order *)
  Fixpoint file_scan (dir : list rec) (c : str) (f : meta) (listing : list rec) : lres (list str) :=
    match listing with
    | [] => Listed []
    | e :: l' =>
        let fname := file_name e in
        if negb (prefixb c fname) then file_scan dir c f l'                   (* startswith(category) *)
        else match file_get dir (before_first DOT fname) with                 (* file_name.split('.')[0] *)
             | None => LRaises NoSuchRecording
             | Some r =>
                 if negb (str_eqb (category_of (mem_id r)) c) then file_scan dir c f l'
                 else match passes f (r_meta r) with
                      | RaisesTypeError => LRaises TypeError
                      | Ans false => file_scan dir c f l'
                      | Ans true => match file_scan dir c f l' with
                                    | Listed l => Listed (mem_id r :: l)
                                    | e => e
                                    end
                      end
             end
    end.

  (** random_results is ignored by the file cassette *)
  Definition file_iter (dir listing : list rec) (c : str) (f : meta) (limit : option nat) : lres (list str) :=
    match file_scan dir c f listing with
    | Listed l => Listed (apply_limit limit l)
    | e => e
    end.

  (** The file cassette before /repo commits de4e2f4 ([exact = false]: no check of the category stored in
      the file, only the file-name prefix test) and 9fc7a09 ([shared = false]: the filter was
      [all(metadata[key] == recording.get_metadata()[key] for key in metadata.keys())], a per-key ==
      that raises KeyError for a key the recording lacks).  Kept for the refuted witnesses only. *)
  Fixpoint legacy_all_equal (f : meta) (m : meta) : lres bool :=
    match f with
    | [] => Listed true
    | (k, v) :: f' => match lookup k m with
                      | None => LRaises KeyError
                      | Some x => if py_eq v x then legacy_all_equal f' m else Listed false
                      end
    end.
  Definition legacy_passes (shared : bool) (f m : meta) : lres bool :=
    if shared then match passes f m with Ans b => Listed b | RaisesTypeError => LRaises TypeError end
    else match f with [] => Listed true | _ :: _ => legacy_all_equal f m end.
  Fixpoint legacy_file_scan (exact shared : bool) (dir : list rec) (c : str) (f : meta) (listing : list rec)
    : lres (list str) :=
    match listing with
    | [] => Listed []
    | e :: l' =>
        let fname := file_name e in
        if negb (prefixb c fname) then legacy_file_scan exact shared dir c f l'
        else match file_get dir (before_first DOT fname) with
             | None => LRaises NoSuchRecording
             | Some r =>
                 if exact && negb (str_eqb (category_of (mem_id r)) c) then legacy_file_scan exact shared dir c f l'
                 else match legacy_passes shared f (r_meta r) with
                      | Listed false => legacy_file_scan exact shared dir c f l'
                      | Listed true => match legacy_file_scan exact shared dir c f l' with
                                       | Listed l => Listed (mem_id r :: l)
                                       | e => e
                                       end
                      | LRaises e => LRaises e
                      | OutOfFuel => OutOfFuel
                      end
             end
    end.

  (** ------------------------------------------------------------------ S3 *)
  Variable fmt : Z -> str.                      (* strftime('%Y%m%d') of a day index (external) *)
  Variable enc : meta -> meta.                  (* json.loads(jsonpickle.encode(metadata)): what the content filter sees *)

  (** [RECORDING_ID = '{category}/{day}/{id}'] (s3:29, :122-126) *)
  Definition s3_id (r : rec) : str := r_cat r ++ SLASH :: fmt (r_day r) ++ SLASH :: r_uuid r.
  Definition s3_key (kp : str) (r : rec) : str := s3_root kp ++ s3_id r.

  (** last-modified predicate (facade:76-81): present iff a start or an end date is given *)
  Definition date_pred (so eo : option Z) (r : rec) : bool :=
    match so, eo with
    | None, None => true
    | _, _ => match so with Some s => Z.leb s (r_mtime r) | None => true end &&
              match eo with Some e => Z.leb (r_mtime r) e | None => true end
    end.

  (** [reduce(lambda carry, current: carry and current(o), predicates, True)] (facade:98) *)
  Definition s3_pred (so eo : option Z) (f : meta) (r : rec) : res bool :=
    if date_pred so eo r then passes f (enc (r_meta r)) else Ans false.

  (** the loop of iter_keys (facade:93-101) over the (ordered or shuffled) objects under a prefix *)
  Fixpoint take_matching (kp : str) (limit : option nat) (pred : rec -> res bool) (count : nat)
           (objs : list rec) : lres (list str) :=
    match objs with
    | [] => Listed []
    | o :: objs' =>
        if limit_reached limit count then Listed []
        else match pred o with
             | RaisesTypeError => LRaises TypeError
             | Ans false => take_matching kp limit pred count objs'
             | Ans true => match take_matching kp limit pred (S count) objs' with
                           | Listed l => Listed (s3_key kp o :: l)
                           | e => e
                           end
             end
    end.

  (** [self._bucket.objects.filter(Prefix=prefix)]: key-ordered listing of the keys with that prefix;
      [shuf] is random.shuffle of that listing when random_results (facade:86-91) *)
  Definition list_prefix (kp : str) (bucket : list rec) (prefix : str) : list rec :=
    sort_by (s3_key kp) (filter (fun r => prefixb prefix (s3_key kp r)) bucket).

  Definition iter_keys (shuf : list rec -> list rec) (kp : str) (bucket : list rec) (prefix : str)
             (so eo : option Z) (f : meta) (limit : option nat) (random : bool) : lres (list str) :=
    let objs := list_prefix kp bucket prefix in
    take_matching kp limit (s3_pred so eo f) 0 (if random then shuf objs else objs).

  (** _get_id_prefixes (s3:262-283): one folder per enumerated day when a start date is given *)
  Definition id_prefixes (c : str) (so eo : option Z) (now : Z) : list str :=
    match so with
    | Some s => map (fun d => c ++ SLASH :: fmt d ++ [SLASH]) (days_enumerated s (resolve_end eo now))
    | None => [c ++ [SLASH]]
    end.

  (** create_id_prefix_iterators (s3:237-245): one iter_keys per prefix, each with its own limit.
      The generators are lazy in Python; here they are evaluated up front, which only changes which
      bucket reads happen, not what is yielded (a raising predicate aborts the listing either way). *)
  Fixpoint all_listed (l : list (lres (list str))) : lres (list (list str)) :=
    match l with
    | [] => Listed []
    | Listed x :: l' => match all_listed l' with Listed xs => Listed (x :: xs) | e => e end
    | LRaises e :: _ => LRaises e
    | OutOfFuel :: _ => OutOfFuel
    end.

  Definition day_iterators (shuf : list rec -> list rec) (kp : str) (bucket : list rec) (c : str)
             (so eo : option Z) (now : Z) (f : meta) (limit : option nat) (random : bool)
    : lres (list (list str)) :=
    all_listed (map (fun p => iter_keys shuf kp bucket (s3_root kp ++ p) so eo f limit random)
                    (id_prefixes c so eo now)).

  (** iter_recording_ids (s3:310-347); the id is the key without the known root (s3:342) *)
  Definition s3_iter_fuel (fuel : option nat) (shuf : list rec -> list rec) (sched : nat -> nat) (kp : str)
             (bucket : list rec) (c : str) (so eo : option Z) (now : Z) (f : meta) (limit : option nat)
             (random : bool) : lres (list str) :=
    match day_iterators shuf kp bucket c so eo now f limit random with
    | Listed iters =>
        match rr (match fuel with Some n => n | None => rr_fuel iters end)
                 (if random then sched else (fun n => n)) limit iters 0 0 with
        | Listed keys => Listed (map (skipn (length (s3_root kp))) keys)
        | e => e
        end
    | LRaises e => LRaises e
    | OutOfFuel => OutOfFuel
    end.
  Definition s3_iter := s3_iter_fuel None.

  (** S3 before /repo commit 91a8799: the id was parsed back from the key with
      parse('tape_recorder_recordings/{key_prefix}metadata/{id}') - both fields non-empty and non-greedy, so
      the key prefix ends at the first "metadata/" found at offset >= 1 of what follows the root folder.
      With the default empty key prefix nothing matches: [result] is None and [result.named] raises
      AttributeError; a key prefix that contains "metadata/" after its first character is cut short. *)
  Fixpoint find_after (pat s : str) : option str :=
    if prefixb pat s then Some (skipn (length pat) s)
    else match s with [] => None | _ :: s' => find_after pat s' end.
  Definition legacy_key_id (key : str) : lres str :=
    let top := U"tape_recorder_recordings/" in
    if prefixb top key then
      match skipn (length top) key with
      | [] => LRaises AttributeError
      | _ :: t => match find_after (U"metadata/") t with
                  | Some (x :: id) => Listed (x :: id)
                  | _ => LRaises AttributeError
                  end
      end
    else LRaises AttributeError.
  Fixpoint legacy_ids (keys : list str) : lres (list str) :=
    match keys with
    | [] => Listed []
    | k :: keys' => match legacy_key_id k with
                    | Listed id => match legacy_ids keys' with Listed l => Listed (id :: l) | e => e end
                    | LRaises e => LRaises e
                    | OutOfFuel => OutOfFuel
                    end
    end.
  Definition legacy_s3_iter (shuf : list rec -> list rec) (sched : nat -> nat) (kp : str)
             (bucket : list rec) (c : str) (so eo : option Z) (now : Z) (f : meta) (limit : option nat)
             (random : bool) : lres (list str) :=
    match day_iterators shuf kp bucket c so eo now f limit random with
    | Listed iters =>
        match rr (rr_fuel iters) (if random then sched else (fun n => n)) limit iters 0 0 with
        | Listed keys => legacy_ids keys
        | e => e
        end
    | LRaises e => LRaises e
    | OutOfFuel => OutOfFuel
    end.

  (** ------------------------------------------------------------------ the default lookup *)
  Definition find_mem shuf s c (f : meta) limit random skip :=
    mem_iter shuf s c (lookup_filter skip f) limit random.
  Definition find_file dir listing c (f : meta) limit skip :=
    file_iter dir listing c (lookup_filter skip f) limit.
  Definition find_s3 shuf sched kp bucket c so eo now (f : meta) limit random skip :=
    s3_iter shuf sched kp bucket c so eo now (lookup_filter skip f) limit random.

  (** ------------------------------------------------------------------ specification *)
  (** the recordings of category [c] whose metadata (as seen through [view]) satisfies the filter *)
  Definition wanted (view : meta -> meta) (c : str) (f : meta) (r : rec) : bool :=
    str_eqb (r_cat r) c && meta_spec glob f (view (r_meta r)).
  Definition spec_recs (view : meta -> meta) (s : list rec) (c : str) (f : meta) : list rec :=
    filter (wanted view c f) s.
  Definition lookup_spec (idf : rec -> str) (view : meta -> meta) (s : list rec) (c : str) (f : meta) : list str :=
    map idf (spec_recs view s c f).

  (** S3 with a time window: day folder enumerated and last-modified predicate (C16 relates this to
      start <= t <= end when the recording is created and saved at the same instant) *)
  Definition in_window (so eo : option Z) (now : Z) (r : rec) : bool :=
    match so with
    | Some s => existsb (Z.eqb (r_day r)) (days_enumerated s (resolve_end eo now))
    | None => true
    end && date_pred so eo r.
  Definition spec_recs_s3 (s : list rec) (c : str) (so eo : option Z) (now : Z) (f : meta) : list rec :=
    filter (fun r => wanted enc c f r && in_window so eo now r) s.

End Model.

(** how many ids a lookup with this limit must return *)
Definition expected_count (limit : option nat) (matches : nat) : nat :=
  match limit with Some l => Nat.min l matches | None => matches end.

(** what C10 asks of a listing [out] against the specification set [spec]: no duplicates, nothing
    outside the specification, min(limit, matches) elements, all of them without a limit *)
Definition exact_listing (out spec : list str) (limit : option nat) : Prop :=
  NoDup out /\ incl out spec /\ length out = expected_count limit (length spec) /\
  (limit = None -> Permutation out spec).

(** metadata as the in-memory / file cassette matches it (decoded: unchanged) *)
Definition same (m : meta) : meta := m.

(** domain of the file cassette: the category has no '/' and no '.', the uuid text no '.' *)
Definition wf_file (r : rec) : Prop := ~ In SLASH (r_cat r) /\ ~ In DOT (r_cat r) /\ ~ In DOT (r_uuid r).
(** domain on which the three cassettes store the same recordings: additionally the uuid text has no
    '/' and no '_' (it is hex), so that distinct ids get distinct file names *)
Definition wf_all (r : rec) : Prop :=
  wf_file r /\ ~ In SLASH (r_uuid r) /\ ~ In USCORE (r_uuid r).
(** saving a recording again keeps its id: same category and uuid => same creation day *)
Definition resave_consistent (h : list rec) : Prop :=
  forall x y, In x h -> In y h -> r_cat x = r_cat y -> r_uuid x = r_uuid y -> r_day x = r_day y.

(** limit is None or >= 1 (limit = 0: "no limit" on the in-memory / file cassette, "nothing" on S3) *)
Definition limit_ok (limit : option nat) : Prop := limit <> Some 0.

(** the incomplete flag of a recording's metadata is True *)
Definition flag_true (m : meta) : bool :=
  match get_meta INCOMPLETE m with MBool true => true | _ => false end.
(** the flag is one of the values the recorder writes (True / False), None, or absent *)
Definition flag_domain (m : meta) : Prop :=
  get_meta INCOMPLETE m = MBool true \/ get_meta INCOMPLETE m = MBool false \/ get_meta INCOMPLETE m = MNone.
