(** C16: day-folder arithmetic of S3TapeCassette._get_id_prefixes (s3_tape_cassette.py:262-284)
    and the last-modified predicate of S3BasicFacade.iter_keys (s3_basic_facade.py:78-83).
    Instants are integers (microseconds since an arbitrary midnight, UTC). *)
From Playback Require Import Base.Str.
Open Scope Z_scope.

Definition D : Z := 86400000000.            (* microseconds per day *)
Definition day (t : Z) : Z := t / D.          (* index of the calendar day holding instant t *)

(** number of day folders enumerated.  Current code:
    [range((end_date.date() - start_date.date()).days + 1)] *)
Definition n_days (s e : Z) : Z := day e - day s + 1.
(** code before commit 19dd904: [range((end_date - start_date).days + 1)]
    (timedelta.days is the floor of the difference in days) *)
Definition legacy_n_days (s e : Z) : Z := (e - s) / D + 1.

(** the day folders: [start_date + timedelta(days=i)] lies in day [day s + i] *)
Definition days_of (n : Z) (s : Z) : list Z :=
  map (fun i => day (s + Z.of_nat i * D)) (seq 0 (Z.to_nat n)).
Definition days_enumerated (s e : Z) : list Z := days_of (n_days s e) s.
Definition legacy_days_enumerated (s e : Z) : list Z := days_of (legacy_n_days s e) s.

(** A recording created and saved at instant t lives in folder [day t] with last-modified t.
    It is listed iff its folder is enumerated and its last-modified instant passes the predicate. *)
Definition listed_with (days : list Z) (s e t : Z) : bool :=
  existsb (Z.eqb (day t)) days && (s <=? t) && (t <=? e).
Definition listed (s e t : Z) : bool := listed_with (days_enumerated s e) s e t.
Definition legacy_listed (s e t : Z) : bool := listed_with (legacy_days_enumerated s e) s e t.

(** end defaults to "now" for the folder enumeration only (s3_tape_cassette.py:274); the
    last-modified predicate gets the caller's end, i.e. no upper bound when it is None
    (s3_basic_facade.py:78-83). *)
Definition resolve_end (e : option Z) (now : Z) : Z := match e with Some x => x | None => now end.
Definition listed_opt (s : Z) (eo : option Z) (now t : Z) : bool :=
  existsb (Z.eqb (day t)) (days_enumerated s (resolve_end eo now)) && (s <=? t) &&
  match eo with Some e => t <=? e | None => true end.

(** A lookup that also gives a metadata filter (s3_tape_cassette.py:285-304 builds the content
    filter; s3_basic_facade.py:74-101: the facade collects the predicates [window predicate when a
    date is given; content predicate when a filter is given] and yields an object iff every one of
    them accepts it).  An object is abstracted to (last-modified instant, does its stored metadata
    satisfy the caller's filter). *)
Definition obj : Type := (Z * bool)%type.
Definition window_pred (s : Z) (eo : option Z) : obj -> bool :=
  fun o => (s <=? fst o) && match eo with Some e => fst o <=? e | None => true end.
Definition content_pred : obj -> bool := fun o => snd o.
Definition predicates (s : Z) (eo : option Z) (filtered : bool) : list (obj -> bool) :=
  window_pred s eo :: (if filtered then [content_pred] else []).
(** [reduce(lambda carry, current: carry and current(s3_object), predicates, True)] *)
Definition relevant (preds : list (obj -> bool)) (o : obj) : bool :=
  fold_left (fun carry p => carry && p o) preds true.
(** listed iff the recording's day folder is enumerated and the facade finds the object relevant;
    [m] = the stored metadata satisfies the filter (irrelevant when no filter is given) *)
Definition listed_matching (s : Z) (eo : option Z) (now : Z) (filtered : bool) (t : Z) (m : bool) : bool :=
  existsb (Z.eqb (day t)) (days_enumerated s (resolve_end eo now)) &&
  relevant (predicates s eo filtered) (t, m).
