(** Model C, part 3: the storage side of the in-memory and the file-based cassette
    (playback/tape_cassettes/in_memory/in_memory_tape_cassette.py = "mem.py",
     playback/tape_cassettes/file_based/file_based_tape_cassette.py = "file.py").
    Both store [encode(recording, unpicklable=True)] of the whole MemoryRecording object and
    rebuild a MemoryRecording from the decoded object's id / recording_data / recording_metadata.
    Definitions only. *)
From Playback Require Import Base.Str Values.PyVal Values.Codec Cassette.Bucket Cassette.S3Store.
Open Scope list_scope.

Definition MEMREC : str := U"playback.recordings.memory.memory_recording.MemoryRecording".

(** the MemoryRecording instance as a value: its __dict__ in the order __init__ fills it
    (recording.py:13-14, memory_recording.py:18-19) *)
Definition rec_obj (r : recording) : pyval :=
  VObj MEMREC [(U"id", VStr (r_id r)); (U"_closed", VBool (r_closed r));
               (U"recording_data", VDict (r_data r)); (U"recording_metadata", VDict (r_meta r))].

(** create_new_recording of both cassettes: u'{}/{}'.format(category, uuid1().hex)   mem.py:28, file.py:48 *)
Definition plain_create (category uuid : str) : str := category ++ U"/" ++ uuid.

Section Stores.
  Variable qp : list N -> str.
  Variable qp_dec : str -> list N.
  Variable loads : str -> option json.

  Notation enc := (enc qp).
  Notation dec := (dec qp_dec loads).

  (** MemoryRecording(_id=d.id, recording_data=d.recording_data, recording_metadata=d.recording_metadata)
      from the decoded object   mem.py:51-53, file.py:37-39 *)
  Definition rebuild (text : str) : res fetched :=
    match dec text with
    | None => Raises DecodeError
    | Some (VObj _ attrs) =>
        match assoc (U"id") attrs, assoc (U"recording_data") attrs, assoc (U"recording_metadata") attrs with
        | Some i, Some d, Some m => Ans (Fetched i (or_empty_dict d) (or_empty_dict m))
        | _, _, _ => Raises ShapeError
        end
    | Some _ => Raises ShapeError
    end.

  (** ---- in-memory: OrderedDict id -> text   mem.py:18 ---- *)
  Definition mem_store := list (str * str).

  (** mem.py:37  self._recordings[recording.id] = encode(recording, unpicklable=True) *)
  Definition mem_save (r : recording) (s : mem_store) : mem_store * res unit :=
    match enc (rec_obj r) with
    | None => (s, Raises EncodeError)
    | Some t => (dict_set (r_id r) t s, Ans tt)
    end.

  (** mem.py:48-53 *)
  Definition mem_get (id : str) (s : mem_store) : res fetched :=
    match assoc id s with
    | None => Raises NoSuchRecording
    | Some t => rebuild t
    end.

  (** ---- file based: directory = list of (file name, content)   file.py:18-21 ---- *)
  Definition directory := list (str * str).

  (** file.py:118  os.path.join(directory, recording_id.replace('/', '_')) + '.json' *)
  Definition fpath (id : str) : str := replace_char 47 95 id ++ U".json".

  (** file.py:65-67: encode first, then open(path, 'w') and write *)
  Definition file_save (r : recording) (d : directory) : directory * res unit :=
    match enc (rec_obj r) with
    | None => (d, Raises EncodeError)
    | Some t => (dict_set (fpath (r_id r)) t d, Ans tt)
    end.

  (** file.py:31-39 *)
  Definition file_get (id : str) (d : directory) : res fetched :=
    match assoc (fpath id) d with
    | None => Raises NoSuchRecording
    | Some t => rebuild t
    end.

  (** tape_cassette.py:39  get_recording(id).get_metadata() — both cassettes inherit it *)
  Definition meta_of (x : res fetched) : res pyval :=
    match x with Ans f => Ans (f_meta f) | Raises e => Raises e end.
  Definition mem_get_meta (id : str) (s : mem_store) : res pyval := meta_of (mem_get id s).
  Definition file_get_meta (id : str) (d : directory) : res pyval := meta_of (file_get id d).

  Fixpoint mem_saves (rs : list recording) (s : mem_store) : mem_store :=
    match rs with [] => s | r :: rs' => mem_saves rs' (fst (mem_save r s)) end.
  Fixpoint file_saves (rs : list recording) (d : directory) : directory :=
    match rs with [] => d | r :: rs' => file_saves rs' (fst (file_save r d)) end.
End Stores.

(** a sequence of saves through one S3 cassette *)
Section S3Saves.
  Variable qp : list N -> str.
  Variable compress : bytes -> bytes.
  Fixpoint s3_saves (c : cfg) (rs : list (recording * sampling)) (st : bstate) : bstate :=
    match rs with [] => st | (r, s) :: rs' => s3_saves c rs' (fst (s3_save qp compress c r s st)) end.
End S3Saves.

(** what a faithful fetch of [r] shows *)
Definition fetched_of (r : recording) : fetched :=
  Fetched (VStr (r_id r)) (canon (VDict (r_data r))) (canon (VDict (r_meta r))).
