From Playback Require Import Base.Str Cassette.Window.
From Coq Require Import Lia FinFun.
Open Scope Z_scope.

Lemma day_shift s i : day (s + i * D) = day s + i.
Proof. unfold day, D. rewrite Z.div_add by lia. reflexivity. Qed.

Lemma in_days_of n s d : In d (days_of n s) <-> day s <= d < day s + n.
Proof.
  unfold days_of. rewrite in_map_iff. split.
  - intros [i [E I]]. apply in_seq in I. rewrite day_shift in E. lia.
  - intros H. exists (Z.to_nat (d - day s)). split.
    + rewrite day_shift. lia.
    + apply in_seq. lia.
Qed.

Lemma day_mono a b : a <= b -> day a <= day b.
Proof. unfold day, D. intros. apply Z.div_le_mono; lia. Qed.

Lemma days_cover s e t : s <= t <= e -> In (day t) (days_enumerated s e).
Proof.
  intros [H1 H2]. unfold days_enumerated. apply in_days_of. unfold n_days.
  pose proof (day_mono _ _ H1). pose proof (day_mono _ _ H2). lia.
Qed.

Lemma existsb_eqb d l : existsb (Z.eqb d) l = true <-> In d l.
Proof.
  rewrite existsb_exists. split.
  - intros [x [I E]]. apply Z.eqb_eq in E. subst; exact I.
  - intros I. exists d. split; [exact I|apply Z.eqb_refl].
Qed.

Lemma window_exact s e t : listed s e t = true <-> s <= t <= e.
Proof.
  unfold listed, listed_with. rewrite !andb_true_iff, existsb_eqb, !Z.leb_le. split.
  - intros [[_ A] B]. lia.
  - intros H. split; [split|]; try lia. apply days_cover; exact H.
Qed.

(** nothing outside the window is ever listed, whatever folders are enumerated *)
Lemma none_outside days s e t : listed_with days s e t = true -> s <= t <= e.
Proof. unfold listed_with. rewrite !andb_true_iff, !Z.leb_le. lia. Qed.

(** end defaulting to now *)
(** end defaulting to now: a recording that exists at lookup time was saved at t <= now *)
Lemma window_exact_default s eo now t : t <= now ->
  (listed_opt s eo now t = true <-> s <= t <= resolve_end eo now).
Proof.
  intros Hn. destruct eo as [e|]; [apply window_exact|].
  unfold listed_opt, resolve_end. rewrite !andb_true_iff, existsb_eqb, !Z.leb_le. split.
  - intros [[_ A] _]. lia.
  - intros H. split; [split|]; try lia; auto. apply days_cover; exact H.
Qed.

(** window and metadata filter together: exactly the matching recordings inside the window *)
Lemma listed_matching_opt s eo now filtered t m :
  listed_matching s eo now filtered t m = listed_opt s eo now t && (negb filtered || m).
Proof.
  unfold listed_matching, listed_opt, relevant, predicates, window_pred, content_pred.
  destruct filtered; simpl; destruct (existsb _ _), (s <=? t), eo as [e|]; simpl;
    try destruct (t <=? e); destruct m; reflexivity.
Qed.

Lemma window_exact_matching s eo now filtered t m : t <= now ->
  (listed_matching s eo now filtered t m = true <->
   s <= t <= resolve_end eo now /\ (filtered = true -> m = true)).
Proof.
  intros Hn. rewrite listed_matching_opt, andb_true_iff, (window_exact_default s eo now t Hn).
  destruct filtered, m; simpl; intuition congruence.
Qed.

(** the enumeration has no duplicate folder (so no recording is listed twice through two folders) *)
Lemma days_nodup n s : NoDup (days_of n s).
Proof.
  unfold days_of. apply FinFun.Injective_map_NoDup; [|apply seq_NoDup].
  intros i j E. rewrite !day_shift in E. lia.
Qed.

(** the code before the repair: a window 23:00 -> 01:00 (next day) misses 00:30 *)
Definition h : Z := 3600000000.
Lemma legacy_last_day_skipped :
  exists s e t, s <= t <= e /\ legacy_listed s e t = false.
Proof. exists (23 * h), (25 * h), (24 * h + 1800000000). split; [unfold h; lia|vm_compute; reflexivity]. Qed.

(** non-vacuity: a window crossing two midnights with a recording on the last day *)
Example window_example : listed (23 * h) (49 * h) (48 * h + 1) = true /\ 23 * h <= 48 * h + 1 <= 49 * h.
Proof. split; [vm_compute; reflexivity|unfold h; lia]. Qed.
