(** Proofs about the S3 storage model: read-only cassettes never mutate, writes are confined to
    the cassette's recording keys, close of a transient cassette is exact, and the
    discoverable-implies-fetchable invariant holds after every single bucket mutation. *)
From Playback Require Import Base.Str Base.StrFacts Values.PyVal Values.SortFacts Values.Codec Values.CodecFacts
  Values.JsonWf Values.JsonFacts Cassette.Bucket Cassette.BucketFacts Cassette.S3Store.
From Coq Require Import Lia QArith.
Open Scope list_scope.
Local Arguments reserved : simpl never.
Local Arguments str_ok : simpl never.

(** ---- keys ---- *)
Lemma full_key_app p id : full_key p id = full_key p [] ++ id.
Proof. unfold full_key. rewrite app_nil_r, <- !app_assoc. reflexivity. Qed.
Lemma meta_key_app p id : meta_key p id = meta_key p [] ++ id.
Proof. unfold meta_key. rewrite app_nil_r, <- !app_assoc. reflexivity. Qed.

Lemma full_key_inj p id id' : full_key p id = full_key p id' -> id = id'.
Proof. unfold full_key. intros H. repeat apply app_inv_head in H. exact H. Qed.
Lemma meta_key_inj p id id' : meta_key p id = meta_key p id' -> id = id'.
Proof. unfold meta_key. intros H. repeat apply app_inv_head in H. exact H. Qed.
Lemma full_meta_distinct p id id' : full_key p id <> meta_key p id'.
Proof. unfold full_key, meta_key. intros H. do 2 apply app_inv_head in H. cbn in H. discriminate. Qed.

Lemma own_full c : prefixb (own_prefix c) (full_key (np c) []) = true.
Proof. unfold own_prefix, full_key. rewrite prefixb_app_l. apply prefixb_app. Qed.
Lemma own_meta c : prefixb (own_prefix c) (meta_key (np c) []) = true.
Proof. unfold own_prefix, meta_key. rewrite prefixb_app_l. apply prefixb_app. Qed.

Lemma recording_key_under_own c k : is_recording_key c k = true -> prefixb (own_prefix c) k = true.
Proof.
  unfold is_recording_key. intros H. apply orb_true_iff in H. destruct H as [H|H].
  - eapply prefixb_trans; [apply own_full|exact H].
  - eapply prefixb_trans; [apply own_meta|exact H].
Qed.

Lemma full_is_recording_key c id : is_recording_key c (full_key (np c) id) = true.
Proof. unfold is_recording_key. rewrite (full_key_app (np c) id), prefixb_app. reflexivity. Qed.
Lemma meta_is_recording_key c id : is_recording_key c (meta_key (np c) id) = true.
Proof. unfold is_recording_key. rewrite (meta_key_app (np c) id), prefixb_app. apply orb_true_r. Qed.

Lemma same_np_recording_key c c' k : np c' = np c -> is_recording_key c' k = is_recording_key c k.
Proof. unfold is_recording_key. intros ->. reflexivity. Qed.

(** independent prefixes have disjoint key spaces (this is where the trailing slash of :57 matters:
    "a/" and "ab/" are independent although "a" is a string prefix of "ab") *)
Lemma independent_own_disjoint c c' k :
  independent c c' -> prefixb (own_prefix c) k = true -> prefixb (own_prefix c') k = true -> False.
Proof.
  intros [I1 I2] A B. destruct (prefixb_comparable _ _ _ A B) as [C|C];
    unfold own_prefix in C; rewrite prefixb_app_l in C; congruence.
Qed.

Lemma independent_keys c c' k : independent c c' -> is_recording_key c' k = true -> is_recording_key c k = false.
Proof.
  intros I H. destruct (is_recording_key c k) eqn:E; [|reflexivity].
  exfalso. apply (independent_own_disjoint c c' k I); apply recording_key_under_own; [exact E|exact H].
Qed.

Lemma independent_sym c c' : independent c c' -> independent c' c.
Proof. intros [A B]. split; assumption. Qed.

Lemma incomparable_no_common a b k : incomparable a b = true -> prefixb a k = true -> prefixb b k = true -> False.
Proof.
  unfold incomparable. intros I A B. apply andb_true_iff in I. destruct I as [I1 I2].
  apply negb_true_iff in I1. apply negb_true_iff in I2.
  destruct (prefixb_comparable _ _ _ A B); congruence.
Qed.

Lemma key_disjoint_keys c c' k : key_disjoint c c' = true -> is_recording_key c' k = true -> is_recording_key c k = false.
Proof.
  unfold key_disjoint, is_recording_key. intros D H.
  apply andb_true_iff in D. destruct D as [D D4]. apply andb_true_iff in D. destruct D as [D D3].
  apply andb_true_iff in D. destruct D as [D1 D2].
  apply orb_true_iff in H. apply orb_false_iff. split.
  - destruct (prefixb (full_key (np c) []) k) eqn:E; [|reflexivity]. exfalso.
    destruct H as [H|H]; [exact (incomparable_no_common _ _ k D1 E H)|exact (incomparable_no_common _ _ k D2 E H)].
  - destruct (prefixb (meta_key (np c) []) k) eqn:E; [|reflexivity]. exfalso.
    destruct H as [H|H]; [exact (incomparable_no_common _ _ k D3 E H)|exact (incomparable_no_common _ _ k D4 E H)].
Qed.

Lemma key_disjoint_sym c c' : key_disjoint c c' = key_disjoint c' c.
Proof.
  unfold key_disjoint, incomparable.
  destruct (prefixb (full_key (np c) []) (full_key (np c') [])), (prefixb (full_key (np c') []) (full_key (np c) [])),
           (prefixb (full_key (np c) []) (meta_key (np c') [])), (prefixb (meta_key (np c') []) (full_key (np c) [])),
           (prefixb (meta_key (np c) []) (full_key (np c') [])), (prefixb (full_key (np c') []) (meta_key (np c) [])),
           (prefixb (meta_key (np c) []) (meta_key (np c') [])), (prefixb (meta_key (np c') []) (meta_key (np c) []));
    reflexivity.
Qed.

Lemma independent_incomparable c c' (x y : str) :
  independent c c' -> incomparable (ROOT ++ np c ++ x) (ROOT ++ np c' ++ y) = true.
Proof.
  intros [I1 I2]. unfold incomparable. rewrite !prefixb_app_l.
  apply andb_true_iff. split; apply negb_true_iff.
  - destruct (prefixb (np c ++ x) (np c' ++ y)) eqn:E; [|reflexivity]. exfalso.
    apply prefixb_spec in E. destruct E as [r E]. rewrite <- app_assoc in E. symmetry in E.
    destruct (app_eq_comparable _ _ _ _ E); congruence.
  - destruct (prefixb (np c' ++ y) (np c ++ x)) eqn:E; [|reflexivity]. exfalso.
    apply prefixb_spec in E. destruct E as [r E]. rewrite <- app_assoc in E. symmetry in E.
    destruct (app_eq_comparable _ _ _ _ E); congruence.
Qed.

Lemma independent_key_disjoint c c' : independent c c' -> key_disjoint c c' = true.
Proof.
  intros I. unfold key_disjoint, full_key, meta_key.
  rewrite !(independent_incomparable c c' _ _ I). reflexivity.
Qed.

(** ---- dict_set ---- *)
Lemma dict_set_keys {A} k (v : A) d k' : In k' (keys (dict_set k v d)) <-> k' = k \/ In k' (keys d).
Proof.
  induction d as [|[k1 v1] d IH]; cbn; [split; [intros [H|[]]; left; congruence|intros [H|[]]; left; congruence]|].
  destruct (str_eqb k k1) eqn:E; cbn.
  - apply str_eqb_eq in E; subst. intuition congruence.
  - rewrite IH. intuition congruence.
Qed.

Lemma dict_set_NoDup {A} k (v : A) d : NoDup (keys (dict_set k v d)) <-> NoDup (keys d).
Proof.
  induction d as [|[k1 v1] d IH]; cbn; [split; intros _; repeat constructor; auto|].
  destruct (str_eqb k k1) eqn:E; cbn.
  - apply str_eqb_eq in E; subst. reflexivity.
  - apply str_eqb_neq in E. split; intros H; inversion H as [|? ? H1 H2]; subst; constructor.
    + intros C. apply H1. apply dict_set_keys. right; exact C.
    + apply IH; exact H2.
    + intros C. apply dict_set_keys in C. destruct C as [C|C]; [congruence|contradiction].
    + apply IH; exact H2.
Qed.

Lemma dict_set_forallb {A} (P : str * A -> bool) k v d :
  P (k, v) = true -> forallb P d = true -> forallb P (dict_set k v d) = true.
Proof.
  intros Pk. induction d as [|[k1 v1] d IH]; cbn; [rewrite Pk; reflexivity|].
  intros H. apply andb_true_iff in H. destruct H as [H1 H2].
  destruct (str_eqb k k1); cbn; [rewrite Pk, H2; reflexivity|rewrite H1, (IH H2); reflexivity].
Qed.

Lemma wf_full_value r : rec_wf r = true -> wf (full_value r) = true.
Proof.
  unfold rec_wf, full_value. intros W. apply andb_true_iff in W. destruct W as [W Wm].
  apply andb_true_iff in W. destruct W as [_ Wd].
  cbn [wf] in Wd |- *. apply andb_true_iff in Wd. destruct Wd as [Kd Fd].
  apply andb_true_iff. split.
  - apply keys_distinct_NoDup, dict_set_NoDup, keys_distinct_NoDup. exact Kd.
  - apply dict_set_forallb; [|exact Fd]. cbn [fst snd].
    change (negb (reserved META) && str_ok META && wf (VDict (r_meta r)) = true).
    rewrite Wm. vm_compute. reflexivity.
Qed.

(** ---- the mutation log of puts ---- *)
Section Facts.
  Variable qp : list N -> str.
  Variable qp_dec : str -> list N.
  Variable loads : str -> option json.
  Variable compress : bytes -> bytes.
  Variable decompress : bytes -> option bytes.

  Notation step := (step qp qp_dec loads compress decompress).
  Notation run := (run qp qp_dec loads compress decompress).
  Notation save_plan := (save_plan qp compress).
  Notation s3_get := (s3_get qp_dec loads decompress).
  Notation s3_get_meta := (s3_get_meta qp_dec loads).

  Lemma apply_puts_log ps : forall st,
    mlog (apply_puts ps st) = mlog st ++ map (fun kv => MPut (fst kv)) ps.
  Proof.
    induction ps as [|[k v] ps IH]; intros st; cbn; [rewrite app_nil_r; reflexivity|].
    rewrite IH. cbn. rewrite <- app_assoc. reflexivity.
  Qed.

  Lemma apply_puts_get_other ps k : forall st,
    ~ In k (map fst ps) -> b_get k (objs (apply_puts ps st)) = b_get k (objs st).
  Proof.
    induction ps as [|[k' v] ps IH]; intros st N; cbn; [reflexivity|].
    rewrite IH by (intros C; apply N; right; exact C). cbn.
    apply b_get_put_other. intros ->. apply N. left; reflexivity.
  Qed.

  Definition plan_keys_ok (c : cfg) (r : recording) (ps : list (str * bytes)) : Prop :=
    Forall (fun kv => fst kv = full_key (np c) (r_id r) \/ fst kv = meta_key (np c) (r_id r)) ps.

  Lemma save_plan_writable c r s ps : save_plan c r s = Ans ps -> c_read_only c = false.
  Proof. unfold S3Store.save_plan. destruct (c_read_only c); [discriminate|reflexivity]. Qed.

  (** the plan is one of: nothing (sampled out) / full only (second encode raised) / full then metadata *)
  Lemma save_plan_shape c r s ps :
    save_plan c r s = Ans ps ->
    ps = [] \/
    (exists fb, full_body qp compress r = Some fb /\
       (ps = [(full_key (np c) (r_id r), fb)] /\ meta_body qp r = None \/
        exists mb, meta_body qp r = Some mb /\
                   ps = [(full_key (np c) (r_id r), fb); (meta_key (np c) (r_id r), mb)])).
  Proof.
    unfold S3Store.save_plan. destruct (c_read_only c); [discriminate|].
    destruct (full_body qp compress r) as [fb|] eqn:F; [|discriminate].
    assert (G : (if should_sample s
                 then match meta_body qp r with
                      | Some mb => Ans [(full_key (np c) (r_id r), fb); (meta_key (np c) (r_id r), mb)]
                      | None => Ans [(full_key (np c) (r_id r), fb)]
                      end
                 else Ans []) = Ans ps ->
                ps = [] \/ (exists fb0, Some fb = Some fb0 /\
                   (ps = [(full_key (np c) (r_id r), fb0)] /\ meta_body qp r = None \/
                    exists mb, meta_body qp r = Some mb /\
                       ps = [(full_key (np c) (r_id r), fb0); (meta_key (np c) (r_id r), mb)]))).
    { destruct (should_sample s); [|intros H; inversion H; left; reflexivity].
      destruct (meta_body qp r) as [mb|]; intros H; inversion H; subst; right; exists fb; split; try reflexivity.
      - right. exists mb. split; reflexivity.
      - left. split; reflexivity. }
    destruct s as [|ratio draw]; [exact G|].
    destruct (id_category (r_id r)); [exact G|discriminate].
  Qed.

  Lemma save_plan_keys c r s ps : save_plan c r s = Ans ps -> plan_keys_ok c r ps.
  Proof.
    intros H. apply save_plan_shape in H. unfold plan_keys_ok.
    destruct H as [->|[fb [_ [[-> _]|[mb [_ ->]]]]]].
    - constructor.
    - constructor; [left; reflexivity|constructor].
    - constructor; [left; reflexivity|constructor; [right; reflexivity|constructor]].
  Qed.

  Lemma Forall_firstn' {A} (P : A -> Prop) n l : Forall P l -> Forall P (firstn n l).
  Proof. revert n; induction l as [|x l IH]; intros [|n] H; cbn; try constructor; inversion H; subst; auto. Qed.

  Lemma plan_keys_recording c r ps :
    plan_keys_ok c r ps -> Forall (fun m => is_recording_key c (mutation_key m) = true) (map (fun kv => MPut (fst kv)) ps).
  Proof.
    induction 1 as [|[k v] ps [E|E] _ IH]; cbn [map fst] in *; constructor; try exact IH; subst; cbn [mutation_key].
    - apply full_is_recording_key.
    - apply meta_is_recording_key.
  Qed.

  Lemma apply_puts_outside c r ps st k :
    plan_keys_ok c r ps -> is_recording_key c k = false -> b_get k (objs (apply_puts ps st)) = b_get k (objs st).
  Proof.
    intros P N. apply apply_puts_get_other. intros C. apply in_map_iff in C. destruct C as [[k' v] [E I]]. cbn in E; subst.
    unfold plan_keys_ok in P. rewrite Forall_forall in P. destruct (P _ I) as [E|E]; cbn [fst] in E; subst.
    - rewrite full_is_recording_key in N. discriminate.
    - rewrite meta_is_recording_key in N. discriminate.
  Qed.

  (** ---- close ---- *)
  Lemma close_noop c st : c_read_only c = true \/ c_transient c = false -> s3_close c st = st.
  Proof. unfold s3_close. intros [->| ->]; [reflexivity|rewrite orb_true_r; reflexivity]. Qed.

  Lemma close_get c st k :
    c_read_only c = false -> c_transient c = true ->
    b_get k (objs (s3_close c st)) = if is_recording_key c k then None else b_get k (objs st).
  Proof.
    intros R T. unfold s3_close, is_recording_key. rewrite R, T. cbn [orb negb].
    unfold st_delete_prefix. cbn [objs].
    rewrite !b_get_drop_prefix.
    destruct (prefixb (meta_key (np c) []) k), (prefixb (full_key (np c) []) k); reflexivity.
  Qed.

  Lemma close_log c st :
    c_read_only c = false -> c_transient c = true ->
    exists ks, mlog (s3_close c st) = mlog st ++ map MDel ks /\
               Forall (fun k => is_recording_key c k = true /\ b_has k (objs st) = true) ks.
  Proof.
    intros R T. unfold s3_close. rewrite R, T. cbn [orb negb]. unfold st_delete_prefix. cbn [objs mlog].
    exists (b_keys (b_list_prefix (full_key (np c) []) (objs st)) ++
            b_keys (b_list_prefix (meta_key (np c) []) (b_drop_prefix (full_key (np c) []) (objs st)))).
    split; [rewrite map_app, app_assoc; reflexivity|].
    apply Forall_app. split; apply Forall_forall; intros k I; apply b_list_prefix_keys in I; destruct I as [I P].
    - split; [unfold is_recording_key; rewrite P; reflexivity|apply b_has_In; exact I].
    - split; [unfold is_recording_key; rewrite P; apply orb_true_r|].
      apply b_has_In in I. unfold b_has in *. rewrite b_get_drop_prefix in I.
      destruct (prefixb (full_key (np c) []) k); [discriminate|exact I].
  Qed.

  (** ---- one call: log and confinement ---- *)
  Definition confined (c : cfg) (l : list mutation) : Prop :=
    Forall (fun m => is_recording_key c (mutation_key m) = true) l.

  Lemma save_log c r s st :
    exists l, mlog (fst (s3_save qp compress c r s st)) = mlog st ++ l /\ (c_read_only c = true -> l = []) /\ confined c l.
  Proof.
    unfold s3_save. destruct (save_plan c r s) as [ps|e] eqn:E; cbn [fst].
    - exists (map (fun kv => MPut (fst kv)) ps). split; [apply apply_puts_log|]. split.
      + intros R. apply save_plan_writable in E. congruence.
      + apply plan_keys_recording with (r := r). eapply save_plan_keys; exact E.
    - exists []. rewrite app_nil_r. repeat split; constructor.
  Qed.

  Lemma save_crash_log c r s n st :
    exists l, mlog (fst (s3_save_crash qp compress c r s n st)) = mlog st ++ l /\ (c_read_only c = true -> l = []) /\ confined c l.
  Proof.
    unfold s3_save_crash. destruct (save_plan c r s) as [ps|e] eqn:E; cbn [fst].
    - pose proof (save_plan_keys _ _ _ _ E) as K. pose proof (save_plan_writable _ _ _ _ E) as W.
      destruct (n <? length ps)%nat; cbn [fst].
      + exists (map (fun kv => MPut (fst kv)) (firstn n ps)). split; [apply apply_puts_log|]. split; [congruence|].
        apply plan_keys_recording with (r := r). apply Forall_firstn'. exact K.
      + exists (map (fun kv => MPut (fst kv)) ps). split; [apply apply_puts_log|]. split; [congruence|].
        apply plan_keys_recording with (r := r). exact K.
    - exists []. rewrite app_nil_r. repeat split; constructor.
  Qed.

  Lemma step_log c k st :
    exists l, mlog (fst (step c k st)) = mlog st ++ l /\ (c_read_only c = true -> l = []) /\ confined c l.
  Proof.
    destruct k; cbn [S3Store.step fst];
      try (exists []; rewrite app_nil_r; repeat split; constructor).
    - destruct (save_log c r s st) as [l H]. exists l.
      destruct (s3_save qp compress c r s st) as [st' x]; exact H.
    - destruct (save_crash_log c r s n st) as [l H]. exists l.
      destruct (s3_save_crash qp compress c r s n st) as [st' x]; exact H.
    - destruct (c_read_only c) eqn:R; [|destruct (c_transient c) eqn:T].
      + rewrite close_noop by (left; exact R). exists []. rewrite app_nil_r. repeat split; constructor.
      + destruct (close_log c st R T) as [ks [E F]]. exists (map MDel ks). split; [exact E|]. split; [discriminate|].
        unfold confined. rewrite Forall_map. eapply Forall_impl; [|exact F]. cbn. tauto.
      + rewrite close_noop by (right; exact T). exists []. rewrite app_nil_r. repeat split; constructor.
    - destruct (c_read_only c) eqn:R; [|destruct (c_transient c) eqn:T].
      + rewrite close_noop by (left; exact R). exists []. rewrite app_nil_r. repeat split; constructor.
      + destruct (close_log c st R T) as [ks [E F]]. exists (map MDel ks). split; [exact E|]. split; [discriminate|].
        unfold confined. rewrite Forall_map. eapply Forall_impl; [|exact F]. cbn. tauto.
      + rewrite close_noop by (right; exact T). exists []. rewrite app_nil_r. repeat split; constructor.
  Qed.

  (** objects that are not recording keys of the calling cassette are never touched *)
  Lemma step_outside c k st key :
    is_recording_key c key = false -> b_get key (objs (fst (step c k st))) = b_get key (objs st).
  Proof.
    intros N. destruct k; cbn [S3Store.step fst]; try reflexivity.
    - unfold s3_save. destruct (save_plan c r s) as [ps|e] eqn:E; cbn [fst]; [|reflexivity].
      apply apply_puts_outside with (c := c) (r := r); [eapply save_plan_keys; exact E|exact N].
      (* second component irrelevant *)
    - unfold s3_save_crash. destruct (save_plan c r s) as [ps|e] eqn:E; cbn [fst]; [|reflexivity].
      pose proof (save_plan_keys _ _ _ _ E) as K.
      destruct (n <? length ps)%nat; cbn [fst].
      + apply apply_puts_outside with (c := c) (r := r); [apply Forall_firstn'; exact K|exact N].
      + apply apply_puts_outside with (c := c) (r := r); [exact K|exact N].
    - destruct (c_read_only c) eqn:R; [|destruct (c_transient c) eqn:T].
      + rewrite close_noop by (left; exact R). reflexivity.
      + rewrite close_get by assumption. rewrite N. reflexivity.
      + rewrite close_noop by (right; exact T). reflexivity.
    - destruct (c_read_only c) eqn:R; [|destruct (c_transient c) eqn:T].
      + rewrite close_noop by (left; exact R). reflexivity.
      + rewrite close_get by assumption. rewrite N. reflexivity.
      + rewrite close_noop by (right; exact T). reflexivity.
  Qed.

  (** ---- read-only ---- *)
  Lemma step_readonly c k st : c_read_only c = true -> fst (step c k st) = st.
  Proof.
    intros R. destruct k; cbn [S3Store.step fst]; try reflexivity.
    - unfold s3_save, S3Store.save_plan. rewrite R. reflexivity.
    - unfold s3_save_crash, S3Store.save_plan. rewrite R. reflexivity.
    - apply close_noop. left; exact R.
    - apply close_noop. left; exact R.
  Qed.

  Lemma step_readonly_refuses c st :
    c_read_only c = true ->
    (forall cat day uuid, snd (step c (CCreate cat day uuid) st) = Raises AssertionError) /\
    (forall r s, snd (step c (CSave r s) st) = Raises AssertionError) /\
    (forall r s n, snd (step c (CSaveCrash r s n) st) = Raises AssertionError).
  Proof.
    intros R. repeat split; intros; cbn [S3Store.step snd].
    - unfold s3_create. rewrite R. reflexivity.
    - unfold s3_save, S3Store.save_plan. rewrite R. reflexivity.
    - unfold s3_save_crash, S3Store.save_plan. rewrite R. reflexivity.
  Qed.

  Lemma run_readonly h : forall st, Forall (fun ck => c_read_only (fst ck) = true) h -> run h st = st.
  Proof.
    induction h as [|[c k] h IH]; intros st F; cbn; [reflexivity|].
    inversion F as [|? ? R F']; subst. cbn in R. rewrite step_readonly by exact R. apply IH; exact F'.
  Qed.

  (** ---- histories ---- *)
  Definition attributable (h : list (cfg * call)) (m : mutation) : Prop :=
    exists c, In c (map fst h) /\ c_read_only c = false /\ is_recording_key c (mutation_key m) = true.

  Lemma run_log h : forall st, exists l, mlog (run h st) = mlog st ++ l /\ Forall (attributable h) l.
  Proof.
    induction h as [|[c k] h IH]; intros st; cbn [S3Store.run].
    - exists []. rewrite app_nil_r. split; [reflexivity|constructor].
    - destruct (step_log c k st) as [l1 [E1 [R1 C1]]].
      destruct (IH (fst (step c k st))) as [l2 [E2 A2]].
      exists (l1 ++ l2). split; [rewrite E2, E1, app_assoc; reflexivity|].
      apply Forall_app. split.
      + unfold confined in C1. rewrite Forall_forall in *. intros m I.
        exists c. split; [left; reflexivity|]. split; [|apply C1; exact I].
        destruct (c_read_only c); [rewrite (R1 eq_refl) in I; destruct I|reflexivity].
      + eapply Forall_impl; [|exact A2]. intros m [c' [I [R K]]]. exists c'. split; [right; exact I|auto].
  Qed.

  Lemma run_outside h key : forall st,
    (forall c, In c (map fst h) -> c_read_only c = false -> is_recording_key c key = false) ->
    b_get key (objs (run h st)) = b_get key (objs st).
  Proof.
    induction h as [|[c k] h IH]; intros st H; cbn [S3Store.run]; [reflexivity|].
    rewrite IH by (intros c' I; apply H; right; exact I).
    destruct (c_read_only c) eqn:R; [rewrite step_readonly by exact R; reflexivity|].
    apply step_outside. apply H; [left; reflexivity|exact R].
  Qed.
End Facts.

Lemma leaves_full_value r : rec_leaves_ok r = true -> leaves_ok (full_value r) = true.
Proof.
  unfold rec_leaves_ok, full_value. intros L. apply andb_true_iff in L. destruct L as [Ld Lm].
  cbn [leaves_ok] in Ld |- *. apply dict_set_forallb; [exact Lm|exact Ld].
Qed.
Lemma rec_leaves_meta r : rec_leaves_ok r = true -> leaves_ok (VDict (r_meta r)) = true.
Proof. unfold rec_leaves_ok. intros L. apply andb_true_iff in L. apply L. Qed.
Lemma rec_leaves_data r : rec_leaves_ok r = true -> leaves_ok (VDict (r_data r)) = true.
Proof. unfold rec_leaves_ok. intros L. apply andb_true_iff in L. apply L. Qed.

(** ---- complete-before-visible ---- *)
Section Complete.
  Variable qp : list N -> str.
  Variable qp_dec : str -> list N.
  Variable loads : str -> option json.
  Variable compress : bytes -> bytes.
  Variable decompress : bytes -> option bytes.
  Hypothesis qp_roundtrip : forall b, qp_dec (qp b) = b.
  (* the premise about json.loads is asked on the well-formed trees only: over all [json] terms no
     function satisfies it (JsonFacts.loads_dumps_unsatisfiable); the concrete parser satisfies this one
     (JsonFacts.loads_dumps) *)
  Hypothesis loads_dumps : forall j, jwf j = true -> loads (dumps j) = Some j.
  Hypothesis qp_ascii : forall b, is_bytes b = true -> str_ok (qp b) = true.
  Hypothesis decompress_compress : forall b, decompress (compress b) = Some b.

  Notation step := (step qp qp_dec loads compress decompress).
  Notation run := (run qp qp_dec loads compress decompress).
  Notation all_states := (all_states qp qp_dec loads compress decompress).
  Notation call_states := (call_states qp qp_dec loads compress decompress).
  Notation save_plan := (save_plan qp compress).
  Notation s3_get := (s3_get qp_dec loads decompress).
  Notation s3_get_meta := (s3_get_meta qp_dec loads).
  Notation dc := (discoverable_complete qp_dec loads decompress).
  Notation enc := (enc qp).
  Notation dec := (dec qp_dec loads).

  Lemma dec_enc v : wf v = true -> leaves_ok v = true -> exists t, enc v = Some t /\ dec t = Some (canon v).
  Proof.
    intros W L. destruct (restore_flatten qp qp_dec qp_roundtrip v W) as [j [F R]].
    exists (dumps j). unfold S3Store.enc, encode_with, S3Store.dec. rewrite F. cbn.
    rewrite loads_dumps by (exact (flatten_jwf qp qp_ascii v W L j F)).
    split; [reflexivity|exact R].
  Qed.

  Lemma full_body_ok r :
    rec_wf r = true -> rec_leaves_ok r = true ->
    exists t, full_body qp compress r = Some (compress t) /\ dec t = Some (canon (full_value r)).
  Proof.
    intros W L. destruct (dec_enc _ (wf_full_value r W) (leaves_full_value r L)) as [t [E D]].
    exists t. unfold full_body. rewrite E. split; [reflexivity|exact D].
  Qed.

  Lemma rec_wf_meta r : rec_wf r = true -> wf (VDict (r_meta r)) = true.
  Proof. unfold rec_wf. intros W. apply andb_true_iff in W. apply W. Qed.
  Lemma rec_wf_data r : rec_wf r = true -> wf (VDict (r_data r)) = true.
  Proof. unfold rec_wf. intros W. apply andb_true_iff in W. destruct W as [W _]. apply andb_true_iff in W. apply W. Qed.

  Lemma meta_body_ok r :
    rec_wf r = true -> rec_leaves_ok r = true ->
    exists t, meta_body qp r = Some t /\ dec t = Some (canon (VDict (r_meta r))).
  Proof. intros W L. apply dec_enc; [apply rec_wf_meta; exact W|apply rec_leaves_meta; exact L]. Qed.

  Lemma dc_put_full c id t d b :
    dc c b -> dec t = Some (VDict d) -> dc c (b_put (full_key (np c) id) (compress t) b).
  Proof.
    intros D E id' H.
    rewrite b_has_put_other in H by apply full_meta_distinct.
    destruct (D id' H) as [[f G] [m M]]. split.
    - destruct (list_eq_dec N.eq_dec id id') as [->|Ne].
      + unfold S3Store.s3_get. rewrite b_get_put_same, decompress_compress, E. eexists; reflexivity.
      + exists f. unfold S3Store.s3_get in *. rewrite b_get_put_other; [exact G|].
        intros C. apply full_key_inj in C. congruence.
    - exists m. unfold S3Store.s3_get_meta in *. rewrite b_get_put_other by apply full_meta_distinct. exact M.
  Qed.

  Lemma dc_put_meta c id mb v b :
    dc c b -> (exists f, s3_get c id b = Ans f) -> dec mb = Some v -> dc c (b_put (meta_key (np c) id) mb b).
  Proof.
    intros D [f G] E id' H.
    assert (NE : forall x, meta_key (np c) id <> full_key (np c) x)
      by (intros x C; symmetry in C; revert C; apply full_meta_distinct).
    destruct (list_eq_dec N.eq_dec id id') as [->|Ne].
    - split.
      + exists f. unfold S3Store.s3_get in *. rewrite b_get_put_other by apply NE. exact G.
      + unfold S3Store.s3_get_meta. rewrite b_get_put_same, E. eexists; reflexivity.
    - assert (NM : meta_key (np c) id <> meta_key (np c) id') by (intros C; apply meta_key_inj in C; congruence).
      rewrite b_has_put_other in H by exact NM.
      destruct (D id' H) as [[f' G'] [m M]]. split.
      + exists f'. unfold S3Store.s3_get in *. rewrite b_get_put_other by apply NE. exact G'.
      + exists m. unfold S3Store.s3_get_meta in *. rewrite b_get_put_other by exact NM. exact M.
  Qed.

  Lemma dc_ext c b b' :
    (forall k, is_recording_key c k = true -> b_get k b' = b_get k b) -> dc c b -> dc c b'.
  Proof.
    intros X D id H. unfold b_has in H. rewrite X in H by apply meta_is_recording_key.
    destruct (D id H) as [[f G] [m M]]. split; [exists f|exists m].
    - unfold S3Store.s3_get in *. rewrite X by apply full_is_recording_key. exact G.
    - unfold S3Store.s3_get_meta in *. rewrite X by apply meta_is_recording_key. exact M.
  Qed.

  Lemma canon_full_value_dict r : exists d, canon (full_value r) = VDict d.
  Proof. unfold full_value. cbn [canon]. eexists; reflexivity. Qed.

  (** the heart: whatever prefix of the save's mutations has happened, the invariant holds *)
  Lemma plan_prefix_dc c c' r s ps st :
    save_plan c' r s = Ans ps -> rec_wf r = true -> rec_leaves_ok r = true -> (np c' = np c \/ key_disjoint c c' = true) ->
    dc c (objs st) -> forall n, dc c (objs (apply_puts (firstn n ps) st)).
  Proof.
    intros P W L [S|I] D n.
    - (* same key space *)
      destruct (full_body_ok r W L) as [t [FB DT]]. destruct (canon_full_value_dict r) as [d Cd]. rewrite Cd in DT.
      destruct (meta_body_ok r W L) as [mt [MB DM]].
      apply save_plan_shape in P. rewrite S in P.
      destruct P as [->|[fb [F [[-> MN]|[mb [M ->]]]]]].
      + destruct n; exact D.
      + congruence.
      + rewrite FB in F. inversion F; subst fb. rewrite MB in M. inversion M; subst mb.
        destruct n as [|[|n]]; cbn [firstn apply_puts st_put objs]; rewrite ?firstn_nil; cbn [apply_puts st_put objs].
        * exact D.
        * eapply dc_put_full; [exact D|exact DT].
        * eapply dc_put_meta; [eapply dc_put_full; [exact D|exact DT]| |exact DM].
          unfold S3Store.s3_get. rewrite b_get_put_same, decompress_compress, DT. eexists; reflexivity.
    - (* independent key space *)
      eapply dc_ext; [|exact D]. intros k K.
      apply apply_puts_outside with (c := c') (r := r).
      + apply Forall_firstn'. eapply save_plan_keys; exact P.
      + eapply key_disjoint_keys; [rewrite key_disjoint_sym; exact I|exact K].
  Qed.

  Lemma put_states_In ps : forall st x, In x (put_states ps st) -> exists n, x = apply_puts (firstn n ps) st.
  Proof.
    induction ps as [|[k v] ps IH]; intros st x I; cbn in I; [destruct I|].
    destruct I as [<-|I]; [exists 1%nat; reflexivity|].
    destruct (IH _ _ I) as [n ->]. exists (S n). reflexivity.
  Qed.

  (** calls that the property's quantifier admits from the point of view of lookups through [c]:
      saves of recordings in the faithful domain by cassettes on the same or on an independent
      prefix; no clean-up (close of a writable transient cassette) of [c]'s own key space *)
  Definition benign (c : cfg) (ck : cfg * call) : Prop :=
    match snd ck with
    | CSave r _ | CSaveCrash r _ _ =>
        rec_wf r = true /\ rec_leaves_ok r = true /\ (np (fst ck) = np c \/ key_disjoint c (fst ck) = true)
    | CClose | CExit => c_read_only (fst ck) = true \/ c_transient (fst ck) = false \/ key_disjoint c (fst ck) = true
    | _ => True
    end.

  Lemma close_dc c c' st :
    c_read_only c' = true \/ c_transient c' = false \/ key_disjoint c c' = true ->
    dc c (objs st) -> dc c (objs (s3_close c' st)).
  Proof.
    intros H D. destruct (c_read_only c') eqn:R; [rewrite close_noop by (left; exact R); exact D|].
    destruct (c_transient c') eqn:T; [|rewrite close_noop by (right; exact T); exact D].
    destruct H as [H|[H|I]]; try discriminate.
    eapply dc_ext; [|exact D]. intros k K. rewrite close_get by assumption.
    rewrite (key_disjoint_keys c' c k); [reflexivity|rewrite key_disjoint_sym; exact I|exact K].
  Qed.

  Lemma step_dc c c' k st :
    benign c (c', k) -> dc c (objs st) ->
    dc c (objs (fst (step c' k st))) /\ Forall (fun st' => dc c (objs st')) (call_states c' k st).
  Proof.
    intros B D. unfold benign in B. cbn [fst snd] in B.
    destruct k; cbn [S3Store.step S3Store.call_states fst];
      try (split; [exact D|constructor; [exact D|constructor]]).
    - destruct B as [W [L S]]. unfold s3_save. destruct (save_plan c' r s) as [ps|e] eqn:P; cbn [fst].
      + split.
        * rewrite <- (firstn_all ps). eapply plan_prefix_dc; eassumption.
        * apply Forall_forall. intros x I. apply put_states_In in I. destruct I as [n ->].
          eapply plan_prefix_dc; eassumption.
      + split; [exact D|constructor].
    - destruct B as [W [L S]]. unfold s3_save_crash. destruct (save_plan c' r s) as [ps|e] eqn:P; cbn [fst].
      + split.
        * destruct (n <? length ps)%nat; cbn [fst].
          -- eapply plan_prefix_dc; eassumption.
          -- rewrite <- (firstn_all ps). eapply plan_prefix_dc; eassumption.
        * apply Forall_forall. intros x I. apply put_states_In in I. destruct I as [m ->].
          rewrite firstn_firstn. eapply plan_prefix_dc; eassumption.
      + split; [exact D|constructor].
    - split; [apply close_dc; assumption|constructor; [apply close_dc; assumption|constructor]].
    - split; [apply close_dc; assumption|constructor; [apply close_dc; assumption|constructor]].
  Qed.

  Theorem all_states_dc c h : forall st,
    Forall (benign c) h -> dc c (objs st) ->
    Forall (fun st' => dc c (objs st')) (all_states h st) /\ dc c (objs (run h st)).
  Proof.
    induction h as [|[c' k] h IH]; intros st F D; cbn [S3Store.all_states S3Store.run].
    - split; [constructor|exact D].
    - inversion F as [|? ? B F']; subst.
      destruct (step_dc c c' k st B D) as [D1 A1].
      destruct (IH _ F' D1) as [A2 D2].
      split; [apply Forall_app; split; assumption|exact D2].
  Qed.

  (** the empty bucket, or any bucket without metadata objects of [c], is a valid start *)
  Lemma dc_no_metadata c b : (forall id, b_has (meta_key (np c) id) b = false) -> dc c b.
  Proof. intros H id C. rewrite H in C. discriminate. Qed.
End Complete.

(** ---- packaged statements about close ---- *)
Section CloseFacts.
  Variable qp : list N -> str.
  Variable qp_dec : str -> list N.
  Variable loads : str -> option json.
  Variable compress : bytes -> bytes.
  Variable decompress : bytes -> option bytes.
  Notation step := (step qp qp_dec loads compress decompress).

  Lemma close_exact c st :
    c_read_only c = false -> c_transient c = true ->
    (forall k, is_recording_key c k = true -> b_get k (objs (s3_close c st)) = None) /\
    (forall k, is_recording_key c k = false -> b_get k (objs (s3_close c st)) = b_get k (objs st)) /\
    (exists ks, mlog (s3_close c st) = mlog st ++ map MDel ks /\
                Forall (fun k => is_recording_key c k = true /\ b_has k (objs st) = true) ks).
  Proof.
    intros R T. repeat split.
    - intros k K. rewrite close_get by assumption. rewrite K. reflexivity.
    - intros k K. rewrite close_get by assumption. rewrite K. reflexivity.
    - apply close_log; assumption.
  Qed.

  (** whatever a cassette logged in any call, at any time, is gone after it is closed at any later time *)
  Lemma written_then_closed c k st l m st2 :
    c_read_only c = false -> c_transient c = true ->
    mlog (fst (step c k st)) = mlog st ++ l -> In m l ->
    b_get (mutation_key m) (objs (s3_close c st2)) = None.
  Proof.
    intros R T E I. destruct (step_log qp qp_dec loads compress decompress c k st) as [l' [E' [_ C]]].
    rewrite E in E'. apply app_inv_head in E'. subst l'.
    unfold confined in C. rewrite Forall_forall in C.
    rewrite close_get by assumption. rewrite (C m I). reflexivity.
  Qed.

  Lemma close_independent c c' st k :
    independent c c' -> prefixb (own_prefix c') k = true ->
    b_get k (objs (s3_close c st)) = b_get k (objs st).
  Proof.
    intros I P. destruct (c_read_only c) eqn:R; [rewrite close_noop by (left; exact R); reflexivity|].
    destruct (c_transient c) eqn:T; [|rewrite close_noop by (right; exact T); reflexivity].
    rewrite close_get by assumption.
    destruct (is_recording_key c k) eqn:K; [|reflexivity].
    exfalso. eapply independent_own_disjoint; [exact I|apply recording_key_under_own; exact K|exact P].
  Qed.

  Lemma close_key_disjoint c c' st k :
    key_disjoint c c' = true -> is_recording_key c' k = true ->
    b_get k (objs (s3_close c st)) = b_get k (objs st).
  Proof.
    intros D K. destruct (c_read_only c) eqn:R; [rewrite close_noop by (left; exact R); reflexivity|].
    destruct (c_transient c) eqn:T; [|rewrite close_noop by (right; exact T); reflexivity].
    rewrite close_get by assumption. rewrite (key_disjoint_keys c c' k D K). reflexivity.
  Qed.
End CloseFacts.
