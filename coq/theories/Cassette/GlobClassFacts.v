(** Facts about the concrete fnmatch instance [glob_fn]: on patterns without an opening bracket it is the
    simple instance [glob_simple] (literals, question mark, star) that the C14 runs use. *)
From Playback Require Import Base.Str Cassette.Matcher Cassette.GlobClass.
From Coq Require Import List Bool NArith.
Open Scope list_scope.

Lemma tmatch_simple : forall pat, ~ In 91%N pat -> forall s, tmatch (toks 0 pat) s = glob_star pat s.
Proof.
  induction pat as [|c pat IH]; intros Hn s.
  - reflexivity.
  - assert (Hc : N.eqb c 91 = false) by (apply N.eqb_neq; intro; subst; apply Hn; left; reflexivity).
    assert (Hp : ~ In 91%N pat) by (intro; apply Hn; right; assumption).
    specialize (IH Hp).
    simpl. destruct (N.eqb c 42) eqn:E42.
    + simpl. induction s as [|x s IHs].
      * rewrite IH. reflexivity.
      * rewrite IH. rewrite IHs. reflexivity.
    + destruct (N.eqb c 63) eqn:E63.
      * simpl. destruct s; [reflexivity|apply IH].
      * rewrite Hc. simpl. destruct s; [reflexivity|]. rewrite IH. reflexivity.
Qed.

Theorem glob_fn_simple : forall s pat, ~ In 91%N pat -> glob_fn s pat = glob_simple s pat.
Proof. intros s pat H. unfold glob_fn, glob_simple. apply tmatch_simple. exact H. Qed.

(** the documented forms on examples (the seeded fast path answers each of them differently) *)
Example glob_fn_class : glob_fn (U"eu-west-1") (U"eu-west-[12]") = true /\ glob_fn (U"eu-west-3") (U"eu-west-[12]") = false
                        /\ glob_fn (U"eu-west-[12]") (U"eu-west-[12]") = false.
Proof. vm_compute. repeat split. Qed.
Example glob_fn_negated : glob_fn (U"bx") (U"[!a]x") = true /\ glob_fn (U"ax") (U"[!a]x") = false.
Proof. vm_compute. repeat split. Qed.
Example glob_fn_range : glob_fn (U"ac") (U"a[b-d]") = true /\ glob_fn (U"ae") (U"a[b-d]") = false.
Proof. vm_compute. repeat split. Qed.
Example glob_fn_escaped : glob_fn (U"a[1]") (U"a[[]1[]]") = true /\ glob_fn (U"a*") (U"a[*]") = true
                          /\ glob_fn (U"ab") (U"a[*]") = false /\ glob_fn (U"x[") (U"x[") = true.
Proof. vm_compute. repeat split. Qed.

Print Assumptions glob_fn_simple.
