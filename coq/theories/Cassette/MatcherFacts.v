From Playback Require Import Base.Str Cassette.Matcher.
From Coq Require Import QArith.
Open Scope list_scope.

Section Ind.
  Variable P : mval -> Prop.
  Hypothesis HNone : P MNone.
  Hypothesis HBool : forall b, P (MBool b).
  Hypothesis HInt : forall z, P (MInt z).
  Hypothesis HFloat : forall q, P (MFloat q).
  Hypothesis HStr : forall s, P (MStr s).
  Hypothesis HList : forall l, Forall P l -> P (MList l).
  Hypothesis HDict : forall d, Forall (fun kv => P (snd kv)) d -> P (MDict d).
  Hypothesis HOpaque : forall t, P (MOpaque t).
  Fixpoint mval_ind' (v : mval) : P v :=
    match v with
    | MNone => HNone
    | MBool b => HBool b
    | MInt z => HInt z
    | MFloat q => HFloat q
    | MStr s => HStr s
    | MList l => HList l ((fix go (l : list mval) : Forall P l :=
                             match l with
                             | [] => Forall_nil _
                             | x :: l' => Forall_cons _ (mval_ind' x) (go l')
                             end) l)
    | MDict d => HDict d ((fix go (d : list (str * mval)) : Forall (fun kv => P (snd kv)) d :=
                             match d with
                             | [] => Forall_nil _
                             | kv :: d' => Forall_cons _ (mval_ind' (snd kv)) (go d')
                             end) d)
    | MOpaque t => HOpaque t
    end.
End Ind.

Section Glob.
  Variable glob : str -> str -> bool.

  Lemma operator_meaning r d op v :
    operator_filter true r d op v = Ans (op_spec r op v).
  Proof.
    unfold operator_filter, apply_operator, op_spec, ordered_spec, py_lt, py_le.
    repeat match goal with |- context [if is_op ?o ?s then _ else _] => destruct (is_op o s) end;
      try reflexivity;
      match goal with |- context [py_cmp ?b ?x ?y] => destruct (py_cmp b x y) end; reflexivity.
  Qed.

  Lemma match_meaning : forall f r, match_value glob f r = Ans (match_spec glob f r).
  Proof.
    unfold match_value.
    induction f using mval_ind'; intros r.
    - destruct r; reflexivity.
    - destruct r; reflexivity.
    - destruct r; reflexivity.
    - destruct r; reflexivity.
    - destruct r; reflexivity.
    - (* list of alternatives *)
      cbn [match_value_gen match_spec].
      induction H as [|x l Hx Hl IHl]; [reflexivity|].
      cbn [existsb]. rewrite Hx. destruct (match_spec glob x r); cbn [orb]; [reflexivity|exact IHl].
    - (* dict: operator object or plain dict *)
      cbn [match_value_gen match_spec is_operator_object].
      destruct (lookup OPERATOR d) as [op|]; [destruct (lookup VALUE d) as [v|]|].
      + apply operator_meaning.
      + destruct r; reflexivity.
      + destruct r; reflexivity.
    - destruct r; reflexivity.
  Qed.

  Lemma match_total f r : match_value glob f r <> RaisesTypeError.
  Proof. rewrite match_meaning. discriminate. Qed.

  Lemma meta_meaning filter meta : match_meta glob filter meta = Ans (meta_spec glob filter meta).
  Proof.
    unfold match_meta, meta_spec.
    induction filter as [|[k f] filter IH]; [reflexivity|].
    cbn [match_meta_gen forallb fst snd]. fold (match_value glob f (get_meta k meta)).
    rewrite match_meaning. destruct (match_spec glob f (get_meta k meta)); cbn [andb]; [exact IH|reflexivity].
  Qed.

  Lemma meta_total filter meta : match_meta glob filter meta <> RaisesTypeError.
  Proof. rewrite meta_meaning. discriminate. Qed.

  (** the individual clauses of the documented meaning, read off the specification *)
  Lemma spec_list l r : match_spec glob (MList l) r = existsb (fun x => match_spec glob x r) l.
  Proof. reflexivity. Qed.
  Lemma spec_missing f : (forall l, f <> MList l) -> is_operator_object f = None ->
    match_spec glob f MNone = match f with MNone => true | _ => false end.
  Proof. intros NL NO. destruct f; try reflexivity; cbn [match_spec]; try rewrite NO; try reflexivity. exfalso; eapply NL; reflexivity. Qed.
  Lemma spec_pattern p s : match_spec glob (MStr p) (MStr s) = glob s p.
  Proof. reflexivity. Qed.
  Lemma spec_pattern_nonstring p r : (forall s, r <> MStr s) -> match_spec glob (MStr p) r = false.
  Proof. intros N. destruct r; try reflexivity. exfalso; eapply N; reflexivity. Qed.
  Lemma spec_plain_int z r : match_spec glob (MInt z) r = py_eq r (MInt z).
  Proof. destruct r; reflexivity. Qed.
End Glob.

(** The code before the repair raised: three witnesses (operator vs missing value, pattern vs
    number, pattern vs class reference). *)
Lemma legacy_match_raises :
  legacy_match_value glob_simple (MDict [(OPERATOR, MStr (U"<")); (VALUE, MInt 5)]) MNone = RaisesTypeError /\
  legacy_match_value glob_simple (MStr (U"a*")) (MInt 3) = RaisesTypeError /\
  legacy_match_value glob_simple (MStr (U"a*")) (MOpaque 1) = RaisesTypeError.
Proof. repeat split; vm_compute; reflexivity. Qed.

(** non-vacuity / sanity of the specification on concrete values *)
Example spec_examples :
  match_spec glob_simple (MStr (U"a*")) (MStr (U"abc")) = true /\
  match_spec glob_simple (MList [MBool false; MNone]) MNone = true /\
  match_spec glob_simple (MList [MBool false; MNone]) (MBool true) = false /\
  match_spec glob_simple (MDict [(OPERATOR, MStr (U">=")); (VALUE, MInt 5)]) (MFloat (11 # 2)) = true /\
  match_spec glob_simple (MInt 1) (MBool true) = true.
Proof. repeat split; vm_compute; reflexivity. Qed.
