(** Model C, part 1: an S3 bucket as seen through [S3BasicFacade]
    (playback/tape_cassettes/s3/s3_basic_facade.py): a key-sorted list of objects with
    put / get / list-by-prefix / delete-by-prefix, and a log of every single mutation
    (one entry per object written or deleted).  Definitions only. *)
From Playback Require Import Base.Str.
Open Scope list_scope.

Definition bytes := list N.
Definition bucket := list (str * bytes).          (* kept sorted by key, keys distinct *)

Inductive mutation :=
| MPut (k : str)        (* client.put_object(Key=k)            s3_basic_facade.py:42 *)
| MDel (k : str).       (* one object removed by objects.filter(Prefix=..).delete()   :109 *)

Definition mutation_key (m : mutation) : str := match m with MPut k | MDel k => k end.
Definition mutation_eqb (a b : mutation) : bool :=
  match a, b with
  | MPut x, MPut y | MDel x, MDel y => str_eqb x y
  | _, _ => false
  end.

(** put_object: create or overwrite *)
Fixpoint b_put (k : str) (v : bytes) (b : bucket) : bucket :=
  match b with
  | [] => [(k, v)]
  | (k', v') :: b' =>
      if str_eqb k k' then (k, v) :: b'
      else if str_ltb k k' then (k, v) :: b
      else (k', v') :: b_put k v b'
  end.

(** get_object: None = the client raises NoSuchKey *)
Fixpoint b_get (k : str) (b : bucket) : option bytes :=
  match b with
  | [] => None
  | (k', v) :: b' => if str_eqb k k' then Some v else b_get k b'
  end.

Definition b_has (k : str) (b : bucket) : bool := match b_get k b with Some _ => true | None => false end.
Definition b_keys (b : bucket) : list str := map fst b.

(** objects.filter(Prefix=p): the objects whose key starts with p, in key order *)
Definition b_list_prefix (p : str) (b : bucket) : bucket := filter (fun kv => prefixb p (fst kv)) b.
(** what is left after objects.filter(Prefix=p).delete() *)
Definition b_drop_prefix (p : str) (b : bucket) : bucket := filter (fun kv => negb (prefixb p (fst kv))) b.

(** bucket + mutation log (the observable of the fake bucket behind the real facade) *)
Record bstate := BState { objs : bucket; mlog : list mutation }.

Definition st_put (k : str) (v : bytes) (st : bstate) : bstate :=
  BState (b_put k v (objs st)) (mlog st ++ [MPut k]).

Definition st_delete_prefix (p : str) (st : bstate) : bstate :=
  BState (b_drop_prefix p (objs st)) (mlog st ++ map MDel (b_keys (b_list_prefix p (objs st)))).

Fixpoint sortedb (b : list str) : bool :=
  match b with
  | [] => true
  | k :: b' => match b' with [] => true | k' :: _ => str_ltb k k' end && sortedb b'
  end.
