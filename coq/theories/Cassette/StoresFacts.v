(** Proofs for C07: stored recordings round-trip through the three cassette models. *)
From Playback Require Import Base.Str Base.StrFacts Values.PyVal Values.SortFacts Values.Codec Values.CodecFacts
  Values.JsonWf Values.JsonFacts Cassette.Bucket Cassette.BucketFacts Cassette.S3Store Cassette.S3StoreFacts Cassette.Stores.
From Coq Require Import Permutation Lia.
Open Scope list_scope.
Local Arguments reserved : simpl never.
Local Arguments str_ok : simpl never.

(** ---- association lists ---- *)
Lemma assoc_dict_set_same {A} k (v : A) d : assoc k (dict_set k v d) = Some v.
Proof.
  induction d as [|[k' v'] d IH]; cbn; [rewrite str_eqb_refl; reflexivity|].
  destruct (str_eqb k k') eqn:E; cbn; [rewrite str_eqb_refl; reflexivity|rewrite E; exact IH].
Qed.

Lemma assoc_dict_set_other {A} k k' (v : A) d : k <> k' -> assoc k' (dict_set k v d) = assoc k' d.
Proof.
  intros N. assert (N' : str_eqb k' k = false) by (apply str_eqb_neq; congruence).
  induction d as [|[k2 v2] d IH]; cbn; [rewrite N'; reflexivity|].
  destruct (str_eqb k k2) eqn:E; cbn.
  - apply str_eqb_eq in E; subst k2. rewrite N'. reflexivity.
  - destruct (str_eqb k' k2); [reflexivity|exact IH].
Qed.

Lemma assoc_In {A} k (v : A) l : assoc k l = Some v -> In (k, v) l.
Proof.
  induction l as [|[k' v'] l IH]; cbn; [discriminate|].
  destruct (str_eqb k k') eqn:E.
  - apply str_eqb_eq in E; subst. intros H; inversion H; subst. left; reflexivity.
  - intros H. right. apply IH; exact H.
Qed.

Lemma In_assoc {A} k (v : A) l : NoDup (keys l) -> In (k, v) l -> assoc k l = Some v.
Proof.
  induction l as [|[k' v'] l IH]; cbn; intros N I; [destruct I|].
  inversion N as [|? ? N1 N2]; subst.
  destruct I as [I|I].
  - inversion I; subst. rewrite str_eqb_refl. reflexivity.
  - destruct (str_eqb k k') eqn:E; [|apply IH; assumption].
    apply str_eqb_eq in E; subst. exfalso. apply N1. apply in_map_iff. exists (k', v). split; [reflexivity|exact I].
Qed.

Lemma assoc_perm {A} k (l l' : list (str * A)) : NoDup (keys l) -> Permutation l l' -> assoc k l = assoc k l'.
Proof.
  intros N P. assert (N' : NoDup (keys l')) by (eapply Permutation_NoDup; [apply keys_perm; exact P|exact N]).
  destruct (assoc k l) as [v|] eqn:E.
  - symmetry. apply In_assoc; [exact N'|]. eapply Permutation_in; [exact P|apply assoc_In; exact E].
  - symmetry. apply assoc_None. apply assoc_None in E. intros C. apply E.
    eapply Permutation_in; [apply Permutation_sym, keys_perm; exact P|exact C].
Qed.

Lemma assoc_sort {A} k (l : list (str * A)) : NoDup (keys l) -> assoc k (sort_items l) = assoc k l.
Proof. intros N. symmetry. apply assoc_perm; [exact N|]. symmetry. apply sort_perm. Qed.

Lemma perm_filter {A} (f : A -> bool) l l' : Permutation l l' -> Permutation (filter f l) (filter f l').
Proof.
  induction 1 as [|x l l' P IH|x y l|l l' l'' P1 IH1 P2 IH2]; cbn.
  - constructor.
  - destruct (f x); [constructor|]; exact IH.
  - destruct (f x), (f y); try reflexivity. apply perm_swap.
  - etransitivity; eassumption.
Qed.

Lemma map_snd_dict_set {A B} (f : A -> B) k v d : map_snd f (dict_set k v d) = dict_set k (f v) (map_snd f d).
Proof.
  induction d as [|[k' v'] d IH]; cbn; [reflexivity|].
  destruct (str_eqb k k'); cbn; [reflexivity|rewrite IH; reflexivity].
Qed.

Lemma map_snd_remove {A B} (f : A -> B) k d : map_snd f (dict_remove k d) = dict_remove k (map_snd f d).
Proof.
  unfold dict_remove. induction d as [|[k' v'] d IH]; cbn; [reflexivity|].
  destruct (str_eqb k k'); cbn; [exact IH|rewrite IH; reflexivity].
Qed.

Lemma remove_dict_set {A} k (v : A) d : dict_remove k (dict_set k v d) = dict_remove k d.
Proof.
  unfold dict_remove. induction d as [|[k' v'] d IH]; cbn [dict_set filter fst]; [rewrite str_eqb_refl; reflexivity|].
  destruct (str_eqb k k') eqn:E; cbn [filter fst]; rewrite ?str_eqb_refl, ?E; cbn [negb];
    [reflexivity|rewrite IH; reflexivity].
Qed.

Lemma remove_absent {A} k (d : list (str * A)) : assoc k d = None -> dict_remove k d = d.
Proof.
  unfold dict_remove. induction d as [|[k' v'] d IH]; cbn; [reflexivity|].
  destruct (str_eqb k k'); [discriminate|]. intros H. cbn. rewrite IH by exact H. reflexivity.
Qed.

Lemma keys_filter_NoDup {A} (f : str * A -> bool) l : NoDup (keys l) -> NoDup (keys (filter f l)).
Proof.
  induction l as [|[k v] l IH]; cbn; intros N; [constructor|].
  inversion N as [|? ? N1 N2]; subst. destruct (f (k, v)); cbn; [|apply IH; exact N2].
  constructor; [|apply IH; exact N2]. intros C. apply N1.
  apply in_map_iff in C. destruct C as [[k' v'] [E I]]. cbn in E; subst. apply filter_In in I.
  apply in_map_iff. exists (k, v'). split; [reflexivity|apply I].
Qed.

(** popping a key commutes with sorting *)
Lemma remove_sort {A} k (l : list (str * A)) :
  NoDup (keys l) -> dict_remove k (sort_items l) = sort_items (dict_remove k l).
Proof.
  intros N. apply ssorted_unique.
  - apply filter_sorted. apply sort_sorted; exact N.
  - apply sort_sorted. apply keys_filter_NoDup; exact N.
  - unfold dict_remove. etransitivity; [apply perm_filter, sort_perm|symmetry; apply sort_perm].
Qed.

Lemma or_empty_dict_dict x : or_empty_dict (VDict x) = VDict x.
Proof. destruct x; reflexivity. Qed.

Lemma wf_dict_NoDup d : wf (VDict d) = true -> NoDup (keys d).
Proof. cbn [wf]. intros W. apply andb_true_iff in W. apply keys_distinct_NoDup. apply W. Qed.

(** ---- the MemoryRecording object ---- *)
Lemma wf_rec_obj r : rec_wf r = true -> wf (rec_obj r) = true.
Proof.
  unfold rec_wf. intros W. apply andb_true_iff in W. destruct W as [W Wm]. apply andb_true_iff in W. destruct W as [Wi Wd].
  unfold rec_obj. cbn [wf].
  assert (E1 : str_ok MEMREC = true) by (vm_compute; reflexivity).
  rewrite E1. cbn [negb andb].
  apply andb_true_iff. split; [vm_compute; reflexivity|].
  cbn [forallb fst snd].
  assert (R1 : reserved (U"id") = false) by (vm_compute; reflexivity).
  assert (R2 : reserved (U"_closed") = false) by (vm_compute; reflexivity).
  assert (R3 : reserved (U"recording_data") = false) by (vm_compute; reflexivity).
  assert (R4 : reserved (U"recording_metadata") = false) by (vm_compute; reflexivity).
  assert (S1 : str_ok (U"id") = true) by (vm_compute; reflexivity).
  assert (S2 : str_ok (U"_closed") = true) by (vm_compute; reflexivity).
  assert (S3 : str_ok (U"recording_data") = true) by (vm_compute; reflexivity).
  assert (S4 : str_ok (U"recording_metadata") = true) by (vm_compute; reflexivity).
  rewrite R1, R2, R3, R4, S1, S2, S3, S4, Wd, Wm. cbn [wf negb andb]. rewrite Wi. reflexivity.
Qed.

Lemma leaves_rec_obj r : rec_leaves_ok r = true -> leaves_ok (rec_obj r) = true.
Proof.
  unfold rec_leaves_ok, rec_obj. intros L. apply andb_true_iff in L. destruct L as [Ld Lm].
  cbn [leaves_ok forallb fst snd] in *. rewrite Ld, Lm. reflexivity.
Qed.

Lemma canon_rec_obj r :
  canon (rec_obj r) =
  VObj MEMREC [(U"_closed", VBool (r_closed r)); (U"id", VStr (r_id r));
               (U"recording_data", canon (VDict (r_data r))); (U"recording_metadata", canon (VDict (r_meta r)))].
Proof. unfold rec_obj. cbn [canon map_snd]. vm_compute. reflexivity. Qed.

Section Roundtrip.
  Variable qp : list N -> str.
  Variable qp_dec : str -> list N.
  Variable loads : str -> option json.
  Hypothesis qp_roundtrip : forall b, qp_dec (qp b) = b.
  Hypothesis loads_dumps : forall j, jwf j = true -> loads (dumps j) = Some j.
  Hypothesis qp_ascii : forall b, is_bytes b = true -> str_ok (qp b) = true.

  Notation enc := (enc qp).
  Notation dec := (dec qp_dec loads).
  Notation rebuild := (rebuild qp_dec loads).
  Notation mem_save := (mem_save qp).
  Notation mem_get := (mem_get qp_dec loads).
  Notation mem_get_meta := (mem_get_meta qp_dec loads).
  Notation mem_saves := (mem_saves qp).
  Notation file_save := (file_save qp).
  Notation file_get := (file_get qp_dec loads).
  Notation file_get_meta := (file_get_meta qp_dec loads).
  Notation file_saves := (file_saves qp).

  Lemma rebuild_enc r :
    rec_wf r = true -> rec_leaves_ok r = true -> exists t, enc (rec_obj r) = Some t /\ rebuild t = Ans (fetched_of r).
  Proof.
    intros W L.
    destruct (dec_enc qp qp_dec loads qp_roundtrip loads_dumps qp_ascii _ (wf_rec_obj r W) (leaves_rec_obj r L)) as [t [E D]].
    exists t. split; [exact E|]. unfold Stores.rebuild. rewrite D, canon_rec_obj.
    change (assoc (U"id") _) with (Some (VStr (r_id r))).
    change (assoc (U"recording_data") _) with (Some (canon (VDict (r_data r)))).
    change (assoc (U"recording_metadata") _) with (Some (canon (VDict (r_meta r)))).
    cbn [canon]. rewrite !or_empty_dict_dict. reflexivity.
  Qed.

  (** ---- in-memory ---- *)
  Lemma mem_get_save_other r s id : r_id r <> id -> mem_get id (fst (mem_save r s)) = mem_get id s.
  Proof.
    intros N. unfold Stores.mem_get, Stores.mem_save. destruct (enc (rec_obj r)); cbn [fst]; [|reflexivity].
    rewrite assoc_dict_set_other by exact N. reflexivity.
  Qed.

  Lemma mem_saves_other rs id : forall s,
    Forall (fun r => r_id r <> id) rs -> mem_get id (mem_saves rs s) = mem_get id s.
  Proof.
    induction rs as [|r rs IH]; intros s F; cbn; [reflexivity|].
    inversion F; subst. rewrite IH by assumption. apply mem_get_save_other; assumption.
  Qed.

  Theorem roundtrip_mem r s rs :
    rec_wf r = true -> rec_leaves_ok r = true -> Forall (fun r' => r_id r' <> r_id r) rs ->
    snd (mem_save r s) = Ans tt /\
    mem_get (r_id r) (mem_saves rs (fst (mem_save r s))) = Ans (fetched_of r) /\
    mem_get_meta (r_id r) (mem_saves rs (fst (mem_save r s))) = Ans (f_meta (fetched_of r)).
  Proof.
    intros W L F. destruct (rebuild_enc r W L) as [t [E R]].
    assert (G : mem_get (r_id r) (mem_saves rs (fst (mem_save r s))) = Ans (fetched_of r)).
    { rewrite mem_saves_other by exact F. unfold Stores.mem_get, Stores.mem_save. rewrite E. cbn [fst].
      rewrite assoc_dict_set_same. exact R. }
    split; [unfold Stores.mem_save; rewrite E; reflexivity|]. split; [exact G|].
    unfold Stores.mem_get_meta. rewrite G. reflexivity.
  Qed.

  Theorem unknown_mem id s rs :
    assoc id s = None -> Forall (fun r => r_id r <> id) rs ->
    mem_get id (mem_saves rs s) = Raises NoSuchRecording /\ mem_get_meta id (mem_saves rs s) = Raises NoSuchRecording.
  Proof.
    intros A F. assert (G : mem_get id (mem_saves rs s) = Raises NoSuchRecording).
    { rewrite mem_saves_other by exact F. unfold Stores.mem_get. rewrite A. reflexivity. }
    split; [exact G|]. unfold Stores.mem_get_meta. rewrite G. reflexivity.
  Qed.

  (** ---- file based ---- *)
  Lemma file_get_save_other r d id : fpath (r_id r) <> fpath id -> file_get id (fst (file_save r d)) = file_get id d.
  Proof.
    intros N. unfold Stores.file_get, Stores.file_save. destruct (enc (rec_obj r)); cbn [fst]; [|reflexivity].
    rewrite assoc_dict_set_other by exact N. reflexivity.
  Qed.

  Lemma file_saves_other rs id : forall d,
    Forall (fun r => fpath (r_id r) <> fpath id) rs -> file_get id (file_saves rs d) = file_get id d.
  Proof.
    induction rs as [|r rs IH]; intros d F; cbn; [reflexivity|].
    inversion F; subst. rewrite IH by assumption. apply file_get_save_other; assumption.
  Qed.

  Theorem roundtrip_file r d rs :
    rec_wf r = true -> rec_leaves_ok r = true -> Forall (fun r' => fpath (r_id r') <> fpath (r_id r)) rs ->
    snd (file_save r d) = Ans tt /\
    file_get (r_id r) (file_saves rs (fst (file_save r d))) = Ans (fetched_of r) /\
    file_get_meta (r_id r) (file_saves rs (fst (file_save r d))) = Ans (f_meta (fetched_of r)).
  Proof.
    intros W L F. destruct (rebuild_enc r W L) as [t [E R]].
    assert (G : file_get (r_id r) (file_saves rs (fst (file_save r d))) = Ans (fetched_of r)).
    { rewrite file_saves_other by exact F. unfold Stores.file_get, Stores.file_save. rewrite E. cbn [fst].
      rewrite assoc_dict_set_same. exact R. }
    split; [unfold Stores.file_save; rewrite E; reflexivity|]. split; [exact G|].
    unfold Stores.file_get_meta. rewrite G. reflexivity.
  Qed.

  Theorem unknown_file id d rs :
    assoc (fpath id) d = None -> Forall (fun r => fpath (r_id r) <> fpath id) rs ->
    file_get id (file_saves rs d) = Raises NoSuchRecording /\ file_get_meta id (file_saves rs d) = Raises NoSuchRecording.
  Proof.
    intros A F. assert (G : file_get id (file_saves rs d) = Raises NoSuchRecording).
    { rewrite file_saves_other by exact F. unfold Stores.file_get. rewrite A. reflexivity. }
    split; [exact G|]. unfold Stores.file_get_meta. rewrite G. reflexivity.
  Qed.
End Roundtrip.

(** ---- file names ---- *)
Lemma replace_no_sep s : ~ In 47%N s -> replace_char 47 95 s = s.
Proof.
  unfold replace_char. induction s as [|c s IH]; cbn; intros N; [reflexivity|].
  destruct (N.eqb_spec c 47); [exfalso; apply N; left; auto|]. rewrite IH; [reflexivity|]. intros C; apply N; right; exact C.
Qed.

Lemma fpath_created cat hex :
  ~ In 47%N cat -> ~ In 47%N hex -> fpath (plain_create cat hex) = cat ++ 95%N :: hex ++ U".json".
Proof.
  intros Nc Nh. unfold fpath, plain_create, replace_char. rewrite !map_app.
  fold (replace_char 47 95 cat). fold (replace_char 47 95 hex).
  rewrite (replace_no_sep cat Nc), (replace_no_sep hex Nh). cbn. rewrite <- app_assoc. reflexivity.
Qed.

(** ids made by create_new_recording: category without '/', uuid hex without '/' and '_' *)
Theorem path_injective cat1 hex1 cat2 hex2 :
  ~ In 47%N cat1 -> ~ In 47%N cat2 -> ~ In 47%N hex1 -> ~ In 47%N hex2 -> ~ In 95%N hex1 -> ~ In 95%N hex2 ->
  fpath (plain_create cat1 hex1) = fpath (plain_create cat2 hex2) -> plain_create cat1 hex1 = plain_create cat2 hex2.
Proof.
  intros C1 C2 H1 H2 U1 U2 E. rewrite !fpath_created in E by assumption.
  assert (E' : cat1 ++ 95%N :: hex1 = cat2 ++ 95%N :: hex2).
  { apply (app_inv_tail (U".json")). rewrite <- !app_assoc. cbn [app]. exact E. }
  destruct (split_last_unique 95%N _ _ _ _ E' U1 U2) as [-> ->]. reflexivity.
Qed.

(** ---- S3 ---- *)
Section S3Roundtrip.
  Variable qp : list N -> str.
  Variable qp_dec : str -> list N.
  Variable loads : str -> option json.
  Variable compress : bytes -> bytes.
  Variable decompress : bytes -> option bytes.
  Hypothesis qp_roundtrip : forall b, qp_dec (qp b) = b.
  Hypothesis loads_dumps : forall j, jwf j = true -> loads (dumps j) = Some j.
  Hypothesis qp_ascii : forall b, is_bytes b = true -> str_ok (qp b) = true.
  Hypothesis decompress_compress : forall b, decompress (compress b) = Some b.

  Notation s3_save := (s3_save qp compress).
  Notation s3_saves := (s3_saves qp compress).
  Notation save_plan := (save_plan qp compress).
  Notation s3_get := (s3_get qp_dec loads decompress).
  Notation s3_get_meta := (s3_get_meta qp_dec loads).
  Notation dec := (dec qp_dec loads).

  (** what S3 hands back: the data WITHOUT a '_metadata' entry *)
  Definition s3_fetched_of (r : recording) : fetched :=
    Fetched (VStr (r_id r)) (canon (VDict (dict_remove META (r_data r)))) (canon (VDict (r_meta r))).

  Lemma s3_fetched_plain r : assoc META (r_data r) = None -> s3_fetched_of r = fetched_of r.
  Proof. intros A. unfold s3_fetched_of, fetched_of. rewrite remove_absent by exact A. reflexivity. Qed.

  Definition plan_ok (r : recording) (s : sampling) : Prop :=
    should_sample s = true /\ match s with NoCalc => True | Calc _ _ => id_category (r_id r) <> None end.

  Lemma save_plan_full c r s :
    rec_wf r = true -> rec_leaves_ok r = true -> c_read_only c = false -> plan_ok r s ->
    exists t mt, dec t = Some (canon (full_value r)) /\ dec mt = Some (canon (VDict (r_meta r))) /\
      save_plan c r s = Ans [(full_key (np c) (r_id r), compress t); (meta_key (np c) (r_id r), mt)] /\
      plan_complete qp r s = true.
  Proof.
    intros W L R [S P].
    destruct (full_body_ok qp qp_dec loads compress qp_roundtrip loads_dumps qp_ascii r W L) as [t [FB DT]].
    destruct (meta_body_ok qp qp_dec loads qp_roundtrip loads_dumps qp_ascii r W L) as [mt [MB DM]].
    exists t, mt. split; [exact DT|]. split; [exact DM|]. split.
    - unfold S3Store.save_plan. rewrite R, FB, S, MB.
      destruct s as [|ratio draw]; [reflexivity|]. destruct (id_category (r_id r)); [reflexivity|congruence].
    - unfold plan_complete. rewrite MB. reflexivity.
  Qed.

  Lemma canon_full_value r :
    canon (full_value r) = VDict (sort_items (dict_set META (canon (VDict (r_meta r))) (map_snd canon (r_data r)))).
  Proof. unfold full_value. cbn [canon]. rewrite map_snd_dict_set. reflexivity. Qed.

  Lemma get_after_save c r s st :
    rec_wf r = true -> rec_leaves_ok r = true -> c_read_only c = false -> plan_ok r s ->
    snd (s3_save c r s st) = Ans tt /\
    s3_get c (r_id r) (objs (fst (s3_save c r s st))) = Ans (s3_fetched_of r) /\
    s3_get_meta c (r_id r) (objs (fst (s3_save c r s st))) = Ans (canon (VDict (r_meta r))).
  Proof.
    intros W L0 R P. destruct (save_plan_full c r s W L0 R P) as [t [mt [DT [DM [PL PC]]]]].
    unfold S3Store.s3_save. rewrite PL, PC. cbn [fst snd apply_puts st_put objs].
    split; [reflexivity|].
    assert (NE : meta_key (np c) (r_id r) <> full_key (np c) (r_id r))
      by (intros C; symmetry in C; revert C; apply full_meta_distinct).
    split.
    - unfold S3Store.s3_get. rewrite b_get_put_other by exact NE. rewrite b_get_put_same, decompress_compress, DT.
      rewrite canon_full_value.
      set (L := dict_set META (canon (VDict (r_meta r))) (map_snd canon (r_data r))).
      assert (NL : NoDup (keys L)).
      { unfold L. apply dict_set_NoDup. rewrite keys_map_snd. apply wf_dict_NoDup. apply rec_wf_data. exact W. }
      rewrite assoc_sort by exact NL.
      replace (assoc META L) with (Some (canon (VDict (r_meta r)))) by (unfold L; symmetry; apply assoc_dict_set_same).
      rewrite remove_sort by exact NL. unfold L. rewrite remove_dict_set, <- map_snd_remove.
      unfold s3_fetched_of. cbn [canon]. rewrite !or_empty_dict_dict. reflexivity.
    - unfold S3Store.s3_get_meta. rewrite b_get_put_same, DM. reflexivity.
  Qed.

  Lemma save_other_keys c r s st id :
    r_id r <> id ->
    b_get (full_key (np c) id) (objs (fst (s3_save c r s st))) = b_get (full_key (np c) id) (objs st) /\
    b_get (meta_key (np c) id) (objs (fst (s3_save c r s st))) = b_get (meta_key (np c) id) (objs st).
  Proof.
    intros N. unfold S3Store.s3_save. destruct (save_plan c r s) as [ps|e] eqn:P; cbn [fst]; [|split; reflexivity].
    pose proof (save_plan_keys qp compress c r s ps P) as K. unfold plan_keys_ok in K. rewrite Forall_forall in K.
    split; apply apply_puts_get_other; intros C; apply in_map_iff in C; destruct C as [[k v] [E I]]; cbn [fst] in E; subst k;
      destruct (K _ I) as [E|E]; cbn [fst] in E.
    - apply full_key_inj in E. congruence.
    - revert E. apply full_meta_distinct.
    - symmetry in E. revert E. apply full_meta_distinct.
    - apply meta_key_inj in E. congruence.
  Qed.

  Lemma saves_other_keys c rs id : forall st,
    Forall (fun rs' => r_id (fst rs') <> id) rs ->
    b_get (full_key (np c) id) (objs (s3_saves c rs st)) = b_get (full_key (np c) id) (objs st) /\
    b_get (meta_key (np c) id) (objs (s3_saves c rs st)) = b_get (meta_key (np c) id) (objs st).
  Proof.
    induction rs as [|[r s] rs IH]; intros st F; cbn [Stores.s3_saves]; [split; reflexivity|].
    inversion F as [|? ? N F']; subst. cbn [fst] in N.
    destruct (IH (fst (s3_save c r s st)) F') as [A B]. destruct (save_other_keys c r s st id N) as [A' B'].
    split; congruence.
  Qed.

  Theorem roundtrip_s3_general c r s st rs :
    rec_wf r = true -> rec_leaves_ok r = true -> c_read_only c = false -> plan_ok r s ->
    Forall (fun rs' => r_id (fst rs') <> r_id r) rs ->
    snd (s3_save c r s st) = Ans tt /\
    s3_get c (r_id r) (objs (s3_saves c rs (fst (s3_save c r s st)))) = Ans (s3_fetched_of r) /\
    s3_get_meta c (r_id r) (objs (s3_saves c rs (fst (s3_save c r s st)))) = Ans (canon (VDict (r_meta r))).
  Proof.
    intros W L R P F. destruct (get_after_save c r s st W L R P) as [S [G M]].
    destruct (saves_other_keys c rs (r_id r) (fst (s3_save c r s st)) F) as [A B].
    split; [exact S|]. split.
    - unfold S3Store.s3_get in *. rewrite A. exact G.
    - unfold S3Store.s3_get_meta in *. rewrite B. exact M.
  Qed.

  Theorem roundtrip_s3 c r s st rs :
    rec_wf r = true -> rec_leaves_ok r = true -> assoc META (r_data r) = None -> c_read_only c = false -> plan_ok r s ->
    Forall (fun rs' => r_id (fst rs') <> r_id r) rs ->
    snd (s3_save c r s st) = Ans tt /\
    s3_get c (r_id r) (objs (s3_saves c rs (fst (s3_save c r s st)))) = Ans (fetched_of r) /\
    s3_get_meta c (r_id r) (objs (s3_saves c rs (fst (s3_save c r s st)))) = Ans (f_meta (fetched_of r)).
  Proof.
    intros W L A R P F. rewrite <- (s3_fetched_plain r A). apply roundtrip_s3_general; assumption.
  Qed.

  Theorem unknown_s3 c id st rs :
    b_get (full_key (np c) id) (objs st) = None -> b_get (meta_key (np c) id) (objs st) = None ->
    Forall (fun rs' => r_id (fst rs') <> id) rs ->
    s3_get c id (objs (s3_saves c rs st)) = Raises NoSuchRecording /\
    s3_get_meta c id (objs (s3_saves c rs st)) = Raises NoSuchRecording.
  Proof.
    intros A B F. destruct (saves_other_keys c rs id st F) as [A' B'].
    unfold S3Store.s3_get, S3Store.s3_get_meta. rewrite A', B', A, B. split; reflexivity.
  Qed.

  (** F07b: the data key '_metadata' does not survive *)
  Definition reserved_witness : recording := Rec (U"Op/20200227/w") false [(META, VInt 1); (U"k", VInt 2)] [(U"m", VInt 3)].

  Theorem s3_reserved_key_lost c st :
    c_read_only c = false ->
    rec_wf reserved_witness = true /\ rec_leaves_ok reserved_witness = true /\
    exists f, s3_get c (r_id reserved_witness) (objs (fst (s3_save c reserved_witness NoCalc st))) = Ans f /\
              f_data f = VDict [(U"k", VInt 2)] /\ f_data f <> f_data (fetched_of reserved_witness).
  Proof.
    intros R. split; [vm_compute; reflexivity|]. split; [vm_compute; reflexivity|].
    assert (W : rec_wf reserved_witness = true) by (vm_compute; reflexivity).
    assert (L : rec_leaves_ok reserved_witness = true) by (vm_compute; reflexivity).
    destruct (get_after_save c reserved_witness NoCalc st W L R) as [_ [G _]]; [split; [reflexivity|exact I]|].
    exists (s3_fetched_of reserved_witness). split; [exact G|]. split; [vm_compute; reflexivity|].
    vm_compute. discriminate.
  Qed.
End S3Roundtrip.

(** hand-made ids: two different ids share a file, and the file cassette then hands back the
    OTHER recording (with the other id) *)
Definition collide_a : recording := Rec (U"a/b_c") false [(U"k", VInt 1)] [].
Definition collide_b : recording := Rec (U"a_b/c") false [(U"k", VInt 2)] [].

Section Collision.
  Variable qp : list N -> str.
  Variable qp_dec : str -> list N.
  Variable loads : str -> option json.
  Hypothesis qp_roundtrip : forall b, qp_dec (qp b) = b.
  Hypothesis loads_dumps : forall j, jwf j = true -> loads (dumps j) = Some j.
  Hypothesis qp_ascii : forall b, is_bytes b = true -> str_ok (qp b) = true.

  Lemma file_get_path a b d : fpath a = fpath b -> file_get qp_dec loads a d = file_get qp_dec loads b d.
  Proof. unfold file_get. intros ->. reflexivity. Qed.

  Theorem path_collision :
    r_id collide_a <> r_id collide_b /\ fpath (r_id collide_a) = fpath (r_id collide_b) /\
    rec_wf collide_a = true /\ rec_wf collide_b = true /\ rec_leaves_ok collide_b = true /\
    forall d, file_get qp_dec loads (r_id collide_a) (fst (file_save qp collide_b (fst (file_save qp collide_a d))))
              = Ans (fetched_of collide_b) /\
              fetched_of collide_b <> fetched_of collide_a.
  Proof.
    split; [vm_compute; discriminate|]. split; [vm_compute; reflexivity|].
    split; [vm_compute; reflexivity|]. split; [vm_compute; reflexivity|]. split; [vm_compute; reflexivity|].
    intros d. split; [|vm_compute; discriminate].
    rewrite (file_get_path (r_id collide_a) (r_id collide_b)) by (vm_compute; reflexivity).
    destruct (roundtrip_file qp qp_dec loads qp_roundtrip loads_dumps qp_ascii collide_b (fst (file_save qp collide_a d)) [])
      as [_ [G _]]; [vm_compute; reflexivity|vm_compute; reflexivity|constructor|exact G].
  Qed.
End Collision.

(** what "equal up to canonical form" means for the fetched dicts: same key set, each value equal up to
    dict insertion order *)
Lemma assoc_map_snd {A B} (f : A -> B) k d : assoc k (map_snd f d) = option_map f (assoc k d).
Proof. induction d as [|[k' v] d IH]; cbn; [reflexivity|]. destruct (str_eqb k k'); [reflexivity|exact IH]. Qed.

Theorem canon_dict_meaning d :
  NoDup (keys d) ->
  exists d', canon (VDict d) = VDict d' /\ Permutation (keys d') (keys d) /\
             forall k, assoc k d' = option_map canon (assoc k d).
Proof.
  intros N. exists (sort_items (map_snd canon d)). split; [reflexivity|]. split.
  - rewrite <- (keys_map_snd canon d). apply keys_perm, sort_perm.
  - intros k. rewrite assoc_sort by (rewrite keys_map_snd; exact N). apply assoc_map_snd.
Qed.
