(** Model F: the equalizer (playback/studio/equalizer.py).  Definitions only - no proofs.

    A comparison run is a deterministic function of a *script*: the sequence of recording ids, each with the
    behaviour of its replay.  Every race between parent and worker is resolved by the scheduling that the
    simulator [harness/impl/fake_mp.py] implements (the same text, function by function, as this file):

    - one integer clock (seconds); only the parent's blocking [get(True, 1)] on an empty result queue and a
      [join] of a busy worker advance it;
    - a worker turn runs the real worker loop (:315-332) until the task queue is empty; turns are given to every
      live worker whenever the parent blocks in [get], to the joined worker in [join], and once after the run;
    - parent [get(True,1)] (:246) = turn; look; wait one second; turn; look; [Empty].

    Line numbers refer to playback/studio/equalizer.py. *)
From Coq Require Import List Arith Bool.
Import ListNotations.
Open Scope list_scope.

(** ** Verdicts *)

Inductive status := Equal | Fixed | Different | Failed | EqualizerFailure.       (* :28 *)

(** what the message of the comparator status is (the texts themselves are not modelled) *)
Inductive msg :=
| MNone          (* comparator returned a bare status (:360-361) *)
| MCmp           (* the comparator's own message *)
| MPlayer | MExtractor | MComparator      (* str(exception) of the failing stage (:368-372, :203-212) *)
| MDied          (* "playback process have died" (:256) *)
| MTimeout       (* "timeout while running recording playback and comparison" (:275) *)
| MUnload        (* str of what self._compare_results.get raised while loading the answer (:246 -> :203) *)
| MRefused       (* the worker's message in a (False, message) answer (:328, :249-250 -> :203) *)
| MFalsy         (* the comparator's own message, not text and falsy (an empty dict, 0): it passes the
                    truthiness guard of :94 and is never concatenated *)
| MStruct        (* the comparator's own message, not text and truthy (a structured diff, a number, an exception
                    object): never seen in a yielded comparison, see [p_render] *)
| MRender.       (* str of what Comparison.__str__ (:92-96) raised in the log line (:193-194 -> :203) *)

(** an answer that reaches the parent and cannot be used *)
Inductive bad :=
| Unloadable     (* the item pickled in the worker does not unpickle in the parent: [get] (:246) raises *)
| Refused.       (* the worker's [put] of its result raised (:324): the worker loop answers (False, str(ex)) (:325-328)
                    and the parent raises Exception(message) (:249-250) *)

Definition bad_msg (k : bad) : msg := match k with Unloadable => MUnload | Refused => MRefused end.

Inductive tri := TNone | TFalse | TTrue.     (* recorded/playback_result_is_exception: None until both are known *)

Definition rid := nat.

(** one yielded Comparison (:183-191, :205-212), projected on what the property talks about *)
Record cmp := Cmp {
  label : rid;                 (* recording_id *)
  verdict : status;            (* comparator_status.equality_status *)
  message : msg;
  attached : option rid;       (* playback.original_recording.id, None when playback is None *)
  has_expected : bool;         (* expected is not None *)
  has_actual : bool;
  exp_exc : tri;
  act_exc : tri;
  vdiff : option rid;          (* comparator_status.diff (:41): None, or the recording it was computed for *)
  vsub : bool                  (* comparator_status is the comparator's own subclass instance of ComparatorResult,
                                  with the attributes the comparator gave it (false: a plain ComparatorResult) *)
}.

(** ** Shapes of what a comparator returns (:359-361)

    The comparator is the user's function: it may return a bare value (wrapped by :360-361) or a ComparatorResult -
    or an instance of a subclass of it - whose three members (:39-41) hold anything. *)
Inductive vstatus :=
| VEnum (s : status)       (* a member of EqualityStatus *)
| VForeign.                (* anything else (None, a bool, the name of a status as text): it has no [.name] *)
Inductive vmsg :=
| VNone | VText            (* None / text *)
| VFalsy | VStruct.        (* not text: falsy (empty dict, 0) / truthy (structured diff, number, exception object) *)
Record vshape := VShape {
  vs_status : vstatus; vs_msg : vmsg;
  vs_diff : bool;          (* the [diff] member (:41) is set *)
  vs_sub : bool            (* an instance of a subclass of ComparatorResult carrying attributes of its own *)
}.

(** Comparison.__str__ (:92-96), evaluated by the log line :193-194 inside the per-recording try (:169):
    [equality_status.name] needs an enum member, [u' - ' + message] needs text when the message is truthy *)
Definition renderable (v : vshape) : bool :=
  match vs_status v, vs_msg v with
  | VForeign, _ => false
  | VEnum _, VStruct => false
  | VEnum _, _ => true
  end.

(** ** Behaviours of one replay *)

Inductive behaviour :=
| BEqual | BDifferent
| BPlayerRaises | BExtractorRaises | BComparatorRaises
| BBare (s : status)        (* the comparator returns a bare EqualityStatus *)
| BExits                    (* the player raises SystemExit: the worker process ends while serving *)
| BHangs                    (* the worker never returns from the player *)
| BAnswersLate              (* the answer is put at the moment the parent, having given up, kills the worker *)
| BSlow (d : nat)           (* an Equal replay whose answer is put d seconds after the worker took the task *)
| BDrops                    (* an Equal replay whose answer is lost in transit (unpicklable result: mp.Queue's
                               feeder thread drops it); the worker goes on polling and is killed, idle, at the
                               timeout - leaving the task queue's read lock held *)
| BDiesBefore               (* the worker dies before taking this task from the queue (once); the replay itself
                               is an Equal one *)
| BBadAnswer (k : bad)      (* an Equal replay whose answer reaches the parent and cannot be used; the worker stays *)
| BReturns (v : vshape).    (* the comparator returns a verdict of this shape (a bare foreign value is the shape
                               [VShape VForeign VNone false false]: :360-361 wraps it) *)

(** result of [_play_and_compare_recording] (:334-372) when it returns *)
Record pres := Pres {
  p_status : status; p_msg : msg;
  p_pb : bool;             (* playback is not None *)
  p_f1 : tri; p_f2 : tri;
  p_xraise : bool;         (* the result extractor raises on this playback's outputs (also when the parent
                              re-extracts, :177) *)
  p_bad : option bad;      (* as an item of the result queue: the parent cannot use it (always None in-process) *)
  p_diff : bool;           (* comparator_result.diff is set (failure results :62 never have one) *)
  p_sub : bool;            (* comparator_result is an instance of the comparator's own subclass *)
  p_render : bool          (* Comparison.__str__ succeeds on this verdict; when it does not, [p_status] / [p_msg]
                              never reach a yielded comparison *)
}.

(** (:343-372); for the process-level behaviours this is the replay they stand for (an Equal one);
    [BExits] / [BHangs] never return and are intercepted before [play] is consulted. *)
Definition play (b : behaviour) : pres :=
  match b with
  | BDifferent => Pres Different MCmp true TFalse TFalse false None false false true
  | BPlayerRaises => Pres EqualizerFailure MPlayer false TNone TNone false None false false true      (* :348 raises, playback None *)
  | BExtractorRaises => Pres EqualizerFailure MExtractor true TNone TNone true None false false true  (* :350 raises *)
  | BComparatorRaises => Pres EqualizerFailure MComparator true TFalse TFalse false None false false true  (* :359 raises *)
  | BBare s => Pres s MNone true TFalse TFalse false None false false true                            (* :360-361 *)
  | BReturns v =>                                                 (* :359-366: handed on as it is, whatever it holds *)
      Pres (match vs_status v with VEnum s => s | VForeign => EqualizerFailure end)
           (match vs_msg v with VNone => MNone | VText => MCmp | VFalsy => MFalsy | VStruct => MStruct end)
           true TFalse TFalse false None (vs_diff v) (vs_sub v) (renderable v)
  | _ => Pres Equal MCmp true TFalse TFalse false None false false true
  end.

(** what the worker's answer for a task of behaviour [b] is as an item of the result queue *)
Definition answer_of (b : behaviour) : pres :=
  match b with
  | BBadAnswer k => let p := play b in Pres (p_status p) (p_msg p) (p_pb p) (p_f1 p) (p_f2 p) (p_xraise p) (Some k)
                                            (p_diff p) (p_sub p) (p_render p)
  | _ => play b
  end.

(** the failure Comparison of the outer handler (:203-212) *)
Definition failure_cmp (l : rid) (m : msg) : cmp := Cmp l EqualizerFailure m None false false TFalse TFalse None false.

(** an item of the result queue: the PlayAndCompareResult and the recording it was computed for.
    The real queue item does NOT carry the id (untagged queue); it is kept here because the attached
    playback object does. *)
Definition result := (rid * pres)%type.

(** the log line (:193-194) renders the Comparison just built (:183-191), still inside the per-recording try (:169):
    a verdict that Comparison.__str__ cannot render is a failure of that recording (:203-212).  The verdict object
    itself is handed on as it is (:184): its diff and its class are the comparator's. *)
Definition logged (p : pres) (l : rid) (v : cmp) : cmp := if p_render p then v else failure_cmp l MRender.

(** (:171-194, :203-212): the Comparison the parent builds for recording [l] from a received result *)
Definition to_cmp (keep : bool) (l : rid) (r : result) : cmp :=
  let p := snd r in
  let d := if p_diff p then Some (fst r) else None in
  match p_bad p with
  | Some k => failure_cmp l (bad_msg k)          (* :246 / :250 raises inside the wait loop -> :203; the worker, its
                                                   age and the queues are as after any other answer *)
  | None =>
  if p_pb p && keep then
    if p_xraise p then failure_cmp l MExtractor                      (* :177 raises -> :203 *)
    else logged p l (Cmp l (p_status p) (p_msg p) (Some (fst r)) true true (p_f1 p) (p_f2 p) d (p_sub p))
  else logged p l (Cmp l (p_status p) (p_msg p) (if p_pb p then Some (fst r) else None) false false (p_f1 p) (p_f2 p)
                       d (p_sub p))
  end.

(** ** In-process mode (:235-236) *)

Inductive outcome :=
| Completed
| AbortExit      (* in-process: SystemExit leaves run_comparison *)
| Blocks         (* in-process: the player never returns *)
| Deadlock       (* dedicated: the parent blocks forever in join() of a hung worker (:295) *)
| FuelOut.       (* never (EqFacts.wait_never_fuel_out) *)

Fixpoint run_inproc (keep : bool) (s : list (rid * behaviour)) : list cmp * outcome :=
  match s with
  | [] => ([], Completed)
  | (l, b) :: s' =>
      match b with
      | BExits => ([], AbortExit)
      | BHangs => ([], Blocks)
      | _ => let (cs, o) := run_inproc keep s' in (to_cmp keep l (l, play b) :: cs, o)
      end
  end.

(** ** Dedicated-process mode *)

Record cfg := Cfg {
  rate : nat;              (* compare_process_recycle_rate *)
  timeout : nat;           (* compare_process_timeout, whole seconds *)
  keep : bool;             (* keep_results_in_comparison *)
  fresh_queues : bool      (* false = the code as it is; true = candidate repair notes/F08_candidate_fix.patch
                              (both queues replaced whenever a worker is created) *)
}.

Inductive death := DExit | DBefore | DKilled | DTerminated.

Inductive wstat :=
| WIdle
| WBusy (ready : nat) (r : result)       (* answer will be put at clock [ready] *)
| WHung (held : option result)           (* stuck; [Some r]: the late answer it is about to put *)
| WDead (how : death).

Record worker := Worker { w_stat : wstat; w_served : list rid (* tasks taken, oldest first *) }.

Record task := Task { t_id : rid; t_beh : behaviour; t_fired : bool (* BDiesBefore already happened *) }.

Inductive event :=
| EStart (pid : nat) | EExit (pid : nat) | EBefore (pid : nat) | EKilled (pid : nat)
| ETerminated (pid : nat) | ELate (pid : nat).

(** the two queues and the event log (what a worker turn can change besides the worker itself) *)
Record shared := Shared {
  tasks : list task; results : list result; events : list event (* newest first *);
  rlock : bool      (* the read lock of the task queue was held by a worker that the parent killed while it was idle,
                       i.e. blocked in [get(True, 0.05)] (:321) under that lock: nobody can take a task from this
                       queue any more (observed on real processes; multiprocessing.Queue.get holds _rlock while polling) *)
}.

Record st := St {
  sh : shared;
  cur : option worker;     (* self._compare_process (:155) *)
  old : list worker;       (* workers the parent has forgotten, newest first; pid = position from the end *)
  age : nat;               (* self._compare_process_age (:156) *)
  term : bool;             (* self._terminate_process (:154) *)
  clock : nat;
  polls : list nat         (* parent polls per queued task, newest first *)
}.

Definition init : st := St (Shared [] [] [] false) None [] 0 false 0 [].

Definition alive (w : worker) : bool := match w_stat w with WDead _ => false | _ => true end.

(** what the worker does with the task at the head of the queue *)
Inductive wact :=
| ADieBefore | AExit | AHang | ALate (r : result) | ABusy (d : nat) (r : result) | ADrop | AAnswer (r : result).

Definition wact_of (t : task) : wact :=
  let r := (t_id t, answer_of (t_beh t)) in
  match t_beh t with
  | BDiesBefore => if t_fired t then AAnswer r else ADieBefore
  | BExits => AExit
  | BHangs => AHang
  | BAnswersLate => ALate r
  | BSlow 0 => AAnswer r
  | BSlow (S d) => ABusy (S d) r
  | BDrops => ADrop
  | _ => AAnswer r
  end.

Definition took (w : worker) (t : task) (s : wstat) : worker := Worker s (w_served w ++ [t_id t]).

(** the worker loop (:319-332) while the terminate flag is clear, until the task queue is empty *)
Fixpoint serve (pid clk : nat) (w : worker) (ts : list task) (rs : list result) (ev : list event)
  : worker * shared :=
  match ts with
  | [] => (w, Shared [] rs ev false)                                                  (* :329 Empty *)
  | t :: ts' =>
      match wact_of t with
      | ADieBefore => (Worker (WDead DBefore) (w_served w),
                       Shared (Task (t_id t) (t_beh t) true :: ts') rs (EBefore pid :: ev) false)
      | AExit => (took w t (WDead DExit), Shared ts' rs (EExit pid :: ev) false)       (* SystemExit passes :325, :368 *)
      | AHang => (took w t (WHung None), Shared ts' rs ev false)
      | ALate r => (took w t (WHung (Some r)), Shared ts' rs ev false)
      | ABusy d r => (took w t (WBusy (clk + d) r), Shared ts' rs ev false)
      | ADrop => serve pid clk (took w t WIdle) ts' rs ev
      | AAnswer r => serve pid clk (took w t WIdle) ts' (rs ++ [r]) ev           (* :324 *)
      end
  end.

(** an idle worker at the top of its loop (:319) *)
Definition idle_turn (pid clk : nat) (tm : bool) (w : worker) (q : shared) : worker * shared :=
  if tm then (Worker (WDead DTerminated) (w_served w),
              Shared (tasks q) (results q) (ETerminated pid :: events q) (rlock q))
  else if rlock q then (Worker WIdle (w_served w), q)            (* :321 can never acquire the lock: Empty for ever *)
  else serve pid clk (Worker WIdle (w_served w)) (tasks q) (results q) (events q).

Definition wturn (pid clk : nat) (tm : bool) (w : worker) (q : shared) : worker * shared :=
  match w_stat w with
  | WIdle => idle_turn pid clk tm w q
  | WBusy ready r =>
      if ready <=? clk then idle_turn pid clk tm w (Shared (tasks q) (results q ++ [r]) (events q) (rlock q))
      else (w, q)
  | _ => (w, q)
  end.

(** forgotten workers, oldest first (the list is newest first) *)
Fixpoint turns_old (clk : nat) (tm : bool) (ws : list worker) (q : shared) : list worker * shared :=
  match ws with
  | [] => ([], q)
  | w :: ws' =>
      let (ws'', q') := turns_old clk tm ws' q in
      let (w', q'') := wturn (length ws') clk tm w q' in
      (w' :: ws'', q'')
  end.

Definition turns (s : st) : st :=
  let (o, q) := turns_old (clock s) (term s) (old s) (sh s) in
  match cur s with
  | None => St q None o (age s) (term s) (clock s) (polls s)
  | Some w => let (w', q') := wturn (length (old s)) (clock s) (term s) w q in
              St q' (Some w') o (age s) (term s) (clock s) (polls s)
  end.

Definition bump (ps : list nat) : list nat := match ps with [] => [] | p :: ps' => S p :: ps' end.

Definition pop_result (s : st) : option (result * st) :=
  match results (sh s) with
  | [] => None
  | r :: rs => Some (r, St (Shared (tasks (sh s)) rs (events (sh s)) (rlock (sh s))) (cur s) (old s) (age s) (term s) (clock s) (polls s))
  end.

Definition tick (s : st) : st := St (sh s) (cur s) (old s) (age s) (term s) (S (clock s)) (polls s).
Definition count_poll (s : st) : st := St (sh s) (cur s) (old s) (age s) (term s) (clock s) (bump (polls s)).

Inductive got := Got (r : result) (s : st) | Empty (s : st).

(** self._compare_results.get(True, 1) (:246) *)
Definition get (s : st) : got :=
  let s1 := turns (count_poll s) in
  match pop_result s1 with
  | Some (r, s2) => Got r s2
  | None =>
      let s2 := turns (tick s1) in
      match pop_result s2 with
      | Some (r, s3) => Got r s3
      | None => Empty s2
      end
  end.

Definition forget (s : st) : st :=      (* self._compare_process = None (:255, :274, :296) *)
  match cur s with
  | None => s
  | Some w => St (sh s) None (w :: old s) (age s) (term s) (clock s) (polls s)
  end.

Definition cur_alive (s : st) : bool := match cur s with Some w => alive w | None => false end.

Inductive waited := WGot (r : result) (s : st) | WDied (s : st) | WTimedOut (s : st) | WFuel.

(** the wait loop (:244-256); [fuel] = timeout + 1 polls always suffice (EqFacts.wait_never_fuel_out) *)
Fixpoint wait (fuel T start : nat) (s : st) : waited :=
  if clock s - start <=? T then                              (* :244 *)
    match fuel with
    | 0 => WFuel
    | S f =>
        match get s with
        | Got r s' => WGot r s'                               (* :246-252; an answer the parent cannot load, or a
                                                                 (False, message) one, raises here: see [to_cmp] *)
        | Empty s' => if cur_alive s' then wait f T start s'  (* :253-254 *)
                      else WDied (forget s')                  (* :255-256 *)
        end
    end
  else WTimedOut s.                                          (* :258 *)

(** _handle_compare_execution_timeout (:263-275); os.kill succeeds (assumption kill_succeeds) *)
Definition handle_timeout (s : st) : st :=
  match cur s with
  | None => s
  | Some w =>
      let pid := length (old s) in
      let q := sh s in
      match w_stat w with
      | WDead _ => forget s
      | WHung (Some r) =>    (* the late answer lands just before the kill *)
          forget (St (Shared (tasks q) (results q ++ [r]) (EKilled pid :: ELate pid :: events q) (rlock q))
                     (Some (Worker (WDead DKilled) (w_served w))) (old s) (age s) (term s) (clock s) (polls s))
      | WIdle =>             (* killed while polling the task queue: its read lock stays held *)
          forget (St (Shared (tasks q) (results q) (EKilled pid :: events q) true)
                     (Some (Worker (WDead DKilled) (w_served w))) (old s) (age s) (term s) (clock s) (polls s))
      | _ =>
          forget (St (Shared (tasks q) (results q) (EKilled pid :: events q) (rlock q))
                     (Some (Worker (WDead DKilled) (w_served w))) (old s) (age s) (term s) (clock s) (polls s))
      end
  end.

Inductive prepared := Ready (s : st) | JoinBlocks (s : st).

(** the recycle branch (:291-298): set the flag, join, forget, clear the flag *)
Definition recycle (s : st) : prepared :=
  match cur s with
  | None => Ready s
  | Some w =>
      let pid := length (old s) in
      match w_stat w with
      | WHung _ => JoinBlocks (St (sh s) (cur s) (old s) (age s) true (clock s) (polls s))      (* :295 forever *)
      | WDead _ => Ready (forget s)
      | WIdle =>
          let (w', q) := wturn pid (clock s) true w (sh s) in
          Ready (forget (St q (Some w') (old s) (age s) false (clock s) (polls s)))
      | WBusy ready _ =>
          let c := Nat.max (clock s) ready in
          let (w', q) := wturn pid c true w (sh s) in
          Ready (forget (St q (Some w') (old s) (age s) false c (polls s)))
      end
  end.

(** _create_or_recycle_player_process_if_needed (:284-304) + _create_new_player_process (:306-313) *)
Definition create_or_recycle (c : cfg) (s : st) : prepared :=
  let p := match cur s with
           | Some _ => if rate c <=? age s then recycle s else Ready s       (* :291-292 *)
           | None => Ready s
           end in
  match p with
  | JoinBlocks s' => JoinBlocks s'
  | Ready s1 =>
      let s2 := match cur s1 with
                | Some _ => s1
                | None =>                                                     (* :300-301, :310-313 *)
                    let q := sh s1 in
                    let q' := if fresh_queues c then Shared [] [] (events q) false else q in
                    St (Shared (tasks q') (results q') (EStart (length (old s1)) :: events q') (rlock q'))
                       (Some (Worker WIdle [])) (old s1) 0 (term s1) (clock s1) (polls s1)
                end in
      Ready (St (sh s2) (cur s2) (old s2) (S (age s2)) (term s2) (clock s2) (polls s2))     (* :304 *)
  end.

Definition put_task (x : rid * behaviour) (s : st) : st :=      (* :241 *)
  let q := sh s in
  St (Shared (tasks q ++ [Task (fst x) (snd x) false]) (results q) (events q) (rlock q))
     (cur s) (old s) (age s) (term s) (clock s) (0 :: polls s).

Inductive iterated := IYield (c : cmp) (s : st) | IBlocked (s : st) | IFuel.

(** one pass of the loop body of run_comparison in dedicated mode (:168-212 with :238-261) *)
Definition iteration (c : cfg) (x : rid * behaviour) (s : st) : iterated :=
  match create_or_recycle c s with
  | JoinBlocks s' => IBlocked s'
  | Ready s1 =>
      let s2 := put_task x s1 in
      match wait (S (timeout c)) (timeout c) (clock s2) s2 with
      | WGot r s3 => IYield (to_cmp (keep c) (fst x) r) s3
      | WDied s3 => IYield (failure_cmp (fst x) MDied) s3
      | WTimedOut s3 => IYield (failure_cmp (fst x) MTimeout) (handle_timeout s3)
      | WFuel => IFuel
      end
  end.

(** the loop (:168); the state returned is the one at which the generator stops (before the finally block) *)
Fixpoint exec (c : cfg) (s : list (rid * behaviour)) (s0 : st) : list cmp * outcome * st :=
  match s with
  | [] => ([], Completed, s0)
  | x :: s' =>
      match iteration c x s0 with
      | IYield v s1 => let '(vs, o, s2) := exec c s' s1 in (v :: vs, o, s2)
      | IBlocked s1 => ([], Deadlock, s1)
      | IFuel => ([], FuelOut, s0)
      end
  end.

(** the finally block (:216-219); it is not reached when the parent blocks forever *)
Definition finally (o : outcome) (s : st) : st :=
  match o with
  | Deadlock | FuelOut => s
  | _ => St (sh s) (cur s) (old s) (age s) true (clock s) (polls s)
  end.

Definition run_dedicated (c : cfg) (s : list (rid * behaviour)) : list cmp * outcome * st :=
  let '(vs, o, s1) := exec c s init in (vs, o, finally o s1).

(** Ways a run is consumed.  Closing the generator after the n-th yield, or a consumer raising in its loop body
    after the n-th yield and dropping the generator, throws GeneratorExit at the suspended [yield] (:202 / :205): the
    finally block runs at that point, i.e. the run is the run over the first n recordings - except for n = 0, where
    the generator was never started and nothing runs at all.  The id iterator raising after n ids (:168) leaves the
    loop through the finally block as well. *)
Inductive stop := Full | ClosedAfter (n : nat) | SourceRaisesAfter (n : nat).

Definition abandon_at (n : nat) (c : cfg) (s : list (rid * behaviour)) : list cmp * outcome * st :=
  match n with
  | 0 => ([], Completed, init)
  | _ => run_dedicated c (firstn n s)
  end.

Definition run_stopped (h : stop) (c : cfg) (s : list (rid * behaviour)) : list cmp * outcome * st :=
  match h with
  | Full => run_dedicated c s
  | ClosedAfter n => abandon_at n c s
  | SourceRaisesAfter n => run_dedicated c (firstn n s)
  end.

Definition stopped_script (h : stop) (s : list (rid * behaviour)) : list (rid * behaviour) :=
  match h with Full => s | ClosedAfter n | SourceRaisesAfter n => firstn n s end.

(** the idle worker's next 50 ms poll after the run (:319) *)
Definition settle (o : outcome) (s : st) : st :=
  match o with
  | Deadlock | FuelOut => s
  | _ => turns s
  end.

Definition workers (s : st) : list worker :=      (* all workers ever created, newest first *)
  match cur s with Some w => w :: old s | None => old s end.
