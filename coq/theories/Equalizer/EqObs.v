(** Boolean equalities on the observable types of model F (used by the correspondence runners). *)
From Playback Require Export Base.Str Equalizer.EqModel.
Open Scope list_scope.

Definition status_eqb (a b : status) : bool :=
  match a, b with
  | Equal, Equal | Fixed, Fixed | Different, Different | Failed, Failed | EqualizerFailure, EqualizerFailure => true
  | _, _ => false
  end.
Definition msg_eqb (a b : msg) : bool :=
  match a, b with
  | MNone, MNone | MCmp, MCmp | MPlayer, MPlayer | MExtractor, MExtractor | MComparator, MComparator
  | MDied, MDied | MTimeout, MTimeout | MUnload, MUnload | MRefused, MRefused
  | MFalsy, MFalsy | MStruct, MStruct | MRender, MRender => true
  | _, _ => false
  end.
Definition tri_eqb (a b : tri) : bool :=
  match a, b with TNone, TNone | TFalse, TFalse | TTrue, TTrue => true | _, _ => false end.
Definition outcome_eqb (a b : outcome) : bool :=
  match a, b with
  | Completed, Completed | AbortExit, AbortExit | Blocks, Blocks | Deadlock, Deadlock | FuelOut, FuelOut => true
  | _, _ => false
  end.
Definition cmp_eqb (a b : cmp) : bool :=
  Nat.eqb (label a) (label b) && status_eqb (verdict a) (verdict b) && msg_eqb (message a) (message b)
  && option_eqb Nat.eqb (attached a) (attached b) && Bool.eqb (has_expected a) (has_expected b)
  && Bool.eqb (has_actual a) (has_actual b) && tri_eqb (exp_exc a) (exp_exc b) && tri_eqb (act_exc a) (act_exc b)
  && option_eqb Nat.eqb (vdiff a) (vdiff b) && Bool.eqb (vsub a) (vsub b).

