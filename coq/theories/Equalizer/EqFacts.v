(** Proofs about model F (the equalizer). *)
From Coq Require Import List Arith Bool Lia.
From Playback Require Import Equalizer.EqModel.
Import ListNotations.
Open Scope list_scope.

(** * Part A - facts that hold in every state and for every script *)

(** ** Labels: every yielded comparison carries the id it was asked for *)

Lemma label_to_cmp : forall k l r, label (to_cmp k l r) = l.
Proof.
  intros k l [i p]. unfold to_cmp. simpl. destruct (p_bad p); [reflexivity|].
  unfold logged. destruct (p_pb p && k); [destruct (p_xraise p)|]; destruct (p_render p); reflexivity.
Qed.

Lemma iteration_label : forall c x s v s', iteration c x s = IYield v s' -> label v = fst x.
Proof.
  intros c x s v s' H. unfold iteration in H.
  destruct (create_or_recycle c s); [|discriminate].
  destruct (wait _ _ _ _); inversion H; subst; try apply label_to_cmp; reflexivity.
Qed.

Lemma exec_labels : forall c s s0 vs o s1, exec c s s0 = (vs, o, s1) ->
  exists n, map label vs = firstn n (map fst s) /\ (o = Completed -> map label vs = map fst s).
Proof.
  intros c s. induction s as [|x s IH]; intros s0 vs o s1 H; simpl in H.
  - inversion H; subst. exists 0. split; [reflexivity|]. reflexivity.
  - destruct (iteration c x s0) as [v s2| s2 |] eqn:E.
    + destruct (exec c s s2) as [[vs' o'] s3] eqn:E2. inversion H; subst.
      destruct (IH _ _ _ _ E2) as [n [Hn Hc]]. apply iteration_label in E.
      exists (S n). simpl. split; [f_equal; assumption|]. intro Ho. f_equal; [assumption|exact (Hc Ho)].
    + inversion H; subst. exists 0. split; [reflexivity|discriminate].
    + inversion H; subst. exists 0. split; [reflexivity|discriminate].
Qed.

Lemma inproc_labels : forall k s vs o, run_inproc k s = (vs, o) ->
  exists n, map label vs = firstn n (map fst s) /\ (o = Completed -> map label vs = map fst s).
Proof.
  intros k s. induction s as [|[l b] s IH]; intros vs o H; simpl in H.
  - inversion H; subst. exists 0. split; reflexivity.
  - destruct (run_inproc k s) as [cs o'] eqn:E.
    assert (D : (vs, o) = (to_cmp k l (l, play b) :: cs, o') \/ (vs = [] /\ o <> Completed)).
    { destruct b; try (left; symmetry; exact H); right; inversion H; subst; split; try reflexivity; discriminate. }
    destruct D as [D|[D1 D2]].
    + inversion D; subst. destruct (IH _ _ eq_refl) as [n [Hn Hc]].
      exists (S n). simpl. split; [f_equal; [apply label_to_cmp|assumption]|]. intro Ho. f_equal; [apply label_to_cmp|exact (Hc Ho)].
    + subst. exists 0. split; [reflexivity|]. intro; contradiction.
Qed.

(** ** The wait loop: clock and poll counter *)

Fixpoint bumpn (n : nat) (ps : list nat) : list nat :=
  match n with 0 => ps | S n' => bumpn n' (bump ps) end.

Lemma bumpn_cons : forall n p ps, bumpn n (p :: ps) = (p + n) :: ps.
Proof.
  induction n; intros; simpl.
  - f_equal. lia.
  - rewrite IHn. f_equal. lia.
Qed.

Lemma turns_keeps : forall s, clock (turns s) = clock s /\ polls (turns s) = polls s /\ term (turns s) = term s
                              /\ age (turns s) = age s.
Proof.
  intros s. unfold turns. destruct (turns_old _ _ _ _). destruct (cur s).
  - destruct (wturn _ _ _ _ _). simpl. auto.
  - simpl. auto.
Qed.

Lemma get_effect : forall s,
  match get s with
  | Got _ s' => clock s <= clock s' <= S (clock s) /\ polls s' = bump (polls s)
  | Empty s' => clock s' = S (clock s) /\ polls s' = bump (polls s)
  end.
Proof.
  intros s. unfold get.
  pose proof (turns_keeps (count_poll s)) as [C1 [P1 _]]. simpl in C1, P1.
  destruct (pop_result (turns (count_poll s))) as [[r s2]|] eqn:E1.
  - unfold pop_result in E1. destruct (results _); [discriminate|]. inversion E1; subst. simpl. rewrite C1, P1. split; [lia|reflexivity].
  - pose proof (turns_keeps (tick (turns (count_poll s)))) as [C2 [P2 _]]. simpl in C2, P2.
    destruct (pop_result (turns (tick _))) as [[r s3]|] eqn:E2.
    + unfold pop_result in E2. destruct (results _); [discriminate|]. inversion E2; subst. simpl.
      rewrite C2, P2, C1, P1. split; [lia|reflexivity].
    + rewrite C2, P2, C1, P1. auto.
Qed.

Lemma forget_keeps : forall s, clock (forget s) = clock s /\ polls (forget s) = polls s.
Proof. intros s. unfold forget. destruct (cur s); simpl; auto. Qed.

Lemma handle_timeout_keeps : forall s, clock (handle_timeout s) = clock s /\ polls (handle_timeout s) = polls s.
Proof.
  intros s. unfold handle_timeout. destruct (cur s) as [w|] eqn:E; [|auto].
  destruct (w_stat w) as [| | [r|] |]; unfold forget; simpl; rewrite ?E; simpl; auto.
Qed.

(** the loop never needs more than timeout + 1 polls; each poll is counted once *)
Lemma wait_bounded : forall fuel T start s p ps,
  start <= clock s -> S T <= fuel + (clock s - start) -> polls s = p :: ps ->
  match wait fuel T start s with
  | WGot _ s' | WDied s' | WTimedOut s' => exists k, k <= fuel /\ polls s' = (p + k) :: ps /\ clock s <= clock s'
  | WFuel => False
  end.
Proof.
  induction fuel as [|f IH]; intros T start s p ps Hs Hf Hp; simpl.
  - destruct (clock s - start <=? T) eqn:C.
    + apply Nat.leb_le in C. lia.
    + exists 0. rewrite Nat.add_0_r. auto.
  - destruct (clock s - start <=? T) eqn:C.
    + pose proof (get_effect s) as G. destruct (get s) as [r s'|s'].
      * destruct G as [G1 G2]. exists 1. rewrite G2, Hp. simpl. split; [lia|]. split; [f_equal; lia|lia].
      * destruct G as [G1 G2]. destruct (cur_alive s').
        -- assert (Hp' : polls s' = S p :: ps) by (rewrite G2, Hp; reflexivity).
           specialize (IH T start s' (S p) ps). rewrite G1 in IH.
           assert (H1 : start <= S (clock s)) by lia.
           assert (H2 : S T <= f + (S (clock s) - start)) by lia.
           specialize (IH H1 H2 Hp').
           destruct (wait f T start s') as [r s''|s''|s''|]; try exact IH;
             destruct IH as [k [K1 [K2 K3]]]; exists (S k); (split; [lia|]); (split; [rewrite K2; f_equal; lia|lia]).
        -- exists 1. destruct (forget_keeps s') as [F1 F2]. rewrite F2, G2, Hp, F1, G1. simpl.
           split; [lia|]. split; [f_equal; lia|lia].
    + exists 0. rewrite Nat.add_0_r. split; [lia|]. auto.
Qed.

Definition polls_ok (T : nat) (s : st) : Prop := Forall (fun p => p <= S T) (polls s).

Lemma recycle_keeps_polls : forall s, match recycle s with Ready s' | JoinBlocks s' => polls s' = polls s end.
Proof.
  intros s. unfold recycle. destruct (cur s) as [w|] eqn:E; [|reflexivity].
  destruct (w_stat w); simpl; try reflexivity.
  - destruct (wturn _ _ _ _ _). unfold forget. simpl. reflexivity.
  - destruct (wturn _ _ _ _ _). unfold forget. simpl. reflexivity.
  - unfold forget. rewrite E. reflexivity.
Qed.

Lemma create_keeps_polls : forall c s, match create_or_recycle c s with Ready s' | JoinBlocks s' => polls s' = polls s end.
Proof.
  intros c s. unfold create_or_recycle.
  assert (H : match (match cur s with Some _ => if rate c <=? age s then recycle s else Ready s | None => Ready s end)
              with Ready s' | JoinBlocks s' => polls s' = polls s end).
  { destruct (cur s); [|reflexivity]. destruct (rate c <=? age s); [apply recycle_keeps_polls|reflexivity]. }
  destruct (match cur s with Some _ => _ | None => _ end) as [s1|s1]; [|exact H].
  simpl. destruct (cur s1); simpl; exact H.
Qed.

Lemma iteration_polls : forall c x s, polls_ok (timeout c) s ->
  match iteration c x s with
  | IYield _ s' => polls_ok (timeout c) s'
  | IBlocked s' => polls_ok (timeout c) s'
  | IFuel => False
  end.
Proof.
  intros c x s H. unfold iteration.
  pose proof (create_keeps_polls c s) as K. destruct (create_or_recycle c s) as [s1|s1].
  - pose proof (wait_bounded (S (timeout c)) (timeout c) (clock (put_task x s1)) (put_task x s1) 0 (polls s1)) as W.
    assert (W1 : clock (put_task x s1) <= clock (put_task x s1)) by lia.
    assert (W2 : S (timeout c) <= S (timeout c) + (clock (put_task x s1) - clock (put_task x s1))) by lia.
    specialize (W W1 W2 eq_refl).
    unfold polls_ok in *. rewrite <- K in H.
    destruct (wait _ _ _ _) as [r s3|s3|s3|]; try exact W; destruct W as [k [K1 [K2 _]]].
    + rewrite K2. constructor; [simpl; lia|exact H].
    + rewrite K2. constructor; [simpl; lia|exact H].
    + destruct (handle_timeout_keeps s3) as [_ P]. rewrite P, K2. constructor; [simpl; lia|exact H].
  - unfold polls_ok in *. rewrite K. exact H.
Qed.

Lemma exec_polls : forall c s s0 vs o s1, polls_ok (timeout c) s0 -> exec c s s0 = (vs, o, s1) ->
  o <> FuelOut /\ polls_ok (timeout c) s1.
Proof.
  intros c s. induction s as [|x s IH]; intros s0 vs o s1 H0 H; simpl in H.
  - inversion H; subst. split; [discriminate|exact H0].
  - pose proof (iteration_polls c x s0 H0) as I. destruct (iteration c x s0) as [v s2|s2|]; [| |contradiction].
    + destruct (exec c s s2) as [[vs' o'] s3] eqn:E. inversion H; subst. apply (IH _ _ _ _ I E).
    + inversion H; subst. split; [discriminate|exact I].
Qed.

Lemma exec_outcome : forall c s s0 vs o s1, exec c s s0 = (vs, o, s1) -> o = Completed \/ o = Deadlock \/ o = FuelOut.
Proof.
  intros c s. induction s as [|x s IH]; intros s0 vs o s1 H; simpl in H.
  - inversion H; auto.
  - destruct (iteration c x s0) as [v s2|s2|].
    + destruct (exec c s s2) as [[vs' o'] s3] eqn:E. inversion H; subst. apply (IH _ _ _ _ E).
    + inversion H; auto.
    + inversion H; auto.
Qed.

Lemma finally_keeps_polls : forall o s, polls (finally o s) = polls s.
Proof. intros [] s; reflexivity. Qed.

Theorem wait_is_bounded : forall c s vs o s1, run_dedicated c s = (vs, o, s1) ->
  (o = Completed \/ o = Deadlock) /\ Forall (fun p => p <= S (timeout c)) (polls s1).
Proof.
  intros c s vs o s1 H. unfold run_dedicated in H.
  destruct (exec c s init) as [[vs' o'] s2] eqn:E. inversion H; subst.
  assert (P0 : polls_ok (timeout c) init) by constructor.
  destruct (exec_polls _ _ _ _ _ _ P0 E) as [N P].
  split.
  - destruct (exec_outcome _ _ _ _ _ _ E) as [A|[A|A]]; auto. contradiction.
  - rewrite finally_keeps_polls. exact P.
Qed.

(** * Part B - the parent loop from a quiet state *)

Definition cleanb (b : behaviour) : bool := match b with BAnswersLate | BDiesBefore | BDrops => false | _ => true end.
Definition clean_script (s : list (rid * behaviour)) : Prop := forallb (fun x => cleanb (snd x)) s = true.
Definition maxr (c : cfg) : nat := Nat.max 1 (rate c).

(** the parent-side failure a behaviour leads to when its recording is served by a worker that has nothing else to do *)
Definition fate (c : cfg) (b : behaviour) : option msg :=
  match b with
  | BExits | BDiesBefore => Some MDied
  | BHangs | BDrops | BAnswersLate => Some MTimeout
  | BSlow d => if d <=? S (timeout c) then None else Some MTimeout
  | _ => None
  end.

(** the verdict of one recording on its own *)
Definition single (c : cfg) (x : rid * behaviour) : cmp :=
  match fate c (snd x) with
  | Some m => failure_cmp (fst x) m
  | None => to_cmp (keep c) (fst x) (fst x, answer_of (snd x))
  end.

(** modelled seconds spent on one recording *)
Definition cost (c : cfg) (b : behaviour) : nat :=
  match b with
  | BExits | BDiesBefore => 1
  | BHangs | BDrops | BAnswersLate => S (timeout c)
  | BSlow d => Nat.min d (S (timeout c))
  | _ => 0
  end.

Definition dead (w : worker) : Prop := alive w = false.
Definition oldok (c : cfg) (o : list worker) : Prop :=
  Forall (fun w => alive w = false /\ length (w_served w) <= maxr c) o.

Definition quiet (c : cfg) (s : st) : Prop :=
  term s = false /\ oldok c (old s) /\
  match cur s with
  | Some w => w_stat w = WIdle /\ length (w_served w) = age s /\ 1 <= age s /\ age s <= maxr c
              /\ tasks (sh s) = [] /\ results (sh s) = [] /\ rlock (sh s) = false
  | None => fresh_queues c = true \/ (tasks (sh s) = [] /\ results (sh s) = [] /\ rlock (sh s) = false)
  end.

Lemma oldok_dead : forall c o, oldok c o -> Forall dead o.
Proof. intros c o H. induction H; constructor; [apply H|assumption]. Qed.

Lemma wturn_dead : forall pid clk tm w q, dead w -> wturn pid clk tm w q = (w, q).
Proof. intros pid clk tm w q H. unfold dead, alive in H. unfold wturn. destruct (w_stat w); try discriminate; reflexivity. Qed.

Lemma turns_old_dead : forall clk tm o q, Forall dead o -> turns_old clk tm o q = (o, q).
Proof.
  intros clk tm o q H. induction H; simpl; [reflexivity|].
  rewrite IHForall, wturn_dead by assumption. reflexivity.
Qed.

Lemma turns_cur : forall q w o a tm clk ps, Forall dead o ->
  turns (St q (Some w) o a tm clk ps) =
  let (w', q') := wturn (length o) clk tm w q in St q' (Some w') o a tm clk ps.
Proof. intros. unfold turns. simpl. rewrite turns_old_dead by assumption. reflexivity. Qed.

Lemma turns_nocur : forall q o a tm clk ps, Forall dead o ->
  turns (St q None o a tm clk ps) = St q None o a tm clk ps.
Proof. intros. unfold turns. simpl. rewrite turns_old_dead by assumption. reflexivity. Qed.

Lemma get_unfold_cur : forall q w o a tm clk ps, Forall dead o ->
  get (St q (Some w) o a tm clk ps) =
  let (w1, q1) := wturn (length o) clk tm w q in
  match results q1 with
  | r :: rs => Got r (St (Shared (tasks q1) rs (events q1) (rlock q1)) (Some w1) o a tm clk (bump ps))
  | [] => let (w2, q2) := wturn (length o) (S clk) tm w1 q1 in
          match results q2 with
          | r :: rs => Got r (St (Shared (tasks q2) rs (events q2) (rlock q2)) (Some w2) o a tm (S clk) (bump ps))
          | [] => Empty (St q2 (Some w2) o a tm (S clk) (bump ps))
          end
  end.
Proof.
  intros q w o a tm clk ps H. unfold get, count_poll. simpl. rewrite turns_cur by assumption.
  destruct (wturn (length o) clk tm w q) as [w1 q1]. unfold pop_result at 1. simpl.
  destruct (results q1) as [|r rs] eqn:R1; [|reflexivity].
  unfold tick. simpl. rewrite turns_cur by assumption.
  destruct (wturn (length o) (S clk) tm w1 q1) as [w2 q2]. unfold pop_result. simpl.
  destruct (results q2); reflexivity.
Qed.

Lemma wait_S : forall f T start s,
  wait (S f) T start s =
  if clock s - start <=? T then
    match get s with
    | Got r s' => WGot r s'
    | Empty s' => if cur_alive s' then wait f T start s' else WDied (forget s')
    end
  else WTimedOut s.
Proof. reflexivity. Qed.

(** a worker whose turn changes nothing *)
Definition stuckw (w : worker) (q : shared) (tm : bool) : Prop :=
  match w_stat w with
  | WHung _ => True
  | WIdle => tasks q = [] /\ tm = false
  | WDead _ => True
  | WBusy _ _ => False
  end.

Lemma wturn_stuck : forall pid clk tm w q, stuckw w q tm -> wturn pid clk tm w q = (w, q).
Proof.
  intros pid clk tm [ws sv] [ts rs ev lk] H. unfold stuckw in H. simpl in H. unfold wturn. simpl.
  destruct ws; try reflexivity; try contradiction.
  destruct H as [H1 H2]. simpl in H1. subst. unfold idle_turn. simpl. destruct lk; reflexivity.
Qed.

Lemma get_stuck : forall q w o a tm clk ps, Forall dead o -> stuckw w q tm -> results q = [] ->
  get (St q (Some w) o a tm clk ps) = Empty (St q (Some w) o a tm (S clk) (bump ps)).
Proof.
  intros. rewrite get_unfold_cur by assumption. rewrite wturn_stuck by assumption.
  rewrite H1. rewrite wturn_stuck by assumption. rewrite H1. reflexivity.
Qed.

Lemma wait_stuck : forall T start q w o a tm, Forall dead o -> stuckw w q tm -> alive w = true -> results q = [] ->
  forall fuel clk ps', start <= clk -> fuel + (clk - start) = S T ->
  wait fuel T start (St q (Some w) o a tm clk ps') = WTimedOut (St q (Some w) o a tm (start + S T) (bumpn fuel ps')).
Proof.
  intros T start q w o a tm Ho Hs Ha Hr. induction fuel as [|f IH]; intros clk ps' H1 H2.
  - simpl. replace (clk - start <=? T) with false by (symmetry; apply Nat.leb_gt; lia).
    replace (start + S T) with clk by lia. reflexivity.
  - rewrite wait_S. simpl clock. replace (clk - start <=? T) with true by (symmetry; apply Nat.leb_le; lia).
    rewrite get_stuck by assumption. unfold cur_alive. cbn [cur]. rewrite Ha.
    rewrite IH by lia. reflexivity.
Qed.

(** a worker that will answer at [ready] *)
Lemma wturn_busy_wait : forall pid clk ready r sv q, clk < ready ->
  wturn pid clk false (Worker (WBusy ready r) sv) q = (Worker (WBusy ready r) sv, q).
Proof.
  intros. unfold wturn. cbn [w_stat]. replace (ready <=? clk) with false by (symmetry; apply Nat.leb_gt; lia). reflexivity.
Qed.

Lemma wturn_busy_done : forall pid clk ready r sv ev, ready <= clk ->
  wturn pid clk false (Worker (WBusy ready r) sv) (Shared [] [] ev false) = (Worker WIdle sv, Shared [] [r] ev false).
Proof.
  intros. unfold wturn. cbn [w_stat]. replace (ready <=? clk) with true by (symmetry; apply Nat.leb_le; lia). reflexivity.
Qed.

Lemma wait_busy : forall T start ev r sv o a ready, Forall dead o ->
  forall fuel clk ps, clk < ready -> start <= clk -> fuel + (clk - start) = S T ->
  wait fuel T start (St (Shared [] [] ev false) (Some (Worker (WBusy ready r) sv)) o a false clk ps) =
  if ready - start <=? S T
  then WGot r (St (Shared [] [] ev false) (Some (Worker WIdle sv)) o a false ready (bumpn (ready - clk) ps))
  else WTimedOut (St (Shared [] [] ev false) (Some (Worker (WBusy ready r) sv)) o a false (start + S T) (bumpn fuel ps)).
Proof.
  intros T start ev r sv o a ready Ho. induction fuel as [|f IH]; intros clk ps H0 H1 H2.
  - simpl. replace (clk - start <=? T) with false by (symmetry; apply Nat.leb_gt; lia).
    replace (ready - start <=? S T) with false by (symmetry; apply Nat.leb_gt; lia).
    replace (start + S T) with clk by lia. reflexivity.
  - rewrite wait_S. cbn [clock]. replace (clk - start <=? T) with true by (symmetry; apply Nat.leb_le; lia).
    rewrite get_unfold_cur by assumption. rewrite wturn_busy_wait by assumption. cbn [results].
    destruct (Nat.le_gt_cases ready (S clk)) as [E|E].
    + rewrite wturn_busy_done by assumption. cbn [results tasks events rlock].
      replace (ready - start <=? S T) with true by (symmetry; apply Nat.leb_le; lia).
      replace (ready - clk) with 1 by lia.
      replace (S clk) with ready by lia. reflexivity.
    + rewrite wturn_busy_wait by assumption. cbn [results]. unfold cur_alive. cbn [cur alive w_stat].
      rewrite IH by lia.
      destruct (ready - start <=? S T); [|reflexivity].
      replace (ready - clk) with (S (ready - S clk)) by lia. reflexivity.
Qed.

Definition readyst (ev : list event) (sv : list rid) (o : list worker) (a clk : nat) (ps : list nat) : st :=
  St (Shared [] [] ev false) (Some (Worker WIdle sv)) o a false clk ps.

Lemma le_maxr : forall c, 1 <= maxr c.
Proof. intros. unfold maxr. lia. Qed.

Lemma create_quiet : forall c s, quiet c s ->
  exists ev sv o a, create_or_recycle c s = Ready (readyst ev sv o a (clock s) (polls s))
    /\ oldok c o /\ S (length sv) = a /\ a <= maxr c
    /\ (cur s = None -> sv = [] /\ o = old s).
Proof.
  intros c [[ts rs ev lk] cu o a tm clk ps]. unfold quiet. simpl. intros (Htm & Ho & Hc). subst tm.
  destruct cu as [[ws sv]|]; simpl in Hc.
  - destruct Hc as (H1 & H2 & H3 & H4 & H5 & H6 & H7). subst ws ts rs lk.
    unfold create_or_recycle. simpl. destruct (rate c <=? a) eqn:R.
    + unfold recycle. simpl. unfold wturn, idle_turn, forget. simpl.
      exists (EStart (S (length o)) :: ETerminated (length o) :: ev), [], (Worker (WDead DTerminated) sv :: o), 1.
      destruct (fresh_queues c); simpl; (split; [reflexivity|]); (split; [constructor; [simpl; split; [reflexivity|lia]|exact Ho]|]);
        (split; [reflexivity|]); (split; [apply le_maxr|discriminate]).
    + apply Nat.leb_gt in R. exists ev, sv, o, (S a). split; [reflexivity|].
      split; [exact Ho|]. split; [lia|]. split; [unfold maxr; lia|discriminate].
  - unfold create_or_recycle. simpl.
    exists (EStart (length o) :: ev), [], o, 1.
    assert (Q : (if fresh_queues c then Shared [] [] ev false else Shared ts rs ev lk) = Shared [] [] ev false).
    { destruct Hc as [Hc|[Hc1 [Hc2 Hc3]]]; [rewrite Hc; reflexivity|]. subst. destruct (fresh_queues c); reflexivity. }
    rewrite Q. simpl. split; [reflexivity|]. split; [exact Ho|]. split; [reflexivity|]. split; [apply le_maxr|auto].
Qed.

Definition step_of (c : cfg) (x : rid * behaviour) (s1 : st) : iterated :=
  let s2 := put_task x s1 in
  match wait (S (timeout c)) (timeout c) (clock s2) s2 with
  | WGot r s3 => IYield (to_cmp (keep c) (fst x) r) s3
  | WDied s3 => IYield (failure_cmp (fst x) MDied) s3
  | WTimedOut s3 => IYield (failure_cmp (fst x) MTimeout) (handle_timeout s3)
  | WFuel => IFuel
  end.

Lemma iteration_unfold : forall c x s,
  iteration c x s = match create_or_recycle c s with JoinBlocks s' => IBlocked s' | Ready s1 => step_of c x s1 end.
Proof. reflexivity. Qed.

Definition post (c : cfg) (l : rid) (b : behaviour) (sv : list rid) (o : list worker) (clk : nat) (s' : st) : Prop :=
  quiet c s' /\ clock s' = clk + cost c b
  /\ (exists w, workers s' = w :: o /\ (cleanb b = true -> w_served w = sv ++ [l]))
  /\ (fate c b = None -> cur s' <> None) /\ (fate c b <> None -> cur s' = None).

Ltac start_step Hd :=
  unfold step_of, put_task, readyst; cbn [sh cur old age term clock polls tasks results events rlock fst snd app];
  rewrite wait_S; cbn [clock]; rewrite Nat.sub_diag; cbn [Nat.leb];
  rewrite get_unfold_cur by exact Hd;
  unfold wturn at 1; cbn [w_stat]; unfold idle_turn; cbn [serve wact_of t_beh t_fired t_id took w_served tasks results events app].

Lemma step_answer : forall c l b ev sv o a clk ps,
  oldok c o -> S (length sv) = a -> a <= maxr c ->
  wact_of (Task l b false) = AAnswer (l, answer_of b) -> fate c b = None -> cost c b = 0 -> cleanb b = true ->
  exists s', step_of c (l, b) (readyst ev sv o a clk ps) = IYield (single c (l, b)) s' /\ post c l b sv o clk s'.
Proof.
  intros c l b ev sv o a clk ps Ho Ha Hm Hw Hf Hc Hcl. pose proof (oldok_dead _ _ Ho) as Hd.
  unfold step_of, put_task, readyst. cbn [sh cur old age term clock polls tasks results events rlock fst snd app].
  rewrite wait_S. cbn [clock]. rewrite Nat.sub_diag. cbn [Nat.leb].
  rewrite get_unfold_cur by exact Hd.
  unfold wturn at 1. cbn [w_stat]. unfold idle_turn. cbn [tasks results events rlock w_served]. cbn [serve]. rewrite Hw.
  unfold took. cbn [serve w_served t_id results tasks events rlock app].
  eexists. split.
  - unfold single. cbn [fst snd]. rewrite Hf. reflexivity.
  - unfold post, quiet. cbn [sh cur old age term clock polls tasks results events rlock w_stat w_served workers].
    rewrite Hc, Hf. repeat split; auto; try lia; try discriminate.
    + rewrite app_length. simpl. lia.
    + eexists. split; [reflexivity|]. intros _. reflexivity.
    + intros X. contradiction.
Qed.

Ltac open_step Hd :=
  unfold step_of, put_task, readyst; cbn [sh cur old age term clock polls tasks results events rlock fst snd app];
  rewrite wait_S; cbn [clock]; rewrite Nat.sub_diag; cbn [Nat.leb];
  rewrite get_unfold_cur by exact Hd;
  unfold wturn at 1; cbn [w_stat]; unfold idle_turn; cbn [tasks results events rlock w_served]; cbn [serve wact_of t_beh t_fired t_id];
  unfold took; cbn [serve w_served t_id results tasks events rlock app].

Lemma step_exits : forall c l ev sv o a clk ps,
  oldok c o -> S (length sv) = a -> a <= maxr c ->
  exists s', step_of c (l, BExits) (readyst ev sv o a clk ps) = IYield (single c (l, BExits)) s' /\ post c l BExits sv o clk s'.
Proof.
  intros c l ev sv o a clk ps Ho Ha Hm. pose proof (oldok_dead _ _ Ho) as Hd.
  open_step Hd.
  rewrite wturn_dead by reflexivity. cbn [results]. unfold cur_alive, forget. cbn [cur alive w_stat sh old age term clock polls].
  eexists. split; [reflexivity|].
  unfold post, quiet. cbn [sh cur old age term clock polls tasks results events rlock w_stat w_served workers cost fate cleanb].
  repeat split; auto; try lia; try discriminate.
  - constructor; [|exact Ho]. cbn [alive w_stat w_served]. split; [reflexivity|]. rewrite app_length. simpl. lia.
  - eexists. split; [reflexivity|]. intros _. reflexivity.
Qed.

Lemma step_dies_before : forall c l ev sv o a clk ps,
  oldok c o -> S (length sv) = a -> a <= maxr c -> fresh_queues c = true ->
  exists s', step_of c (l, BDiesBefore) (readyst ev sv o a clk ps) = IYield (single c (l, BDiesBefore)) s'
             /\ post c l BDiesBefore sv o clk s'.
Proof.
  intros c l ev sv o a clk ps Ho Ha Hm Hq. pose proof (oldok_dead _ _ Ho) as Hd.
  open_step Hd.
  rewrite wturn_dead by reflexivity. cbn [results]. unfold cur_alive, forget. cbn [cur alive w_stat sh old age term clock polls].
  eexists. split; [reflexivity|].
  unfold post, quiet. cbn [sh cur old age term clock polls tasks results events rlock w_stat w_served workers cost fate cleanb].
  repeat split; auto; try lia; try discriminate.
  - constructor; [|exact Ho]. cbn [alive w_stat w_served]. split; [reflexivity|]. lia.
  - eexists. split; [reflexivity|]. intros X. discriminate.
Qed.

Lemma bump_cons : forall p ps, bump (p :: ps) = S p :: ps.
Proof. reflexivity. Qed.

(** behaviours after which the worker is alive but will never answer: the parent polls until the timeout and kills it *)
Lemma step_stuck : forall c l b ev sv o a clk ps w1 h,
  oldok c o -> S (length sv) = a -> a <= maxr c ->
  (cleanb b = true \/ fresh_queues c = true) ->
  serve (length o) clk (Worker WIdle sv) [Task l b false] [] ev = (Worker w1 (sv ++ [l]), Shared [] [] ev false) ->
  (w1 = WIdle /\ h = None \/ w1 = WHung h) ->
  (h <> None -> cleanb b = false) -> (w1 = WIdle -> cleanb b = false) ->
  fate c b = Some MTimeout -> cost c b = S (timeout c) ->
  exists s', step_of c (l, b) (readyst ev sv o a clk ps) = IYield (single c (l, b)) s' /\ post c l b sv o clk s'.
Proof.
  intros c l b ev sv o a clk ps w1 h Ho Ha Hm Hcl Hs Hw Hh Hi Hf Hc. pose proof (oldok_dead _ _ Ho) as Hd.
  unfold step_of, put_task, readyst. cbn [sh cur old age term clock polls tasks results events rlock fst snd app].
  rewrite wait_S. cbn [clock]. rewrite Nat.sub_diag. cbn [Nat.leb].
  rewrite get_unfold_cur by exact Hd.
  unfold wturn at 1. cbn [w_stat]. unfold idle_turn. cbn [tasks results events rlock w_served]. rewrite Hs. cbn [results].
  assert (St1 : stuckw (Worker w1 (sv ++ [l])) (Shared [] [] ev false) false).
  { unfold stuckw. cbn [w_stat]. destruct Hw as [[Hw _]|Hw]; subst w1; cbn; auto. }
  assert (Al : alive (Worker w1 (sv ++ [l])) = true).
  { unfold alive. cbn [w_stat]. destruct Hw as [[Hw _]|Hw]; subst w1; reflexivity. }
  rewrite wturn_stuck by exact St1. cbn [results]. unfold cur_alive. cbn [cur]. rewrite Al.
  rewrite (wait_stuck (timeout c) clk) by (try assumption; try reflexivity; lia).
  unfold single. cbn [fst snd]. rewrite Hf.
  eexists. split; [reflexivity|].
  unfold post. rewrite Hc, Hf.
  destruct Hw as [[Hw Hn]|Hw]; subst w1.
  - subst h. assert (Hb : cleanb b = false) by (apply Hi; reflexivity).
    destruct Hcl as [Hcl|Hcl]; [rewrite Hcl in Hb; discriminate|].
    unfold handle_timeout, forget. cbn [sh cur old age term clock polls tasks results events rlock w_stat w_served].
    unfold quiet. cbn [sh cur old age term clock polls tasks results events rlock w_stat w_served workers].
    repeat split; auto; try lia; try discriminate.
    + constructor; [|exact Ho]. cbn [alive w_stat w_served]. split; [reflexivity|]. rewrite app_length. simpl. lia.
    + eexists. split; [reflexivity|]. intros X. rewrite X in Hb. discriminate.
  - destruct h as [r|].
    + assert (Hb : cleanb b = false) by (apply Hh; discriminate).
      destruct Hcl as [Hcl|Hcl]; [rewrite Hcl in Hb; discriminate|].
      unfold handle_timeout, forget. cbn [sh cur old age term clock polls tasks results events rlock w_stat w_served].
      unfold quiet. cbn [sh cur old age term clock polls tasks results events rlock w_stat w_served workers].
      repeat split; auto; try lia; try discriminate.
      * constructor; [|exact Ho]. cbn [alive w_stat w_served]. split; [reflexivity|]. rewrite app_length. simpl. lia.
      * eexists. split; [reflexivity|]. intros X. rewrite X in Hb. discriminate.
    + unfold handle_timeout, forget. cbn [sh cur old age term clock polls tasks results events rlock w_stat w_served].
      unfold quiet. cbn [sh cur old age term clock polls tasks results events rlock w_stat w_served workers].
      repeat split; auto; try lia; try discriminate.
      * constructor; [|exact Ho]. cbn [alive w_stat w_served]. split; [reflexivity|]. rewrite app_length. simpl. lia.
      * eexists. split; [reflexivity|]. intros _. reflexivity.
Qed.

Lemma step_slow : forall c l d ev sv o a clk ps,
  oldok c o -> S (length sv) = a -> a <= maxr c ->
  exists s', step_of c (l, BSlow (S d)) (readyst ev sv o a clk ps) = IYield (single c (l, BSlow (S d))) s'
             /\ post c l (BSlow (S d)) sv o clk s'.
Proof.
  intros c l d ev sv o a clk ps Ho Ha Hm. pose proof (oldok_dead _ _ Ho) as Hd.
  open_step Hd.
  destruct d as [|d].
  - (* answer within the first poll *)
    rewrite wturn_busy_done by lia. cbn [results tasks events rlock].
    eexists. split; [reflexivity|].
    unfold post, quiet. cbn [sh cur old age term clock polls tasks results events rlock w_stat w_served workers fate cleanb].
    replace (cost c (BSlow 1)) with 1 by (unfold cost; destruct (timeout c); reflexivity).
    cbn [Nat.leb]. repeat split; auto; try lia; try discriminate.
    + rewrite app_length. simpl. lia.
    + eexists. split; [reflexivity|]. intros _. reflexivity.
    + intros X. contradiction.
  - rewrite wturn_busy_wait by lia. cbn [results]. unfold cur_alive. cbn [cur alive w_stat].
    rewrite (wait_busy (timeout c) clk) by (try assumption; lia).
    replace (clk + S (S d) - clk) with (S (S d)) by lia.
    unfold single. cbn [fst snd fate].
    destruct (S (S d) <=? S (timeout c)) eqn:E.
    + apply Nat.leb_le in E. eexists. split; [reflexivity|].
      unfold post, quiet. cbn [sh cur old age term clock polls tasks results events rlock w_stat w_served workers fate cleanb].
      replace (S (S d) <=? S (timeout c)) with true by (symmetry; apply Nat.leb_le; lia).
      replace (cost c (BSlow (S (S d)))) with (S (S d)) by (unfold cost; lia).
      repeat split; auto; try lia; try discriminate.
      * rewrite app_length. simpl. lia.
      * eexists. split; [reflexivity|]. intros _. reflexivity.
      * intros X. contradiction.
    + apply Nat.leb_gt in E. eexists. split; [reflexivity|].
      unfold handle_timeout, forget. cbn [sh cur old age term clock polls tasks results events rlock w_stat w_served].
      unfold post, quiet. cbn [sh cur old age term clock polls tasks results events rlock w_stat w_served workers fate cleanb].
      replace (S (S d) <=? S (timeout c)) with false by (symmetry; apply Nat.leb_gt; lia).
      replace (cost c (BSlow (S (S d)))) with (S (timeout c)) by (unfold cost; lia).
      repeat split; auto; try lia; try discriminate.
      * constructor; [|exact Ho]. cbn [alive w_stat w_served]. split; [reflexivity|]. rewrite app_length. simpl. lia.
      * eexists. split; [reflexivity|]. intros _. reflexivity.
Qed.

Lemma step_ready : forall c l b ev sv o a clk ps,
  oldok c o -> S (length sv) = a -> a <= maxr c -> (cleanb b = true \/ fresh_queues c = true) ->
  exists s', step_of c (l, b) (readyst ev sv o a clk ps) = IYield (single c (l, b)) s' /\ post c l b sv o clk s'.
Proof.
  intros c l b ev sv o a clk ps Ho Ha Hm Hcl.
  destruct b.
  - apply step_answer; auto.
  - apply step_answer; auto.
  - apply step_answer; auto.
  - apply step_answer; auto.
  - apply step_answer; auto.
  - apply step_answer; auto.
  - apply step_exits; auto.
  - apply (step_stuck c l BHangs ev sv o a clk ps (WHung None) None); auto; [intros X; contradiction|discriminate].
  - apply (step_stuck c l BAnswersLate ev sv o a clk ps (WHung (Some (l, play BAnswersLate))) (Some (l, play BAnswersLate))); auto.
  - destruct d.
    + apply step_answer; auto.
    + apply step_slow; auto.
  - apply (step_stuck c l BDrops ev sv o a clk ps WIdle None); auto.
  - destruct Hcl as [Hcl|Hcl]; [discriminate|]. apply step_dies_before; auto.
  - apply step_answer; auto.
  - apply step_answer; auto.
Qed.

(** * Part C - whole runs *)

(** scripts for which the invariant is maintained: no late answer and no stale task - or any script at all once
    both queues are replaced whenever a worker is created (candidate repair) *)
Definition tame (c : cfg) (s : list (rid * behaviour)) : Prop := clean_script s \/ fresh_queues c = true.

Lemma tame_cons : forall c x s, tame c (x :: s) -> (cleanb (snd x) = true \/ fresh_queues c = true) /\ tame c s.
Proof.
  intros c x s [H|H].
  - unfold clean_script in H. simpl in H. apply andb_prop in H. destruct H. split; [left; assumption|left; assumption].
  - split; right; assumption.
Qed.

Lemma tame_firstn : forall c n s, tame c s -> tame c (firstn n s).
Proof.
  intros c n s [H|H]; [left|right; exact H]. unfold clean_script in *.
  revert s H. induction n; intros [|x s] H; simpl; try reflexivity.
  simpl in H. apply andb_prop in H. destruct H as [H1 H2]. rewrite H1. simpl. apply IHn. exact H2.
Qed.

Lemma tame_app : forall c s1 s2, tame c (s1 ++ s2) -> tame c s1 /\ tame c s2.
Proof.
  intros c s1 s2 [H|H]; [|split; right; exact H]. unfold clean_script in H. rewrite forallb_app in H.
  apply andb_prop in H. destruct H. split; left; assumption.
Qed.

Definition total_cost (c : cfg) (s : list (rid * behaviour)) : nat := fold_right (fun x n => cost c (snd x) + n) 0 s.

Lemma iteration_quiet : forall c l b s, quiet c s -> (cleanb b = true \/ fresh_queues c = true) ->
  exists s', iteration c (l, b) s = IYield (single c (l, b)) s' /\ quiet c s' /\ clock s' = clock s + cost c b
    /\ (fate c b = None -> cur s' <> None) /\ (fate c b <> None -> cur s' = None)
    /\ (cur s = None -> exists w, workers s' = w :: old s /\ (cleanb b = true -> w_served w = [l])).
Proof.
  intros c l b s Hq Hb. destruct (create_quiet c s Hq) as (ev & sv & o & a & Hc & Ho & Ha & Hm & Hn).
  rewrite iteration_unfold, Hc.
  destruct (step_ready c l b ev sv o a (clock s) (polls s) Ho Ha Hm Hb) as (s' & Hs & Hp).
  exists s'. split; [exact Hs|]. destruct Hp as (P1 & P2 & (w & P3 & P4) & P5 & P6).
  split; [exact P1|]. split; [exact P2|]. split; [exact P5|]. split; [exact P6|].
  intros Hcur. destruct (Hn Hcur) as [E1 E2]. subst sv o. exists w. split; [exact P3|]. exact P4.
Qed.

Lemma exec_quiet : forall c s s0, quiet c s0 -> tame c s ->
  exists s1, exec c s s0 = (map (single c) s, Completed, s1) /\ quiet c s1 /\ clock s1 = clock s0 + total_cost c s.
Proof.
  intros c s. induction s as [|[l b] s IH]; intros s0 Hq Ht.
  - exists s0. simpl. split; [reflexivity|]. split; [exact Hq|lia].
  - destruct (tame_cons _ _ _ Ht) as [Hb Ht'].
    destruct (iteration_quiet c l b s0 Hq Hb) as (s' & Hi & Hq' & Hc & _).
    destruct (IH s' Hq' Ht') as (s1 & He & Hq1 & Hc1).
    exists s1. simpl. rewrite Hi, He. split; [reflexivity|]. split; [exact Hq1|]. rewrite Hc1, Hc. lia.
Qed.

Lemma quiet_init : forall c, quiet c init.
Proof. intros c. unfold quiet, init. simpl. repeat split; auto. constructor. Qed.

Lemma exec_app : forall c s1 s2 s0 vs1 st1, exec c s1 s0 = (vs1, Completed, st1) ->
  exec c (s1 ++ s2) s0 = (let '(vs2, o, st2) := exec c s2 st1 in (vs1 ++ vs2, o, st2)).
Proof.
  intros c s1. induction s1 as [|x s1 IH]; intros s2 s0 vs1 st1 H; simpl in H.
  - inversion H; subst. simpl. destruct (exec c s2 st1) as [[vs2 o] st2]. reflexivity.
  - simpl. destruct (iteration c x s0) as [v s'|s'|]; try discriminate.
    destruct (exec c s1 s') as [[vs' o'] s''] eqn:E. inversion H; subst.
    rewrite (IH s2 _ _ _ E). destruct (exec c s2 st1) as [[vs2 o] st2]. reflexivity.
Qed.

(** ** C08: failures are local *)

Theorem failure_is_local : forall c s, tame c s ->
  exists s1, run_dedicated c s = (map (single c) s, Completed, s1).
Proof.
  intros c s Ht. destruct (exec_quiet c s init (quiet_init c) Ht) as (s1 & He & _).
  unfold run_dedicated. rewrite He. eexists. reflexivity.
Qed.

(** a recording on its own - every behaviour, late answers and workers dying early included: [single] is the
    verdict of that recording played alone *)
Theorem single_is_alone : forall c x, exists s1, run_dedicated c [x] = ([single c x], Completed, s1).
Proof.
  intros c x.
  (* with a single recording nothing is ever read from a queue that an earlier worker used, so the run does not
     depend on [fresh_queues] *)
  set (c' := Cfg (rate c) (timeout c) (keep c) true).
  assert (E : run_dedicated c [x] = run_dedicated c' [x]).
  { unfold run_dedicated. simpl. rewrite !iteration_unfold.
    assert (C : create_or_recycle c init = create_or_recycle c' init).
    { unfold create_or_recycle, init. simpl. destruct (fresh_queues c); reflexivity. }
    rewrite C. reflexivity. }
  rewrite E.
  destruct (failure_is_local c' [x] (or_intror eq_refl)) as [s1 H]. exists s1. exact H.
Qed.

(** every kind of failure becomes a framework-failure verdict labelled with the failing recording, and the replay
    attached to any verdict is the labelled recording's own (or none) *)
Definition is_fault (c : cfg) (b : behaviour) : bool :=
  match b with
  | BPlayerRaises | BExtractorRaises | BComparatorRaises | BBadAnswer _ => true
  | BReturns v => negb (renderable v)       (* a verdict the framework cannot render in its log line *)
  | _ => match fate c b with Some _ => true | None => false end
  end.

Lemma fault_is_failure : forall c l b, is_fault c b = true ->
  verdict (single c (l, b)) = EqualizerFailure /\ label (single c (l, b)) = l.
Proof.
  intros c l b H. unfold single. simpl.
  destruct (fate c b) eqn:F; [split; reflexivity|].
  destruct b; simpl in *; try discriminate; try rewrite F in H; try discriminate;
    unfold to_cmp, logged; simpl; try (apply negb_true_iff in H; rewrite H);
    destruct (keep c); split; reflexivity.
Qed.

Lemma single_attribution : forall c l b,
  label (single c (l, b)) = l /\ (attached (single c (l, b)) = None \/ attached (single c (l, b)) = Some l).
Proof.
  intros c l b. unfold single. simpl. destruct (fate c b); [split; [reflexivity|left; reflexivity]|].
  split; [apply label_to_cmp|]. unfold to_cmp. simpl. destruct (p_bad (answer_of b)); [left; reflexivity|].
  unfold logged.
  destruct (p_pb (answer_of b)); destruct (keep c); simpl; try destruct (p_xraise (answer_of b)); simpl;
    destruct (p_render (answer_of b)); simpl; auto.
Qed.

Lemma honest_verdict : forall c l b, fate c b = None ->
  verdict (single c (l, b)) = p_status (play b) \/ verdict (single c (l, b)) = EqualizerFailure.
Proof.
  intros c l b F. unfold single. simpl. rewrite F. unfold to_cmp. simpl.
  destruct (p_bad (answer_of b)) eqn:B; [right; reflexivity|].
  assert (E : answer_of b = play b) by (destruct b; try reflexivity; simpl in B; discriminate).
  rewrite E. unfold logged.
  destruct (p_pb (play b) && keep c); [destruct (p_xraise (play b))|]; destruct (p_render (play b)); auto.
Qed.

(** the verdict handed on is the comparator's own, whole: a verdict of shape [v] that the framework can render
    reaches the consumer with the comparator's status, its diff (attributed to that recording) and its class -
    in whichever mode, with or without keeping results; one it cannot render is a framework failure of that
    recording, with nothing attached *)
Lemma verdict_is_the_comparators : forall c l v,
  let x := single c (l, BReturns v) in
  label x = l /\
  (renderable v = true ->
     (forall s, vs_status v = VEnum s -> verdict x = s) /\
     vdiff x = (if vs_diff v then Some l else None) /\ vsub x = vs_sub v /\ attached x = Some l) /\
  (renderable v = false ->
     verdict x = EqualizerFailure /\ message x = MRender /\ vdiff x = None /\ vsub x = false /\ attached x = None).
Proof.
  intros c l v. unfold single. cbn [fate snd fst answer_of play]. unfold to_cmp, logged.
  cbn [snd fst p_bad p_pb p_xraise p_render p_diff p_sub p_status p_msg p_f1 p_f2 andb].
  destruct (keep c); destruct (renderable v) eqn:R; cbn; (split; [reflexivity|]); split; intros H; try discriminate;
    repeat split; try reflexivity; intros s E; rewrite E; reflexivity.
Qed.

(** failure verdicts never carry a diff or a subclass instance *)
Lemma failure_cmp_plain : forall l m, vdiff (failure_cmp l m) = None /\ vsub (failure_cmp l m) = false.
Proof. intros; split; reflexivity. Qed.

(** the diff attached to a recording's verdict is its own, or none *)
Lemma single_diff_attribution : forall c l b,
  vdiff (single c (l, b)) = None \/ vdiff (single c (l, b)) = Some l.
Proof.
  intros c l b. unfold single. simpl. destruct (fate c b); [left; reflexivity|].
  unfold to_cmp, logged. simpl. destruct (p_bad (answer_of b)); [left; reflexivity|].
  destruct (p_pb (answer_of b)); destruct (keep c); simpl; try destruct (p_xraise (answer_of b)); simpl;
    destruct (p_render (answer_of b)); destruct (p_diff (answer_of b)); simpl; auto.
Qed.

(** ** C08: in-process and dedicated mode agree *)

Definition neutral (c : cfg) (b : behaviour) : bool :=
  cleanb b && (match fate c b with None => true | Some _ => false end
               && match b with BBadAnswer _ => false | _ => true end).

Lemma inproc_neutral : forall c s, forallb (fun x => neutral c (snd x)) s = true ->
  run_inproc (keep c) s = (map (single c) s, Completed).
Proof.
  intros c s. induction s as [|[l b] s IH]; intros H; simpl in *; [reflexivity|].
  apply andb_prop in H. destruct H as [H1 H2]. rewrite (IH H2).
  unfold neutral in H1. apply andb_prop in H1. destruct H1 as [H1 H3].
  apply andb_prop in H3. destruct H3 as [H3 H4].
  unfold single. simpl. destruct (fate c b) eqn:F; [discriminate|].
  destruct b; simpl in F, H4; try discriminate; reflexivity.
Qed.

Lemma neutral_clean : forall c s, forallb (fun x => neutral c (snd x)) s = true -> clean_script s.
Proof.
  intros c s. unfold clean_script. induction s as [|x s IH]; intros H; simpl in *; [reflexivity|].
  apply andb_prop in H. destruct H as [H1 H2]. rewrite (IH H2). unfold neutral in H1.
  apply andb_prop in H1. destruct H1 as [H1 _]. rewrite H1. reflexivity.
Qed.

Theorem modes_agree : forall c s, forallb (fun x => neutral c (snd x)) s = true ->
  exists s1, run_dedicated c s = (fst (run_inproc (keep c) s), snd (run_inproc (keep c) s), s1)
             /\ snd (run_inproc (keep c) s) = Completed.
Proof.
  intros c s H. rewrite (inproc_neutral c s H). simpl.
  destruct (failure_is_local c s (or_introl (neutral_clean c s H))) as [s1 E]. exists s1. split; [exact E|reflexivity].
Qed.

(** ** C08: one comparison per id, in input order, rightly labelled - every script, both modes *)

Theorem one_verdict_per_id_dedicated : forall c s vs o s1, run_dedicated c s = (vs, o, s1) ->
  (exists n, map label vs = firstn n (map fst s)) /\ (o = Completed -> map label vs = map fst s).
Proof.
  intros c s vs o s1 H. unfold run_dedicated in H. destruct (exec c s init) as [[vs' o'] s2] eqn:E.
  inversion H; subst. destruct (exec_labels _ _ _ _ _ _ E) as [n [A B]]. split; [exists n; exact A|exact B].
Qed.

Theorem one_verdict_per_id_inproc : forall k s vs o, run_inproc k s = (vs, o) ->
  (exists n, map label vs = firstn n (map fst s)) /\ (o = Completed -> map label vs = map fst s).
Proof.
  intros k s vs o H. destruct (inproc_labels _ _ _ _ H) as [n [A B]]. split; [exists n; exact A|exact B].
Qed.

(** ** C13 *)

Theorem run_completes : forall c s, tame c s ->
  exists vs s1, run_dedicated c s = (vs, Completed, s1) /\ clock s1 = total_cost c s.
Proof.
  intros c s Ht. destruct (exec_quiet c s init (quiet_init c) Ht) as (s1 & He & _ & Hc).
  unfold run_dedicated. rewrite He. eexists. eexists. split; [reflexivity|]. simpl. exact Hc.
Qed.

Lemma cost_bounded : forall c b, cost c b <= S (timeout c).
Proof. intros c b. destruct b; simpl; lia. Qed.

Definition state_after (c : cfg) (s : list (rid * behaviour)) : st := snd (exec c s init).

Lemma quiet_workers_bounded : forall c s, quiet c s -> Forall (fun w => length (w_served w) <= maxr c) (workers s).
Proof.
  intros c s (_ & Ho & Hc). unfold workers.
  assert (O : Forall (fun w => length (w_served w) <= maxr c) (old s)).
  { eapply Forall_impl; [|exact Ho]. intros w [_ Hw]; exact Hw. }
  destruct (cur s) as [w|]; [|exact O]. constructor; [|exact O]. destruct Hc as (_ & H & _ & H' & _). lia.
Qed.

Theorem worker_age_bounded : forall c s, tame c s ->
  Forall (fun w => length (w_served w) <= Nat.max 1 (rate c)) (workers (state_after c s)).
Proof.
  intros c s Ht. destruct (exec_quiet c s init (quiet_init c) Ht) as (s1 & He & Hq & _).
  unfold state_after. rewrite He. simpl. apply (quiet_workers_bounded c s1 Hq).
Qed.

Lemma quiet_left : forall c s, quiet c s ->
  Forall (fun w => alive w = false \/ w_stat w = WIdle) (workers s) /\ Forall dead (workers (turns (finally Completed s))).
Proof.
  intros c [q cu o a tm clk ps] (Ht & Ho & Hc). simpl in *. subst tm. pose proof (oldok_dead _ _ Ho) as Hd.
  unfold workers, finally. simpl. destruct cu as [[ws sv]|].
  - destruct Hc as (H1 & _). simpl in H1. subst ws. split.
    + constructor; [right; reflexivity|]. eapply Forall_impl; [|exact Hd]. intros w Hw; left; exact Hw.
    + rewrite turns_cur by exact Hd. unfold wturn, idle_turn. simpl. constructor; [reflexivity|exact Hd].
  - split.
    + eapply Forall_impl; [|exact Hd]. intros w Hw; left; exact Hw.
    + rewrite turns_nocur by exact Hd. simpl. exact Hd.
Qed.

Theorem no_worker_left : forall h c s, tame c s ->
  exists vs s1, run_stopped h c s = (vs, Completed, s1)
    /\ Forall (fun w => alive w = false \/ (w_stat w = WIdle /\ term s1 = true)) (workers s1)
    /\ Forall (fun w => alive w = false) (workers (settle Completed s1)).
Proof.
  intros h c s Ht.
  assert (G : forall s', tame c s' -> exists vs s1, run_dedicated c s' = (vs, Completed, s1)
    /\ Forall (fun w => alive w = false \/ (w_stat w = WIdle /\ term s1 = true)) (workers s1)
    /\ Forall (fun w => alive w = false) (workers (settle Completed s1))).
  { intros s' Ht'. destruct (exec_quiet c s' init (quiet_init c) Ht') as (s1 & He & Hq & _).
    unfold run_dedicated. rewrite He. eexists. eexists. split; [reflexivity|].
    destruct (quiet_left c s1 Hq) as [L1 L2]. split.
    - assert (W : workers (finally Completed s1) = workers s1) by reflexivity. rewrite W.
      eapply Forall_impl; [|exact L1]. intros w [Hw|Hw]; [left; assumption|right; split; [assumption|reflexivity]].
    - exact L2. }
  destruct h as [|n|n]; simpl.
  - apply G. exact Ht.
  - unfold abandon_at. destruct n.
    + eexists. eexists. split; [reflexivity|]. split; constructor.
    + apply G. apply tame_firstn. exact Ht.
  - apply G. apply tame_firstn. exact Ht.
Qed.

Theorem failure_then_fresh_worker : forall c s1 l b s2,
  tame c (s1 ++ (l, b) :: s2) -> fate c b <> None ->
  let st := state_after c (s1 ++ [(l, b)]) in
  cur st = None /\ Forall (fun w => alive w = false) (workers st)
  /\ forall x s3, s2 = x :: s3 ->
       exists w, workers (state_after c (s1 ++ [(l, b); x])) = w :: workers st
                 /\ (cleanb (snd x) = true -> w_served w = [fst x]).
Proof.
  intros c s1 l b s2 Ht Hf.
  destruct (tame_app _ _ _ Ht) as [T1 T2]. destruct (tame_cons _ _ _ T2) as [Tb T3].
  destruct (exec_quiet c s1 init (quiet_init c) T1) as (st1 & E1 & Q1 & _).
  destruct (iteration_quiet c l b st1 Q1 Tb) as (st2 & I2 & Q2 & _ & _ & N2 & _).
  assert (A : state_after c (s1 ++ [(l, b)]) = st2).
  { unfold state_after. rewrite (exec_app c s1 [(l, b)] init _ _ E1). simpl. rewrite I2. reflexivity. }
  cbv zeta. rewrite A. specialize (N2 Hf).
  split; [exact N2|]. split.
  - destruct Q2 as (_ & Ho & _). unfold workers. rewrite N2. apply (oldok_dead _ _ Ho).
  - intros [l' b'] s3 Hx. subst s2. destruct (tame_cons _ _ _ T3) as [Tb' _].
    destruct (iteration_quiet c l' b' st2 Q2 Tb') as (st3 & I3 & _ & _ & _ & _ & F3).
    destruct (F3 N2) as (w & W1 & W2).
    exists w. unfold state_after.
    replace (s1 ++ [(l, b); (l', b')]) with (s1 ++ [(l, b)] ++ [(l', b')]) by reflexivity.
    rewrite (exec_app c s1 _ init _ _ E1). simpl. rewrite I2, I3. simpl.
    unfold workers at 2. rewrite N2. split; [exact W1|exact W2].
Qed.

Lemma total_cost_bounded : forall c s, total_cost c s <= length s * S (timeout c).
Proof.
  intros c s. induction s as [|x s IH]; simpl; [lia|]. pose proof (cost_bounded c (snd x)). lia.
Qed.

(** * Part D - what the code as it is gets wrong (known finding F08): witnesses *)

Definition cfg_legacy (r t : nat) : cfg := Cfg r t false false.

(** a late answer is handed to the next recording, every later verdict is shifted by one *)
Lemma late_answer_witness :
  let c := cfg_legacy 5 2 in
  let s := [(1, BEqual); (2, BAnswersLate); (3, BEqual); (4, BDifferent)] in
  exists s1, run_dedicated c s =
    ([Cmp 1 Equal MCmp (Some 1) false false TFalse TFalse None false;
      Cmp 2 EqualizerFailure MTimeout None false false TFalse TFalse None false;
      Cmp 3 Equal MCmp (Some 2) false false TFalse TFalse None false;
      Cmp 4 Equal MCmp (Some 3) false false TFalse TFalse None false], Completed, s1)
    /\ single c (4, BDifferent) = Cmp 4 Different MCmp (Some 4) false false TFalse TFalse None false
    /\ length (results (sh s1)) = 1.
Proof. eexists. split; [vm_compute; reflexivity|]. split; reflexivity. Qed.

(** a task left behind by a worker that died before taking it is served by the next worker first *)
Lemma stale_task_witness :
  let c := cfg_legacy 5 2 in
  let s := [(1, BEqual); (2, BDiesBefore); (3, BEqual); (4, BDifferent)] in
  exists s1, run_dedicated c s =
    ([Cmp 1 Equal MCmp (Some 1) false false TFalse TFalse None false;
      Cmp 2 EqualizerFailure MDied None false false TFalse TFalse None false;
      Cmp 3 Equal MCmp (Some 2) false false TFalse TFalse None false;
      Cmp 4 Equal MCmp (Some 3) false false TFalse TFalse None false], Completed, s1)
    /\ length (results (sh s1)) = 1.
Proof. eexists. split; [vm_compute; reflexivity|reflexivity]. Qed.

(** a worker killed while idle leaves the task queue's read lock held: every later recording times out *)
Lemma lock_held_witness :
  let c := cfg_legacy 5 2 in
  let s := [(1, BEqual); (2, BDrops); (3, BEqual); (4, BDifferent)] in
  exists s1, run_dedicated c s =
    ([Cmp 1 Equal MCmp (Some 1) false false TFalse TFalse None false;
      failure_cmp 2 MTimeout; failure_cmp 3 MTimeout; failure_cmp 4 MTimeout], Completed, s1)
    /\ rlock (sh s1) = true /\ length (tasks (sh s1)) = 2.
Proof. eexists. split; [vm_compute; reflexivity|]. split; reflexivity. Qed.

(** after a late answer the parent is one recording ahead of its worker: the recycle joins a worker that hangs *)
Lemma late_answer_blocks_witness :
  let c := cfg_legacy 1 2 in
  let s := [(1, BAnswersLate); (2, BHangs); (3, BEqual)] in
  exists vs s1, run_dedicated c s = (vs, Deadlock, s1) /\ length vs = 2
    /\ exists w, cur s1 = Some w /\ w_stat w = WHung None.
Proof. eexists. eexists. split; [vm_compute; reflexivity|]. split; [reflexivity|]. eexists. split; reflexivity. Qed.

(** ... and a worker hung that way is left behind when the run ends *)
Lemma late_answer_leaks_witness :
  let c := cfg_legacy 5 2 in
  let s := [(1, BAnswersLate); (2, BHangs)] in
  exists vs s1, run_dedicated c s = (vs, Completed, s1)
    /\ exists w, In w (workers (settle Completed s1)) /\ alive w = true.
Proof.
  eexists. eexists. split; [vm_compute; reflexivity|]. eexists. split; [left; reflexivity|reflexivity].
Qed.

(** the replacement worker takes the stale task as well: more tasks than the recycle rate *)
Lemma stale_task_over_age_witness :
  let c := cfg_legacy 2 2 in
  let s := [(1, BEqual); (2, BDiesBefore); (3, BEqual); (4, BEqual)] in
  exists w, In w (workers (state_after c s)) /\ length (w_served w) = 3 /\ Nat.max 1 (rate c) = 2.
Proof. vm_compute. eexists. split; [left; reflexivity|]. split; reflexivity. Qed.

(** * Non-vacuity *)

Definition demo_cfg : cfg := Cfg 2 2 true false.
Definition demo_script : list (rid * behaviour) :=
  [(1, BEqual); (2, BHangs); (3, BExits); (4, BExtractorRaises); (5, BSlow 3); (6, BSlow 4);
   (8, BBare Fixed); (9, BPlayerRaises); (2, BHangs); (10, BDifferent)].

Lemma demo_clean : clean_script demo_script.
Proof. reflexivity. Qed.

Lemma demo_run : fst (run_dedicated demo_cfg demo_script) = (map (single demo_cfg) demo_script, Completed)
  /\ map verdict (map (single demo_cfg) demo_script) =
     [Equal; EqualizerFailure; EqualizerFailure; EqualizerFailure; Equal; EqualizerFailure; Fixed;
      EqualizerFailure; EqualizerFailure; Different].
Proof. split; vm_compute; reflexivity. Qed.

Definition demo_neutral : list (rid * behaviour) :=
  [(1, BEqual); (2, BExtractorRaises); (3, BSlow 2); (4, BBare Failed); (5, BComparatorRaises); (6, BDifferent)].

(** answers the parent cannot use: each one is a framework failure of its own recording, the worker that gave it
    stays and has aged by one - at rate 2 the third recording is served by a second worker *)
Definition demo_bad : list (rid * behaviour) :=
  [(1, BBadAnswer Unloadable); (2, BBadAnswer Refused); (3, BEqual); (4, BBadAnswer Unloadable)].

Lemma demo_bad_run :
  clean_script demo_bad /\
  fst (run_dedicated demo_cfg demo_bad) = (map (single demo_cfg) demo_bad, Completed) /\
  map (fun v => (verdict v, message v)) (map (single demo_cfg) demo_bad) =
    [(EqualizerFailure, MUnload); (EqualizerFailure, MRefused); (Equal, MCmp); (EqualizerFailure, MUnload)] /\
  map (fun w => w_served w) (workers (state_after demo_cfg demo_bad)) = [[3; 4]; [1; 2]] /\
  fst (run_inproc (keep demo_cfg) demo_bad) = map (fun x => single demo_cfg (fst x, BEqual)) demo_bad.
Proof. repeat split; vm_compute; reflexivity. Qed.

(** verdict shapes: full results with a diff, a subclass instance, a structured (unrenderable) message, a falsy
    non-text message, a bare value that is no status *)
Definition demo_shapes : list (rid * behaviour) :=
  [(1, BReturns (VShape (VEnum Different) VText true false));
   (2, BReturns (VShape (VEnum Different) VStruct true false));
   (3, BEqual);
   (4, BReturns (VShape (VEnum Failed) VText true true));
   (5, BReturns (VShape VForeign VNone false false));
   (6, BReturns (VShape (VEnum Fixed) VFalsy false true));
   (7, BDifferent)].

Lemma demo_shapes_run :
  forallb (fun x => neutral demo_cfg (snd x)) demo_shapes = true /\
  fst (run_dedicated demo_cfg demo_shapes) = (map (single demo_cfg) demo_shapes, Completed) /\
  run_inproc (keep demo_cfg) demo_shapes = (map (single demo_cfg) demo_shapes, Completed) /\
  map (fun v => (verdict v, message v, vdiff v, vsub v)) (map (single demo_cfg) demo_shapes) =
    [(Different, MCmp, Some 1, false); (EqualizerFailure, MRender, None, false); (Equal, MCmp, None, false);
     (Failed, MCmp, Some 4, true); (EqualizerFailure, MRender, None, false); (Fixed, MFalsy, None, true);
     (Different, MCmp, None, false)].
Proof. repeat split; vm_compute; reflexivity. Qed.

Lemma demo_neutral_ok : forallb (fun x => neutral demo_cfg (snd x)) demo_neutral = true.
Proof. reflexivity. Qed.
