(** C16 — S3 time-window lookup is exact.  Statements only. *)
From Playback Require Import Base.Str Cassette.Window Cassette.WindowFacts.
Open Scope Z_scope.

(** A recording created and saved at instant t is listed by a lookup with window [s, e]
    iff s <= t <= e: none outside, none inside missed, for every alignment to day boundaries. *)
Theorem C16_window_exact : forall s e t, listed s e t = true <-> s <= t <= e.
Proof. exact window_exact. Qed.
Print Assumptions C16_window_exact.

(** end explicit or defaulting to now; [t <= now]: the recording exists when the lookup runs *)
Theorem C16_window_exact_default_end : forall s eo now t, t <= now ->
  (listed_opt s eo now t = true <-> s <= t <= resolve_end eo now).
Proof. exact window_exact_default. Qed.
Print Assumptions C16_window_exact_default_end.

(** with a metadata filter next to the window ([m]: the recording's stored metadata satisfies the filter): listed
    iff inside the window and matching - the filter never widens or narrows the window *)
Theorem C16_window_exact_matching : forall s eo now filtered t m, t <= now ->
  (listed_matching s eo now filtered t m = true <->
   s <= t <= resolve_end eo now /\ (filtered = true -> m = true)).
Proof. exact window_exact_matching. Qed.
Print Assumptions C16_window_exact_matching.

Theorem C16_days_cover : forall s e t, s <= t <= e -> In (day t) (days_enumerated s e).
Proof. exact days_cover. Qed.
Print Assumptions C16_days_cover.

Theorem C16_none_outside : forall days s e t, listed_with days s e t = true -> s <= t <= e.
Proof. exact none_outside. Qed.
Print Assumptions C16_none_outside.

Theorem C16_folders_distinct : forall n s, NoDup (days_of n s).
Proof. exact days_nodup. Qed.
Print Assumptions C16_folders_distinct.

(** the defect repaired by /repo commit 19dd904, kept as a replayable witness *)
Theorem C16_last_day_skipped_refuted : exists s e t, s <= t <= e /\ legacy_listed s e t = false.
Proof. exact legacy_last_day_skipped. Qed.
Print Assumptions C16_last_day_skipped_refuted.

(** the premises of this file are linear inequalities; an instance that straddles two midnights, with the window
    ends inside a day: the three day folders are enumerated, instants one microsecond outside are not listed (wp-audit) *)
Example C16_example :
  let s := 23 * h in let e := 2 * D + h in
  s <= D + 5 <= e /\ days_enumerated s e = [0; 1; 2] /\
  listed s e s = true /\ listed s e (D + 5) = true /\ listed s e e = true /\
  listed s e (s - 1) = false /\ listed s e (e + 1) = false /\
  listed_opt s None (e + h) e = true /\ e <= e + h /\ legacy_days_enumerated s e = [0; 1] /\
  listed_matching s (Some e) (e + h) true (D + 5) true = true /\
  listed_matching s (Some e) (e + h) true (D + 5) false = false /\
  listed_matching s (Some e) (e + h) true (s - 1) true = false /\
  listed_matching s (Some e) (e + h) false (D + 5) false = true.
Proof. vm_compute. repeat split; try reflexivity; discriminate. Qed.
