(** C11 - recorded data cannot be altered through the values handed out.
    Statements only; the model is Values/Heap.v, the proofs are in Values/HeapFacts.v.
    [qp]/[qp_dec] is the quoted-printable oracle for bytes values (any functions). *)
From Playback Require Import Base.Str Values.PyVal Values.Codec Values.Heap Values.HeapFacts Values.HeapRoundTrip.
From Coq Require Import Lia.
Open Scope list_scope.

(** The frame property everything rests on: the encoder reads only the locations reachable
    from the root it is given.  Two heaps that agree on those locations give the same JSON
    (same text, same py/id numbering), whatever else differs. *)
Theorem C11_encode_reads_reachable_only :
  forall qp fuel h1 h2 seen r,
    (forall l, reach h1 r l -> nth_error h1 l = nth_error h2 l) ->
    encode_h qp fuel h2 seen r = encode_h qp fuel h1 seen r.
Proof. exact encode_reach_local. Qed.
Print Assumptions C11_encode_reads_reachable_only.

(** Decoding allocates only new locations: the old heap is a prefix of the new one, the result
    and every new node refer to new locations only, so everything reachable from the result is
    new.  (Also with py/id references: the id table starts empty on every decode.) *)
Theorem C11_decode_fresh :
  forall qp_dec fuel h j h' r,
    decode_h qp_dec fuel h j = HOk (h', r) ->
    (exists e, h' = h ++ e) /\
    ref_in (inr (length h) (length h')) r /\
    (forall l nd, length h <= l -> nth_error h' l = Some nd ->
                  Forall (ref_in (inr (length h) (length h'))) (children nd)) /\
    (forall l, reach h' r l -> length h <= l < length h').
Proof. exact decode_fresh. Qed.
Print Assumptions C11_decode_fresh.

(** A get_data result is the decode of the stored datum's encoding into new locations; for
    EVERY heap h'' that agrees with the heap after the read on the old locations, every old
    reference - the stored datum, the recording's data dict, anything - encodes exactly as
    before the read, and a later get_data of the same key decodes the same JSON. *)
Theorem C11_get_data_fresh :
  forall qp qp_dec fuel h rec k h' r,
    heap_wf h ->
    get_data qp qp_dec fuel h rec k = HOk (h', r) ->
    exists stored j,
      get_data_direct h rec k = Some stored /\
      encode_top qp fuel h stored = HOk j /\ decode_h qp_dec fuel h j = HOk (h', r) /\
      (exists e, h' = h ++ e) /\
      (forall l, reach h' r l -> length h <= l < length h') /\
      (forall h'', agree_on (fun l => l < length h) h' h'' ->
         (forall fuel2 seen x, ref_in (fun l => l < length h) x ->
            encode_h qp fuel2 h'' seen x = encode_h qp fuel2 h seen x) /\
         get_data qp qp_dec fuel h'' rec k = decode_h qp_dec fuel h'' j).
Proof. exact get_data_fresh. Qed.
Print Assumptions C11_get_data_fresh.

(** An in-place operation changes exactly one existing location. *)
Theorem C11_mutation_local :
  forall h m h', apply_mut h m = Some h' ->
    length h' = length h /\ (forall l, l <> mut_loc m -> nth_error h' l = nth_error h l).
Proof. exact apply_mut_local. Qed.
Print Assumptions C11_mutation_local.

(** Why "every heap that agrees on the old locations" covers all a caller can do: code that
    holds only references into a region P whose nodes only refer to P can - by any number of
    in-place mutations through those references, storing references it holds, and allocations -
    change no location outside P, and still holds only references into P afterwards. *)
Theorem C11_mutation_stays_reachable :
  forall P h h'', closed_set P h -> client_steps P h h'' ->
    agree_on (fun l => ~ P l) h h'' /\ closed_set P h''.
Proof. exact client_steps_frame. Qed.
Print Assumptions C11_mutation_stays_reachable.

Theorem C11_reachable_from_closed_region :
  forall P h r l, closed_set P h -> ref_in P r -> reach h r l -> P l.
Proof. exact reach_closed. Qed.
Print Assumptions C11_reachable_from_closed_region.

(** The two together: after a get_data, whatever the caller does through the value it got
    (region = the new locations, which is closed), all old data encodes as before. *)
Theorem C11_get_data_immune_to_caller :
  forall qp qp_dec fuel h rec k h' r h'',
    heap_wf h ->
    get_data qp qp_dec fuel h rec k = HOk (h', r) ->
    client_steps (fun l => length h <= l) h' h'' ->
    ref_in (fun l => length h <= l) r /\
    closed_set (fun l => length h <= l) h' /\
    (forall fuel2 seen x, ref_in (fun l => l < length h) x ->
       encode_h qp fuel2 h'' seen x = encode_h qp fuel2 h seen x).
Proof. exact get_data_then_client. Qed.
Print Assumptions C11_get_data_immune_to_caller.

(** Cassettes hold text (no locations).  Every get_recording decodes it into new locations:
    two fetches of one id occupy disjoint ranges, share no location, changing the nodes of one
    in any way changes the encoding of neither the other nor - the store being text - what a
    later fetch decodes. *)
Theorem C11_fetch_independent :
  forall qp qp_dec fuel h (cas : cassette) id h1 r1 h2 r2,
    get_recording qp_dec fuel h cas id = HOk (h1, r1) ->
    get_recording qp_dec fuel h1 cas id = HOk (h2, r2) ->
    (exists e1 e2, h1 = h ++ e1 /\ h2 = h1 ++ e2) /\
    (forall l, reach h2 r1 l -> length h <= l < length h1) /\
    (forall l, reach h2 r2 l -> length h1 <= l < length h2) /\
    (forall l, reach h2 r1 l -> reach h2 r2 l -> False) /\
    (forall h'', agree_on (inr (length h1) (length h2)) h2 h'' ->
       forall f s, encode_h qp f h'' s r2 = encode_h qp f h2 s r2) /\
    (forall h'', agree_on (inr (length h) (length h1)) h2 h'' ->
       forall f s, encode_h qp f h'' s r1 = encode_h qp f h2 s r1) /\
    (exists j, assoc id cas = Some j /\
               forall h'', get_recording qp_dec fuel h'' cas id = decode_h qp_dec fuel h'' j).
Proof. exact fetch_independent. Qed.
Print Assumptions C11_fetch_independent.

(** Copy-on-interception (flag on, copy succeeded): what is recorded under the key is the
    decode of the result's encoding at capture, living in new locations only; for every heap
    that agrees on those locations its encoding is unchanged. *)
Theorem C11_copy_on_interception :
  forall qp qp_dec fuel h rec k result h1 r' h2,
    rec < length h ->
    pickle_copy qp qp_dec fuel h result = HOk (h1, r') ->
    record_value qp qp_dec true fuel h rec k result = HOk h2 ->
    recorded_value h2 rec k = Some r' /\
    (exists j, encode_top qp fuel h result = HOk j /\ decode_h qp_dec fuel h j = HOk (h1, r')) /\
    length h <= length h1 /\ length h2 = S (length h1) /\
    (forall l, l < length h -> l <> rec -> nth_error h2 l = nth_error h l) /\
    (forall l, inr (length h) (length h1) l -> nth_error h2 l = nth_error h1 l) /\
    (forall l, reach h2 r' l -> length h <= l < length h1) /\
    (forall h'', agree_on (inr (length h) (length h1)) h2 h'' ->
       forall f s, encode_h qp f h'' s r' = encode_h qp f h2 s r').
Proof. exact copy_on_interception. Qed.
Print Assumptions C11_copy_on_interception.

(** ... in particular whatever the service does afterwards with the value it received (its
    world: everything but the recording and the copy, closed), the recorded value's encoding
    stays what it was at capture. *)
Theorem C11_copy_on_immune_to_service :
  forall qp qp_dec fuel h rec k result h1 r' h2 h'',
    rec < length h ->
    closed_set (fun l => l <> rec /\ l < length h) h ->
    pickle_copy qp qp_dec fuel h result = HOk (h1, r') ->
    record_value qp qp_dec true fuel h rec k result = HOk h2 ->
    client_steps (fun l => l <> rec /\ ~ inr (length h) (S (length h1)) l) h2 h'' ->
    forall f s, encode_h qp f h'' s r' = encode_h qp f h2 s r'.
Proof. exact copy_on_then_service. Qed.
Print Assumptions C11_copy_on_immune_to_service.

(** The copy is faithful - PARTIAL: proved for JSON [j] that is a canonical encoder output without
    py/id ([enc_ok]: no list or object was met twice; dict keys sorted, distinct, unreserved; objects
    have a non-empty state; bytes texts in the image of the quoted-printable encoder).  Then decoding
    [j] and encoding the decoded graph gives [j] again, with the same fuel.  What is missing: encodings
    WITH py/id - there the statement is false for the faithful model and for jsonpickle 0.9.3 on this
    interpreter ([C11_copy_of_shared_lists_can_differ] below). *)
Theorem C11_roundtrip_partial :
  forall qp qp_dec fuel h j h' r,
    enc_ok qp qp_dec fuel j = true ->
    decode_h qp_dec fuel h j = HOk (h', r) ->
    encode_top qp fuel h' r = HOk j.
Proof. exact roundtrip_idfree. Qed.
Print Assumptions C11_roundtrip_partial.

Theorem C11_copy_faithful_partial :
  forall qp qp_dec fuel h rec k stored j h' r,
    get_data_direct h rec k = Some stored ->
    encode_top qp fuel h stored = HOk j -> enc_ok qp qp_dec fuel j = true ->
    get_data qp qp_dec fuel h rec k = HOk (h', r) ->
    encode_top qp fuel h' r = HOk j.
Proof. exact get_data_faithful. Qed.
Print Assumptions C11_copy_faithful_partial.

Theorem C11_copy_on_records_capture_state_partial :
  forall qp qp_dec fuel h rec k result j h1 r' h2,
    rec < length h ->
    encode_top qp fuel h result = HOk j -> enc_ok qp qp_dec fuel j = true ->
    pickle_copy qp qp_dec fuel h result = HOk (h1, r') ->
    record_value qp qp_dec true fuel h rec k result = HOk h2 ->
    recorded_value h2 rec k = Some r' /\ encode_top qp fuel h2 r' = HOk j.
Proof. exact copy_on_faithful. Qed.
Print Assumptions C11_copy_on_records_capture_state_partial.

(** Fuel: an answer obtained with some fuel is the answer with any larger fuel. *)
Theorem C11_encode_fuel_monotone :
  forall qp f f' h seen r x, f <= f' -> encode_h qp f h seen r = HOk x -> encode_h qp f' h seen r = HOk x.
Proof. exact encode_fuel_mono. Qed.
Print Assumptions C11_encode_fuel_monotone.

(** ---- concrete states: the hypotheses are satisfiable, the conclusions are not vacuous --------- *)

Definition K := U"k".
(* recording_data = {'k': L, 'm': (L, D)} with L = [D, 1], D = {'total': 3}: nested and shared *)
Definition ex_h : heap :=
  [NDict [(K, RLoc 1); (U"m", RLoc 3)];
   NList [RLoc 2; RAtom (AInt 1)];
   NDict [(U"total", RAtom (AInt 3))];
   NTuple [RLoc 1; RLoc 2]].

Definition enc_text (h : heap) (r : ref) : option str :=
  match encode_top qp_simple 40 h r with HOk j => Some (dumps j) | HErr _ => None end.

Example C11_example_get_data :
  heap_wf ex_h /\
  exists h' r, get_data qp_simple qp_dec_simple 40 ex_h 0 K = HOk (h', r) /\
    (* the caller appends to the list it got and overwrites the nested dict's entry *)
    exists h'', client_steps (fun l => length ex_h <= l) h' h'' /\
      enc_text h'' r <> enc_text h' r /\
      enc_text h'' (RLoc 0) = enc_text ex_h (RLoc 0).
Proof.
  split; [apply heap_wfb_ok; vm_compute; reflexivity|].
  eexists. eexists. split; [vm_compute; reflexivity|].
  eexists. split.
  - eapply cs_cons; [eapply (cs_mutate _ _ (MListAppend 4 (RAtom (AInt 9)))); [vm_compute; reflexivity|cbn; lia|]|].
    { intros v E. injection E as <-. exact I. }
    eapply cs_cons; [eapply (cs_mutate _ _ (MDictSet 5 (U"total") (RLoc 4))); [vm_compute; reflexivity|cbn; lia|]|].
    { intros v E. injection E as <-. cbn. lia. }
    apply cs_nil.
  - split; vm_compute; [discriminate|reflexivity].
Qed.

Example C11_example_fetch :
  exists cas, save_recording qp_simple 40 ex_h [] (U"Op/1") (RLoc 0) = HOk cas /\
  exists h1 r1 h2 r2,
    get_recording qp_dec_simple 40 ex_h cas (U"Op/1") = HOk (h1, r1) /\
    get_recording qp_dec_simple 40 h1 cas (U"Op/1") = HOk (h2, r2) /\
    r1 <> r2 /\ enc_text h2 r1 = enc_text h2 r2 /\ enc_text h2 r1 = enc_text ex_h (RLoc 0).
Proof.
  eexists. split; [vm_compute; reflexivity|].
  do 4 eexists. split; [vm_compute; reflexivity|]. split; [vm_compute; reflexivity|].
  split; [discriminate|]. split; vm_compute; reflexivity.
Qed.

Example C11_example_copy_on :
  exists h1 r' h2,
    pickle_copy qp_simple qp_dec_simple 40 ex_h (RLoc 1) = HOk (h1, r') /\
    record_value qp_simple qp_dec_simple true 40 ex_h 0 (U"input: load") (RLoc 1) = HOk h2 /\
    closed_set (fun l => l <> 0 /\ l < length ex_h) ex_h /\
    (* the service appends to the list it received: the recording is what it was *)
    exists h'', apply_mut h2 (MListAppend 1 (RAtom (AInt 9))) = Some h'' /\
      enc_text h'' (RLoc 1) <> enc_text h2 (RLoc 1) /\
      enc_text h'' r' = enc_text ex_h (RLoc 1).
Proof.
  do 3 eexists. split; [vm_compute; reflexivity|]. split; [vm_compute; reflexivity|].
  split.
  { intros l nd [N L] E. cbn in L.
    destruct l as [|[|[|[|l]]]]; try lia; cbn in E; injection E as <-; cbn;
      repeat constructor; cbn; lia. }
  eexists. split; [vm_compute; reflexivity|]. split; vm_compute; [discriminate|reflexivity].
Qed.

Example C11_example_roundtrip :
  exists j, encode_top qp_simple 40 ex_h (RLoc 1) = HOk j /\ enc_ok qp_simple qp_dec_simple 40 j = true /\
  exists h' r, get_data qp_simple qp_dec_simple 40 ex_h 0 K = HOk (h', r) /\
               enc_text h' r = enc_text ex_h (RLoc 1).
Proof.
  eexists. split; [vm_compute; reflexivity|]. split; [vm_compute; reflexivity|].
  do 2 eexists. split; [vm_compute; reflexivity|vm_compute; reflexivity].
Qed.

(** Data handler whose recorded form {'count': result, 'rows': <the caller's buffer>} embeds a live
    out-parameter (location 1 plays the buffer): [C11_copy_on_interception] applies to the prepared
    form, so the service mutating its buffer afterwards leaves the recording as captured. *)
Example C11_example_copy_on_with_handler :
  exists h2 r',
    record_input_with_handler qp_simple qp_dec_simple true 40 ex_h 0 (U"input: rows") (RAtom (AInt 2)) (RLoc 1) = HOk h2 /\
    recorded_value h2 0 (U"input: rows") = Some r' /\
    exists h'', apply_mut h2 (MListAppend 1 (RAtom (AInt 9))) = Some h'' /\
      enc_text h'' (RLoc 1) <> enc_text h2 (RLoc 1) /\
      enc_text h'' r' = enc_text h2 r' /\
      (* ... whereas without the copy (or with the copy taken before the handler ran) the buffer is aliased *)
      exists g2 s', record_input_with_handler qp_simple qp_dec_simple false 40 ex_h 0 (U"input: rows") (RAtom (AInt 2)) (RLoc 1) = HOk g2 /\
        recorded_value g2 0 (U"input: rows") = Some s' /\
        exists g'', apply_mut g2 (MListAppend 1 (RAtom (AInt 9))) = Some g'' /\ enc_text g'' s' <> enc_text g2 s'.
Proof.
  do 2 eexists. split; [vm_compute; reflexivity|]. split; [vm_compute; reflexivity|].
  eexists. split; [vm_compute; reflexivity|]. split; [vm_compute; discriminate|]. split; [vm_compute; reflexivity|].
  do 2 eexists. split; [vm_compute; reflexivity|]. split; [vm_compute; reflexivity|].
  eexists. split; [vm_compute; reflexivity|]. vm_compute. discriminate.
Qed.

(** With the flag off the recorded value IS the object the service holds (documented design,
    tape_recorder.py:866 only copies when the flag is set): a later mutation shows in the recording. *)
Example C11_alias_without_copy :
  exists h2 r',
    record_value qp_simple qp_dec_simple false 40 ex_h 0 (U"input: load") (RLoc 1) = HOk h2 /\
    recorded_value h2 0 (U"input: load") = Some r' /\ r' = RLoc 1 /\
    exists h'', apply_mut h2 (MListAppend 1 (RAtom (AInt 9))) = Some h'' /\
      enc_text h'' r' <> enc_text h2 r'.
Proof.
  do 2 eexists. split; [vm_compute; reflexivity|]. split; [vm_compute; reflexivity|]. split; [reflexivity|].
  eexists. split; [vm_compute; reflexivity|]. vm_compute. discriminate.
Qed.

(** The model reproduces jsonpickle 0.9.3's id shift after an object whose state holds a list
    ([o, a, a] with o.y = [3] comes back as [o', a', o'.y]): copies are always NEW (theorems
    above) but not always FAITHFUL when lists/objects are shared - see the partial round trip. *)
Example C11_copy_of_shared_lists_can_differ :
  let h := [NList [RLoc 1; RLoc 3; RLoc 3]; NObj (U"P") [(U"y", RLoc 2)]; NList [RAtom (AInt 3)]; NList [RAtom (AInt 7)]] in
  exists h' r', pickle_copy qp_simple qp_dec_simple 40 h (RLoc 0) = HOk (h', r') /\
                enc_text h' r' <> enc_text h (RLoc 0).
Proof. do 2 eexists. split; [vm_compute; reflexivity|]. vm_compute. discriminate. Qed.

(** ---- non-vacuity, the two theorems whose premises no example above meets literally (wp-audit) ---- *)
(** C11_encode_reads_reachable_only: two DIFFERENT heaps that agree on everything reachable from D = location 2
    (the list L and the recording dict are replaced): same encoding of D, different encoding of L *)
Example C11_encode_reads_reachable_only_nonvacuous :
  let h2 := [NDict []; NList [RAtom (AInt 8)]; NDict [(U"total", RAtom (AInt 3))]; NTuple []] in
  (forall l, reach ex_h (RLoc 2) l -> nth_error ex_h l = nth_error h2 l) /\
  ex_h <> h2 /\ enc_text h2 (RLoc 1) <> enc_text ex_h (RLoc 1) /\
  enc_text h2 (RLoc 2) = enc_text ex_h (RLoc 2) /\ enc_text ex_h (RLoc 2) <> None.
Proof.
  cbv zeta. split.
  - intros l R. inversion R as [|l0 nd c l' E I R']; subst; [reflexivity|].
    cbn in E. injection E as <-. cbn in I. destruct I as [<-|[]]. inversion R'.
  - split; [discriminate|]. split; [vm_compute; discriminate|]. split; vm_compute; [reflexivity|discriminate].
Qed.

(** C11_copy_on_immune_to_service: all five premises, the service's later actions given as [client_steps] over its
    own region (everything but the recording dict, the copy and the wrapper): it appends to the list it received
    and allocates a new object referring to it *)
Example C11_copy_on_immune_to_service_nonvacuous :
  exists h1 r' h2 h'',
    0 < length ex_h /\
    closed_set (fun l => l <> 0 /\ l < length ex_h) ex_h /\
    pickle_copy qp_simple qp_dec_simple 40 ex_h (RLoc 1) = HOk (h1, r') /\
    record_value qp_simple qp_dec_simple true 40 ex_h 0 (U"input: load") (RLoc 1) = HOk h2 /\
    client_steps (fun l => l <> 0 /\ ~ inr (length ex_h) (S (length h1)) l) h2 h'' /\
    h'' <> h2 /\ enc_text h'' (RLoc 1) <> enc_text h2 (RLoc 1) /\ enc_text h'' r' = enc_text h2 r'.
Proof.
  destruct C11_example_copy_on as (h1 & r' & h2 & Pc & Rv & Cl & _).
  vm_compute in Pc. injection Pc as <- <-. vm_compute in Rv. injection Rv as <-.
  do 4 eexists. split; [cbn; lia|]. split; [exact Cl|]. split; [vm_compute; reflexivity|]. split; [vm_compute; reflexivity|].
  split.
  - eapply cs_cons.
    { eapply (cs_mutate _ _ (MListAppend 1 (RAtom (AInt 9)))); [vm_compute; reflexivity| |].
      - cbn. unfold inr. lia.
      - intros v E. injection E as <-. exact I. }
    eapply cs_cons.
    { eapply (cs_alloc _ _ (NList [RLoc 1])).
      - cbn. unfold inr. lia.
      - repeat constructor; cbn; unfold inr; lia. }
    apply cs_nil.
  - split; [vm_compute; discriminate|]. split; vm_compute; [discriminate|reflexivity].
Qed.
