(** C11 - placeholder while the proofs are being written. *)
From Playback Require Import Values.Heap.
Theorem C11_placeholder : True. Proof. exact I. Qed.
Print Assumptions C11_placeholder.
