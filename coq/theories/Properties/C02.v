(** C02 — replay answers every interception from the recording or an explicit policy.  Statements only. *)
From Playback Require Import Base.Str Values.PyVal Values.KeyFormat Recorder.Dsl Recorder.Exec Recorder.Run
  Recorder.RecFacts Recorder.PlayFacts.
From Coq Require Import QArith.

(** Replaying any program against any recording writes into no recording and aborts nothing ... *)
Theorem C02_replay_writes_nothing :
  forall R c env s, let '(_, _, l) := play_exec R c env s in writes_of l = [] /\ aborts_of l = 0%nat.
Proof. exact play_exec_quiet. Qed.
Print Assumptions C02_replay_writes_nothing.

(** ... and play() reaches the cassette only through its one get_recording; cassette contents and the
    sampling draw stream are unchanged - with recording enabled or disabled ([en]) alike. *)
Theorem C02_replay_is_readonly :
  forall en t pf s w, let '(ob, w') := play_run en t pf s w in w' = w /\ exists f, ob_cass ob = [CGet f].
Proof. exact play_run_readonly. Qed.
Print Assumptions C02_replay_is_readonly.

(** Unless an input opts in, no wrapped body - input or output - is executed during replay. *)
Theorem C02_no_body_runs :
  forall R c env s, no_run_missing c -> let '(_, _, l) := play_exec R c env s in bodies_of l = [].
Proof. exact play_exec_no_bodies. Qed.
Print Assumptions C02_no_body_runs.

(** Every input call is answered exactly by the documented policy [input_policy] (PlayFacts.v): a key that
    cannot be built is an error; else the first PRESENT key among main alias and fallback aliases (in order)
    answers with what was recorded under that key (value through the handler's restore, or the recorded
    exception); else the original runs if opted in; else the substitute if configured - any value other than
    None, falsy ones included, callables applied to the call's arguments; else RecordingKeyError.  The body
    runs in the opted-in case only, and a recorded answer always comes from one of the call's own keys. *)
Theorem C02_replay_policy :
  forall R cf a kw body s,
    let '(o, s', l) := play_in_call R cf a kw body s in
    let '(ob, sb, lb) := body s in
    o = answer_outcome (input_policy R cf a kw) ob /\
    (input_policy R cf a kw = AOriginal -> s' = sb /\ bodies_of l = i_alias cf :: bodies_of lb) /\
    (input_policy R cf a kw <> AOriginal -> s' = s /\ bodies_of l = []).
Proof. exact play_in_call_policy. Qed.
Print Assumptions C02_replay_policy.

Theorem C02_recorded_answer_is_own_key :
  forall R cf a kw key o, input_policy R cf a kw = ARecorded key o ->
    exists keys d, input_keys cf a kw = Some keys /\ List.In key keys /\ rlookup key R = Some d /\ o = recorded_outcome cf a kw d.
Proof.
  intros R cf a kw key o. unfold input_policy.
  destruct (input_keys cf a kw) as [keys|]; [|discriminate].
  destruct (find _ keys) as [k0|] eqn:F.
  - apply find_some in F. destruct F as [I _]. destruct (rlookup k0 R) as [d|] eqn:L; [|discriminate].
    intros E; inversion E; subst. exists keys, d. auto.
  - destruct (i_run_missing cf); [discriminate|]. destruct (i_vmiss cf) as [|[]|]; discriminate.
Qed.
Print Assumptions C02_recorded_answer_is_own_key.

(** Outputs: the recorded result of that alias and ordinal; if there is none, RecordingKeyError when
    fail_on_no_recorded_result, else the default; the body never runs. *)
Theorem C02_output_policy :
  forall R cf a kw s,
    let '(o, s', l) := play_out_call R cf a kw s in
    let n := fst (bump (o_alias cf) (pcounter s)) in
    o = match rlookup (okey_result (o_alias cf) n) R with
        | Some (DExn e) => OExn e
        | Some (DVal v) => OVal v
        | Some _ => OExn EOutside
        | None => if o_fail cf then OExn EKeyMissing else OVal (o_default cf)
        end /\ bodies_of l = [].
Proof. exact play_out_call_policy. Qed.
Print Assumptions C02_output_policy.

(** Any number of replays of the same recording give the same result. *)
Theorem C02_replay_repeatable :
  forall (draws : nat -> Q) en t pf s w, idle s ->
    let '(ob1, w1) := play_run en t pf s w in play_run en t pf (ob_state ob1) w1 = (ob1, w1).
Proof. exact play_run_repeatable. Qed.
Print Assumptions C02_replay_repeatable.

(** non-vacuity: a falsy substitute is honoured; a fallback alias answers when the main one is absent *)
Example C02_example :
  let cf vm fb := {| i_alias := U"new"; i_resolver := RNone; i_cap := CapAll; i_static := true; i_handler := None;
                     i_prep_discards := false; i_run_missing := false; i_vmiss := vm; i_fallbacks := fb |} in
  let R := [(U"input: old args={""py/tuple"": [1]}, kwargs=[]", DVal (VInt 7))] in
  input_policy R (cf (VMLit (VInt 0)) FbNone) [VInt 1] [] = ASubstitute (VInt 0) /\
  input_policy R (cf VMNone (FbList [U"old"])) [VInt 1] [] =
    ARecorded (U"input: old args={""py/tuple"": [1]}, kwargs=[]") (OVal (VInt 7)) /\
  input_policy R (cf VMNone FbNone) [VInt 1] [] = AMissing.
Proof. vm_compute. repeat split; reflexivity. Qed.

(** ---- non-vacuity per theorem (wp-audit).  The theorems above without a premise need none; the two with one:
    [C02_no_body_runs] (no_run_missing) and [C02_replay_repeatable] (idle), on a program with a nested input,
    an output and a saved recording, so that the conclusions are not trivially true ---- *)
Definition c02_in : icfg :=
  {| i_alias := U"get"; i_resolver := RNone; i_cap := CapAll; i_static := true; i_handler := None;
     i_prep_discards := false; i_run_missing := false; i_vmiss := VMNone; i_fallbacks := FbNone |}.
Definition c02_out : ocfg := {| o_alias := U"send"; o_static := true; o_handler := None; o_fail := true; o_default := VNone |}.
Definition c02_prog : code :=
  Inp c02_in (Inp c02_in (Ret (Lit (VInt 9))) [Lit (VInt 2)] [] (Ret (Var 1))) [Lit (VInt 1)] []
    (Out c02_out (Ret (Lit VNone)) [Var 0] [] (Ret (Var 0))).
Definition c02_op : opdef := {| op_class := U"Op"; op_classlevel := false; op_extractor := XNone; op_body := c02_prog |}.
Definition c02_P : prm := {| p_rate := 1; p_ignore := false; p_skipped := false; p_copy := false |}.

(* no_body_runs: recorded first, then replayed against what was saved *)
Example C02_no_body_runs_nonvacuous :
  let '(ob, w') := record_run (fun _ => 0) true c02_P c02_op false fresh_rst fresh_world in
  match w_saved w' with
  | [(_, st)] =>
      let '(o, _, l) := play_exec (fst (fetch st)) c02_prog [] (mk_pst [] true) in
      no_run_missing c02_prog /\ o = OVal (VInt 9) /\ bodies_of l = [] /\ length (answers_of l) = 2%nat /\
      bodies_of (ob_trace ob) = [U"get"; U"get"; U"send"]
  | _ => False
  end.
Proof. vm_compute. repeat split; reflexivity. Qed.

Example C02_replay_repeatable_nonvacuous :
  let '(ob, w') := record_run (fun _ => 0) true c02_P c02_op false fresh_rst fresh_world in
  let '(ob1, w1) := play_run true 0%nat (PfOp c02_op) (ob_state ob) w' in
  idle (ob_state ob) /\ ob_cass ob1 = [CGet true] /\ ob_outcome ob1 = OVal VNone /\
  length (ob_pbouts ob1) = 2%nat /\ ob_pbouts ob1 = ob_recouts ob1 /\
  play_run true 0%nat (PfOp c02_op) (ob_state ob1) w1 = (ob1, w1).
Proof. vm_compute. repeat split; reflexivity. Qed.
