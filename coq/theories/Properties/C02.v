(** C02 — replay answers every interception from the recording or an explicit policy.  Statements only. *)
From Playback Require Import Base.Str Values.PyVal Values.KeyFormat Recorder.Dsl Recorder.Exec Recorder.Run
  Recorder.RecFacts Recorder.PlayFacts.
From Coq Require Import QArith.

(** Replaying any program against any recording writes into no recording and aborts nothing ... *)
Theorem C02_replay_writes_nothing :
  forall R c env s, let '(_, _, l) := play_exec R c env s in writes_of l = [] /\ aborts_of l = 0%nat.
Proof. exact play_exec_quiet. Qed.
Print Assumptions C02_replay_writes_nothing.

(** ... and play() reaches the cassette only through its one get_recording; cassette contents and the
    sampling draw stream are unchanged - with recording enabled or disabled ([en]) alike. *)
Theorem C02_replay_is_readonly :
  forall en t pf s w, let '(ob, w') := play_run en t pf s w in w' = w /\ exists f, ob_cass ob = [CGet f].
Proof. exact play_run_readonly. Qed.
Print Assumptions C02_replay_is_readonly.

(** Unless an input opts in, no wrapped body - input or output - is executed during replay. *)
Theorem C02_no_body_runs :
  forall R c env s, no_run_missing c -> let '(_, _, l) := play_exec R c env s in bodies_of l = [].
Proof. exact play_exec_no_bodies. Qed.
Print Assumptions C02_no_body_runs.

(** Every input call is answered exactly by the documented policy [input_policy] (PlayFacts.v): a key that
    cannot be built is an error; else the first PRESENT key among main alias and fallback aliases (in order)
    answers with what was recorded under that key (value through the handler's restore, or the recorded
    exception); else the original runs if opted in; else the substitute if configured - any value other than
    None, falsy ones included, callables applied to the call's arguments; else RecordingKeyError.  The body
    runs in the opted-in case only, and a recorded answer always comes from one of the call's own keys. *)
Theorem C02_replay_policy :
  forall R cf a kw body s,
    let '(o, s', l) := play_in_call R cf a kw body s in
    let '(ob, sb, lb) := body s in
    o = answer_outcome (input_policy R cf a kw) ob /\
    (input_policy R cf a kw = AOriginal -> s' = sb /\ bodies_of l = i_alias cf :: bodies_of lb) /\
    (input_policy R cf a kw <> AOriginal -> s' = s /\ bodies_of l = []).
Proof. exact play_in_call_policy. Qed.
Print Assumptions C02_replay_policy.

Theorem C02_recorded_answer_is_own_key :
  forall R cf a kw key o, input_policy R cf a kw = ARecorded key o ->
    exists keys d, input_keys cf a kw = Some keys /\ List.In key keys /\ rlookup key R = Some d /\ o = recorded_outcome cf a kw d.
Proof.
  intros R cf a kw key o. unfold input_policy.
  destruct (input_keys cf a kw) as [keys|]; [|discriminate].
  destruct (find _ keys) as [k0|] eqn:F.
  - apply find_some in F. destruct F as [I _]. destruct (rlookup k0 R) as [d|] eqn:L; [|discriminate].
    intros E; inversion E; subst. exists keys, d. auto.
  - destruct (i_run_missing cf); [discriminate|]. destruct (i_vmiss cf) as [|[]|]; discriminate.
Qed.
Print Assumptions C02_recorded_answer_is_own_key.

(** Outputs: the recorded result of that alias and ordinal; if there is none, RecordingKeyError when
    fail_on_no_recorded_result, else the default; the body never runs. *)
Theorem C02_output_policy :
  forall R cf a kw s,
    let '(o, s', l) := play_out_call R cf a kw s in
    let n := fst (bump (o_alias cf) (pcounter s)) in
    o = match rlookup (okey_result (o_alias cf) n) R with
        | Some (DExn e) => OExn e
        | Some (DVal v) => OVal v
        | Some _ => OExn EOutside
        | None => if o_fail cf then OExn EKeyMissing else OVal (o_default cf)
        end /\ bodies_of l = [].
Proof. exact play_out_call_policy. Qed.
Print Assumptions C02_output_policy.

(** Any number of replays of the same recording give the same result. *)
Theorem C02_replay_repeatable :
  forall (draws : nat -> Q) en t pf s w, idle s ->
    let '(ob1, w1) := play_run en t pf s w in play_run en t pf (ob_state ob1) w1 = (ob1, w1).
Proof. exact play_run_repeatable. Qed.
Print Assumptions C02_replay_repeatable.

(** non-vacuity: a falsy substitute is honoured; a fallback alias answers when the main one is absent *)
Example C02_example :
  let cf vm fb := {| i_alias := U"new"; i_resolver := RNone; i_cap := CapAll; i_static := true; i_handler := None;
                     i_prep_discards := false; i_run_missing := false; i_vmiss := vm; i_fallbacks := fb |} in
  let R := [(U"input: old args={""py/tuple"": [1]}, kwargs=[]", DVal (VInt 7))] in
  input_policy R (cf (VMLit (VInt 0)) FbNone) [VInt 1] [] = ASubstitute (VInt 0) /\
  input_policy R (cf VMNone (FbList [U"old"])) [VInt 1] [] =
    ARecorded (U"input: old args={""py/tuple"": [1]}, kwargs=[]") (OVal (VInt 7)) /\
  input_policy R (cf VMNone FbNone) [VInt 1] [] = AMissing.
Proof. vm_compute. repeat split; reflexivity. Qed.
