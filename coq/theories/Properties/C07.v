(* placeholder *)
From Playback Require Import Cassette.Stores.
Theorem C07_placeholder : True. Proof. exact I. Qed.
Print Assumptions C07_placeholder.
