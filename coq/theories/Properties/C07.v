(** C07 — stored recordings round-trip through every cassette.  Statements only.
    Models: Cassette/Stores.v (in-memory, file-based), Cassette/S3Store.v + Bucket.v (S3),
    Values/Codec.v (jsonpickle flatten/restore, json.dumps).  Oracles with their premises:
    [qp]/[qp_dec] quoted-printable for bytes values, [loads] json.loads, [compress]/[decompress] zlib.
    The premise about [loads] is asked on the well-formed JSON trees [jwf] only (strings without lone
    surrogates, float nodes carrying a float text): over ALL [json] terms no function inverts [dumps]
    (C07_unrestricted_loads_premise_refuted), whereas the concrete parser of the correspondence runs
    satisfies the restricted premise (C07_loads_inverts_dumps), as do the concrete quoted-printable
    codec and identity zlib theirs: the *_concrete theorems have no oracle premise left.
    [rec_leaves_ok r]: every float in data / metadata carries a float.__repr__ text (JsonWf.float_repr_ok)
    and every bytes value is a list of bytes; with [rec_wf] this puts the flattened recording in [jwf].
    [rec_wf r]: the id is a well-formed str and data / metadata are dicts in the serializer's
    faithful domain [wf] (any key text except jsonpickle's reserved py/... tags; tuples, bytes,
    nested containers, objects with at least one attribute, class references, ints, floats).
    [fetched_of r] = id, [canon] of the data dict, [canon] of the metadata dict, where [canon]
    only sorts dict items (Python's == on dicts ignores insertion order; see C07_fetched_meaning).
    Values are trees: shared sub-objects are outside [pyval] and are covered by the direct
    predicate of the check only (known finding F07c). *)
From Playback Require Import Base.Str Values.PyVal Values.SortFacts Values.Codec Values.JsonWf Values.JsonParse
  Values.JsonFacts Cassette.Bucket Cassette.S3Store Cassette.S3StoreFacts Cassette.Stores Cassette.StoresFacts.
From Coq Require Import Permutation.
Open Scope list_scope.

(** In-memory: whatever the store held before ([s] is arbitrary, so in particular every state
    reached by any sequence of saves, including an earlier save of the same id), after saving [r]
    and then any recordings with other ids, fetching r's id gives r back; the metadata-only fetch
    agrees with the metadata of the full fetch. *)
Theorem C07_roundtrip_mem :
  forall qp qp_dec loads, (forall b, qp_dec (qp b) = b) ->
    (forall j, jwf j = true -> loads (dumps j) = Some j) -> (forall b, is_bytes b = true -> str_ok (qp b) = true) ->
  forall r s rs,
    rec_wf r = true -> rec_leaves_ok r = true -> Forall (fun r' => r_id r' <> r_id r) rs ->
    snd (mem_save qp r s) = Ans tt /\
    mem_get qp_dec loads (r_id r) (mem_saves qp rs (fst (mem_save qp r s))) = Ans (fetched_of r) /\
    mem_get_meta qp_dec loads (r_id r) (mem_saves qp rs (fst (mem_save qp r s))) = Ans (f_meta (fetched_of r)).
Proof. exact roundtrip_mem. Qed.
Print Assumptions C07_roundtrip_mem.

(** File based: the same, for later saves whose file name differs from r's (guaranteed for ids made
    by create_new_recording, C07_path_injective; false for some hand-made ids, C07_path_collision_refuted). *)
Theorem C07_roundtrip_file :
  forall qp qp_dec loads, (forall b, qp_dec (qp b) = b) ->
    (forall j, jwf j = true -> loads (dumps j) = Some j) -> (forall b, is_bytes b = true -> str_ok (qp b) = true) ->
  forall r d rs,
    rec_wf r = true -> rec_leaves_ok r = true -> Forall (fun r' => fpath (r_id r') <> fpath (r_id r)) rs ->
    snd (file_save qp r d) = Ans tt /\
    file_get qp_dec loads (r_id r) (file_saves qp rs (fst (file_save qp r d))) = Ans (fetched_of r) /\
    file_get_meta qp_dec loads (r_id r) (file_saves qp rs (fst (file_save qp r d))) = Ans (f_meta (fetched_of r)).
Proof. exact roundtrip_file. Qed.
Print Assumptions C07_roundtrip_file.

(** S3, any key prefix (empty included), any bucket content before: for a recording without a
    data key "_metadata" (see C07_s3_reserved_key_refuted) that the sampling policy keeps. *)
Theorem C07_roundtrip_s3 :
  forall qp qp_dec loads compress decompress,
    (forall b, qp_dec (qp b) = b) ->
    (forall j, jwf j = true -> loads (dumps j) = Some j) -> (forall b, is_bytes b = true -> str_ok (qp b) = true) -> (forall b, decompress (compress b) = Some b) ->
  forall c r s st rs,
    rec_wf r = true -> rec_leaves_ok r = true -> assoc META (r_data r) = None -> c_read_only c = false ->
    (should_sample s = true /\ match s with NoCalc => True | Calc _ _ => id_category (r_id r) <> None end) ->
    Forall (fun rs' => r_id (fst rs') <> r_id r) rs ->
    snd (s3_save qp compress c r s st) = Ans tt /\
    s3_get qp_dec loads decompress c (r_id r) (objs (s3_saves qp compress c rs (fst (s3_save qp compress c r s st))))
      = Ans (fetched_of r) /\
    s3_get_meta qp_dec loads c (r_id r) (objs (s3_saves qp compress c rs (fst (s3_save qp compress c r s st))))
      = Ans (f_meta (fetched_of r)).
Proof. exact roundtrip_s3. Qed.
Print Assumptions C07_roundtrip_s3.

(** What equality with [fetched_of r] says about a fetched dict: it has the same key set as the
    saved one and under every key the saved value up to dict insertion order. *)
Theorem C07_fetched_meaning :
  forall d, NoDup (keys d) ->
    exists d', canon (VDict d) = VDict d' /\ Permutation (keys d') (keys d) /\
               forall k, assoc k d' = option_map canon (assoc k d).
Proof. exact canon_dict_meaning. Qed.
Print Assumptions C07_fetched_meaning.

(** File names are injective on created ids: category without '/', uuid hex without '/' and '_'. *)
Theorem C07_path_injective :
  forall cat1 hex1 cat2 hex2,
    ~ In 47%N cat1 -> ~ In 47%N cat2 -> ~ In 47%N hex1 -> ~ In 47%N hex2 -> ~ In 95%N hex1 -> ~ In 95%N hex2 ->
    fpath (plain_create cat1 hex1) = fpath (plain_create cat2 hex2) -> plain_create cat1 hex1 = plain_create cat2 hex2.
Proof. exact path_injective. Qed.
Print Assumptions C07_path_injective.

(** Hand-made ids "a/b_c" and "a_b/c" share the file a_b_c.json: after saving both, fetching the
    first id hands back the second recording (observation: outside the created-id domain). *)
Theorem C07_path_collision_refuted :
  forall qp qp_dec loads, (forall b, qp_dec (qp b) = b) ->
    (forall j, jwf j = true -> loads (dumps j) = Some j) -> (forall b, is_bytes b = true -> str_ok (qp b) = true) ->
    r_id collide_a <> r_id collide_b /\ fpath (r_id collide_a) = fpath (r_id collide_b) /\
    rec_wf collide_a = true /\ rec_wf collide_b = true /\ rec_leaves_ok collide_b = true /\
    forall d, file_get qp_dec loads (r_id collide_a) (fst (file_save qp collide_b (fst (file_save qp collide_a d))))
              = Ans (fetched_of collide_b) /\
              fetched_of collide_b <> fetched_of collide_a.
Proof. exact path_collision. Qed.
Print Assumptions C07_path_collision_refuted.

(** An id that was never saved answers NoSuchRecording, for the full and for the metadata-only
    fetch, on all three cassettes (from any state that does not hold the id, through any later
    saves of other ids). *)
Theorem C07_unknown_id_signals_mem :
  forall qp qp_dec loads id s rs,
    assoc id s = None -> Forall (fun r => r_id r <> id) rs ->
    mem_get qp_dec loads id (mem_saves qp rs s) = Raises NoSuchRecording /\
    mem_get_meta qp_dec loads id (mem_saves qp rs s) = Raises NoSuchRecording.
Proof. exact unknown_mem. Qed.
Print Assumptions C07_unknown_id_signals_mem.

Theorem C07_unknown_id_signals_file :
  forall qp qp_dec loads id d rs,
    assoc (fpath id) d = None -> Forall (fun r => fpath (r_id r) <> fpath id) rs ->
    file_get qp_dec loads id (file_saves qp rs d) = Raises NoSuchRecording /\
    file_get_meta qp_dec loads id (file_saves qp rs d) = Raises NoSuchRecording.
Proof. exact unknown_file. Qed.
Print Assumptions C07_unknown_id_signals_file.

Theorem C07_unknown_id_signals_s3 :
  forall qp qp_dec loads compress decompress c id st rs,
    b_get (full_key (np c) id) (objs st) = None -> b_get (meta_key (np c) id) (objs st) = None ->
    Forall (fun rs' => r_id (fst rs') <> id) rs ->
    s3_get qp_dec loads decompress c id (objs (s3_saves qp compress c rs st)) = Raises NoSuchRecording /\
    s3_get_meta qp_dec loads c id (objs (s3_saves qp compress c rs st)) = Raises NoSuchRecording.
Proof. exact unknown_s3. Qed.
Print Assumptions C07_unknown_id_signals_s3.

(** Known finding F07b.  On S3 the general law is: the fetched data is the saved data WITHOUT a
    "_metadata" entry ... *)
Theorem C07_roundtrip_s3_general :
  forall qp qp_dec loads compress decompress,
    (forall b, qp_dec (qp b) = b) ->
    (forall j, jwf j = true -> loads (dumps j) = Some j) -> (forall b, is_bytes b = true -> str_ok (qp b) = true) -> (forall b, decompress (compress b) = Some b) ->
  forall c r s st rs,
    rec_wf r = true -> rec_leaves_ok r = true -> c_read_only c = false ->
    (should_sample s = true /\ match s with NoCalc => True | Calc _ _ => id_category (r_id r) <> None end) ->
    Forall (fun rs' => r_id (fst rs') <> r_id r) rs ->
    snd (s3_save qp compress c r s st) = Ans tt /\
    s3_get qp_dec loads decompress c (r_id r) (objs (s3_saves qp compress c rs (fst (s3_save qp compress c r s st))))
      = Ans (Fetched (VStr (r_id r)) (canon (VDict (dict_remove META (r_data r)))) (canon (VDict (r_meta r)))) /\
    s3_get_meta qp_dec loads c (r_id r) (objs (s3_saves qp compress c rs (fst (s3_save qp compress c r s st))))
      = Ans (canon (VDict (r_meta r))).
Proof. exact roundtrip_s3_general. Qed.
Print Assumptions C07_roundtrip_s3_general.

(** ... so a recording with the data key "_metadata" does not round-trip (witness:
    data {"_metadata": 1, "k": 2}, metadata {"m": 3}; fetched data is {"k": 2}). *)
Theorem C07_s3_reserved_key_refuted :
  forall qp qp_dec loads compress decompress,
    (forall b, qp_dec (qp b) = b) ->
    (forall j, jwf j = true -> loads (dumps j) = Some j) -> (forall b, is_bytes b = true -> str_ok (qp b) = true) -> (forall b, decompress (compress b) = Some b) ->
  forall c st, c_read_only c = false ->
    rec_wf reserved_witness = true /\ rec_leaves_ok reserved_witness = true /\
    exists f, s3_get qp_dec loads decompress c (r_id reserved_witness)
                (objs (fst (s3_save qp compress c reserved_witness NoCalc st))) = Ans f /\
              f_data f = VDict [(U"k", VInt 2)] /\ f_data f <> f_data (fetched_of reserved_witness).
Proof. exact s3_reserved_key_lost. Qed.
Print Assumptions C07_s3_reserved_key_refuted.

(** The oracle premises, discharged for the concrete oracles of the correspondence runs
    (Values/JsonParse.v: [loads], [qp_dec_simple]; Values/Codec.v: [qp_simple]; identity zlib). *)
Theorem C07_loads_inverts_dumps :
  forall j, jwf j = true -> loads (dumps j) = Some j.
Proof. exact loads_dumps. Qed.
Print Assumptions C07_loads_inverts_dumps.

(** ... and why the premise is restricted to [jwf]: unrestricted, it is satisfied by no function. *)
Theorem C07_unrestricted_loads_premise_refuted :
  forall lds : str -> option json, ~ (forall j, lds (dumps j) = Some j).
Proof. exact loads_dumps_unsatisfiable. Qed.
Print Assumptions C07_unrestricted_loads_premise_refuted.

Theorem C07_roundtrip_mem_concrete :
  forall r s rs,
    rec_wf r = true -> rec_leaves_ok r = true -> Forall (fun r' => r_id r' <> r_id r) rs ->
    snd (mem_save qp_simple r s) = Ans tt /\
    mem_get qp_dec_simple loads (r_id r) (mem_saves qp_simple rs (fst (mem_save qp_simple r s))) = Ans (fetched_of r) /\
    mem_get_meta qp_dec_simple loads (r_id r) (mem_saves qp_simple rs (fst (mem_save qp_simple r s)))
      = Ans (f_meta (fetched_of r)).
Proof. exact (roundtrip_mem qp_simple qp_dec_simple loads qp_simple_roundtrip loads_dumps qp_simple_ok). Qed.
Print Assumptions C07_roundtrip_mem_concrete.

Theorem C07_roundtrip_file_concrete :
  forall r d rs,
    rec_wf r = true -> rec_leaves_ok r = true -> Forall (fun r' => fpath (r_id r') <> fpath (r_id r)) rs ->
    snd (file_save qp_simple r d) = Ans tt /\
    file_get qp_dec_simple loads (r_id r) (file_saves qp_simple rs (fst (file_save qp_simple r d))) = Ans (fetched_of r) /\
    file_get_meta qp_dec_simple loads (r_id r) (file_saves qp_simple rs (fst (file_save qp_simple r d)))
      = Ans (f_meta (fetched_of r)).
Proof. exact (roundtrip_file qp_simple qp_dec_simple loads qp_simple_roundtrip loads_dumps qp_simple_ok). Qed.
Print Assumptions C07_roundtrip_file_concrete.

Theorem C07_roundtrip_s3_concrete :
  forall c r s st rs,
    rec_wf r = true -> rec_leaves_ok r = true -> assoc META (r_data r) = None -> c_read_only c = false ->
    (should_sample s = true /\ match s with NoCalc => True | Calc _ _ => id_category (r_id r) <> None end) ->
    Forall (fun rs' => r_id (fst rs') <> r_id r) rs ->
    snd (s3_save qp_simple (fun b => b) c r s st) = Ans tt /\
    s3_get qp_dec_simple loads (fun b => Some b) c (r_id r)
      (objs (s3_saves qp_simple (fun b => b) c rs (fst (s3_save qp_simple (fun b => b) c r s st)))) = Ans (fetched_of r) /\
    s3_get_meta qp_dec_simple loads c (r_id r)
      (objs (s3_saves qp_simple (fun b => b) c rs (fst (s3_save qp_simple (fun b => b) c r s st))))
      = Ans (f_meta (fetched_of r)).
Proof.
  exact (roundtrip_s3 qp_simple qp_dec_simple loads (fun b => b) (fun b => Some b)
           qp_simple_roundtrip loads_dumps qp_simple_ok (fun b => eq_refl)).
Qed.
Print Assumptions C07_roundtrip_s3_concrete.

(** ------------------------------------------------------------------------------------------ *)
(** Non-vacuity: a recording with awkward key texts and nested values meets [rec_wf]; with the
    concrete parser and identity zlib the three models hand it back after later saves of another
    id; and the concrete oracles meet every oracle premise of the theorems above (so those premises
    are satisfiable together; for the real json / zlib / quopri they are exercised by the
    correspondence run on every generated case). *)
Definition ex_r : recording :=
  Rec (U"Op/0123456789abcdef") false
      [([34; 113; 34]%N, VTuple [VInt 1; VBytes [0; 255]%N; VObj (U"lib.pyvals.Pt") [(U"x", VList [VNone])]]);
       (U"a/b", VDict [(U"z", VFloat (U"1.5")); (U"", VStr [233; 128512]%N)])]
      [(U"m", VTuple [VBool true]); (U"class", VClass (U"lib.pyvals.Pt"))].
Definition ex_other : recording := Rec (U"Op/ffff") false [(U"k", VInt 7)] [].

Example C07_oracle_premises_met :
  (forall b, qp_dec_simple (qp_simple b) = b) /\
  (forall j, jwf j = true -> loads (dumps j) = Some j) /\
  (forall b, is_bytes b = true -> str_ok (qp_simple b) = true) /\
  (forall b : bytes, (fun b => Some b) ((fun b => b) b) = Some b).
Proof.
  split; [exact qp_simple_roundtrip|]. split; [exact loads_dumps|]. split; [exact qp_simple_ok|]. reflexivity.
Qed.

Example C07_example :
  rec_wf ex_r = true /\ rec_leaves_ok ex_r = true /\ rec_leaves_ok ex_other = true /\ assoc META (r_data ex_r) = None /\ r_id ex_other <> r_id ex_r /\
  fpath (r_id ex_other) <> fpath (r_id ex_r) /\
  mem_get qp_dec_simple loads (r_id ex_r) (mem_saves qp_simple [ex_other] (fst (mem_save qp_simple ex_r []))) = Ans (fetched_of ex_r) /\
  file_get qp_dec_simple loads (r_id ex_r) (file_saves qp_simple [ex_other] (fst (file_save qp_simple ex_r []))) = Ans (fetched_of ex_r) /\
  s3_get qp_dec_simple loads (fun b => Some b) (Cfg (U"p") false false) (r_id ex_r)
    (objs (s3_saves qp_simple (fun b => b) (Cfg (U"p") false false) [(ex_other, NoCalc)]
             (fst (s3_save qp_simple (fun b => b) (Cfg (U"p") false false) ex_r NoCalc (BState [] []))))) = Ans (fetched_of ex_r) /\
  fetched_of ex_r <> fetched_of ex_other.
Proof.
  split; [vm_compute; reflexivity|]. split; [vm_compute; reflexivity|]. split; [vm_compute; reflexivity|].
  split; [vm_compute; reflexivity|].
  split; [vm_compute; discriminate|]. split; [vm_compute; discriminate|].
  split; [vm_compute; reflexivity|]. split; [vm_compute; reflexivity|]. split; [vm_compute; reflexivity|].
  vm_compute; discriminate.
Qed.
