(** C20 - file interception preserves file bytes and honours the size limit.  Statements only. *)
From Coq Require Import QArith ZArith NArith List Bool Lia.
From Playback Require Import Base.Str Values.PyVal Values.Codec Values.Heap
     Files.Base64 Files.Base64Facts Files.FileIntercept Files.FileFacts.
Open Scope list_scope.

(** ---- the base64 envelope (file_interception.py:120-159) ---- *)

(** decoding inverts encoding on every byte string *)
Theorem C20_b64_roundtrip : forall b, bytes_ok b = true -> b64dec (b64enc b) = Some b.
Proof. exact b64_roundtrip. Qed.
Print Assumptions C20_b64_roundtrip.

(** every character of the encoding is one of the 65 characters A-Z a-z 0-9 + / = *)
Theorem C20_b64_alphabet : forall b c, In c (b64enc b) -> In c ALPHABET.
Proof. exact b64enc_chars_in_alphabet. Qed.
Print Assumptions C20_b64_alphabet.

Theorem C20_b64_no_space : forall b, ~ In 32%N (b64enc b).
Proof. exact b64enc_no_space. Qed.
Print Assumptions C20_b64_no_space.

(** so the recorded text of a file that was read is never mistaken for the placeholder *)
Theorem C20_b64_never_placeholder : forall b, list_eqb N.eqb (b64enc b) PLACEHOLDER = false.
Proof. exact b64enc_not_placeholder. Qed.
Print Assumptions C20_b64_never_placeholder.

Theorem C20_b64_length : forall b, (Z.of_nat (length (b64enc b)) = 4 * ((Z.of_nat (length b) + 2) / 3))%Z.
Proof. exact b64enc_length. Qed.
Print Assumptions C20_b64_length.

Theorem C20_deserialize_serialize : forall b p, bytes_ok b = true ->
  deserialize_file (serialize_file b p) = Ans (VStr p, b).
Proof. exact deserialize_serialize. Qed.
Print Assumptions C20_deserialize_serialize.

(** ---- where the path is taken from (file_interception.py:49-61) ---- *)

Theorem C20_path_by_keyword : forall h args kwargs p,
  assoc (h_name h) kwargs = Some (AStr p) -> p <> [] -> passes_path h args kwargs p.
Proof. exact passes_by_keyword. Qed.
Print Assumptions C20_path_by_keyword.

Theorem C20_path_by_position : forall h args kwargs p,
  assoc (h_name h) kwargs = None -> (0 <= h_index h)%Z ->
  nth_error args (Z.to_nat (h_index h)) = Some (AStr p) -> passes_path h args kwargs p.
Proof. exact passes_by_position. Qed.
Print Assumptions C20_path_by_position.

Theorem C20_path_found : forall h args kwargs p,
  passes_path h args kwargs p -> get_path h args kwargs = Ans (AStr p).
Proof. exact get_path_passes. Qed.
Print Assumptions C20_path_found.

(** ---- round trip: record -> any cassette -> replay ----
    [qp]/[qp_dec]: jsonpickle's coding of bytes inside the stored JSON (model A's oracle).  Premise (wp-audit:
    restated, weaker than before): decoding inverts encoding on BYTE strings (elements < 256).  The earlier premise
    asked this of every [list N], which [Codec.qp_simple] meets with the decoder [JsonParse.qp_dec_simple] but not
    with the heap model's [Heap.qp_dec_simple]; only a base64 text and the placeholder travel here, so bytes are
    all that is needed.  See NonVacuity.qp_premise_quoted_printable.
    [fsize]/[fread]/[writable]: the file system.  The size reported by getsize need not even equal
    the number of bytes read (a file growing in between): whatever was read is what comes back. *)

(** input handler: for every byte string b at the recorded path, every way (keyword / position) of
    passing the recorded and the replayed path, and EVERY state [fs_play] of the file system the replay
    runs on (the replayed path may already hold a longer, shorter or equal file, or none): afterwards the
    path of the REPLAYED call holds exactly b ([fs_set]: [C20_fs_after_restore]), every other path is
    untouched, that path is returned; the only file opened for reading is the recorded one *)
Theorem C20_file_roundtrip :
  forall (qp : list N -> str) (qp_dec : str -> list N), (forall b, bytes_ok b = true -> qp_dec (qp b) = b) ->
  forall fsize fread writable h args_rec kw_rec args_play kw_play p_rec p_play b (fs_play : fstate),
    passes_path h args_rec kw_rec p_rec -> passes_path h args_play kw_play p_play ->
    str_ok p_rec = true -> within_limit h fsize p_rec -> fread p_rec = Ans b -> bytes_ok b = true ->
    writable p_play = true ->
    input_trip h fsize fread writable qp qp_dec args_rec kw_rec args_play kw_play fs_play
    = (Replayed (Ans p_play, fs_set p_play b fs_play), [p_rec]).
Proof. exact input_roundtrip. Qed.
Print Assumptions C20_file_roundtrip.

(** what [fs_set p b fs] means: p holds exactly b, nothing else changed *)
Theorem C20_fs_after_restore : forall p b fs,
  fs_get p (fs_set p b fs) = Some b /\ (forall q, q <> p -> fs_get q (fs_set p b fs) = fs_get q fs).
Proof. exact (fun p b fs => conj (fs_get_set_same p b fs) (fun q N => fs_get_set_other p q b fs N)). Qed.
Print Assumptions C20_fs_after_restore.

(** the restore itself, on any previous state and for any recorded data that decodes to b *)
Theorem C20_restore_overwrites : forall h writable recorded args kwargs fs p pth b,
  passes_path h args kwargs p -> writable p = true -> deserialize_file recorded = Ans (pth, b) ->
  restore_input h writable recorded args kwargs fs = (Ans p, fs_set p b fs).
Proof. exact restore_input_sets. Qed.
Print Assumptions C20_restore_overwrites.

(** it is the truncation of open(.., "wb") that makes it so: a write at offset 0 over a longer file keeps the tail *)
Theorem C20_truncation_needed : forall old b, (length b < length old)%nat -> write_at0 old b <> b.
Proof. exact write_without_truncate_keeps_tail. Qed.
Print Assumptions C20_truncation_needed.

(** several recordings replayed one after another into the same working path - shrinking, growing,
    undecodable ones in between, any initial state: the path holds exactly the bytes of the LAST one,
    and no other path is touched; replaying twice is the same as replaying once *)
Theorem C20_replay_sequence :
  forall (qp : list N -> str) (qp_dec : str -> list N), (forall b, bytes_ok b = true -> qp_dec (qp b) = b) ->
  forall writable h recs args kwargs fs p p_rec b v',
    passes_path h args kwargs p -> writable p = true -> str_ok p_rec = true -> bytes_ok b = true ->
    cassette_trip qp qp_dec (serialize_file b p_rec) = Some v' ->
    fs_get p (restore_all h writable (recs ++ [v']) args kwargs fs) = Some b.
Proof. exact stored_sequence_last. Qed.
Print Assumptions C20_replay_sequence.

Theorem C20_replay_sequence_confined : forall h writable recs args kwargs fs p q,
  passes_path h args kwargs p -> q <> p ->
  fs_get q (restore_all h writable recs args kwargs fs) = fs_get q fs.
Proof. exact restore_sequence_others. Qed.
Print Assumptions C20_replay_sequence_confined.

Theorem C20_replay_twice : forall h writable recorded args kwargs fs p pth b,
  passes_path h args kwargs p -> writable p = true -> deserialize_file recorded = Ans (pth, b) ->
  restore_all h writable [recorded; recorded] args kwargs fs = restore_all h writable [recorded] args kwargs fs.
Proof. exact restore_twice. Qed.
Print Assumptions C20_replay_twice.

(** output handler: the holder restored from the stored recording has content b *)
Theorem C20_file_roundtrip_output :
  forall (qp : list N -> str) (qp_dec : str -> list N), (forall b, bytes_ok b = true -> qp_dec (qp b) = b) ->
  forall fsize fread h args kwargs p b,
    passes_path h args kwargs p -> str_ok p = true -> within_limit h fsize p -> fread p = Ans b ->
    bytes_ok b = true ->
    output_trip h fsize fread qp qp_dec args kwargs = (Replayed (Ans (Holder b (VStr p))), [p]).
Proof. exact output_roundtrip. Qed.
Print Assumptions C20_file_roundtrip_output.

(** histories on one path: the same path intercepted again and again, the file rewritten in between (other bytes of
    the same or of another length; modification time and inode are no inputs of the handlers) - every recording is
    made of what the file holds at ITS interception, for outputs (holders) and inputs (files restored at the replayed path) *)
Theorem C20_history_output :
  forall (qp : list N -> str) (qp_dec : str -> list N), (forall b, bytes_ok b = true -> qp_dec (qp b) = b) ->
  forall h args kwargs p (hist : list fs_oracle) (bs : list (list N)),
    passes_path h args kwargs p -> str_ok p = true -> Forall2 (holds_at h p) hist bs ->
    map (fun o : fs_oracle => output_trip h (fst o) (snd o) qp qp_dec args kwargs) hist
    = map (fun b => (Replayed (Ans (Holder b (VStr p))), [p])) bs.
Proof. exact output_history. Qed.
Print Assumptions C20_history_output.

Theorem C20_history_input :
  forall (qp : list N -> str) (qp_dec : str -> list N), (forall b, bytes_ok b = true -> qp_dec (qp b) = b) ->
  forall h writable args_rec kw_rec args_play kw_play p_rec p_play (fs_play : fstate)
         (hist : list fs_oracle) (bs : list (list N)),
    passes_path h args_rec kw_rec p_rec -> passes_path h args_play kw_play p_play ->
    str_ok p_rec = true -> writable p_play = true -> Forall2 (holds_at h p_rec) hist bs ->
    map (fun o : fs_oracle => input_trip h (fst o) (snd o) writable qp qp_dec args_rec kw_rec args_play kw_play fs_play) hist
    = map (fun b => (Replayed (Ans p_play, fs_set p_play b fs_play), [p_rec])) bs.
Proof. exact input_history. Qed.
Print Assumptions C20_history_input.

(** in particular a file whose CONTENT is the placeholder text comes back as a file, not as "above limit" *)
Theorem C20_file_roundtrip_placeholder_content :
  forall (qp : list N -> str) (qp_dec : str -> list N), (forall b, bytes_ok b = true -> qp_dec (qp b) = b) ->
  forall fsize fread writable h args_rec kw_rec args_play kw_play p_rec p_play (fs_play : fstate),
    passes_path h args_rec kw_rec p_rec -> passes_path h args_play kw_play p_play ->
    str_ok p_rec = true -> within_limit h fsize p_rec -> fread p_rec = Ans PLACEHOLDER ->
    writable p_play = true ->
    fst (intercept_file h fsize fread args_rec kw_rec) = Ans (serialize_file PLACEHOLDER p_rec) /\
    serialize_file PLACEHOLDER p_rec <> above_limit_result p_rec /\
    input_trip h fsize fread writable qp qp_dec args_rec kw_rec args_play kw_play fs_play
    = (Replayed (Ans p_play, fs_set p_play PLACEHOLDER fs_play), [p_rec]).
Proof. exact input_roundtrip_placeholder_content. Qed.
Print Assumptions C20_file_roundtrip_placeholder_content.

(** ---- the size limit (file_interception.py:89-104, :63-77) ---- *)

(** the test is the exact comparison size > limit * 2^20 *)
Theorem C20_is_above_exact : forall size limit, is_above size limit = true <-> (limit * MB < inject_Z size)%Q.
Proof. exact is_above_spec. Qed.
Print Assumptions C20_is_above_exact.

(** above the limit the placeholder is recorded and no file is opened - for every read oracle, i.e.
    the content is not consulted; at or below it the file is read once and serialized *)
Theorem C20_limit_honoured : forall h fsize fread args kwargs p lim n,
  get_path h args kwargs = Ans (AStr p) -> h_limit h = Some lim -> fsize p = Ans n ->
  ((lim * MB < inject_Z n)%Q ->
     intercept_file h fsize fread args kwargs = (Ans (above_limit_result p), [])) /\
  ((inject_Z n <= lim * MB)%Q ->
     intercept_file h fsize fread args kwargs =
     (match fread p with Ans b => Ans (serialize_file b p) | Raises e => Raises e end, [p])).
Proof. exact limit_honoured. Qed.
Print Assumptions C20_limit_honoured.

Theorem C20_limit_content_not_consulted : forall h fsize fread1 fread2 args kwargs p,
  passes_path h args kwargs p -> beyond_limit h fsize p ->
  intercept_file h fsize fread1 args kwargs = intercept_file h fsize fread2 args kwargs.
Proof. exact intercept_beyond_ignores_content. Qed.
Print Assumptions C20_limit_content_not_consulted.

(** through the cassette: an above-limit input is represented by the placeholder, nothing was read *)
Theorem C20_limit_honoured_trip :
  forall (qp : list N -> str) (qp_dec : str -> list N), (forall b, bytes_ok b = true -> qp_dec (qp b) = b) ->
  forall fsize fread writable h args_rec kw_rec args_play kw_play p_rec p_play (fs_play : fstate),
    passes_path h args_rec kw_rec p_rec -> passes_path h args_play kw_play p_play ->
    str_ok p_rec = true -> beyond_limit h fsize p_rec -> writable p_play = true ->
    intercept_file h fsize fread args_rec kw_rec = (Ans (above_limit_result p_rec), []) /\
    input_trip h fsize fread writable qp qp_dec args_rec kw_rec args_play kw_play fs_play
    = (Replayed (Ans p_play, fs_set p_play PLACEHOLDER fs_play), []).
Proof. exact input_above_limit. Qed.
Print Assumptions C20_limit_honoured_trip.

Theorem C20_limit_honoured_output :
  forall (qp : list N -> str) (qp_dec : str -> list N), (forall b, bytes_ok b = true -> qp_dec (qp b) = b) ->
  forall fsize fread h args kwargs p,
    passes_path h args kwargs p -> str_ok p = true -> beyond_limit h fsize p ->
    output_trip h fsize fread qp qp_dec args kwargs = (Replayed (Ans (Holder PLACEHOLDER (VStr p))), []).
Proof. exact output_above_limit. Qed.
Print Assumptions C20_limit_honoured_output.

(** the three boundary sizes of a limit worth exactly n bytes *)
Theorem C20_limit_minus_one : forall limit n, (limit * MB == inject_Z n)%Q -> is_above (n - 1) limit = false.
Proof. exact boundary_minus_one. Qed.
Print Assumptions C20_limit_minus_one.

Theorem C20_limit_exact : forall limit n, (limit * MB == inject_Z n)%Q -> is_above n limit = false.
Proof. exact boundary_exact. Qed.
Print Assumptions C20_limit_exact.

Theorem C20_limit_plus_one : forall limit n, (limit * MB == inject_Z n)%Q -> is_above (n + 1) limit = true.
Proof. exact boundary_plus_one. Qed.
Print Assumptions C20_limit_plus_one.

(** limit from PLAYBACK_INTERCEPTED_FILE_SIZE_LIMIT: int(float(text)) MB, truncated toward zero *)
Theorem C20_env_limit : forall q, calc_limit None (EnvFloat q) = Ans (inject_Z (Qtrunc q)).
Proof. exact calc_limit_env. Qed.
Print Assumptions C20_env_limit.

Theorem C20_env_limit_truncates : forall q, let t := Qtrunc q in
  ((0 <= q -> inject_Z t <= q /\ q < inject_Z (t + 1)) /\
   (q <= 0 -> inject_Z (t - 1) < q /\ q <= inject_Z t))%Q.
Proof. exact Qtrunc_spec. Qed.
Print Assumptions C20_env_limit_truncates.

Theorem C20_env_limit_boundary : forall m,
  is_above (m * 1048576 - 1) (inject_Z m) = false /\
  is_above (m * 1048576) (inject_Z m) = false /\
  is_above (m * 1048576 + 1) (inject_Z m) = true.
Proof. exact int_limit_boundary. Qed.
Print Assumptions C20_env_limit_boundary.

(** ---- non-vacuity: concrete states meeting every hypothesis ---- *)
Module NonVacuity.
  Definition qp_id (b : list N) : str := b.
  Example qp_premise_identity : forall b, bytes_ok b = true -> qp_id (qp_id b) = b.
  Proof. reflexivity. Qed.

  (** ... and by the quoted-printable pair of the heap model (C11), which does NOT invert on arbitrary [list N] *)
  Definition qp_byte_ok (x : N) : bool :=
    match qp_byte x with
    | [c] => negb (c =? 61)%N && (c =? x)%N
    | [e; a; b] => (e =? 61)%N && (unhex a * 16 + unhex b =? x)%N
    | _ => false
    end.
  Example qp_bytes_sweep : forallb qp_byte_ok (map N.of_nat (seq 0 256)) = true.
  Proof. vm_compute. reflexivity. Qed.
  Example qp_byte_dec x rest : (x < 256)%N -> Heap.qp_dec_simple (qp_byte x ++ rest) = x :: Heap.qp_dec_simple rest.
  Proof.
    intros L. pose proof qp_bytes_sweep as S. rewrite forallb_forall in S.
    assert (I : In x (map N.of_nat (seq 0 256))).
    { apply in_map_iff. exists (N.to_nat x). split; [apply N2Nat.id|]. apply in_seq. lia. }
    specialize (S x I). unfold qp_byte_ok in S. destruct (qp_byte x) as [|c [|a [|b [|? ?]]]]; try discriminate.
    - apply andb_prop in S. destruct S as [S1 S2]. apply N.eqb_eq in S2. subst c. cbn [app qp_dec_simple].
      apply negb_true_iff in S1. rewrite S1. reflexivity.
    - apply andb_prop in S. destruct S as [S1 S2]. apply N.eqb_eq in S1, S2. subst c. cbn [app qp_dec_simple].
      change (61 =? 61)%N with true. cbv iota. rewrite S2. reflexivity.
  Qed.
  Example qp_premise_quoted_printable :
    (forall b, bytes_ok b = true -> Heap.qp_dec_simple (qp_simple b) = b) /\ Heap.qp_dec_simple (qp_simple [256%N]) <> [256%N].
  Proof.
    split; [|vm_compute; discriminate].
    induction b as [|x b IH]; intros Hb; [reflexivity|].
    apply bytes_ok_cons in Hb. destruct Hb as [Hx Hb]. unfold qp_simple. cbn [flat_map].
    rewrite (qp_byte_dec x _ Hx). f_equal. apply IH. exact Hb.
  Qed.

  Definition h : handler := Handler 1 (U"path") (Some (1 # 1024)%Q).            (* limit 1024 bytes *)
  Definition content : list N := [0; 255; 10; 13; 10; 32; 61; 200]%N ++ PLACEHOLDER.
  Definition big : list N := repeat 7%N 1025.
  Definition fs : fs_table :=
    [(U"/in/rec", (32%Z, content)); (U"/in/big", (1025%Z, big)); (U"/in/ph", (24%Z, PLACEHOLDER))].
  Definition self : arg := AOther true.

  (* recorded with the path by position (after self), replayed with another path by keyword *)
  Example roundtrip_hypotheses :
    passes_path h [self; AStr (U"/in/rec")] [] (U"/in/rec") /\
    passes_path h [self] [(U"path", AStr (U"/play/in"))] (U"/play/in") /\
    str_ok (U"/in/rec") = true /\ within_limit h (fs_size fs) (U"/in/rec") /\
    fs_read fs (U"/in/rec") = Ans content /\ bytes_ok content = true.
  Proof.
    split; [apply passes_by_position; [reflexivity | vm_compute; discriminate | reflexivity]|].
    split; [apply passes_by_keyword; [reflexivity|discriminate]|].
    split; [reflexivity|]. split; [|split; reflexivity].
    exists 32%Z. split; [reflexivity|]. unfold Qle. cbn. discriminate.
  Qed.

  Example roundtrip_instance :
    input_trip h (fs_size fs) (fs_read fs) (fun _ => true) qp_id qp_id
               [self; AStr (U"/in/rec")] [] [self] [(U"path", AStr (U"/play/in"))]
               [(U"/other", [1%N]); (U"/play/in", content ++ content)]      (* a longer file is already there *)
    = (Replayed (Ans (U"/play/in"), [(U"/other", [1%N]); (U"/play/in", content)]), [U"/in/rec"]).
  Proof. vm_compute. reflexivity. Qed.

  Example placeholder_content_instance :
    input_trip h (fs_size fs) (fs_read fs) (fun _ => true) qp_id qp_id
               [self; AStr (U"/in/ph")] [] [self; AStr (U"/play/ph")] [] []
    = (Replayed (Ans (U"/play/ph"), [(U"/play/ph", PLACEHOLDER)]), [U"/in/ph"]).
  Proof. vm_compute. reflexivity. Qed.

  (* three recordings of 32, 24 and 0 bytes replayed one after another into a path holding 64 bytes *)
  Example sequence_instance :
    let stored b := match cassette_trip qp_id qp_id (serialize_file b (U"/in/rec")) with Some v => v | None => VNone end in
    let run recs := fs_get (U"/play/in")
                      (restore_all h (fun _ => true) recs [self; AStr (U"/play/in")] [] [(U"/play/in", content ++ content)]) in
    run [stored content] = Some content /\ run [stored content; stored PLACEHOLDER] = Some PLACEHOLDER /\
    run [stored content; stored PLACEHOLDER; stored []] = Some [] /\
    run [stored []; stored content; stored content] = Some content.
  Proof. vm_compute. repeat split. Qed.

  (* the same path intercepted twice, rewritten in between with other bytes of the SAME length *)
  Definition content2 : list N := [0; 255; 10; 13; 10; 32; 61; 201]%N ++ PLACEHOLDER.
  Definition fs2 : fs_table := [(U"/in/rec", (32%Z, content2))].
  Definition history : list fs_oracle := [(fs_size fs, fs_read fs); (fs_size fs2, fs_read fs2); (fs_size fs, fs_read fs)].
  Example history_hypotheses :
    Forall2 (holds_at h (U"/in/rec")) history [content; content2; content] /\ content <> content2 /\
    length content = length content2.
  Proof.
    assert (W1 : holds_at h (U"/in/rec") (fs_size fs, fs_read fs) content).
    { split; [|split; reflexivity]. exists 32%Z. split; [reflexivity|]. unfold Qle. cbn. discriminate. }
    assert (W2 : holds_at h (U"/in/rec") (fs_size fs2, fs_read fs2) content2).
    { split; [|split; reflexivity]. exists 32%Z. split; [reflexivity|]. unfold Qle. cbn. discriminate. }
    split; [unfold history; constructor; [exact W1|]; constructor; [exact W2|]; constructor; [exact W1|]; constructor|].
    split; [intro E; vm_compute in E; discriminate E | reflexivity].
  Qed.
  Example history_instance :
    map (fun o : fs_oracle => output_trip h (fst o) (snd o) qp_id qp_id [self; AStr (U"/in/rec")] []) history
    = map (fun b => (Replayed (Ans (Holder b (VStr (U"/in/rec")))), [U"/in/rec"])) [content; content2; content].
  Proof. vm_compute. reflexivity. Qed.

  Example above_limit_hypotheses :
    passes_path h [self] [(U"path", AStr (U"/in/big"))] (U"/in/big") /\ beyond_limit h (fs_size fs) (U"/in/big").
  Proof.
    split; [apply passes_by_keyword; [reflexivity|discriminate]|].
    exists (1 # 1024)%Q, 1025%Z. split; [reflexivity|]. split; [reflexivity|]. unfold Qlt. cbn. reflexivity.
  Qed.

  Example above_limit_instance :
    intercept_file h (fs_size fs) (fs_read fs) [self] [(U"path", AStr (U"/in/big"))]
    = (Ans (above_limit_result (U"/in/big")), []).
  Proof. vm_compute. reflexivity. Qed.

  Example boundary_instance : ((1 # 1024) * MB == inject_Z 1024)%Q /\
    is_above 1023 (1 # 1024) = false /\ is_above 1024 (1 # 1024) = false /\ is_above 1025 (1 # 1024) = true.
  Proof. repeat split. Qed.

  Example env_instance :
    calc_limit None (EnvFloat (3 # 2)) = Ans (inject_Z 1) /\ calc_limit None (EnvFloat (-1 # 2)) = Ans (inject_Z 0).
  Proof. split; reflexivity. Qed.
End NonVacuity.
