(** C12 - asynchronous recording stores exactly what synchronous recording would.
    Statements only; model in Async/AsyncModel.v, proofs in Async/AsyncFacts.v.

    All theorems quantify over every state reachable by the step relation [step] from [init nrec w]:
    any number of producers ([length w]), any workloads [w] (set_data / add_metadata / save requests on any
    of [nrec] recordings, any of them failing in the wrapped storage), any interleaving of producer steps
    with the flusher's atomic steps, any firing pattern of the flush-interval timer ([CWake] is enabled
    whenever the flusher waits), the close signal at any moment after the last request. *)
From Coq Require Import List NArith ZArith Bool Arith Permutation.
From Playback Require Import Base.Str Values.PyVal Async.AsyncModel Async.AsyncFacts.
Import ListNotations.
Open Scope list_scope.

(** The invariant [Inv] (AsyncModel.v): applied ++ in-flight batch ++ buffer = global enqueue order;
    stop only after all producers finished; the flusher leaves its loop only after stop; nothing behind the
    final swap; the wrapped cassette and outcome log = synchronous run of the applied operations; per
    producer, issued ++ pending = its workload. *)
Theorem C12_inv_init : forall nrec w, Inv nrec w (init nrec w).
Proof. exact inv_init. Qed.
Print Assumptions C12_inv_init.

Theorem C12_inv_step : forall nrec w s s', Inv nrec w s -> step s s' -> Inv nrec w s'.
Proof. exact inv_step. Qed.
Print Assumptions C12_inv_step.

Theorem C12_inv_reachable : forall nrec w s, reach nrec w s -> Inv nrec w s.
Proof. exact reach_inv. Qed.
Print Assumptions C12_inv_reachable.

(** Once the flusher thread is done (reachable only after close, itself only after the last request):
    every enqueued request reached the wrapped cassette exactly once and in enqueue order; the wrapped
    cassette (live recordings and saved snapshots) and the outcome of every single operation are exactly
    those of the synchronous twin running the same requests in that order; nothing is left anywhere;
    and the request history is per producer exactly its workload in request order - globally a
    permutation of everything requested (each request exactly once).
    No hypothesis on the workloads: in particular callers may go on changing a dict after passing it to
    add_metadata ([AddMetaMut]); since /repo commit ba7c02c the items are copied during the call. *)
Theorem C12_async_refines_sync : forall nrec w s,
  reach nrec w s -> fl s = Done ->
  map fst (applied s) = enq s /\
  (wstore s, applied s) = run_ops (init_store nrec) (enq s) /\
  wstore s = sync_apply (init_store nrec) (enq s) /\
  buffer s = [] /\ all_done (pending s) = true /\
  (forall i, issued i (hist s) = nth i w []) /\
  Permutation (map op_of (hist s)) (concat w).
Proof. exact refines_sync. Qed.
Print Assumptions C12_async_refines_sync.

(** Finding F12, repaired by /repo commit ba7c02c; kept as a replayable witness about the pre-fix code
    ([legacy_run_schedule]: the flusher reads the caller's dict when it runs the operation): one producer,
    [d = {0:1}; add_metadata(d); d[1] = 2; save], flushed after close - the stored recording differs from
    synchronous recording of the same requests. *)
Theorem C12_argument_alias_refuted :
  exists nrec w cs s, legacy_run_schedule true cs (init nrec w) = Some s /\ fl s = Done /\
                      wstore s <> sync_apply (init_store nrec) (enq s).
Proof. exact legacy_argument_alias. Qed.
Print Assumptions C12_argument_alias_refuted.

(** the same workload under the same schedule on the current code: stored = synchronous *)
Theorem C12_argument_alias_repaired :
  exists s, run_schedule true alias_sched (init 1 alias_work) = Some s /\ fl s = Done /\
            wstore s = sync_apply (init_store 1) (enq s).
Proof. exact argument_alias_repaired. Qed.
Print Assumptions C12_argument_alias_repaired.

(** the interleaving of the flusher and the timer is irrelevant: only the enqueue order matters *)
Theorem C12_schedule_independent : forall nrec w w' s s',
  reach nrec w s -> reach nrec w' s' -> fl s = Done -> fl s' = Done -> enq s = enq s' ->
  wstore s = wstore s' /\ applied s = applied s'.
Proof. exact schedule_independent. Qed.
Print Assumptions C12_schedule_independent.

(** one caller thread, no request refused at the caller: the stored state is that of running its workload directly *)
Theorem C12_single_producer : forall nrec l s,
  reach nrec [l] s -> fl s = Done -> forallb snd (hist s) = true ->
  wstore s = sync_apply (init_store nrec) (map (fun x => (0, x)) l).
Proof. exact single_producer. Qed.
Print Assumptions C12_single_producer.

(** whatever the outcome of an operation (in particular when it raises), it is logged with that outcome
    and the next operation of the batch is enabled and runs in turn *)
Theorem C12_failure_does_not_block : forall nrec w s x r,
  reach nrec w s -> (fl s = Batch (x :: r) \/ fl s = Final (x :: r)) ->
  exists s', step_fn false CExec s = Some s' /\
             applied s' = applied s ++ [(x, snd (apply_op (wstore s) (snd x)))] /\
             inflight (fl s') = r /\
             (forall y r', r = y :: r' -> exists s'', step_fn false CExec s' = Some s'' /\
                                                     map fst (applied s'') = map fst (applied s) ++ [x; y]).
Proof. exact failure_does_not_block. Qed.
Print Assumptions C12_failure_does_not_block.

(** a producer with a pending request can enqueue it at once, except while the flusher is inside its
    two-statement swap - where no storage call happens and one flusher step ends the wait *)
Theorem C12_producers_never_blocked : forall nrec w s i x l,
  reach nrec w s -> nth i (pending s) [] = x :: l ->
  (lock_held (fl s) = false /\ exists s', step_fn false (CProduce i) s = Some s') \/
  (lock_held (fl s) = true /\ inflight (fl s) = [] /\
   exists s1 s2, step_fn false CSwap s = Some s1 /\ applied s1 = applied s /\ wstore s1 = wstore s /\
                 step_fn false (CProduce i) s1 = Some s2).
Proof. exact producers_never_blocked. Qed.
Print Assumptions C12_producers_never_blocked.

Theorem C12_not_blocked_during_storage : forall nrec w s i x l ops,
  reach nrec w s -> (fl s = Batch ops \/ fl s = Final ops) -> nth i (pending s) [] = x :: l ->
  exists s', step_fn false (CProduce i) s = Some s'.
Proof. exact not_blocked_during_storage. Qed.
Print Assumptions C12_not_blocked_during_storage.

(** after the close signal the flusher reaches Done in exactly [dist s] of its own steps, at most
    |buffer| + |batch| + 8 (the final flush exists and empties everything) ... *)
Theorem C12_progress : forall nrec w s,
  reach nrec w s -> stop s = true ->
  let s' := run_flusher (dist s) s in
  reach nrec w s' /\ fl s' = Done /\ dist s <= length (buffer s) + length (inflight (fl s)) + 8.
Proof. exact progress. Qed.
Print Assumptions C12_progress.

(** ... and no other behaviour exists: every step enabled after close is one of those, so every
    execution terminates in Done without any fairness assumption *)
Theorem C12_progress_every_step : forall nrec w s s',
  reach nrec w s -> stop s = true -> step s s' -> stop s' = true /\ S (dist s') = dist s.
Proof. exact after_close_step. Qed.
Print Assumptions C12_progress_every_step.

Theorem C12_progress_enabled : forall nrec w s,
  reach nrec w s -> stop s = true -> fl s <> Done ->
  exists c s', flusher_choice s = Some c /\ step_fn false c s = Some s'.
Proof. exact after_close_enabled. Qed.
Print Assumptions C12_progress_enabled.

(** the runner used by the correspondence check only visits reachable states, so every theorem above
    applies to every trace the check replays *)
Theorem C12_runner_sound : forall nrec w strict cs s s',
  reach nrec w s -> run_schedule strict cs s = Some s' -> reach nrec w s'.
Proof. exact run_schedule_reach. Qed.
Print Assumptions C12_runner_sound.

(** * Non-vacuity *)

(** two producers, two recordings, a failing storage call in the middle, a write racing with a save, a metadata
    dict the caller changes after passing it *)
Definition ex_work : list (list op) :=
  [ [Op 0 0 (SetData 1%N (VInt 10)) false; Op 1 0 (SetData 2%N (VInt 20)) true; Op 2 0 Save false];
    [Op 0 1 (AddMetaMut [(1%N, VInt 5)] 2%N (VInt 6)) false; Op 1 0 (SetData 1%N (VInt 11)) false; Op 2 1 Save false] ].

(** a complete run: the flusher works while requests arrive, one operation fails, the next ones still run,
    both recordings end up saved, and all hypotheses of the Done-theorems hold *)
Example C12_example_complete_run :
  exists s, reach 2 ex_work s /\ fl s = Done /\ length (applied s) = 6 /\
            map snd (applied s) = [true; false; true; true; true; true] /\
            length (saved (wstore s)) = 2 /\ forallb snd (hist s) = true.
Proof.
  eexists. split.
  - eapply (run_schedule_reach 2 ex_work false
      [CProduce 0; CCheck false; CLock; CSwap; CProduce 0; CProduce 1; CExec; CWait; CWake; CCheck false;
       CProduce 1; CLock; CSwap; CExec; CProduce 0; CExec; CExec; CProduce 1; CClose; CWait; CWake;
       CCheck true; CLock; CSwap; CExec; CExec; CDone]); [apply reach_init | vm_compute; reflexivity].
  - vm_compute. repeat split.
Qed.

(** a reachable state where the flusher is in the middle of a batch of storage calls, a failing one next,
    and both producers still have requests (hypotheses of failure_does_not_block / producers_never_blocked) *)
Example C12_example_mid_batch :
  exists s x y r, reach 2 ex_work s /\ fl s = Batch (x :: y :: r) /\
                  snd (apply_op (wstore s) (snd x)) = false /\
                  nth 0 (pending s) [] <> [] /\ nth 1 (pending s) [] <> [].
Proof.
  eexists. eexists. eexists. eexists. split.
  - eapply (run_schedule_reach 2 ex_work false
      [CProduce 0; CProduce 1; CProduce 0; CProduce 1; CCheck false; CLock; CSwap; CExec; CExec]);
      [apply reach_init | vm_compute; reflexivity].
  - vm_compute. repeat split; discriminate.
Qed.

(** a reachable state where a producer has to wait: only inside the swap *)
Example C12_example_inside_swap :
  exists s, reach 2 ex_work s /\ lock_held (fl s) = true /\ nth 0 (pending s) [] <> [].
Proof.
  eexists. split.
  - eapply (run_schedule_reach 2 ex_work false [CProduce 0; CCheck false; CLock]);
      [apply reach_init | vm_compute; reflexivity].
  - vm_compute. split; [reflexivity | discriminate].
Qed.

(** a reachable state after close with a non-empty batch and a non-empty buffer (hypotheses of progress) *)
Example C12_example_after_close :
  exists s, reach 2 ex_work s /\ stop s = true /\ length (inflight (fl s)) = 1 /\ length (buffer s) = 5 /\ dist s = 12.
Proof.
  eexists. split.
  - eapply (run_schedule_reach 2 ex_work false
      [CProduce 0; CCheck false; CLock; CSwap; CProduce 0; CProduce 0; CProduce 1; CProduce 1; CProduce 1; CClose]);
      [apply reach_init | vm_compute; reflexivity].
  - vm_compute. repeat split.
Qed.

(** a request refused at the caller (write on a recording whose save was already requested) *)
Example C12_example_refused :
  exists s, reach 1 [[Op 0 0 Save false; Op 1 0 (SetData 1%N (VInt 1)) false]] s /\ fl s = Done /\
            map snd (hist s) = [true; false] /\ length (applied s) = 1.
Proof.
  eexists. split.
  - eapply (run_schedule_reach 1 _ true
      [CProduce 0; CReject 0; CClose; CCheck true; CLock; CSwap; CExec; CDone]);
      [apply reach_init | vm_compute; reflexivity].
  - vm_compute. repeat split.
Qed.

(** ---- non-vacuity, the two theorems whose premises no example above meets (wp-audit) ---- *)
(** C12_schedule_independent: two runs of [ex_work] under DIFFERENT schedules (flusher working while requests
    arrive, several batches, timer firing - versus everything enqueued first and flushed once after close) with the
    same enqueue order: both reachable, both Done, same [enq] *)
Definition ex_sched_a : list choice :=
  [CProduce 0; CCheck false; CLock; CSwap; CProduce 0; CProduce 1; CExec; CWait; CWake; CCheck false;
   CProduce 1; CLock; CSwap; CExec; CProduce 0; CExec; CExec; CProduce 1; CClose; CWait; CWake;
   CCheck true; CLock; CSwap; CExec; CExec; CDone].
Definition ex_sched_b : list choice :=
  [CProduce 0; CProduce 0; CProduce 1; CProduce 1; CProduce 0; CProduce 1; CClose;
   CCheck true; CLock; CSwap; CExec; CExec; CExec; CExec; CExec; CExec; CDone].
Example C12_schedule_independent_nonvacuous :
  exists s s', run_schedule false ex_sched_a (init 2 ex_work) = Some s /\
               run_schedule false ex_sched_b (init 2 ex_work) = Some s' /\
               reach 2 ex_work s /\ reach 2 ex_work s' /\ fl s = Done /\ fl s' = Done /\ enq s = enq s' /\
               length (enq s) = 6 /\ ex_sched_a <> ex_sched_b.
Proof.
  do 2 eexists. split; [vm_compute; reflexivity|]. split; [vm_compute; reflexivity|].
  split; [eapply (run_schedule_reach 2 ex_work false ex_sched_a); [apply reach_init|vm_compute; reflexivity]|].
  split; [eapply (run_schedule_reach 2 ex_work false ex_sched_b); [apply reach_init|vm_compute; reflexivity]|].
  vm_compute. repeat split. discriminate.
Qed.

(** C12_single_producer: one caller thread, a failing storage call in the middle, nothing refused at the caller *)
Example C12_single_producer_nonvacuous :
  let l := [Op 0 0 (SetData 1%N (VInt 10)) false; Op 1 0 (AddMeta [(2%N, VInt 5)]) true; Op 2 0 (SetData 1%N (VInt 11)) false; Op 3 0 Save false] in
  exists s, reach 1 [l] s /\ fl s = Done /\ forallb snd (hist s) = true /\
            map snd (applied s) = [true; false; true; true] /\ length (saved (wstore s)) = 1.
Proof.
  eexists. split.
  - eapply (run_schedule_reach 1 _ true
      [CProduce 0; CCheck false; CLock; CSwap; CProduce 0; CExec; CProduce 0; CWait; CWake; CCheck false; CLock; CSwap;
       CProduce 0; CClose; CExec; CExec; CWait; CWake; CCheck true; CLock; CSwap; CExec; CDone]); [apply reach_init | vm_compute; reflexivity].
  - vm_compute. repeat split.
Qed.

(** values keep their type: a key set to None is stored (it is not "absent"), a value overwritten by one that compares
    equal in Python but has another type ([0] by [False], [True] by [1.0]) is overwritten, an empty container is a value,
    and writing the same item again is one more request that reaches the wrapped cassette - the C12 theorems are about
    [val := pyval], so "stores exactly what synchronous recording would" is type-exact *)
Example C12_example_typed_values :
  let l := [Op 0 0 (AddMeta [(0%N, VNone)]) false; Op 1 0 (AddMeta [(1%N, VInt 0); (2%N, VBool true)]) false;
            Op 2 0 (AddMeta [(1%N, VBool false); (2%N, VFloat (U"1.0"))]) false;
            Op 3 0 (SetData 0%N (VList [])) false; Op 4 0 (SetData 0%N (VList [])) false; Op 5 0 Save false] in
  exists s, reach 1 [l] s /\ fl s = Done /\ length (applied s) = 6 /\
            saved (wstore s) = [(0, ([(0%N, VList [])],
                                     [(0%N, VNone); (1%N, VBool false); (2%N, VFloat (U"1.0"))]))] /\
            wstore s = sync_apply (init_store 1) (enq s).
Proof.
  eexists. split.
  - eapply (run_schedule_reach 1 _ true
      [CProduce 0; CProduce 0; CCheck false; CLock; CSwap; CExec; CProduce 0; CExec; CProduce 0; CWait; CWake;
       CProduce 0; CProduce 0; CClose; CCheck true; CLock; CSwap; CExec; CExec; CExec; CExec; CDone]);
      [apply reach_init | vm_compute; reflexivity].
  - vm_compute. repeat split.
Qed.

(** abort_recording (T:52-59, not overridden by the wrapper): [recording.close()] on the recording it is given.
    Asynchronously that is the AsyncRecording - the request is carried out at the caller ([CProduce i] on an [Abort]
    request), it is never blocked (not even while the flusher holds the lock), never refused, enqueues nothing, and
    leaves buffer, flusher, applied operations, wrapped cassette and enqueue order as they are: the writes and the save
    requested BEFORE the abort stay pending and are applied (so a recording saved and then aborted is stored, as it is
    synchronously).  All theorems above hold for workloads with aborts: they are about the enqueued requests [enq]. *)
Theorem C12_abort_never_blocked : forall strict s i x p',
  take_from i (pending s) = Some (x, p') -> is_abort x = true ->
  exists s', step_fn strict (CProduce i) s = Some s'.
Proof. exact abort_never_blocked. Qed.
Print Assumptions C12_abort_never_blocked.

Theorem C12_abort_not_seen_by_wrapped : forall strict s s' i x p',
  take_from i (pending s) = Some (x, p') -> is_abort x = true ->
  step_fn strict (CProduce i) s = Some s' ->
  buffer s' = buffer s /\ fl s' = fl s /\ applied s' = applied s /\ wstore s' = wstore s /\ enq s' = enq s /\
  stop s' = stop s /\ aclosed s' = o_rec x :: aclosed s /\ pending s' = p'.
Proof. exact abort_not_seen_by_wrapped. Qed.
Print Assumptions C12_abort_not_seen_by_wrapped.

(** synchronously an abort stores nothing either (it closes the wrapped recording object and returns) *)
Theorem C12_abort_sync_saved : forall st x, is_abort x = true ->
  saved (fst (apply_op st x)) = saved st /\
  (o_fail x = false -> nm_get (o_rec x) (live st) <> None -> snd (apply_op st x) = true).
Proof. exact abort_sync_saved. Qed.
Print Assumptions C12_abort_sync_saved.

(** three recordings: 0 saved and then aborted (clean-up after the save, while the save is still pending), 1 aborted
    instead of saved, 2 saved after an abort; a write after the abort is refused at the caller.  Stored: 0 and 2 - the
    same stored recordings as recording the whole history (aborts included) synchronously. *)
Example C12_example_abort :
  let l := [Op 0 0 (SetData 0%N (VInt 1)) false; Op 1 1 (SetData 0%N (VInt 2)) false; Op 2 2 (SetData 0%N (VInt 3)) false;
            Op 3 0 Save false; Op 4 0 Abort false; Op 5 1 Abort false; Op 6 1 (SetData 1%N (VInt 4)) false;
            Op 7 2 Abort false; Op 8 2 Save false] in
  exists s, reach 3 [l] s /\ fl s = Done /\ length (applied s) = 5 /\
            map (fun e => o_idx (snd (fst e))) (filter (fun e => negb (snd e)) (hist s)) = [4; 5; 6; 7] /\
            saved (wstore s) = [(0, ([(0%N, VInt 1)], [])); (2, ([(0%N, VInt 3)], []))] /\
            saved (wstore s) = saved (sync_apply (init_store 3) (map (fun x => (0, x)) l)) /\
            wstore s = sync_apply (init_store 3) (enq s).
Proof.
  eexists. split.
  - eapply (run_schedule_reach 3 _ true
      [CProduce 0; CProduce 0; CProduce 0; CProduce 0; CCheck false; CLock; CProduce 0; CSwap; CExec; CProduce 0;
       CReject 0; CProduce 0; CProduce 0; CClose; CExec; CExec; CExec; CWait; CWake; CCheck true; CLock; CSwap; CExec;
       CDone]); [apply reach_init | vm_compute; reflexivity].
  - vm_compute. repeat split.
Qed.
