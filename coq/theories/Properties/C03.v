(** C03 — captured outputs are exactly what the executing code sent.  Statements only.
    [sent_of l]: the calls that reached an output decorator while it intercepts, in order, each with what the
    decorator captures ({args without the instance, kwargs}, or the data handler's prepared form).
    [number cnt se]: that list numbered per alias starting after counter [cnt]: the i-th call of alias a gets
    the key "output: a #i.output". *)
From Playback Require Import Base.Str Values.PyVal Values.KeyFormat Values.KeyFacts Recorder.Dsl Recorder.Exec Recorder.Run
  Recorder.RecFacts Recorder.SnapFacts Recorder.PlayFacts Recorder.SimFacts Recorder.OutFacts.
From Coq Require Import QArith.

(** keys identify (alias, ordinal): one entry per call *)
Theorem C03_okey_injective :
  forall a i b j, okey_output a i = okey_output b j -> a = b /\ i = j.
Proof. exact okey_output_injective. Qed.
Print Assumptions C03_okey_injective.

(** while replaying any program against any recording, from any counter: the outputs captured are exactly
    the calls sent, numbered per alias, and the counter advances by exactly those calls *)
Theorem C03_playback_outputs_exact :
  forall R c env s, let '(_, s', l) := play_exec R c env s in
    pbouts_of l = number (pcounter s) (sent_of l) /\ pcounter s' = advance (pcounter s) (sent_of l).
Proof. exact play_exec_numbered. Qed.
Print Assumptions C03_playback_outputs_exact.

(** while recording (any program whose user record_data keys do not look like output entries, any recorder
    state, any faults), as long as the recording is not discarded: the output entries written are exactly the
    calls sent, numbered per alias *)
Theorem C03_recorded_outputs_exact :
  forall P c env s, ukeys_ok c ->
    let '(_, s', l) := rec_exec P c env s in
    aborts_of l = 0%nat ->
    outw_of l = number (counter s) (sent_of l) /\ counter s' = advance (counter s) (sent_of l).
Proof. exact rec_exec_numbered. Qed.
Print Assumptions C03_recorded_outputs_exact.

(** the numbered list read as a map: the entry of (alias, n) is the n-th call of that alias, nothing else *)
Theorem C03_entry_is_nth_call :
  forall se cnt al n,
    rlookup (okey_output al n) (number cnt se) =
    if (n <=? count_of al cnt)%N then None else nth_sent al se (N.to_nat (n - count_of al cnt - 1)).
Proof. exact number_lookup. Qed.
Print Assumptions C03_entry_is_nth_call.

(** hence any change in what replayed code sends shows at exactly the affected entries: two runs' captured
    outputs differ at (alias, n) iff the n-th calls of that alias differ or exist in one run only *)
Theorem C03_diff_localised :
  forall se1 se2 al n, (1 <= n)%N ->
    (rlookup (okey_output al n) (number [] se1) = rlookup (okey_output al n) (number [] se2) <->
     nth_sent al se1 (N.to_nat (n - 1)) = nth_sent al se2 (N.to_nat (n - 1))).
Proof. exact outputs_diff_localised. Qed.
Print Assumptions C03_diff_localised.

(** output entries, result entries and input entries never collide *)
Theorem C03_key_kinds_disjoint :
  forall al n r, is_output_key (okey_output al n) = true /\ is_output_key (okey_result al n) = false /\
                 is_output_key (U"input: " ++ r) = false /\ is_output_key OPKEY = true.
Proof. intros. repeat split; [apply output_key_is_output|apply result_key_not_output]. Qed.
Print Assumptions C03_key_kinds_disjoint.

(** non-vacuity: twelve calls of one alias (two-digit ordinals) and one of another *)
Example C03_example :
  let se := repeat (U"send", Some (DOut [VInt 1] [])) 12 ++ [(U"log", Some (DOut [] []))] in
  rlookup (okey_output (U"send") 12) (number [] se) = Some (DOut [VInt 1] []) /\
  rlookup (okey_output (U"send") 13) (number [] se) = None /\
  rlookup (okey_output (U"log") 1) (number [] se) = Some (DOut [] []) /\
  length (number [] se) = 13%nat.
Proof. vm_compute. repeat split; reflexivity. Qed.

(** ---- non-vacuity per theorem (wp-audit): the two theorems with premises ---- *)
(** C03_recorded_outputs_exact: a program with two output aliases (one called twice, once from inside a caught
    failure), a user record_data whose key does not look like an output entry, started from a counter that
    already holds one 'send': ukeys_ok, nothing aborted, three calls sent *)
Definition c03_send : ocfg := {| o_alias := U"send"; o_static := true; o_handler := None; o_fail := true; o_default := VNone |}.
Definition c03_log : ocfg := {| o_alias := U"log"; o_static := false; o_handler := None; o_fail := false; o_default := VNone |}.
Definition c03_prog : code :=
  Out c03_send (Ret (Lit VNone)) [Lit (VInt 1)] []
    (RecordData (U"note") (Lit (VInt 7))
       (Try (Out c03_log (Raise (U"IOError")) [] [(U"m", Lit (VStr (U"x")))] (Ret (Var 0)))
            (Out c03_send (Ret (Lit VNone)) [Lit (VInt 2)] [] (Ret (Var 0))))).
Example C03_recorded_outputs_exact_nonvacuous :
  let s := mk_rst true true false [(U"send", 1%N)] false in
  let '(_, s', l) := rec_exec {| p_rate := 1; p_ignore := false; p_skipped := false; p_copy := false |} c03_prog [] s in
  ukeys_ok c03_prog /\ aborts_of l = 0%nat /\ length (sent_of l) = 3%nat /\
  map fst (outw_of l) = [okey_output (U"send") 2; okey_output (U"log") 1; okey_output (U"send") 3] /\
  counter s' = [(U"send", 3%N); (U"log", 1%N)].
Proof. vm_compute. repeat split; reflexivity. Qed.

(** C03_diff_localised: premise 1 <= n, two runs that differ in the second 'send' only *)
Example C03_diff_localised_nonvacuous :
  let se1 := [(U"send", Some (DOut [VInt 1] [])); (U"log", Some (DOut [] [])); (U"send", Some (DOut [VInt 2] []))] in
  let se2 := [(U"send", Some (DOut [VInt 1] [])); (U"log", Some (DOut [] [])); (U"send", Some (DOut [VInt 3] []))] in
  (1 <= 2)%N /\
  nth_sent (U"send") se1 0 = nth_sent (U"send") se2 0 /\ nth_sent (U"send") se1 1 <> nth_sent (U"send") se2 1 /\
  rlookup (okey_output (U"send") 1) (number [] se1) = rlookup (okey_output (U"send") 1) (number [] se2) /\
  rlookup (okey_output (U"send") 2) (number [] se1) <> rlookup (okey_output (U"send") 2) (number [] se2).
Proof. vm_compute. repeat split; try reflexivity; discriminate. Qed.
