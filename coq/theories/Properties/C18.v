(** C18 — recording metadata tells the truth about the run.  Statements only. *)
From Playback Require Import Base.Str Base.StrFacts Values.PyVal Values.KeyFormat Values.KeyFacts Recorder.Dsl Recorder.Exec Recorder.Run
  Recorder.RecFacts Recorder.SnapFacts Recorder.MetaFacts.
From Coq Require Import QArith Lia.

(** [metadata_spec op o] (MetaFacts.v) is the documented content: the operation's class; the exception
    flag = "ended in an ordinary exception" for every run that was not cut short by an interrupt-style
    exception (absent for those); incomplete = the run was cut short without an operation result; the
    user's extracted metadata, or none of it if the extractor raised or returned junk.

    For every program, every fault placement and every termination mode at every step (also inside
    intercepted bodies, also after outputs were already captured), on instance and class-level operations:
    the metadata of every saved recording is exactly that function of the class, the outcome the caller saw
    and the extractor.  Hypothesis [sites_ok clean]: no output alias and no user record_data key looks like
    the recorder's own operation-output entry (an alias containing "_tape_recorder_operation" would fool the
    incompleteness test of :151-156; [clean_no_underscore] gives a decidable sufficient condition). *)
Theorem C18_metadata_truth :
  forall draws en P op save_fails s w ord d m,
    active s = false -> sites_ok clean (op_body op) ->
    let '(ob, _) := record_run draws en P op save_fails s w in
    List.In (CSave ord d m) (ob_cass ob) ->
    m = metadata_spec op (ob_outcome ob).
Proof. exact record_run_metadata. Qed.
Print Assumptions C18_metadata_truth.

(** an operation that returned or raised an ordinary exception is never flagged incomplete; one terminated
    by an interrupt-style exception always is; the exception flag tells return from raise; a failing (or
    absent) extractor leaves exactly the three framework entries *)
Theorem C18_flags :
  forall op o, (forall d, op_extractor op <> XDict d) ->
    assoc K_INCOMPLETE (metadata_spec op o) = Some (VBool (cut_short o)) /\
    assoc K_EXC (metadata_spec op o) = match o with OVal _ => Some (VBool false) | OExn _ => Some (VBool true) | OInt => None end /\
    assoc K_CLASS (metadata_spec op o) = Some (VClass (op_class op)) /\
    length (metadata_spec op o) = match o with OInt => 2%nat | _ => 3%nat end /\
    cut_short (OVal VNone) = false /\ (forall ty, cut_short (OExn (EUser ty)) = false) /\ cut_short OInt = true.
Proof.
  intros op o N. unfold metadata_spec.
  destruct (op_extractor op) as [|d| |] eqn:E; try (exfalso; eapply N; reflexivity);
    destruct o as [v|e|]; repeat split; reflexivity.
Qed.
Print Assumptions C18_flags.

Theorem C18_clean_sufficient : forall k, ~ List.In 95%N k -> clean k.
Proof. exact clean_no_underscore. Qed.
Print Assumptions C18_clean_sufficient.

(** non-vacuity: interrupt inside an intercepted body after an output was captured, failing extractor *)
Example C18_example :
  let oc := {| o_alias := U"send"; o_static := true; o_handler := None; o_fail := true; o_default := VNone |} in
  let op := {| op_class := U"Op"; op_classlevel := true; op_extractor := XJunk;
               op_body := Out oc (Ret (Lit VNone)) [Lit (VInt 1)] [] (Out oc Interrupt [] [] (Ret (Var 0))) |} in
  let '(ob, w') := record_run (fun _ => 0) true {| p_rate := 1; p_ignore := false; p_skipped := false; p_copy := false |}
                              op false fresh_rst fresh_world in
  exists d, ob_cass ob = [CCreate (U"Op"); CSave 0 d [(K_CLASS, VClass (U"Op")); (K_INCOMPLETE, VBool true)]].
Proof. vm_compute. eexists. reflexivity. Qed.

(** ---- non-vacuity (wp-audit): the hypothesis [sites_ok clean] of C18_metadata_truth quantifies over EVERY call
    ordinal of every output alias; it holds for the operation of [C18_example] (alias "send": no '_' in
    "output: send #<digits>.output", and ".result" keys are not output entries), together with the other two
    premises (no recording active, a CSave among the cassette calls) ---- *)
Example c18_send_clean : forall n, clean (okey_output (U"send") n) /\ clean (okey_result (U"send") n).
Proof.
  intros n. split.
  - apply C18_clean_sufficient. unfold okey_output, okey. rewrite !in_app_iff.
    intros [[I|[I|[I|I]]]|I]; try (vm_compute in I; intuition discriminate).
    revert I. apply digits_not_in; [apply show_N_digits|unfold is_digit; lia].
  - intros O. rewrite result_key_not_output in O. discriminate.
Qed.

Example C18_metadata_truth_nonvacuous :
  let oc := {| o_alias := U"send"; o_static := true; o_handler := None; o_fail := true; o_default := VNone |} in
  let op := {| op_class := U"Op"; op_classlevel := true; op_extractor := XJunk;
               op_body := Out oc (Ret (Lit VNone)) [Lit (VInt 1)] []
                            (RecordData (U"note") (Lit (VInt 1)) (Out oc Interrupt [] [] (Ret (Var 0)))) |} in
  active fresh_rst = false /\ sites_ok clean (op_body op) /\
  let '(ob, _) := record_run (fun _ => 0) true {| p_rate := 1; p_ignore := false; p_skipped := false; p_copy := false |}
                             op false fresh_rst fresh_world in
  ob_outcome ob = OInt /\
  exists d, List.In (CSave 0 d [(K_CLASS, VClass (U"Op")); (K_INCOMPLETE, VBool true)]) (ob_cass ob) /\ length d = 4%nat.
Proof.
  cbv zeta. split; [reflexivity|]. split.
  - cbn [sites_ok op_body o_alias].
    split; [exact c18_send_clean|]. split; [exact I|].
    split; [apply C18_clean_sufficient; vm_compute; intuition discriminate|].
    split; [exact c18_send_clean|]. split; exact I.
  - vm_compute. split; [reflexivity|]. eexists. split; [right; left; reflexivity|reflexivity].
Qed.
