(** C04 — recording is transparent to the recorded service.  Statements only.
    Model: Recorder/Exec.v ([rec_exec], the decorators while recording; [plain_exec], the undecorated twin),
    Recorder/Run.v ([record_run], the decorated operation with its recording scope). *)
From Playback Require Import Base.Str Values.PyVal Values.KeyFormat Recorder.Dsl Recorder.Exec Recorder.Run Recorder.RecFacts.
From Playback Require Import Recorder.Threads Recorder.ThreadsFacts.
From Coq Require Import QArith List.
Import ListNotations.

(** For every program (any nesting of intercepted inputs and outputs, try/except, discards and forced
    sampling from the operation or from intercepted bodies, recording switched on/off on the way,
    record_data / play_data calls), every value, every configuration of every interception (resolvers,
    capture lists, data handlers that fail or discard, unserializable values - i.e. every placement and
    combination of the tolerated faults) and EVERY recorder state [s]: the outcome delivered to the caller
    and the trace (each call, each execution of a wrapped body with its arguments - hence exactly once -,
    each outcome seen by the caller of an intercepted function) are those of the undecorated twin. *)
Theorem C04_recording_transparent :
  forall P c env s, let '(o, _, l) := rec_exec P c env s in plain_exec c env = (o, trace_of l).
Proof. exact rec_transparent. Qed.
Print Assumptions C04_recording_transparent.

(** The same through the operation decorator and the recording scope, whatever the sampling decision, the
    metadata extractor and the cassette's save do (save failing included). *)
Theorem C04_operation_transparent :
  forall draws en P op save_fails s w, active s = false ->
    let ob := fst (record_run draws en P op save_fails s w) in
    (ob_outcome ob, ob_trace ob) = plain_exec (op_body op) [].
Proof. exact record_run_transparent. Qed.
Print Assumptions C04_operation_transparent.

(** With recording disabled (or the class skipped) the cassette is never touched. *)
Theorem C04_disabled_passthrough :
  forall draws en P op save_fails s w, active s = false -> negb en || p_skipped P = true ->
    let '(ob, w') := record_run draws en P op save_fails s w in ob_cass ob = [] /\ w' = w.
Proof. exact record_run_disabled. Qed.
Print Assumptions C04_disabled_passthrough.

(** Racing threads (model Recorder/Threads.v: the recorder methods that touch the active recording, as sequences
    of atomic accesses to the shared fields; a region under self._finalization_lock is one step).  For ANY
    number of threads, each calling any sequence of discard_recording / force_sample_recording / record_data /
    an interception's capture / current_recording_id / the end of the recording scope, under EVERY schedule
    (no preemption bound): no method ever fails on a vanished recording, so nothing of the machinery reaches
    the service; the forcing flag never outlives the recording; recording and parameters vanish together. *)
Theorem C04_no_leak_under_any_interleaving :
  forall n sched,
  let '(sh, ls) := run Fixed sched (sh0, repeat idle_thread n) in
  (forall l, In l ls -> crashed l = false) /\ (fin sh <= 1)%nat /\ (ar sh = false -> fs sh = false) /\ ar sh = ap sh.
Proof. exact fixed_safe. Qed.
Print Assumptions C04_no_leak_under_any_interleaving.

(** The code before /repo 359c201 (variant [Legacy], every access to self._active_recording separate): the same
    statement is false - a discard racing with another discard, record_data, an output capture, forced sampling,
    current_recording_id or the end of the scope makes a method fail (AttributeError into the service). *)
Theorem C04_legacy_refuted :
  (exists sched, let '(_, ls) := run Legacy sched (sh0, [start MDiscard; start MDiscard]) in existsb crashed ls = true) /\
  (forall m, In m [MRecordData; MFinalise; MForce; MCurrentId] ->
   exists sched, let '(_, ls) := run Legacy sched (sh0, [start m; start MDiscard]) in existsb crashed ls = true) /\
  (exists sched, let '(sh, _) := run Legacy sched (sh0, [start MForce; start MDiscard]) in ar sh = false /\ fs sh = true).
Proof. exact (conj legacy_discard_race_crashes (conj legacy_other_races_crash legacy_force_outlives_recording)). Qed.
Print Assumptions C04_legacy_refuted.

(** non-vacuity: an operation whose input's key cannot be built (unserializable argument), whose body
    discards the recording while the interception is in flight and then raises, is transparent, and the
    twin's trace is not empty *)
Example C04_example :
  let cf := {| i_alias := U"get"; i_resolver := RNone; i_cap := CapAll; i_static := true; i_handler := None;
               i_prep_discards := false; i_run_missing := false; i_vmiss := VMNone; i_fallbacks := FbNone |} in
  let c := Try (Inp cf (Discard (Raise (U"ValueError"))) [Lit (VUnser 1)] [] (Ret (Var 0))) (Ret (Lit (VInt 7))) in
  let '(o, s', l) := rec_exec {| p_rate := 1; p_ignore := false; p_skipped := false; p_copy := false |} c []
                              (mk_rst true true false [] false) in
  o = OVal (VInt 7) /\ active s' = false /\ aborts_of l = 1%nat /\ length (trace_of l) = 3%nat.
Proof. vm_compute. repeat split; reflexivity. Qed.

(** ---- non-vacuity per theorem (wp-audit) ---- *)
(** C04_operation_transparent (premise: no recording active): the faulty program of [C04_example] as a decorated
    operation on a fresh recorder - the key failure discards the recording, the cassette sees create + abort,
    the caller sees exactly the twin's outcome and (non-empty) trace *)
Definition c04_cf : icfg :=
  {| i_alias := U"get"; i_resolver := RNone; i_cap := CapAll; i_static := true; i_handler := None;
     i_prep_discards := false; i_run_missing := false; i_vmiss := VMNone; i_fallbacks := FbNone |}.
Definition c04_op : opdef :=
  {| op_class := U"Op"; op_classlevel := false; op_extractor := XRaises;
     op_body := Try (Inp c04_cf (Discard (Raise (U"ValueError"))) [Lit (VUnser 1)] [] (Ret (Var 0))) (Ret (Lit (VInt 7))) |}.
Definition c04_P (skipped : bool) : prm := {| p_rate := 1; p_ignore := false; p_skipped := skipped; p_copy := false |}.
Example C04_operation_transparent_nonvacuous :
  let ob := fst (record_run (fun _ => 0) true (c04_P false) c04_op true fresh_rst fresh_world) in
  active fresh_rst = false /\ (ob_outcome ob, ob_trace ob) = plain_exec (op_body c04_op) [] /\
  ob_outcome ob = OVal (VInt 7) /\ length (ob_trace ob) = 3%nat /\ ob_cass ob = [CCreate (U"Op"); CAbort 0].
Proof. vm_compute. repeat split; reflexivity. Qed.

(** C04_disabled_passthrough (premises: no recording active; recording disabled, or the class skipped): both ways *)
Example C04_disabled_passthrough_nonvacuous :
  active fresh_rst = false /\ negb false || p_skipped (c04_P false) = true /\ negb true || p_skipped (c04_P true) = true /\
  (let '(ob, w') := record_run (fun _ => 0) false (c04_P false) c04_op false fresh_rst fresh_world in
   ob_cass ob = [] /\ w' = fresh_world /\ length (ob_trace ob) = 3%nat) /\
  (let '(ob, w') := record_run (fun _ => 0) true (c04_P true) c04_op false fresh_rst fresh_world in
   ob_cass ob = [] /\ w' = fresh_world /\ length (ob_trace ob) = 3%nat).
Proof. vm_compute. repeat split; reflexivity. Qed.

(** C04_no_leak_under_any_interleaving has no premise; a schedule with preemptions on three threads (a discard
    overtakes a forced sampling and an interception's post-body; a second discard finds nothing): nobody crashes *)
Example C04_race_example :
  let '(sh, ls) := run Fixed [ABegin 0 MForce; ABegin 1 MPost; AStep 1; ABegin 2 MDiscard; AStep 2; AStep 0; AStep 1;
                              AStep 2; ABegin 0 MDiscard; AStep 0; ABegin 1 MRecordData; AStep 1]
                       (sh0, repeat idle_thread 3) in
  existsb crashed ls = false /\ fin sh = 1%nat /\ ar sh = false /\ fs sh = false /\ ap sh = false.
Proof. vm_compute. repeat split; reflexivity. Qed.
