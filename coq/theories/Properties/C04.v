(** C04 — recording is transparent to the recorded service.  Statements only.
    Model: Recorder/Exec.v ([rec_exec], the decorators while recording; [plain_exec], the undecorated twin),
    Recorder/Run.v ([record_run], the decorated operation with its recording scope). *)
From Playback Require Import Base.Str Values.PyVal Values.KeyFormat Recorder.Dsl Recorder.Exec Recorder.Run Recorder.RecFacts.
From Coq Require Import QArith.

(** For every program (any nesting of intercepted inputs and outputs, try/except, discards and forced
    sampling from the operation or from intercepted bodies, recording switched on/off on the way,
    record_data / play_data calls), every value, every configuration of every interception (resolvers,
    capture lists, data handlers that fail or discard, unserializable values - i.e. every placement and
    combination of the tolerated faults) and EVERY recorder state [s]: the outcome delivered to the caller
    and the trace (each call, each execution of a wrapped body with its arguments - hence exactly once -,
    each outcome seen by the caller of an intercepted function) are those of the undecorated twin. *)
Theorem C04_recording_transparent :
  forall P c env s, let '(o, _, l) := rec_exec P c env s in plain_exec c env = (o, trace_of l).
Proof. exact rec_transparent. Qed.
Print Assumptions C04_recording_transparent.

(** The same through the operation decorator and the recording scope, whatever the sampling decision, the
    metadata extractor and the cassette's save do (save failing included). *)
Theorem C04_operation_transparent :
  forall draws en P op save_fails s w, active s = false ->
    let ob := fst (record_run draws en P op save_fails s w) in
    (ob_outcome ob, ob_trace ob) = plain_exec (op_body op) [].
Proof. exact record_run_transparent. Qed.
Print Assumptions C04_operation_transparent.

(** With recording disabled (or the class skipped) the cassette is never touched. *)
Theorem C04_disabled_passthrough :
  forall draws en P op save_fails s w, active s = false -> negb en || p_skipped P = true ->
    let '(ob, w') := record_run draws en P op save_fails s w in ob_cass ob = [] /\ w' = w.
Proof. exact record_run_disabled. Qed.
Print Assumptions C04_disabled_passthrough.

(** non-vacuity: an operation whose input's key cannot be built (unserializable argument), whose body
    discards the recording while the interception is in flight and then raises, is transparent, and the
    twin's trace is not empty *)
Example C04_example :
  let cf := {| i_alias := U"get"; i_resolver := RNone; i_cap := CapAll; i_static := true; i_handler := None;
               i_prep_discards := false; i_run_missing := false; i_vmiss := VMNone; i_fallbacks := FbNone |} in
  let c := Try (Inp cf (Discard (Raise (U"ValueError"))) [Lit (VUnser 1)] [] (Ret (Var 0))) (Ret (Lit (VInt 7))) in
  let '(o, s', l) := rec_exec {| p_rate := 1; p_ignore := false; p_skipped := false; p_copy := false |} c []
                              (mk_rst true true false [] false) in
  o = OVal (VInt 7) /\ active s' = false /\ aborts_of l = 1%nat /\ length (trace_of l) = 3%nat.
Proof. vm_compute. repeat split; reflexivity. Qed.
