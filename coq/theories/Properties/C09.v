(** C09 — the recorder returns to idle; every run is independent of history.  Statements only. *)
From Playback Require Import Base.Str Values.PyVal Values.KeyFormat Recorder.Dsl Recorder.Exec Recorder.Run Recorder.RecFacts.
From Coq Require Import QArith.

(** [idle]: no active recording, no sticky forced sampling, per-alias output numbering restarted,
    interception flag clear.  (Not replaying and empty playback outputs hold by construction of [play_run]:
    those two fields live only inside one call of play, :889-902.) *)

(** However a run ends - return, exception, interrupt-style exception, discard, sampled out, save
    failing, replay of a missing id, replay failing with a missing key or a key-creation error, playback
    function raising - the recorder is idle afterwards. *)
Theorem C09_returns_to_idle :
  forall draws r s w, idle s -> idle (ob_state (fst (do_run draws r s w))).
Proof. exact do_run_idle. Qed.
Print Assumptions C09_returns_to_idle.

Theorem C09_idle_throughout_history :
  forall draws rs s w, idle s -> Forall (fun ob => idle (ob_state ob)) (run_history draws rs s w).
Proof. exact run_history_idle. Qed.
Print Assumptions C09_idle_throughout_history.

(** The interception flag is restored by every piece of code, whatever its outcome. *)
Theorem C09_flag_restored :
  forall P c env s, let '(_, s', _) := rec_exec P c env s in icpt s' = icpt s.
Proof. intros P c env s. pose proof (rec_exec_step P c env s) as H. destruct (rec_exec P c env s) as [[o s'] l]. apply H. Qed.
Print Assumptions C09_flag_restored.

(** The result of a run (everything observable: outcome, trace, cassette calls, outputs, final state, new
    cassette contents and draw position) is the same from any two idle states, hence equals what a fresh
    recorder produces over the same cassette contents and draw position - whatever ran before. *)
Theorem C09_history_independent :
  forall draws r s1 s2 w, idle s1 -> idle s2 -> do_run draws r s1 w = do_run draws r s2 w.
Proof. exact do_run_history_independent. Qed.
Print Assumptions C09_history_independent.

Theorem C09_as_fresh :
  forall draws rs s w, idle s -> run_history draws rs s w = run_history draws rs fresh_rst w.
Proof. exact run_history_fresh. Qed.
Print Assumptions C09_as_fresh.

Example C09_example : idle fresh_rst /\ ~ idle (mk_rst false true true [] false).
Proof. split; [repeat split|intros (_ & F & _); discriminate]. Qed.

(** ---- non-vacuity per theorem (wp-audit): every theorem above has [idle s] as its only premise; [C09_example]
    shows it is satisfiable, the instance below that the statements are about something: ---- *)
(** a history of five runs on one recorder: a kept recording with forced sampling, one discarded on the way, a
    replay of the first, a replay of an id that does not exist, a run with recording disabled - started from two
    DIFFERENT idle states (recording_enabled differs; the caller sets it before every run) *)
Definition c09_out : ocfg := {| o_alias := U"send"; o_static := true; o_handler := None; o_fail := true; o_default := VNone |}.
Definition c09_op (body : code) : opdef := {| op_class := U"Op"; op_classlevel := false; op_extractor := XNone; op_body := body |}.
Definition c09_P : prm := {| p_rate := 1 # 2; p_ignore := false; p_skipped := false; p_copy := false |}.
Definition c09_hist : list run :=
  [ RRecord true c09_P (c09_op (Force (Out c09_out (Ret (Lit VNone)) [Lit (VInt 1)] [] (Ret (Var 0))))) false;
    RRecord true c09_P (c09_op (Out c09_out (Discard (Raise (U"IOError"))) [] [] (Ret (Var 0)))) false;
    RPlay true 0%nat (PfOp (c09_op (Out c09_out (Ret (Lit VNone)) [Lit (VInt 1)] [] (Ret (Var 0)))));
    RPlay false 7%nat (PfRaises (U"ValueError"));
    RRecord false c09_P (c09_op (Out c09_out (Ret (Lit VNone)) [Lit (VInt 1)] [] Interrupt)) true ].
Example C09_history_nonvacuous :
  let s1 := fresh_rst in
  let s2 := mk_rst false true false [] false in
  let draws := fun _ : nat => 3 # 4 in
  idle s1 /\ idle s2 /\ s1 <> s2 /\
  map ob_outcome (run_history draws c09_hist s1 fresh_world) =
    [OVal VNone; OExn (EUser (U"IOError")); OVal VNone; OExn ENoSuchRecording; OInt] /\
  map (fun ob => length (ob_cass ob)) (run_history draws c09_hist s1 fresh_world) = [2; 2; 1; 1; 0]%nat /\
  run_history draws c09_hist s2 fresh_world = run_history draws c09_hist s1 fresh_world.
Proof. vm_compute. repeat split; try reflexivity. discriminate. Qed.

(** C09_flag_restored has no premise; with the flag set on entry (code running inside an interception) it is set afterwards *)
Example C09_flag_restored_nonvacuous :
  let '(o, s', l) := rec_exec c09_P (Try (Out c09_out (Discard (Raise (U"IOError"))) [] [] (Ret (Var 0))) (Ret (Lit (VInt 1)))) []
                              (mk_rst true true false [] true) in
  icpt s' = true /\ active s' = false /\ o = OVal (VInt 1) /\ length l = 4%nat.
Proof. vm_compute. repeat split; reflexivity. Qed.

(** Racing threads (model Recorder/Threads.v, see C04/C05): under ANY schedule of any number of threads calling the
    recorder's methods, at every moment at which the recording is no longer active the shared part of the recorder is
    idle - its parameters are gone and forced sampling is off - so nothing of the ended recording leaks into the next
    one, whichever thread ended it and whatever the others were doing. *)
From Playback Require Import Recorder.Threads Recorder.ThreadsFacts.
Theorem C09_idle_after_any_interleaving :
  forall n sched,
  let '(sh, _) := run Fixed sched (sh0, List.repeat idle_thread n) in
  ar sh = false -> ap sh = false /\ fs sh = false.
Proof. exact fixed_idle_when_gone. Qed.
Print Assumptions C09_idle_after_any_interleaving.

(** non-vacuity: forced sampling racing with a discard - the recording ends, the flag does not survive it *)
Example C09_race_example :
  let '(sh, _) := run Fixed [ABegin 0 MForce; ABegin 1 MDiscard; AStep 1; AStep 0; AStep 1]
                      (sh0, List.repeat idle_thread 2) in
  ar sh = false /\ ap sh = false /\ fs sh = false /\ fin sh = 1%nat.
Proof. vm_compute. repeat split; reflexivity. Qed.
