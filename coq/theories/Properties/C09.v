(** C09 — the recorder returns to idle; every run is independent of history.  Statements only. *)
From Playback Require Import Base.Str Values.PyVal Values.KeyFormat Recorder.Dsl Recorder.Exec Recorder.Run Recorder.RecFacts.
From Coq Require Import QArith.

(** [idle]: no active recording, no sticky forced sampling, per-alias output numbering restarted,
    interception flag clear.  (Not replaying and empty playback outputs hold by construction of [play_run]:
    those two fields live only inside one call of play, :889-902.) *)

(** However a run ends - return, exception, interrupt-style exception, discard, sampled out, save
    failing, replay of a missing id, replay failing with a missing key or a key-creation error, playback
    function raising - the recorder is idle afterwards. *)
Theorem C09_returns_to_idle :
  forall draws r s w, idle s -> idle (ob_state (fst (do_run draws r s w))).
Proof. exact do_run_idle. Qed.
Print Assumptions C09_returns_to_idle.

Theorem C09_idle_throughout_history :
  forall draws rs s w, idle s -> Forall (fun ob => idle (ob_state ob)) (run_history draws rs s w).
Proof. exact run_history_idle. Qed.
Print Assumptions C09_idle_throughout_history.

(** The interception flag is restored by every piece of code, whatever its outcome. *)
Theorem C09_flag_restored :
  forall P c env s, let '(_, s', _) := rec_exec P c env s in icpt s' = icpt s.
Proof. intros P c env s. pose proof (rec_exec_step P c env s) as H. destruct (rec_exec P c env s) as [[o s'] l]. apply H. Qed.
Print Assumptions C09_flag_restored.

(** The result of a run (everything observable: outcome, trace, cassette calls, outputs, final state, new
    cassette contents and draw position) is the same from any two idle states, hence equals what a fresh
    recorder produces over the same cassette contents and draw position - whatever ran before. *)
Theorem C09_history_independent :
  forall draws r s1 s2 w, idle s1 -> idle s2 -> do_run draws r s1 w = do_run draws r s2 w.
Proof. exact do_run_history_independent. Qed.
Print Assumptions C09_history_independent.

Theorem C09_as_fresh :
  forall draws rs s w, idle s -> run_history draws rs s w = run_history draws rs fresh_rst w.
Proof. exact run_history_fresh. Qed.
Print Assumptions C09_as_fresh.

Example C09_example : idle fresh_rst /\ ~ idle (mk_rst false true true [] false).
Proof. split; [repeat split|intros (_ & F & _); discriminate]. Qed.
