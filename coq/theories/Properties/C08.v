(** C08 - every recording gets exactly one, correctly attributed verdict.  Statements only.

    Model F ([Equalizer/EqModel.v]): a comparison run is a function of the script - the sequence of recording ids,
    each with the behaviour of its replay - the recycle rate, the timeout (whole seconds) and keep-results.
    [single c (l, b)] is the verdict of recording [l] with behaviour [b] on its own ([C08_single_is_played_alone]). *)
From Coq Require Import List Arith Bool.
From Playback Require Import Equalizer.EqModel Equalizer.EqFacts.
Import ListNotations.

(** One comparison per id, in input order, labelled with that id - for EVERY script (late answers, stale tasks,
    hangs, exits included), every rate, timeout and keep-results setting.  If the parent ever blocks forever
    (possible only after a late answer, see C13) what was yielded until then is a prefix. *)
Theorem C08_one_verdict_per_id : forall c s vs o s1, run_dedicated c s = (vs, o, s1) ->
  (exists n, map label vs = firstn n (map fst s)) /\ (o = Completed -> map label vs = map fst s).
Proof. exact one_verdict_per_id_dedicated. Qed.
Print Assumptions C08_one_verdict_per_id.

(** the same in in-process mode (there a replay that exits or hangs the interpreter ends the run) *)
Theorem C08_one_verdict_per_id_inproc : forall k s vs o, run_inproc k s = (vs, o) ->
  (exists n, map label vs = firstn n (map fst s)) /\ (o = Completed -> map label vs = map fst s).
Proof. exact one_verdict_per_id_inproc. Qed.
Print Assumptions C08_one_verdict_per_id_inproc.

(** Failures are local.  PARTIAL: the script must contain no late answer ([BAnswersLate]) and no worker dying
    before it takes its task ([BDiesBefore]) and no answer lost in transit ([BDrops]: its idle worker is killed
    holding the task queue's read lock); missing part: see the three refuted theorems below.  Under that
    hypothesis the run completes and the i-th comparison is exactly the verdict of the i-th recording on its own:
    nothing that happened to other recordings (raising stages, exits, hangs, slow answers, recycling)
    shows in it. *)
Theorem C08_failure_is_local_partial : forall c s, clean_script s ->
  exists s1, run_dedicated c s = (map (single c) s, Completed, s1).
Proof. intros c s H. exact (failure_is_local c s (or_introl H)). Qed.
Print Assumptions C08_failure_is_local_partial.

(** [single] is what the recording yields when it is played alone - for every behaviour *)
Theorem C08_single_is_played_alone : forall c x, exists s1, run_dedicated c [x] = ([single c x], Completed, s1).
Proof. exact single_is_alone. Qed.
Print Assumptions C08_single_is_played_alone.

(** a failure while replaying, extracting or comparing, a worker that exits, hangs, loses its answer or exceeds the
    timeout: framework-failure verdict labelled with that recording *)
Theorem C08_fault_is_failure : forall c l b, is_fault c b = true ->
  verdict (single c (l, b)) = EqualizerFailure /\ label (single c (l, b)) = l.
Proof. exact fault_is_failure. Qed.
Print Assumptions C08_fault_is_failure.

(** the replay attached to a recording's verdict is its own, or none *)
Theorem C08_attribution : forall c l b,
  label (single c (l, b)) = l /\ (attached (single c (l, b)) = None \/ attached (single c (l, b)) = Some l).
Proof. exact single_attribution. Qed.
Print Assumptions C08_attribution.

(** (round 5) the verdict is the comparator's own, whole.  Whatever shape of result the comparator returns - any
    status or a value that is no status, any message (none, text, structured), with or without a diff, a plain
    ComparatorResult or an instance of a subclass - the comparison of that recording carries the comparator's
    status, ITS diff and ITS class when the framework can render the verdict in its log line, and is a framework
    failure of that recording (nothing attached) when it cannot. *)
Theorem C08_verdict_is_the_comparators : forall c l v,
  let x := single c (l, BReturns v) in
  label x = l /\
  (renderable v = true ->
     (forall s, vs_status v = VEnum s -> verdict x = s) /\
     vdiff x = (if vs_diff v then Some l else None) /\ vsub x = vs_sub v /\ attached x = Some l) /\
  (renderable v = false ->
     verdict x = EqualizerFailure /\ message x = MRender /\ vdiff x = None /\ vsub x = false /\ attached x = None).
Proof. exact verdict_is_the_comparators. Qed.
Print Assumptions C08_verdict_is_the_comparators.

(** the diff attached to a recording's verdict is its own, or none - every behaviour *)
Theorem C08_diff_attribution : forall c l b,
  vdiff (single c (l, b)) = None \/ vdiff (single c (l, b)) = Some l.
Proof. exact single_diff_attribution. Qed.
Print Assumptions C08_diff_attribution.

(** in-process and dedicated-process execution yield the same comparisons (scripts whose behaviours do not
    depend on there being a worker process: no exit, hang, late / lost answer, early death, and slow replays
    only within the timeout) *)
Theorem C08_modes_agree : forall c s, forallb (fun x => neutral c (snd x)) s = true ->
  exists s1, run_dedicated c s = (fst (run_inproc (keep c) s), snd (run_inproc (keep c) s), s1)
             /\ snd (run_inproc (keep c) s) = Completed.
Proof. exact modes_agree. Qed.
Print Assumptions C08_modes_agree.

(** REFUTED clause (known finding F08-late-answer): the answer of a timed-out worker that lands just before the
    kill stays in the untagged result queue; the comparison labelled 3 carries the replay of 2, the comparison
    labelled 4 reports Equal for a recording that is Different, one answer is left over. *)
Theorem C08_late_answer_refuted :
  let c := cfg_legacy 5 2 in
  let s := [(1, BEqual); (2, BAnswersLate); (3, BEqual); (4, BDifferent)] in
  exists s1, run_dedicated c s =
    ([Cmp 1 Equal MCmp (Some 1) false false TFalse TFalse None false;
      Cmp 2 EqualizerFailure MTimeout None false false TFalse TFalse None false;
      Cmp 3 Equal MCmp (Some 2) false false TFalse TFalse None false;
      Cmp 4 Equal MCmp (Some 3) false false TFalse TFalse None false], Completed, s1)
    /\ single c (4, BDifferent) = Cmp 4 Different MCmp (Some 4) false false TFalse TFalse None false
    /\ length (results (sh s1)) = 1.
Proof. exact late_answer_witness. Qed.
Print Assumptions C08_late_answer_refuted.

(** REFUTED clause (known finding F08-stale-task): a task left in the untagged task queue by a worker that died
    before taking it is served first by the replacement worker; same shift. *)
Theorem C08_stale_task_refuted :
  let c := cfg_legacy 5 2 in
  let s := [(1, BEqual); (2, BDiesBefore); (3, BEqual); (4, BDifferent)] in
  exists s1, run_dedicated c s =
    ([Cmp 1 Equal MCmp (Some 1) false false TFalse TFalse None false;
      Cmp 2 EqualizerFailure MDied None false false TFalse TFalse None false;
      Cmp 3 Equal MCmp (Some 2) false false TFalse TFalse None false;
      Cmp 4 Equal MCmp (Some 3) false false TFalse TFalse None false], Completed, s1)
    /\ length (results (sh s1)) = 1.
Proof. exact stale_task_witness. Qed.
Print Assumptions C08_stale_task_refuted.

(** REFUTED clause (known finding F08-lock-held; reproduced on real processes): the answer of recording 2 is lost in
    transit, its worker - idle, polling the task queue under the queue's read lock - is killed at the timeout, the
    lock stays held and recordings 3 and 4 are reported as timeouts although nothing is wrong with them. *)
Theorem C08_lock_held_refuted :
  let c := cfg_legacy 5 2 in
  let s := [(1, BEqual); (2, BDrops); (3, BEqual); (4, BDifferent)] in
  exists s1, run_dedicated c s =
    ([Cmp 1 Equal MCmp (Some 1) false false TFalse TFalse None false;
      failure_cmp 2 MTimeout; failure_cmp 3 MTimeout; failure_cmp 4 MTimeout], Completed, s1)
    /\ rlock (sh s1) = true /\ length (tasks (sh s1)) = 2.
Proof. exact lock_held_witness. Qed.
Print Assumptions C08_lock_held_refuted.

(** The repair (both queues are replaced whenever a worker is created; model flag [fresh_queues]; in /repo since
    commit 1ba89d0, and the configuration the correspondence check runs with) makes the full statement true:
    EVERY script. *)
Theorem C08_failure_is_local_with_fresh_queues : forall c s, fresh_queues c = true ->
  exists s1, run_dedicated c s = (map (single c) s, Completed, s1).
Proof. intros c s H. exact (failure_is_local c s (or_intror H)). Qed.
Print Assumptions C08_failure_is_local_with_fresh_queues.

(** non-vacuity: a script with hangs, exits, raising stages, slow answers and a repeated id meets the
    hypothesis of [C08_failure_is_local_partial]; its verdicts are computed; a mixed script is mode-neutral *)
Example C08_demo_script_is_clean : clean_script demo_script.
Proof. exact demo_clean. Qed.
Example C08_demo_run :
  fst (run_dedicated demo_cfg demo_script) = (map (single demo_cfg) demo_script, Completed)
  /\ map verdict (map (single demo_cfg) demo_script) =
     [Equal; EqualizerFailure; EqualizerFailure; EqualizerFailure; Equal; EqualizerFailure; Fixed;
      EqualizerFailure; EqualizerFailure; Different].
Proof. exact demo_run. Qed.
Example C08_demo_neutral : forallb (fun x => neutral demo_cfg (snd x)) demo_neutral = true.
Proof. exact demo_neutral_ok. Qed.

(** (round 5) verdict shapes are clean, mode-neutral behaviours: a script mixing a full result with a diff, a
    structured message the framework cannot render, a subclass instance with a diff, a bare value that is no status
    and a falsy non-text message yields, in BOTH modes, each recording's own whole verdict; the two unrenderable
    ones cost only their own recording *)
Example C08_verdict_shapes_demo :
  forallb (fun x => neutral demo_cfg (snd x)) demo_shapes = true /\
  fst (run_dedicated demo_cfg demo_shapes) = (map (single demo_cfg) demo_shapes, Completed) /\
  run_inproc (keep demo_cfg) demo_shapes = (map (single demo_cfg) demo_shapes, Completed) /\
  map (fun v => (verdict v, message v, vdiff v, vsub v)) (map (single demo_cfg) demo_shapes) =
    [(Different, MCmp, Some 1, false); (EqualizerFailure, MRender, None, false); (Equal, MCmp, None, false);
     (Failed, MCmp, Some 4, true); (EqualizerFailure, MRender, None, false); (Fixed, MFalsy, None, true);
     (Different, MCmp, None, false)].
Proof. exact demo_shapes_run. Qed.

(** ---- non-vacuity per theorem (wp-audit) ---- *)
(** C08_fault_is_failure: every kind of fault meets the premise under [demo_cfg] (timeout 2 s), a slow answer
    within the timeout does not *)
Example C08_fault_is_failure_nonvacuous :
  forallb (is_fault demo_cfg) [BPlayerRaises; BExtractorRaises; BComparatorRaises; BExits; BHangs; BAnswersLate;
                               BDrops; BDiesBefore; BSlow 4; BBadAnswer Unloadable; BBadAnswer Refused;
                               BReturns (VShape (VEnum Different) VStruct true false);
                               BReturns (VShape VForeign VNone false false)] = true /\
  is_fault demo_cfg (BSlow 3) = false /\ is_fault demo_cfg BDifferent = false /\
  is_fault demo_cfg (BReturns (VShape (VEnum Different) VText true true)) = false.
Proof. repeat split. Qed.

(** C08_failure_is_local_with_fresh_queues: a configuration with the repair switched on, run on the script of the
    late-answer finding (not a clean script): every verdict is the recording's own *)
Example C08_fresh_queues_nonvacuous :
  let c := Cfg 5 2 false true in
  let s := [(1, BEqual); (2, BAnswersLate); (3, BEqual); (4, BDifferent); (5, BDiesBefore); (6, BDrops); (7, BDifferent)] in
  fresh_queues c = true /\ forallb (fun x => cleanb (snd x)) s = false /\
  fst (run_dedicated c s) = (map (single c) s, Completed) /\
  map verdict (map (single c) s) = [Equal; EqualizerFailure; Equal; Different; EqualizerFailure; EqualizerFailure; Different].
Proof. vm_compute. repeat split. Qed.

(** (round 4) answers that reach the parent and cannot be used - the parent's [get] raises while loading the item, or
    the worker answered (False, message): clean behaviours (covered by [C08_failure_is_local_partial]); each is a
    framework failure of its own recording only, the neighbours keep their verdicts, and in-process (no queue) the
    same replays are Equal - so they are not [neutral] *)
Example C08_bad_answer_demo :
  clean_script demo_bad /\
  fst (run_dedicated demo_cfg demo_bad) = (map (single demo_cfg) demo_bad, Completed) /\
  map (fun v => (verdict v, message v)) (map (single demo_cfg) demo_bad) =
    [(EqualizerFailure, MUnload); (EqualizerFailure, MRefused); (Equal, MCmp); (EqualizerFailure, MUnload)] /\
  neutral demo_cfg (BBadAnswer Unloadable) = false.
Proof. destruct demo_bad_run as (A & B & C & _). repeat split; assumption. Qed.
