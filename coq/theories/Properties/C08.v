From Playback Require Import Equalizer.EqModel.
Theorem C08_stub : run_inproc false nil = (nil, Completed).
Proof. reflexivity. Qed.
Print Assumptions C08_stub.
