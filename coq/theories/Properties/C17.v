(** C17 — the sampling policy alone decides which recordings are kept.  Statements only. *)
From Playback Require Import Base.Str Values.PyVal Values.KeyFormat Recorder.Dsl Recorder.Exec Recorder.Run Recorder.RecFacts.
From Coq Require Import QArith.

(** [keep_spec] is the documented table: operations of skipped classes start no recording; an explicit
    discard (whoever issued it, whenever) always wins; otherwise forcing keeps it; otherwise kept iff
    rate >= 1 or the next draw <= rate.  For every program, fault placement, outcome and save behaviour the
    run's finalisation equals that function, and a draw is consumed exactly when the draw decides.  The
    statement does not mention the program's content or outcome: that is the independence claim. *)
Theorem C17_keep_policy :
  forall draws P op save_fails s w, active s = false ->
    let '(ob, w') := record_run draws true P op save_fails s w in
    let '(_, s1, l0) := rec_exec P (op_body op) [] (if p_skipped P then set_enabled true s
                                                    else mk_rst true true (force s) (counter s) (icpt s)) in
    let discarded := negb (Nat.eqb (aborts_of l0) 0) in
    (p_skipped P = false -> discarded = negb (active s1)) /\
    decision_of (w_next w) (ob_cass ob) = keep_spec P discarded (force s1) (draws (w_dpos w)) /\
    w_dpos w' = (w_dpos w + draws_spec P discarded (force s1))%nat.
Proof. exact record_run_keep_policy. Qed.
Print Assumptions C17_keep_policy.

(** forcing is honoured unless the class ignores it: then the flag is never set *)
Theorem C17_ignore_forcing :
  forall P c env s, p_ignore P = true -> force s = false -> force (snd (fst (rec_exec P c env s))) = false.
Proof. exact rec_exec_ignores_forcing. Qed.
Print Assumptions C17_ignore_forcing.

(** forcing in one run does not leak into the next: every run ends idle (force flag clear) *)
Theorem C17_force_does_not_leak :
  forall draws rs s w, idle s -> Forall (fun ob => force (ob_state ob) = false) (run_history draws rs s w).
Proof.
  intros. eapply Forall_impl; [|apply run_history_idle; eassumption]. intros ob (_ & F & _). exact F.
Qed.
Print Assumptions C17_force_does_not_leak.

(** the decisions of a history are a function of the runs and the draw stream (reproducible from the seed):
    [run_history] is a Gallina function of exactly these; two histories that agree on them agree on everything *)
Theorem C17_reproducible :
  forall draws1 draws2 rs s w, (forall n, draws1 n = draws2 n) -> run_history draws1 rs s w = run_history draws2 rs s w.
Proof.
  intros draws1 draws2 rs. induction rs as [|r rs IH]; intros s w E; [reflexivity|]. cbn [run_history].
  assert (D : do_run draws1 r s w = do_run draws2 r s w).
  { destruct r as [en P op sf|en t pf]; cbn [do_run]; [|reflexivity].
    unfold record_run, should_sample. rewrite E. reflexivity. }
  rewrite D. destruct (do_run draws2 r s w) as [ob w']. f_equal. apply IH. exact E.
Qed.
Print Assumptions C17_reproducible.

(** long-run fraction: of N equally spaced draws exactly floor(rate*N)+1 are kept (0 <= rate < 1), i.e. the
    kept fraction is the rate up to 1/N (the closed comparison [<=] gives the +1) *)
Theorem C17_fraction :
  forall p q N : positive, (Zpos p < Zpos q)%Z ->
    length (filter (fun k => Qle_bool (Z.of_nat k # N) (Zpos p # q)) (seq 0 (Pos.to_nat N))) =
    S (Z.to_nat ((Zpos p * Zpos N) / Zpos q)).
Proof. exact kept_fraction. Qed.
Print Assumptions C17_fraction.

(** storage-level sampling of the S3 cassette (s3_tape_cassette.py:197-216) follows the same rule *)
Definition s3_should_sample (ratio : option Q) (draw : Q) : bool :=
  match ratio with
  | None => true                                   (* no calculator configured *)
  | Some r => if Qle_bool 1 r then true else Qle_bool draw r
  end.
Theorem C17_s3_sampling :
  forall draws pos P r, p_rate P = r ->
    s3_should_sample (Some r) (draws pos) = fst (should_sample draws pos P false).
Proof. intros draws pos P r <-. unfold s3_should_sample, should_sample. destruct (Qle_bool 1 (p_rate P)); reflexivity. Qed.
Print Assumptions C17_s3_sampling.

Example C17_example :
  keep_spec {| p_rate := 1 # 2; p_ignore := false; p_skipped := false; p_copy := false |} false false (1 # 2) = DSave /\
  keep_spec {| p_rate := 1 # 2; p_ignore := false; p_skipped := false; p_copy := false |} false false (3 # 4) = DAbort /\
  keep_spec {| p_rate := 0; p_ignore := false; p_skipped := false; p_copy := false |} true true 0 = DAbort.
Proof. repeat split. Qed.

(** ---- non-vacuity per theorem (wp-audit) ---- *)
Definition c17_out : ocfg := {| o_alias := U"send"; o_static := true; o_handler := None; o_fail := true; o_default := VNone |}.
Definition c17_op (body : code) : opdef := {| op_class := U"Op"; op_classlevel := false; op_extractor := XNone; op_body := body |}.
Definition c17_P (ignore : bool) : prm := {| p_rate := 1 # 2; p_ignore := ignore; p_skipped := false; p_copy := false |}.
Definition c17_body : code := Out c17_out (Ret (Lit VNone)) [Lit (VInt 1)] [] (Ret (Var 0)).

(** C17_keep_policy (premise: no recording active), rate 1/2: the same operation is kept when the draw is 1/2,
    dropped when it is 3/4 (one draw consumed each time), kept without a draw when it forces sampling, dropped
    without a draw when it discards *)
Example C17_keep_policy_nonvacuous :
  let run draw body := let '(ob, w') := record_run (fun _ => draw) true (c17_P false) (c17_op body) false fresh_rst fresh_world in
                       (decision_of 0 (ob_cass ob), w_dpos w') in
  active fresh_rst = false /\
  run (1 # 2) c17_body = (DSave, 1%nat) /\ run (3 # 4) c17_body = (DAbort, 1%nat) /\
  run (3 # 4) (Force c17_body) = (DSave, 0%nat) /\ run (0 # 1) (Force (Discard c17_body)) = (DAbort, 0%nat).
Proof. vm_compute. repeat split; reflexivity. Qed.

(** C17_ignore_forcing (premises: the class ignores enforced sampling; flag clear on entry), on a program that
    does force - from inside an intercepted body too - while a recording is active; without the option the same
    program sets the flag *)
Example C17_ignore_forcing_nonvacuous :
  let c := Force (Out c17_out (Force (Ret (Lit VNone))) [] [] (Ret (Var 0))) in
  let s := mk_rst true true false [] false in
  p_ignore (c17_P true) = true /\ force s = false /\
  force (snd (fst (rec_exec (c17_P true) c [] s))) = false /\ force (snd (fst (rec_exec (c17_P false) c [] s))) = true.
Proof. vm_compute. repeat split; reflexivity. Qed.

(** C17_force_does_not_leak / C17_reproducible (premise: idle; pointwise equal draw streams): a forcing run
    followed by a run that does not force - the second one is decided by its draw (3/4 > 1/2: dropped) *)
Example C17_force_does_not_leak_nonvacuous :
  let rs := [RRecord true (c17_P false) (c17_op (Force c17_body)) false; RRecord true (c17_P false) (c17_op c17_body) false] in
  let d1 := fun _ : nat => 3 # 4 in
  let d2 := fun n : nat => if Nat.eqb n n then 3 # 4 else 0 in
  idle fresh_rst /\ (forall n, d1 n = d2 n) /\
  map (fun ob => decision_of 0 (ob_cass ob)) (run_history d1 rs fresh_rst fresh_world) = [DSave; DAbort] /\
  map (fun ob => force (ob_state ob)) (run_history d1 rs fresh_rst fresh_world) = [false; false].
Proof.
  cbv zeta. split; [repeat split|]. split.
  - intros n. rewrite Nat.eqb_refl. reflexivity.
  - vm_compute. repeat split; reflexivity.
Qed.

(** C17_fraction (premise p < q): rate 1/3 over 10 equally spaced draws keeps 4 = floor(10/3) + 1 *)
Example C17_fraction_nonvacuous :
  (Zpos 1 < Zpos 3)%Z /\
  length (filter (fun k => Qle_bool (Z.of_nat k # 10) (1 # 3)) (seq 0 10)) = 4%nat.
Proof. split; reflexivity. Qed.
