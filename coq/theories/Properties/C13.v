(** C13 - comparison runs always finish and leave no worker behind.  Statements only.

    Same model as C08 ([Equalizer/EqModel.v]).  C13 quantifies over scripts of hangs and worker deaths at any
    positions: that is [clean_script] (every behaviour except a late answer, a worker dying before it takes its
    task and an answer lost in transit - the three mechanisms of known finding F08, see the refuted theorems).  Rates are arbitrary naturals (0 behaves as 1), timeouts arbitrary naturals (whole seconds). *)
From Coq Require Import List Arith Bool.
From Playback Require Import Equalizer.EqModel Equalizer.EqFacts.
Import ListNotations.

(** The wait for one result performs at most timeout + 1 one-second polls - for EVERY script (late answers and
    stale tasks included) - the wait loop never runs out of its fuel, and a run can only end by completing or by
    the parent blocking in join() (never in the wait loop). *)
Theorem C13_wait_bounded : forall c s vs o s1, run_dedicated c s = (vs, o, s1) ->
  (o = Completed \/ o = Deadlock) /\ Forall (fun p => p <= S (timeout c)) (polls s1).
Proof. exact wait_is_bounded. Qed.
Print Assumptions C13_wait_bounded.

(** Every run over hangs / deaths / slow answers completes; its modelled duration is the sum of the
    per-recording costs (0 for an answer at once, 1 s to notice a dead worker, d for an answer after d s,
    timeout + 1 for a worker that has to be killed), hence at most (timeout + 1) per recording. *)
Theorem C13_run_completes : forall c s, clean_script s ->
  exists vs s1, run_dedicated c s = (vs, Completed, s1) /\ clock s1 = total_cost c s
                /\ total_cost c s <= length s * S (timeout c).
Proof.
  intros c s H. destruct (run_completes c s (or_introl H)) as (vs & s1 & A & B).
  exists vs, s1. split; [exact A|]. split; [exact B|apply total_cost_bounded].
Qed.
Print Assumptions C13_run_completes.

(** After a recording whose worker had to be given up (exit, hang, answer after the timeout) - at
    any position: first, last, consecutive, on a recycle boundary - the parent holds no worker, every worker ever
    created is dead, and the next recording is served by a newly created worker that serves nothing else before. *)
Theorem C13_failure_then_fresh_worker : forall c s1 l b s2,
  clean_script (s1 ++ (l, b) :: s2) -> fate c b <> None ->
  let st := state_after c (s1 ++ [(l, b)]) in
  cur st = None /\ Forall (fun w => alive w = false) (workers st)
  /\ forall x s3, s2 = x :: s3 ->
       exists w, workers (state_after c (s1 ++ [(l, b); x])) = w :: workers st
                 /\ (cleanb (snd x) = true -> w_served w = [fst x]).
Proof. intros c s1 l b s2 H. exact (failure_then_fresh_worker c s1 l b s2 (or_introl H)). Qed.
Print Assumptions C13_failure_then_fresh_worker.

(** No worker is given more than max(1, rate) tasks. *)
Theorem C13_worker_age_bounded : forall c s, clean_script s ->
  Forall (fun w => length (w_served w) <= Nat.max 1 (rate c)) (workers (state_after c s)).
Proof. intros c s H. exact (worker_age_bounded c s (or_introl H)). Qed.
Print Assumptions C13_worker_age_bounded.

(** After the run completes, or is abandoned after any number of yields (generator closed, consumer raising, id
    source raising), every worker ever created is dead, or idle with the terminate flag set - and dead after its
    next poll. *)
Theorem C13_no_worker_left : forall h c s, clean_script s ->
  exists vs s1, run_stopped h c s = (vs, Completed, s1)
    /\ Forall (fun w => alive w = false \/ (w_stat w = WIdle /\ term s1 = true)) (workers s1)
    /\ Forall (fun w => alive w = false) (workers (settle Completed s1)).
Proof. intros h c s H. exact (no_worker_left h c s (or_introl H)). Qed.
Print Assumptions C13_no_worker_left.

(** REFUTED for late answers (known finding F08-late-answer): the parent, one recording ahead of its worker,
    recycles a worker that hangs on a task nobody waits for - join() never returns; two of three verdicts. *)
Theorem C13_late_answer_blocks_refuted :
  let c := cfg_legacy 1 2 in
  let s := [(1, BAnswersLate); (2, BHangs); (3, BEqual)] in
  exists vs s1, run_dedicated c s = (vs, Deadlock, s1) /\ length vs = 2
    /\ exists w, cur s1 = Some w /\ w_stat w = WHung None.
Proof. exact late_answer_blocks_witness. Qed.
Print Assumptions C13_late_answer_blocks_refuted.

(** ... and when the run does end, the worker hung that way is left behind *)
Theorem C13_late_answer_leaks_refuted :
  let c := cfg_legacy 5 2 in
  let s := [(1, BAnswersLate); (2, BHangs)] in
  exists vs s1, run_dedicated c s = (vs, Completed, s1)
    /\ exists w, In w (workers (settle Completed s1)) /\ alive w = true.
Proof. exact late_answer_leaks_witness. Qed.
Print Assumptions C13_late_answer_leaks_refuted.

(** REFUTED for stale tasks (known finding F08-stale-task): the replacement worker takes three tasks at rate 2 *)
Theorem C13_stale_task_over_age_refuted :
  let c := cfg_legacy 2 2 in
  let s := [(1, BEqual); (2, BDiesBefore); (3, BEqual); (4, BEqual)] in
  exists w, In w (workers (state_after c s)) /\ length (w_served w) = 3 /\ Nat.max 1 (rate c) = 2.
Proof. exact stale_task_over_age_witness. Qed.
Print Assumptions C13_stale_task_over_age_refuted.

(** With the repair (fresh queues per worker, /repo 1ba89d0) all of the above holds for EVERY script. *)
Theorem C13_no_worker_left_with_fresh_queues : forall h c s, fresh_queues c = true ->
  exists vs s1, run_stopped h c s = (vs, Completed, s1)
    /\ Forall (fun w => alive w = false \/ (w_stat w = WIdle /\ term s1 = true)) (workers s1)
    /\ Forall (fun w => alive w = false) (workers (settle Completed s1)).
Proof. intros h c s H. exact (no_worker_left h c s (or_intror H)). Qed.
Print Assumptions C13_no_worker_left_with_fresh_queues.

(** (wp-audit) The three theorems above that are stated for [clean_script] only hold, like the last one, for EVERY
    script once every worker gets fresh queues ([fresh_queues c = true]: /repo since commit 1ba89d0, the
    configuration the correspondence check runs with).  EqFacts proves them for [tame c s] = clean \/ fresh. *)
Theorem C13_run_completes_with_fresh_queues : forall c s, fresh_queues c = true ->
  exists vs s1, run_dedicated c s = (vs, Completed, s1) /\ clock s1 = total_cost c s
                /\ total_cost c s <= length s * S (timeout c).
Proof.
  intros c s H. destruct (run_completes c s (or_intror H)) as (vs & s1 & A & B).
  exists vs, s1. split; [exact A|]. split; [exact B|apply total_cost_bounded].
Qed.
Print Assumptions C13_run_completes_with_fresh_queues.

Theorem C13_failure_then_fresh_worker_with_fresh_queues : forall c s1 l b s2,
  fresh_queues c = true -> fate c b <> None ->
  let st := state_after c (s1 ++ [(l, b)]) in
  cur st = None /\ Forall (fun w => alive w = false) (workers st)
  /\ forall x s3, s2 = x :: s3 ->
       exists w, workers (state_after c (s1 ++ [(l, b); x])) = w :: workers st
                 /\ (cleanb (snd x) = true -> w_served w = [fst x]).
Proof. intros c s1 l b s2 H. exact (failure_then_fresh_worker c s1 l b s2 (or_intror H)). Qed.
Print Assumptions C13_failure_then_fresh_worker_with_fresh_queues.

Theorem C13_worker_age_bounded_with_fresh_queues : forall c s, fresh_queues c = true ->
  Forall (fun w => length (w_served w) <= Nat.max 1 (rate c)) (workers (state_after c s)).
Proof. intros c s H. exact (worker_age_bounded c s (or_intror H)). Qed.
Print Assumptions C13_worker_age_bounded_with_fresh_queues.

(** non-vacuity: the demo script (hangs and exits first / consecutive / on recycle boundaries at rate 2) is clean,
    completes in the computed time, and a fault position satisfies the hypotheses of the fresh-worker theorem *)
Example C13_demo_script_is_clean : clean_script demo_script.
Proof. exact demo_clean. Qed.
Example C13_demo_duration : total_cost demo_cfg demo_script = 13.
Proof. reflexivity. Qed.
Example C13_demo_fault : fate demo_cfg BHangs <> None /\ fate demo_cfg (BSlow 4) <> None /\ fate demo_cfg (BSlow 3) = None.
Proof. repeat split; discriminate. Qed.

(** ---- non-vacuity per theorem (wp-audit) ---- *)
(** C13_failure_then_fresh_worker: both premises for ONE decomposition of the demo script (a hang at position 2,
    something after it), and what the conclusion says there is observable *)
Example C13_failure_then_fresh_worker_nonvacuous :
  let s1 := [(1, BEqual)] in
  let s2 := skipn 2 demo_script in
  demo_script = s1 ++ (2, BHangs) :: s2 /\ clean_script (s1 ++ (2, BHangs) :: s2) /\ fate demo_cfg BHangs <> None /\
  (exists x s3, s2 = x :: s3 /\ cleanb (snd x) = true) /\
  cur (state_after demo_cfg (s1 ++ [(2, BHangs)])) = None /\
  length (workers (state_after demo_cfg (s1 ++ [(2, BHangs)]))) = 1.
Proof. repeat split; try discriminate. do 2 eexists. split; reflexivity. Qed.

(** C13_worker_age_bounded / C13_no_worker_left on the demo script: workers were created and recycled *)
Example C13_demo_workers :
  length (workers (state_after demo_cfg demo_script)) = 7 /\
  (exists vs s1, run_stopped (ClosedAfter 4) demo_cfg demo_script = (vs, Completed, s1) /\ length vs = 4 /\
                 length (workers s1) = 3).
Proof. split; [reflexivity|]. do 2 eexists. vm_compute. repeat split. Qed.

(** C13_no_worker_left_with_fresh_queues: the repaired configuration on a script that is NOT clean *)
Example C13_fresh_queues_nonvacuous :
  let c := Cfg 1 2 false true in
  let s := [(1, BAnswersLate); (2, BHangs); (3, BEqual)] in
  fresh_queues c = true /\ forallb (fun x => cleanb (snd x)) s = false /\
  exists vs s1, run_stopped Full c s = (vs, Completed, s1) /\ length vs = 3 /\
                forallb (fun w => negb (alive w)) (workers (settle Completed s1)) = true.
Proof. repeat split. do 2 eexists. vm_compute. repeat split. Qed.

(** (round 4) C13_worker_age_bounded on answers the parent cannot use (its [get] raises while loading the item / the
    worker answered (False, message)): the worker stays in place and has aged - at rate 2 the script
    [1 unloadable; 2 refused; 3 equal; 4 unloadable] is served by two workers, two tasks each *)
Example C13_bad_answer_ages_worker :
  clean_script demo_bad /\ fate demo_cfg (BBadAnswer Unloadable) = None /\
  map (fun w => w_served w) (workers (state_after demo_cfg demo_bad)) = [[3; 4]; [1; 2]] /\ rate demo_cfg = 2.
Proof. destruct demo_bad_run as (A & _ & _ & D & _). repeat split; assumption. Qed.
