From Playback Require Import Equalizer.EqModel.
Theorem C13_stub : run_inproc false nil = (nil, Completed).
Proof. reflexivity. Qed.
Print Assumptions C13_stub.
