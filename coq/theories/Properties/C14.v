(** C14 — metadata filter matching is total and means what is documented.  Statements only.
    [glob] is the fnmatch oracle on two strings: the theorems hold for every such function. *)
From Playback Require Import Base.Str Cassette.Matcher Cassette.MatcherFacts.

Theorem C14_match_meaning : forall glob f r, match_value glob f r = Ans (match_spec glob f r).
Proof. exact match_meaning. Qed.
Print Assumptions C14_match_meaning.

Theorem C14_match_total : forall glob f r, match_value glob f r <> RaisesTypeError.
Proof. exact match_total. Qed.
Print Assumptions C14_match_total.

Theorem C14_meta_meaning : forall glob filter meta,
  match_meta glob filter meta = Ans (meta_spec glob filter meta).
Proof. exact meta_meaning. Qed.
Print Assumptions C14_meta_meaning.

Theorem C14_meta_total : forall glob filter meta, match_meta glob filter meta <> RaisesTypeError.
Proof. exact meta_total. Qed.
Print Assumptions C14_meta_total.

(** the defect repaired by /repo commit 88e34ec, kept as replayable witnesses *)
Theorem C14_match_raises_refuted :
  legacy_match_value glob_simple (MDict [(OPERATOR, MStr (U"<")); (VALUE, MInt 5)]) MNone = RaisesTypeError /\
  legacy_match_value glob_simple (MStr (U"a*")) (MInt 3) = RaisesTypeError /\
  legacy_match_value glob_simple (MStr (U"a*")) (MOpaque 1) = RaisesTypeError.
Proof. exact legacy_match_raises. Qed.
Print Assumptions C14_match_raises_refuted.
