(** C14 — metadata filter matching is total and means what is documented.  Statements only.
    [glob] is the fnmatch oracle on two strings: the theorems hold for every such function. *)
From Playback Require Import Base.Str Cassette.Matcher Cassette.MatcherFacts.
From Coq Require Import QArith.
Open Scope list_scope.

Theorem C14_match_meaning : forall glob f r, match_value glob f r = Ans (match_spec glob f r).
Proof. exact match_meaning. Qed.
Print Assumptions C14_match_meaning.

Theorem C14_match_total : forall glob f r, match_value glob f r <> RaisesTypeError.
Proof. exact match_total. Qed.
Print Assumptions C14_match_total.

Theorem C14_meta_meaning : forall glob filter meta,
  match_meta glob filter meta = Ans (meta_spec glob filter meta).
Proof. exact meta_meaning. Qed.
Print Assumptions C14_meta_meaning.

Theorem C14_meta_total : forall glob filter meta, match_meta glob filter meta <> RaisesTypeError.
Proof. exact meta_total. Qed.
Print Assumptions C14_meta_total.

(** the defect repaired by /repo commit 88e34ec, kept as replayable witnesses *)
Theorem C14_match_raises_refuted :
  legacy_match_value glob_simple (MDict [(OPERATOR, MStr (U"<")); (VALUE, MInt 5)]) MNone = RaisesTypeError /\
  legacy_match_value glob_simple (MStr (U"a*")) (MInt 3) = RaisesTypeError /\
  legacy_match_value glob_simple (MStr (U"a*")) (MOpaque 1) = RaisesTypeError.
Proof. exact legacy_match_raises. Qed.
Print Assumptions C14_match_raises_refuted.

(** the theorems of this file have no premise; this shows the specification they equate the code with is neither
    constantly true nor constantly false (alternatives, an operator object, a pattern, a missing key, a comparison
    that Python cannot order) (wp-audit) *)
Example C14_spec_example :
  let meta := [(U"tenant", MStr (U"acme")); (U"size", MInt 7); (U"tags", MList [MStr (U"x")])] in
  meta_spec glob_simple [(U"tenant", MList [MStr (U"b*"); MStr (U"a*e")]);
                         (U"size", MDict [(OPERATOR, MStr (U"<=")); (VALUE, MFloat (15 # 2))]);
                         (U"absent", MList [MInt 1; MNone])] meta = true /\
  meta_spec glob_simple [(U"tenant", MStr (U"b*"))] meta = false /\
  meta_spec glob_simple [(U"absent", MInt 1)] meta = false /\
  meta_spec glob_simple [(U"tags", MDict [(OPERATOR, MStr (U"<")); (VALUE, MInt 5)])] meta = false /\
  match_meta glob_simple [(U"tags", MDict [(OPERATOR, MStr (U"<")); (VALUE, MInt 5)])] meta = Ans false.
Proof. vm_compute. repeat split; reflexivity. Qed.
