(** C01 — replay on unchanged code reproduces the recorded run.  Statements only.
    Model: Recorder/Exec.v ([rec_exec], [play_exec]); proofs: Recorder/SimFacts.v. *)
From Playback Require Import Base.Str Values.PyVal Values.KeyFormat Recorder.Dsl Recorder.Exec Recorder.Run
  Recorder.RecFacts Recorder.SnapFacts Recorder.PlayFacts Recorder.SimFacts.
From Coq Require Import QArith.

(** [replayable c]: the program contains no enable/disable and no play_data statement (both are
    mode-dependent by design), its user record_data keys do not look like output entries, and its input data
    handlers satisfy restore (prepare v) = v.  Everything else is unrestricted: any number and order of input
    and output calls, the same alias with different arguments, static / instance interceptions, alias
    resolvers, capture subsets, fallbacks, interceptions nested in interceptions, try/except, forced sampling. *)

(** Code running inside an interception (or without a recording) is not intercepted: it changes neither
    the per-alias numbering nor the mode, and no decorator answers or captures anything there. *)
Theorem C01_nested_not_intercepted :
  forall P c env s, replayable c -> should_intercept_rec s = false ->
    let '(_, s', l) := rec_exec P c env s in aborts_of l = 0%nat -> passive s s' l.
Proof. exact rec_exec_passive. Qed.
Print Assumptions C01_nested_not_intercepted.

(** The simulation: for every replayable program, every recorder state in which the decorators intercept,
    and EVERY recording R that agrees with the writes of the record run (whatever else it holds): if the
    record run was neither aborted nor cut short by an interrupt, the replay against R ends with the same
    outcome and the same per-alias numbering, every intercepting decorator gives its caller the answer it
    gave while recording (value, or exception of the same type), the outputs captured are the '.output'
    writes of the record run, and no wrapped body runs. *)
Theorem C01_simulation :
  forall P R c env s pe, replayable c -> intercepting s ->
    sim_res R pe (rec_exec P c env s) (play_exec R c env (mk_pst (counter s) pe)).
Proof. exact sim_exec. Qed.
Print Assumptions C01_simulation.

(** Against what a cassette hands back for the saved snapshot ([fetched]: every value went through the
    serializer).  Hypotheses, as the property says: the record trace is functional (an input is a function of
    its alias and captured arguments: two writes under one key agree) and the stored values are their own
    serializer round trip (canonical form; discharged for the three cassettes by C07 / C06_flatten_roundtrip
    up to dict order). *)
Theorem C01_replay_reproduces :
  forall P c s0 pe, replayable c -> intercepting s0 ->
    let '(o, s1, l0) := rec_exec P c [] s0 in
    aborts_of l0 = 0%nat -> o <> OInt ->
    let l := l0 ++ op_writes o in
    functional (writes_of l) ->
    (forall k d, List.In (k, d) (writes_of l) -> canon_datum d = d) ->
    let R := fetched (snapshot_of l) in
    let '(o', ps', l') := play_exec R c [] (mk_pst (counter s0) pe) in
    o' = o /\ answers_of l' = answers_of l0 /\ bodies_of l' = [] /\
    (forall k d, List.In (k, d) (pbouts_of l' ++ op_pbout o) <-> List.In (k, d) (outputs_of R)).
Proof. exact replay_reproduces. Qed.
Print Assumptions C01_replay_reproduces.

(** Through the decorated operation, the cassette and play(): Playback.playback_outputs and
    Playback.recorded_outputs hold the same entries (the operation's return value or raised exception
    included), play() returns normally and changes nothing. *)
Theorem C01_replay_reproduces_run :
  forall draws P op s w en', idle s -> replayable (op_body op) ->
    let '(ob, w') := record_run draws true P op false s w in
    let '(o, s1, l0) := rec_exec P (op_body op) [] (mk_rst true true false [] false) in
    let l := l0 ++ op_writes o in
    (exists d m, List.In (CSave (w_next w) d m) (ob_cass ob)) -> o <> OInt ->
    functional (writes_of l) -> (forall k d, List.In (k, d) (writes_of l) -> canon_datum d = d) ->
    let '(ob2, w2) := play_run en' (w_next w) (PfOp op) (ob_state ob) w' in
    ob_outcome ob2 = OVal VNone /\ w2 = w' /\
    (forall k d, List.In (k, d) (ob_pbouts ob2) <-> List.In (k, d) (ob_recouts ob2)).
Proof. exact replay_reproduces_run. Qed.
Print Assumptions C01_replay_reproduces_run.

(** The functional-trace hypothesis is needed (as the property says): the same key recorded with two
    different results replays the last one for both calls. *)
Definition cf_f : icfg :=
  {| i_alias := U"f"; i_resolver := RNone; i_cap := CapAll; i_static := true; i_handler := None;
     i_prep_discards := false; i_run_missing := false; i_vmiss := VMNone; i_fallbacks := FbNone |}.
Definition prog_nonfunctional : code :=
  Inp cf_f (Ret (Lit (VInt 10))) [Lit (VInt 1)] [] (Inp cf_f (Ret (Lit (VInt 20))) [Lit (VInt 1)] [] (Ret (Var 0))).
Theorem C01_nonfunctional_refuted :
  let s0 := mk_rst true true false [] false in
  let P := {| p_rate := 1; p_ignore := false; p_skipped := false; p_copy := false |} in
  let '(o, _, l0) := rec_exec P prog_nonfunctional [] s0 in
  let R := fetched (snapshot_of (l0 ++ op_writes o)) in
  let '(o', _, l') := play_exec R prog_nonfunctional [] (mk_pst [] true) in
  replayable prog_nonfunctional /\ aborts_of l0 = 0%nat /\ o = OVal (VInt 10) /\ o' = OVal (VInt 20).
Proof. vm_compute. repeat split; reflexivity. Qed.
Print Assumptions C01_nonfunctional_refuted.

(** non-vacuity: a program with an input (captured keyword subset, wrapped by a data handler is not needed
    here), a nested interception, an output called twice and a caught recorded exception.  [C01_example] shows
    the static hypotheses and the shape of the run; the remaining hypotheses of each theorem (functional and
    canonical writes, agreement of the recording, a saved run) are exhibited by the [.._nonvacuous] examples
    below (wp-audit). *)
Definition cf_g : icfg :=
  {| i_alias := U"get"; i_resolver := RNone; i_cap := CapList [(None, Some (U"a"))]; i_static := false; i_handler := None;
     i_prep_discards := false; i_run_missing := false; i_vmiss := VMNone; i_fallbacks := FbList [U"old"] |}.
Definition oc_s : ocfg := {| o_alias := U"send"; o_static := true; o_handler := None; o_fail := true; o_default := VNone |}.
Definition prog_example : code :=
  Inp cf_g (Inp cf_f (Ret (Lit (VInt 5))) [Lit (VInt 1)] [] (Ret (Var 2))) [Lit (VInt 7)] [(U"a", Lit (VStr (U"x")))]
    (Out oc_s (Ret (Lit VNone)) [Var 0] []
       (Try (Out oc_s (Raise (U"KeyError")) [Lit (VTuple [VInt 1; VNone])] [] (Ret (Lit (VInt 0))))
            (Ret (Var 0)))).
Example C01_example :
  let s0 := mk_rst true true false [] false in
  let P := {| p_rate := 1; p_ignore := false; p_skipped := false; p_copy := false |} in
  let '(o, _, l0) := rec_exec P prog_example [] s0 in
  replayable prog_example /\ intercepting s0 /\ aborts_of l0 = 0%nat /\ o = OVal (VInt 5) /\
  length (writes_of l0) = 5%nat /\ length (answers_of l0) = 3%nat.
Proof. vm_compute. repeat split; try reflexivity; intros; discriminate. Qed.

(** ---- non-vacuity, one instance per theorem meeting ALL of its premises at once (wp-audit) ---- *)
Ltac in_cases I := repeat (destruct I as [I|I]; [|]); try contradiction.
Ltac functional_tac :=
  let k := fresh "k" in let d1 := fresh "d1" in let d2 := fresh "d2" in let I1 := fresh "I1" in let I2 := fresh "I2" in
  intros k d1 d2 I1 I2; in_cases I1; in_cases I2; inversion I1; subst; inversion I2; subst; reflexivity.

(** C01_nested_not_intercepted: the same program started INSIDE an interception (flag set): replayable, not
    intercepting, nothing aborted - and the run is not empty (12 events, three decorated calls) *)
Example C01_nested_not_intercepted_nonvacuous :
  let s := mk_rst true true false [] true in
  let P := {| p_rate := 1; p_ignore := false; p_skipped := false; p_copy := false |} in
  let '(o, _, l) := rec_exec P prog_example [] s in
  replayable prog_example /\ should_intercept_rec s = false /\ aborts_of l = 0%nat /\
  o = OVal (VInt 5) /\ length l = 12%nat.
Proof. vm_compute. repeat split; reflexivity. Qed.

(** C01_simulation: outer premises and the three premises inside [sim_res], for a recording that holds the
    run's writes and something unrelated besides *)
Example C01_simulation_nonvacuous :
  let s0 := mk_rst true true false [] false in
  let P := {| p_rate := 1; p_ignore := false; p_skipped := false; p_copy := false |} in
  let '(o, _, l0) := rec_exec P prog_example [] s0 in
  let R := (U"unrelated", DVal (VInt 0)) :: snapshot_of l0 in
  replayable prog_example /\ intercepting s0 /\ aborts_of l0 = 0%nat /\ o <> OInt /\ agree R (writes_of l0) /\
  length (writes_of l0) = 5%nat /\ length (answers_of l0) = 3%nat.
Proof.
  vm_compute. repeat split; try reflexivity; try discriminate.
  intros k d I. in_cases I; inversion I; subst; reflexivity.
Qed.

(** C01_replay_reproduces: additionally the writes (operation entry included) are functional and canonical *)
Example C01_replay_reproduces_nonvacuous :
  let s0 := mk_rst true true false [] false in
  let P := {| p_rate := 1; p_ignore := false; p_skipped := false; p_copy := false |} in
  let '(o, _, l0) := rec_exec P prog_example [] s0 in
  let l := l0 ++ op_writes o in
  replayable prog_example /\ intercepting s0 /\ aborts_of l0 = 0%nat /\ o <> OInt /\
  functional (writes_of l) /\ (forall k d, List.In (k, d) (writes_of l) -> canon_datum d = d) /\
  length (writes_of l) = 6%nat /\ length (answers_of l0) = 3%nat.
Proof.
  vm_compute. repeat split; try reflexivity; try discriminate.
  - functional_tac.
  - intros k d I. in_cases I; inversion I; subst; reflexivity.
Qed.

(** C01_replay_reproduces_run: the decorated operation around the same body, on a fresh recorder and an empty
    cassette: idle, replayable, saved (CSave present), not interrupted, functional, canonical *)
Example C01_replay_reproduces_run_nonvacuous :
  let P := {| p_rate := 1; p_ignore := false; p_skipped := false; p_copy := false |} in
  let op := {| op_class := U"Op"; op_classlevel := false; op_extractor := XNone; op_body := prog_example |} in
  let '(ob, w') := record_run (fun _ => 0) true P op false fresh_rst fresh_world in
  let '(o, _, l0) := rec_exec P (op_body op) [] (mk_rst true true false [] false) in
  let l := l0 ++ op_writes o in
  idle fresh_rst /\ replayable (op_body op) /\
  (exists d m, List.In (CSave (w_next fresh_world) d m) (ob_cass ob)) /\ o <> OInt /\
  functional (writes_of l) /\ (forall k d, List.In (k, d) (writes_of l) -> canon_datum d = d) /\
  length (w_saved w') = 1%nat /\ length (ob_trace ob) = 12%nat.
Proof.
  vm_compute. repeat split; try reflexivity; try discriminate.
  - do 2 eexists. right. left. reflexivity.
  - functional_tac.
  - intros k d I. in_cases I; inversion I; subst; reflexivity.
Qed.

(** the handler clause of [replayable] (restore (prepare v) = v for EVERY value, argument tuple and kwargs) is
    satisfiable by a handler that is not the identity: prepare wraps the value in a list, restore unwraps it *)
Definition ih_wrap : ihandler :=
  {| ih_prep := fun v _ _ => Some (VList [v]);
     ih_restore := fun rv _ _ => match rv with VList [v] => Some v | _ => None end |}.
Definition cf_h : icfg :=
  {| i_alias := U"load"; i_resolver := RNone; i_cap := CapAll; i_static := true; i_handler := Some ih_wrap;
     i_prep_discards := false; i_run_missing := false; i_vmiss := VMNone; i_fallbacks := FbNone |}.
Definition prog_handler : code := Inp cf_h (Ret (Lit (VInt 3))) [Lit (VInt 1)] [] (Ret (Var 0)).
Example C01_replayable_with_handler :
  replayable prog_handler /\
  let '(o, _, l0) := rec_exec {| p_rate := 1; p_ignore := false; p_skipped := false; p_copy := false |}
                              prog_handler [] (mk_rst true true false [] false) in
  o = OVal (VInt 3) /\ map snd (writes_of l0) = [DVal (VList [VInt 3])] /\ aborts_of l0 = 0%nat.
Proof.
  split.
  - cbn. repeat split. intros v full kw rv E. inversion E. reflexivity.
  - vm_compute. repeat split; reflexivity.
Qed.
