(** C10 — lookup returns exactly the matching recordings, identically on all cassettes.  Statements only.

    Models: Cassette/Lookup.v (iter_recording_ids of the three cassettes, iter_keys, the round-robin merge,
    find_matching_recording_ids), the shared matcher Cassette/Matcher.v (C14).
    [h] is any history of saves (oldest first; the same recording may be saved again), [store_of key h] the
    store it leads to.  [glob] is the fnmatch oracle, [fmt] strftime('%Y%m%d') on day indices, [enc] the view
    json.loads(encode(metadata)) the S3 content filter matches on, [shuf] random.shuffle, [sched] the index
    choices of the merge loop (random.choice, or the loop counter for ordered listing), [listing] the order
    in which os.listdir reports the directory.

    [exact_listing out spec limit] := NoDup out /\ incl out spec /\ length out = min(limit, length spec)
    (= length spec without a limit) /\ (limit = None -> Permutation out spec).
    [lookup_spec idf view s c f] := [ idf r | r in s, r_cat r = c, meta_spec glob f (view (r_meta r)) = true ],
    where meta_spec is the documented meaning of a filter proved equal to the code's matcher in C14.

    Domain (stated as hypotheses): categories contain no '/' (file cassette: also no '.', uuid text without '.');
    limit is None or >= 1 for the in-memory / file cassette (limit = 0 means "no limit" there and "nothing" on
    S3 - the S3 theorem below holds for every limit). *)
From Playback Require Import Base.Str Cassette.Matcher Cassette.Window Cassette.Lookup Cassette.LookupFacts.
From Coq Require Import Permutation.
Open Scope list_scope.

Theorem C10_lookup_exact_mem : forall glob shuf h c f limit random,
  (forall l, Permutation (shuf l) l) ->
  (forall r, In r h -> ~ In SLASH (r_cat r)) ->
  limit_ok limit ->
  exists out, mem_iter glob shuf (store_of mem_id h) c f limit random = Listed out /\
              exact_listing out (lookup_spec glob mem_id same (store_of mem_id h) c f) limit.
Proof. exact lookup_exact_mem. Qed.
Print Assumptions C10_lookup_exact_mem.

Theorem C10_lookup_exact_file : forall glob h listing c f limit,
  Permutation listing (store_of file_name h) ->
  (forall r, In r h -> wf_file r) ->
  limit_ok limit ->
  exists out, file_iter glob (store_of file_name h) listing c f limit = Listed out /\
              exact_listing out (lookup_spec glob mem_id same (store_of file_name h) c f) limit.
Proof. exact lookup_exact_file. Qed.
Print Assumptions C10_lookup_exact_file.

(** every key prefix [kp] (including the empty one), with or without a time window; the merge runs with
    the fuel [rr_fuel] computed from the iterators and never runs out of it *)
Theorem C10_lookup_exact_s3 : forall glob fmt enc,
  (forall d d', fmt d = fmt d' -> d = d') -> (forall d, ~ In SLASH (fmt d)) ->
  forall shuf sched kp h c so eo now f limit random,
  (forall l, Permutation (shuf l) l) ->
  (forall r, In r h -> ~ In SLASH (r_cat r)) ->
  ~ In SLASH c ->
  let bucket := store_of (s3_key fmt kp) h in
  exists out, s3_iter glob fmt enc shuf sched kp bucket c so eo now f limit random = Listed out /\
              exact_listing out (map (s3_id fmt) (spec_recs_s3 glob enc bucket c so eo now f)) limit.
Proof. exact lookup_exact_s3. Qed.
Print Assumptions C10_lookup_exact_s3.

(** the merge loop on its own: for any iterators (with non-empty keys) the fuel suffices, the output is a
    duplicate-free selection of min(limit, total) of the keys the per-iterator limits let through *)
Theorem C10_round_robin_total : forall sched limit iters,
  (forall k, In k (concat iters) -> k <> []) ->
  exists out, rr (rr_fuel iters) sched limit iters 0 0 = Listed out.
Proof. exact rr_total. Qed.
Print Assumptions C10_round_robin_total.

Theorem C10_round_robin_exact : forall sched limit (fulls : list (list str)) spec,
  Permutation (concat fulls) spec -> NoDup spec -> (forall k, In k spec -> k <> []) ->
  exists keys, rr (rr_fuel (map (firstn_opt limit) fulls)) sched limit (map (firstn_opt limit) fulls) 0 0 = Listed keys /\
               exact_listing keys spec limit.
Proof. exact merge_exact. Qed.
Print Assumptions C10_round_robin_exact.

(** every store holds only saved recordings, one per id *)
Theorem C10_store_of_saves : forall key h,
  incl (store_of key h) h /\ NoDup (map key (store_of key h)).
Proof. exact store_of_saves. Qed.
Print Assumptions C10_store_of_saves.

(** same saves => the same stored recordings and the same listed recordings on the three models
    (unlimited, no window, JSON-native metadata: [enc m = m]) *)
Theorem C10_cassettes_agree : forall glob fmt enc,
  (forall d d', fmt d = fmt d' -> d = d') -> (forall d, ~ In SLASH (fmt d)) ->
  forall shuf_m shuf_s sched kp h listing c f now random,
  (forall l, Permutation (shuf_m l) l) -> (forall l, Permutation (shuf_s l) l) ->
  (forall r, In r h -> wf_all r) -> resave_consistent h -> ~ In SLASH c ->
  (forall r, In r h -> enc (r_meta r) = r_meta r) ->
  Permutation listing (store_of file_name h) ->
  let recs := spec_recs glob same (store_of mem_id h) c f in
  exists o_mem o_file o_s3,
    mem_iter glob shuf_m (store_of mem_id h) c f None random = Listed o_mem /\
    file_iter glob (store_of file_name h) listing c f None = Listed o_file /\
    s3_iter glob fmt enc shuf_s sched kp (store_of (s3_key fmt kp) h) c None None now f None random = Listed o_s3 /\
    Permutation o_mem (map mem_id recs) /\ Permutation o_file (map mem_id recs) /\
    Permutation o_s3 (map (s3_id fmt) recs).
Proof. exact cassettes_agree. Qed.
Print Assumptions C10_cassettes_agree.

(** the default lookup (skip_incomplete=True adds the filter [False, None] on the incomplete flag, replacing
    the caller's own entry for that key): a recording is wanted iff the rest of the caller's filter wants it
    and its flag is not True - for flags in {True, False, None, absent}.  find_mem / find_file / find_s3 are the
    listings above run with [lookup_filter skip f], so the exactness theorems apply to them verbatim. *)
Theorem C10_skip_incomplete : forall glob view s c f r,
  NoDup (map fst f) -> (forall x, In x s -> flag_domain (view (r_meta x))) ->
  (In r (spec_recs glob view s c (lookup_filter true f)) <->
   In r (spec_recs glob view s c (remove_key INCOMPLETE f)) /\ flag_true (view (r_meta r)) = false) /\
  lookup_filter false f = f.
Proof. exact skip_incomplete_full. Qed.
Print Assumptions C10_skip_incomplete.

(** a recording without the flag, or with flag None or False, is not counted as incomplete *)
Theorem C10_absent_or_none_kept : forall m,
  lookup INCOMPLETE m = None \/ lookup INCOMPLETE m = Some MNone \/ lookup INCOMPLETE m = Some (MBool false) ->
  flag_domain m /\ flag_true m = false.
Proof. exact absent_or_none_kept. Qed.
Print Assumptions C10_absent_or_none_kept.

(** extract_recording_category gives back the category of a created id *)
Theorem C10_category_of_created_id : forall fmt r,
  ~ In SLASH (r_cat r) ->
  category_of (mem_id r) = r_cat r /\
  (r_cat r <> [] -> fmt (r_day r) <> [] -> ~ In SLASH (fmt (r_day r)) -> r_uuid r <> [] ->
   s3_category_of (s3_id fmt r) = Listed (r_cat r)).
Proof. exact category_of_created_id. Qed.
Print Assumptions C10_category_of_created_id.

(** the three defects repaired in /repo before this round (KNOWN_FINDINGS.txt: fixed), on the faithful
    pre-fix models [legacy_*]; the witnesses stay replayable *)
Theorem C10_file_prefix_leak_refuted :
  exists out, legacy_file_scan glob_simple false true (store_of file_name ex_hist) (U"Op") []
                               (store_of file_name ex_hist) = Listed out /\
              In (U"OpX/b2") out /\ In (U"Op_Y/c3") out /\ In (U"Op_/e5") out /\
              ~ In (U"OpX/b2") (lookup_spec glob_simple mem_id same (store_of file_name ex_hist) (U"Op") []).
Proof. exact legacy_file_prefix_leak. Qed.
Print Assumptions C10_file_prefix_leak_refuted.

Theorem C10_file_filter_refuted :
  legacy_file_scan glob_simple true false (store_of file_name ex_hist) (U"O") (lookup_filter true [])
                   (store_of file_name ex_hist) = Listed [] /\
  lookup_spec glob_simple mem_id same (store_of file_name ex_hist) (U"O") (lookup_filter true []) = [U"O/d4"] /\
  legacy_file_scan glob_simple true false (store_of file_name ex_hist) (U"Op_") (lookup_filter true [])
                   (store_of file_name ex_hist) = LRaises KeyError.
Proof. exact legacy_file_filter_broken. Qed.
Print Assumptions C10_file_filter_refuted.

Theorem C10_s3_id_parse_refuted :
  legacy_s3_iter glob_simple ex_fmt same (fun l => l) (fun n => n) [] (store_of (s3_key ex_fmt []) ex_hist)
                 (U"Op") None None 0%Z [] None false = LRaises AttributeError /\
  legacy_key_id (s3_key ex_fmt (U"xmetadata/y") (Rec (U"Op") (U"a1") 0 0%Z []))
    = Listed (U"y/metadata/" ++ s3_id ex_fmt (Rec (U"Op") (U"a1") 0 0%Z [])) /\
  (exists out, s3_iter glob_simple ex_fmt same (fun l => l) (fun n => n) [] (store_of (s3_key ex_fmt []) ex_hist)
                 (U"Op") None None 0%Z [] None false = Listed out /\ length out = 3).
Proof. exact legacy_s3_id_parse_broken. Qed.
Print Assumptions C10_s3_id_parse_refuted.

(** observation: limit = 0 is "no limit" on the in-memory (and file) cassette, "nothing" on S3; the listing
    theorems above are stated for limit None or >= 1 (the S3 one for every limit) *)
Theorem C10_limit_zero_observation :
  mem_iter glob_simple (fun l => l) (store_of mem_id ex_hist) (U"Op") [] (Some 0) false
    = Listed [U"Op/a1"; U"Op/f6"; U"Op/07"] /\
  s3_iter glob_simple ex_fmt same (fun l => l) (fun n => n) [] (store_of (s3_key ex_fmt []) ex_hist)
          (U"Op") None None 0%Z [] (Some 0) false = Listed [].
Proof. exact limit_zero_diverges. Qed.
Print Assumptions C10_limit_zero_observation.

(** non-vacuity: a history over the categories Op, OpX, Op_Y, O, Op_ with a re-save and every flag value meets
    every hypothesis above (with a concrete injective, '/'-free [ex_fmt]), and the models list what one expects *)
Example C10_nonvacuous :
  (forall r, In r ex_hist -> wf_all r) /\ resave_consistent ex_hist /\
  (forall r, In r ex_hist -> flag_domain (same (r_meta r))) /\
  (forall d d', ex_fmt d = ex_fmt d' -> d = d') /\ (forall d, ~ In SLASH (ex_fmt d)) /\
  mem_iter glob_simple (fun l => l) (store_of mem_id ex_hist) (U"Op") [] None false
    = Listed [U"Op/a1"; U"Op/f6"; U"Op/07"] /\
  file_iter glob_simple (store_of file_name ex_hist) (List.rev (store_of file_name ex_hist)) (U"Op") [] None
    = Listed [U"Op/07"; U"Op/f6"; U"Op/a1"] /\
  find_mem glob_simple (fun l => l) (store_of mem_id ex_hist) (U"Op") [] None false true
    = Listed [U"Op/a1"; U"Op/07"] /\
  (* pattern filter tenant=a*, default empty key prefix, window over three day folders, limit 2 *)
  map (map (fun c => N.to_nat c)) ex_s3_listing
    = map (map (fun c => N.to_nat c))
          [U"Op" ++ SLASH :: ex_fmt 0 ++ SLASH :: U"a1"; U"Op" ++ SLASH :: ex_fmt 1 ++ SLASH :: U"f6"].
Proof. exact ex_nonvacuous. Qed.
Print Assumptions C10_nonvacuous.

(** ---- non-vacuity, remaining premises (wp-audit) ---- *)
(** the premises not spelled out by [C10_nonvacuous], for the same history [ex_hist]: a shuffle that is not the
    identity (reversal) for ids and for bucket objects, a directory listing in another order than the store, both
    kinds of admissible limit, the category domain (projections of [wf_all]), JSON-native metadata *)
Example C10_premises_nonvacuous :
  (forall l : list str, Permutation (rev l) l) /\ (forall l : list rec, Permutation (rev l) l) /\
  Permutation (rev (store_of file_name ex_hist)) (store_of file_name ex_hist) /\
  rev (store_of file_name ex_hist) <> store_of file_name ex_hist /\
  (forall r, In r ex_hist -> ~ In SLASH (r_cat r)) /\ (forall r, In r ex_hist -> wf_file r) /\
  limit_ok None /\ limit_ok (Some 2) /\ ~ In SLASH (U"Op") /\
  (forall r, In r ex_hist -> same (r_meta r) = r_meta r) /\
  (* and with the reversing shuffle, random listing, limit 2: two of the three ids of category Op *)
  mem_iter glob_simple (@rev str) (store_of mem_id ex_hist) (U"Op") [] (Some 2) true = Listed [U"Op/f6"; U"Op/a1"].
Proof.
  pose proof (proj1 C10_nonvacuous) as W.
  split; [intros l; symmetry; apply Permutation_rev|]. split; [intros l; symmetry; apply Permutation_rev|].
  split; [symmetry; apply Permutation_rev|]. split; [vm_compute; discriminate|].
  split; [intros r I; apply (W r I)|]. split; [intros r I; apply (W r I)|].
  split; [discriminate|]. split; [discriminate|]. split; [vm_compute; intuition discriminate|].
  split; [reflexivity|]. vm_compute. reflexivity.
Qed.

(** C10_round_robin_total / _exact: iterators with non-empty keys, one of them exhausted from the start, a
    schedule that is not the loop counter, a limit below the total *)
Example C10_round_robin_nonvacuous :
  let fulls := [[U"a/1"; U"a/2"; U"a/3"]; []; [U"b/1"]] in
  let spec := [U"b/1"; U"a/1"; U"a/2"; U"a/3"] in
  let iters := map (firstn_opt (Some 2)) fulls in
  (forall k, In k (concat iters) -> k <> []) /\
  Permutation (concat fulls) spec /\ NoDup spec /\ (forall k, In k spec -> k <> []) /\
  rr (rr_fuel iters) (fun n => 2 * n + 1) (Some 2) iters 0 0 = Listed [U"b/1"; U"a/1"].
Proof.
  cbv zeta. split; [intros k I; vm_compute in I; intuition (subst; discriminate)|].
  split; [apply Permutation_sym; change (Permutation ([U"b/1"] ++ [U"a/1"; U"a/2"; U"a/3"]) ([U"a/1"; U"a/2"; U"a/3"] ++ [U"b/1"])); apply Permutation_app_comm|].
  split; [repeat (constructor; [intros I; vm_compute in I; intuition discriminate|]); constructor|].
  split; [intros k I; vm_compute in I; intuition (subst; discriminate)|].
  vm_compute. reflexivity.
Qed.

(** C10_skip_incomplete: a caller filter with distinct keys that has its own entry for the incomplete flag (which
    the default lookup replaces) next to a pattern entry; flags of the store in the domain; the default lookup
    keeps the recording without a flag (re-saved a1), drops the incomplete one (f6) and the one the pattern rejects *)
Example C10_skip_incomplete_nonvacuous :
  let f := [(U"tenant", MStr (U"a*")); (INCOMPLETE, MBool true)] in
  let s := store_of mem_id ex_hist in
  NoDup (map fst f) /\ (forall x, In x s -> flag_domain (same (r_meta x))) /\
  map mem_id (spec_recs glob_simple same s (U"Op") (lookup_filter true f)) = [U"Op/a1"] /\
  map mem_id (spec_recs glob_simple same s (U"Op") (remove_key INCOMPLETE f)) = [U"Op/a1"; U"Op/f6"] /\
  map mem_id (spec_recs glob_simple same s (U"Op") f) = [U"Op/f6"].
Proof.
  cbv zeta. split; [repeat (constructor; [intros I; vm_compute in I; intuition discriminate|]); constructor|].
  split.
  - intros x I. apply (proj1 (proj2 (proj2 C10_nonvacuous))). apply (proj1 (C10_store_of_saves mem_id ex_hist)). exact I.
  - vm_compute. repeat split; reflexivity.
Qed.

(** C10_category_of_created_id / C10_absent_or_none_kept: premises on a concrete record *)
Example C10_category_nonvacuous :
  let r := Rec (U"Op_Y") (U"c3") 5 0%Z [] in
  ~ In SLASH (r_cat r) /\ r_cat r <> [] /\ ex_fmt (r_day r) <> [] /\ ~ In SLASH (ex_fmt (r_day r)) /\ r_uuid r <> [] /\
  lookup INCOMPLETE (r_meta r) = None /\
  s3_category_of (s3_id ex_fmt r) = Listed (U"Op_Y") /\ category_of (mem_id r) = U"Op_Y".
Proof. vm_compute. repeat split; try reflexivity; try discriminate; intuition discriminate. Qed.
