From Playback Require Import Cassette.LookupFacts.
Theorem C10_stub : True. Proof. exact stub. Qed.
Print Assumptions C10_stub.
