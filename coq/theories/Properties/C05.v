(** C05 — a recording is persisted whole or not at all, and finalised exactly once.  Statements only. *)
From Playback Require Import Base.Str Values.PyVal Values.KeyFormat Recorder.Dsl Recorder.Exec Recorder.Run Recorder.RecFacts.
From Playback Require Import Recorder.Threads Recorder.ThreadsFacts.
From Coq Require Import QArith List.
Import ListNotations.

(** The recorder-state invariant behind everything here, for every program, state and termination mode
    (return, ordinary exception, interrupt-style termination, at any step, also inside intercepted bodies):
    a recording that is active either stays active with no abort, or is aborted exactly once and the
    recorder is reset; without an active recording nothing is written and nothing aborted. *)
Theorem C05_abort_at_most_once :
  forall P c env s, let '(_, s', l) := rec_exec P c env s in step_inv s s' l.
Proof. exact rec_exec_step. Qed.
Print Assumptions C05_abort_at_most_once.

(** Every run of a decorated operation either starts no recording at all, or creates exactly one
    recording and finalises it exactly once (save, failed save, or abort - never both, never neither);
    ordinals never repeat, so nothing happens to that recording afterwards. *)
Theorem C05_finalised_exactly_once :
  forall draws en P op save_fails s w, active s = false ->
    let '(ob, w') := record_run draws en P op save_fails s w in
    (ob_cass ob = [] /\ w_next w' = w_next w) \/
    (exists fin, ob_cass ob = [CCreate (op_class op); fin] /\ is_final (w_next w) fin /\ w_next w' = S (w_next w)).
Proof. exact record_run_finalised. Qed.
Print Assumptions C05_finalised_exactly_once.

(** A save happens only if no discard occurred at any point (a key failure, a failing data handler and an
    explicit discard each abort the recording: [rec_in_call], [rec_out_call]), the sampling decision was
    "keep", and the saved data is the snapshot of every write of the run. *)
Theorem C05_saved_only_if_captured :
  forall draws en P op save_fails s w ord d m, active s = false ->
    let '(ob, _) := record_run draws en P op save_fails s w in
    List.In (CSave ord d m) (ob_cass ob) ->
    let '(o, s1, l0) := rec_exec P (op_body op) [] (mk_rst true en (force s) (counter s) (icpt s)) in
    negb en || p_skipped P = false /\ aborts_of l0 = 0%nat /\ active s1 = true /\
    fst (should_sample draws (w_dpos w) P (force s1)) = true /\ ord = w_next w /\ save_fails = false /\
    exists lop, d = snapshot_of (l0 ++ lop) /\ m = metadata_of op o d /\
                lop = match o with OVal v => [EWrite OPKEY (DOut [v] [])] | OExn (EUser ty) => [EWrite OPKEY (DOpExn ty)] | _ => [] end.
Proof. exact record_run_saved_only_if_captured. Qed.
Print Assumptions C05_saved_only_if_captured.

(** Racing threads (model Recorder/Threads.v): for any number of threads and every schedule the recording is
    handed to the cassette (saved or aborted) at most once at every moment, and once it is no longer active and
    every thread is between calls it has been handed over exactly once - never twice, never lost. *)
Theorem C05_finalised_exactly_once_under_any_interleaving :
  forall n sched,
  let '(sh, ls) := run Fixed sched (sh0, repeat idle_thread n) in
  (fin sh <= 1)%nat /\ (ar sh = false -> quiescent ls -> fin sh = 1%nat).
Proof. exact fixed_finalised_exactly_once. Qed.
Print Assumptions C05_finalised_exactly_once_under_any_interleaving.

(** The code before /repo 359c201: two racing discards abort the same recording twice. *)
Theorem C05_legacy_refuted :
  exists sched, let '(sh, _) := run Legacy sched (sh0, [start MDiscard; start MDiscard]) in fin sh = 2%nat.
Proof. exact legacy_double_finalisation. Qed.
Print Assumptions C05_legacy_refuted.

(** non-vacuity of the racing statement: a discard on thread 1 overtakes the end of the scope on thread 0 *)
Example C05_race_example :
  let '(sh, ls) := run Fixed [ABegin 0 MFinalise; ABegin 1 MDiscard; AStep 1; AStep 0; AStep 1; AStep 0]
                       (sh0, repeat idle_thread 2) in
  ar sh = false /\ fin sh = 1%nat /\ forallb (fun l => match st l with Done => true | _ => false end) ls = true.
Proof. vm_compute. repeat split; reflexivity. Qed.

(** non-vacuity: an interrupt inside an intercepted body after an output was captured: one create, one save *)
Example C05_example :
  let oc := {| o_alias := U"send"; o_static := true; o_handler := None; o_fail := true; o_default := VNone |} in
  let op := {| op_class := U"Op"; op_classlevel := false; op_extractor := XNone;
               op_body := Out oc (Ret (Lit VNone)) [Lit (VInt 1)] [] (Out oc Interrupt [] [] (Ret (Var 0))) |} in
  let '(ob, w') := record_run (fun _ => 0) true {| p_rate := 1; p_ignore := false; p_skipped := false; p_copy := false |}
                              op false fresh_rst fresh_world in
  ob_outcome ob = OInt /\ length (ob_cass ob) = 2%nat /\ length (w_saved w') = 1%nat.
Proof. vm_compute. repeat split; reflexivity. Qed.

(** ---- non-vacuity per theorem (wp-audit) ---- *)
(** C05_saved_only_if_captured: both premises explicitly (no recording active; a CSave among the cassette calls) *)
Example C05_saved_only_if_captured_nonvacuous :
  let oc := {| o_alias := U"send"; o_static := true; o_handler := None; o_fail := true; o_default := VNone |} in
  let op := {| op_class := U"Op"; op_classlevel := false; op_extractor := XNone;
               op_body := Out oc (Ret (Lit VNone)) [Lit (VInt 1)] [] (Out oc Interrupt [] [] (Ret (Var 0))) |} in
  let '(ob, _) := record_run (fun _ => 0) true {| p_rate := 1; p_ignore := false; p_skipped := false; p_copy := false |}
                             op false fresh_rst fresh_world in
  active fresh_rst = false /\ exists d m, List.In (CSave 0 d m) (ob_cass ob) /\ length d = 3%nat.
Proof. vm_compute. split; [reflexivity|]. do 2 eexists. split; [right; left; reflexivity|reflexivity]. Qed.

(** C05_finalised_exactly_once_under_any_interleaving, second clause: its premises (recording no longer active,
    every thread between calls: [quiescent]) hold after the race of [C05_race_example] *)
Example C05_race_quiescent :
  let '(sh, ls) := run Fixed [ABegin 0 MFinalise; ABegin 1 MDiscard; AStep 1; AStep 0; AStep 1; AStep 0]
                       (sh0, repeat idle_thread 2) in
  ar sh = false /\ quiescent ls /\ fin sh = 1%nat.
Proof. vm_compute. repeat split; try reflexivity. intros l [<-|[<-|[]]]; reflexivity. Qed.
