(** C15 — S3 cassette writes are confined: read-only, own prefix, complete-before-visible.
    Statements only.  The model is Cassette/Bucket.v + Cassette/S3Store.v; a history is a list of
    (cassette configuration, call) pairs on one shared bucket whose initial content is arbitrary
    (foreign objects, residues of interrupted saves).  [qp]/[qp_dec] (quoted-printable for bytes
    values), [loads] (json.loads), [compress]/[decompress] (zlib) are oracles; the
    round-trip facts about them are premises of C15_discoverable_complete only (the one about [loads] is
    asked on the well-formed JSON trees [jwf], where the concrete parser satisfies it - unrestricted it
    is satisfied by no function, see Properties/C07.v; C15_discoverable_complete_concrete instantiates
    the concrete oracles and has no oracle premise left). *)
From Playback Require Import Base.Str Values.PyVal Values.Codec Values.JsonWf Values.JsonParse Values.JsonFacts
  Cassette.Bucket Cassette.BucketFacts Cassette.S3Store Cassette.S3StoreFacts.
Open Scope list_scope.

(** A call on a read-only cassette — whatever the call, whatever the bucket — leaves bucket and
    mutation log exactly as they were ... *)
Theorem C15_readonly_never_mutates :
  forall qp qp_dec loads compress decompress c k st,
    c_read_only c = true -> fst (step qp qp_dec loads compress decompress c k st) = st.
Proof. exact step_readonly. Qed.
Print Assumptions C15_readonly_never_mutates.

(** ... hence so does every history of calls on read-only cassettes ... *)
Theorem C15_readonly_history_never_mutates :
  forall qp qp_dec loads compress decompress h st,
    Forall (fun ck => c_read_only (fst ck) = true) h -> run qp qp_dec loads compress decompress h st = st.
Proof. exact run_readonly. Qed.
Print Assumptions C15_readonly_history_never_mutates.

(** ... and create / save answer AssertionError. *)
Theorem C15_readonly_refuses_writes :
  forall qp qp_dec loads compress decompress c st,
    c_read_only c = true ->
    (forall cat day uuid, snd (step qp qp_dec loads compress decompress c (CCreate cat day uuid) st) = Raises AssertionError) /\
    (forall r s, snd (step qp qp_dec loads compress decompress c (CSave r s) st) = Raises AssertionError) /\
    (forall r s n, snd (step qp qp_dec loads compress decompress c (CSaveCrash r s n) st) = Raises AssertionError).
Proof. exact step_readonly_refuses. Qed.
Print Assumptions C15_readonly_refuses_writes.

(** Every mutation logged during a history (any calls, any cassettes, saves interrupted anywhere)
    is on a recording key (<root><prefix>/full/.. or <root><prefix>/metadata/..) of some writable
    cassette of the history ... *)
Theorem C15_writes_confined :
  forall qp qp_dec loads compress decompress h st,
    exists l, mlog (run qp qp_dec loads compress decompress h st) = mlog st ++ l /\
      Forall (fun m => exists c, In c (map fst h) /\ c_read_only c = false /\
                                 is_recording_key c (mutation_key m) = true) l.
Proof. exact run_log. Qed.
Print Assumptions C15_writes_confined.

(** ... recording keys lie under the cassette's own prefix "tape_recorder_recordings/" ++ normalised prefix ... *)
Theorem C15_recording_keys_under_own_prefix :
  forall c k, is_recording_key c k = true -> prefixb (ROOT ++ norm_prefix (c_prefix c)) k = true.
Proof. exact recording_key_under_own. Qed.
Print Assumptions C15_recording_keys_under_own_prefix.

(** ... and an object that is not a recording key of any writable cassette of the history
    (foreign objects, other cassettes' recordings) is the same before and after. *)
Theorem C15_writes_confined_objects :
  forall qp qp_dec loads compress decompress h key st,
    (forall c, In c (map fst h) -> c_read_only c = false -> is_recording_key c key = false) ->
    b_get key (objs (run qp qp_dec loads compress decompress h st)) = b_get key (objs st).
Proof. exact run_outside. Qed.
Print Assumptions C15_writes_confined_objects.

(** Closing a writable transient cassette: all its recording keys are gone, every other object is
    untouched, and exactly keys that were its recording keys and were present are logged as deleted. *)
Theorem C15_transient_close_exact :
  forall c st,
    c_read_only c = false -> c_transient c = true ->
    (forall k, is_recording_key c k = true -> b_get k (objs (s3_close c st)) = None) /\
    (forall k, is_recording_key c k = false -> b_get k (objs (s3_close c st)) = b_get k (objs st)) /\
    (exists ks, mlog (s3_close c st) = mlog st ++ map MDel ks /\
                Forall (fun k => is_recording_key c k = true /\ b_has k (objs st) = true) ks).
Proof. exact close_exact. Qed.
Print Assumptions C15_transient_close_exact.

(** Every key the cassette wrote or deleted in any call at any time is absent after a close at
    any later time ("removes all of its own recordings"). *)
Theorem C15_transient_close_removes_all_written :
  forall qp qp_dec loads compress decompress c k st l m st_later,
    c_read_only c = false -> c_transient c = true ->
    mlog (fst (step qp qp_dec loads compress decompress c k st)) = mlog st ++ l -> In m l ->
    b_get (mutation_key m) (objs (s3_close c st_later)) = None.
Proof. exact written_then_closed. Qed.
Print Assumptions C15_transient_close_removes_all_written.

(** Two cassettes whose normalised prefixes are not prefixes of one another: closing one leaves
    everything under the other's prefix untouched.  Thanks to the trailing slash of the
    normalisation this covers string prefixes such as "a" / "ab" (example below). *)
Theorem C15_transient_close_independent :
  forall c c' st k,
    independent c c' -> prefixb (own_prefix c') k = true ->
    b_get k (objs (s3_close c st)) = b_get k (objs st).
Proof. exact close_independent. Qed.
Print Assumptions C15_transient_close_independent.

(** The same for the weaker, decidable [key_disjoint] (covers "" / "a" and "a" / "a/b"): the other
    cassette's recordings are untouched. *)
Theorem C15_transient_close_key_disjoint :
  forall c c' st k,
    key_disjoint c c' = true -> is_recording_key c' k = true ->
    b_get k (objs (s3_close c st)) = b_get k (objs st).
Proof. exact close_key_disjoint. Qed.
Print Assumptions C15_transient_close_key_disjoint.

Theorem C15_independent_is_key_disjoint :
  forall c c', independent c c' -> key_disjoint c c' = true.
Proof. exact independent_key_disjoint. Qed.
Print Assumptions C15_independent_is_key_disjoint.

(** Closing a read-only or a non-transient cassette does nothing at all. *)
Theorem C15_close_noop :
  forall c st, c_read_only c = true \/ c_transient c = false -> s3_close c st = st.
Proof. exact close_noop. Qed.
Print Assumptions C15_close_noop.

(** Complete-before-visible.  Lookups through cassette [c] discover recordings by their metadata
    objects.  If every discoverable recording is fetchable in the initial bucket, then it is so in
    EVERY bucket state that exists during the history: after each single bucket mutation of each
    save (i.e. whatever mutation a crash follows), and at the end — for all histories of calls by
    any cassettes in which saves (of recordings in the serializer's faithful domain [rec_wf] whose
    floats / bytes are in the domain of the text oracles [rec_leaves_ok]; re-saving an id included) are made on [c]'s prefix or on a key-disjoint one ([key_disjoint]: decidable; holds
    for independent prefixes and also for "" / "a" and "a" / "a/b", fails only when one prefix
    continues the other with a component named full or metadata, e.g. "a" / "a/full"), and [c]'s own
    key space is not being cleaned up (close of a writable transient cassette — excluded by the property). *)
Theorem C15_discoverable_complete :
  forall qp qp_dec loads compress decompress,
    (forall b, qp_dec (qp b) = b) -> (forall j, jwf j = true -> loads (dumps j) = Some j) ->
    (forall b, is_bytes b = true -> str_ok (qp b) = true) ->
    (forall b, decompress (compress b) = Some b) ->
    forall c h st,
      Forall (fun ck =>
        match snd ck with
        | CSave r _ | CSaveCrash r _ _ =>
            rec_wf r = true /\ rec_leaves_ok r = true /\ (np (fst ck) = np c \/ key_disjoint c (fst ck) = true)
        | CClose | CExit => c_read_only (fst ck) = true \/ c_transient (fst ck) = false \/ key_disjoint c (fst ck) = true
        | _ => True
        end) h ->
      discoverable_complete qp_dec loads decompress c (objs st) ->
      Forall (fun st' => discoverable_complete qp_dec loads decompress c (objs st'))
             (all_states qp qp_dec loads compress decompress h st) /\
      discoverable_complete qp_dec loads decompress c (objs (run qp qp_dec loads compress decompress h st)).
Proof. exact all_states_dc. Qed.
Print Assumptions C15_discoverable_complete.

(** The same for the concrete oracles of the correspondence runs (the JSON parser of
    Values/JsonParse.v, the simple quoted-printable codec, identity zlib): their round-trip premises
    are theorems (JsonFacts.loads_dumps, qp_simple_roundtrip, qp_simple_ok), none is left. *)
Theorem C15_discoverable_complete_concrete :
    forall c h st,
      Forall (fun ck =>
        match snd ck with
        | CSave r _ | CSaveCrash r _ _ =>
            rec_wf r = true /\ rec_leaves_ok r = true /\ (np (fst ck) = np c \/ key_disjoint c (fst ck) = true)
        | CClose | CExit => c_read_only (fst ck) = true \/ c_transient (fst ck) = false \/ key_disjoint c (fst ck) = true
        | _ => True
        end) h ->
      discoverable_complete qp_dec_simple loads (fun b => Some b) c (objs st) ->
      Forall (fun st' => discoverable_complete qp_dec_simple loads (fun b => Some b) c (objs st'))
             (all_states qp_simple qp_dec_simple loads (fun b => b) (fun b => Some b) h st) /\
      discoverable_complete qp_dec_simple loads (fun b => Some b) c
        (objs (run qp_simple qp_dec_simple loads (fun b => b) (fun b => Some b) h st)).
Proof.
  exact (all_states_dc qp_simple qp_dec_simple loads (fun b => b) (fun b => Some b)
           qp_simple_roundtrip loads_dumps qp_simple_ok (fun b => eq_refl)).
Qed.
Print Assumptions C15_discoverable_complete_concrete.

(** ------------------------------------------------------------------------------------------ *)
(** Non-vacuity.  Concrete oracles (identity zlib, the concrete JSON parser), four cassettes on
    prefixes "a" (writable transient; read-only view) and "ab" (writable; read-only view), a bucket
    with foreign objects, a history with a save, a re-save, an interrupted save, reads through the
    read-only views and closes. *)
Definition ex_cA := Cfg (U"a") false true.
Definition ex_cAB := Cfg (U"ab") false false.
Definition ex_roA := Cfg (U"a") true true.
Definition ex_roAB := Cfg (U"ab") true false.
Definition ex_r1 := Rec (U"Op/20200227/01") false [(U"k", VTuple [VInt 1; VStr (U"x")])] [(U"m", VInt 2)].
Definition ex_r2 := Rec (U"Op/20200227/02") false [(U"k", VDict [(U"b", VNone)])] [].
Definition ex_st0 := BState [(U"other/x", [1%N]); (U"tape_recorder_recordings/abc", [2%N])] [].
Definition ex_h : list (cfg * call) :=
  [(ex_cA, CSave ex_r1 NoCalc); (ex_cAB, CSave ex_r2 NoCalc); (ex_cA, CSave ex_r1 NoCalc);
   (ex_cAB, CSaveCrash ex_r1 NoCalc 1); (ex_roA, CGet (U"Op/20200227/01")); (ex_roAB, CClose);
   (ex_roA, CSave ex_r2 NoCalc); (ex_cAB, CExit)].
Definition ex_run := run qp_simple qp_dec_simple loads (fun b => b) (fun b => Some b).
Definition ex_states := all_states qp_simple qp_dec_simple loads (fun b => b) (fun b => Some b).

Example C15_example_premises :
  independent ex_cA ex_cAB /\ prefixb (c_prefix ex_cA) (c_prefix ex_cAB) = true /\
  key_disjoint (Cfg (U"") false true) ex_cA = true /\ key_disjoint ex_cA (Cfg (U"a/b") false true) = true /\
  key_disjoint ex_cA (Cfg (U"a/full") false true) = false /\
  rec_wf ex_r1 = true /\ rec_wf ex_r2 = true /\
  (forall b, qp_dec_simple (qp_simple b) = b) /\ (forall j, jwf j = true -> loads (dumps j) = Some j) /\
  (forall b, is_bytes b = true -> str_ok (qp_simple b) = true) /\
  Forall (fun ck =>
        match snd ck with
        | CSave r _ | CSaveCrash r _ _ =>
            rec_wf r = true /\ rec_leaves_ok r = true /\ (np (fst ck) = np ex_roAB \/ key_disjoint ex_roAB (fst ck) = true)
        | CClose | CExit => c_read_only (fst ck) = true \/ c_transient (fst ck) = false \/ key_disjoint ex_roAB (fst ck) = true
        | _ => True
        end) ex_h /\
  discoverable_complete qp_dec_simple loads (fun b => Some b) ex_roAB (objs ex_st0).
Proof.
  assert (I : independent ex_cA ex_cAB) by (split; vm_compute; reflexivity).
  assert (I' : key_disjoint ex_roAB ex_cA = true) by (vm_compute; reflexivity).
  assert (I'' : key_disjoint ex_roAB ex_roA = true) by (vm_compute; reflexivity).
  split; [exact I|]. split; [vm_compute; reflexivity|]. split; [vm_compute; reflexivity|].
  split; [vm_compute; reflexivity|]. split; [vm_compute; reflexivity|].
  split; [vm_compute; reflexivity|]. split; [vm_compute; reflexivity|].
  split; [exact qp_simple_roundtrip|]. split; [exact loads_dumps|]. split; [exact qp_simple_ok|]. split.
  - unfold ex_h. repeat (apply Forall_cons; [cbn [snd fst]; auto;
                                             try (split; [vm_compute; reflexivity|split; [vm_compute; reflexivity|auto]])|]).
    apply Forall_nil.
  - apply dc_no_metadata. intros id. unfold b_has, ex_st0. cbn [objs b_get].
    destruct (str_eqb _ _) eqn:E1.
    { apply Base.StrFacts.str_eqb_eq in E1. unfold meta_key in E1. vm_compute in E1. discriminate. }
    destruct (str_eqb (meta_key (np ex_roAB) id) (U"tape_recorder_recordings/abc")) eqn:E2; [|reflexivity].
    apply Base.StrFacts.str_eqb_eq in E2. unfold meta_key in E2. vm_compute in E2. discriminate.
Qed.

(** what the history does to the bucket: the interrupted save left a full object without metadata
    under "ab"; closing the transient "a" cassette (last but one call is refused, last is a no-op;
    add a close of ex_cA) removes exactly a's two objects *)
Example C15_example_run :
  b_keys (objs (ex_run ex_h ex_st0)) =
    [U"other/x"; U"tape_recorder_recordings/a/full/Op/20200227/01";
     U"tape_recorder_recordings/a/metadata/Op/20200227/01";
     U"tape_recorder_recordings/ab/full/Op/20200227/01"; U"tape_recorder_recordings/ab/full/Op/20200227/02";
     U"tape_recorder_recordings/ab/metadata/Op/20200227/02"; U"tape_recorder_recordings/abc"] /\
  length (mlog (ex_run ex_h ex_st0)) = 7%nat /\ length (ex_states ex_h ex_st0) = 10%nat /\
  b_keys (objs (ex_run (ex_h ++ [(ex_cA, CClose)]) ex_st0)) =
    [U"other/x"; U"tape_recorder_recordings/ab/full/Op/20200227/01"; U"tape_recorder_recordings/ab/full/Op/20200227/02";
     U"tape_recorder_recordings/ab/metadata/Op/20200227/02"; U"tape_recorder_recordings/abc"].
Proof. repeat split; vm_compute; reflexivity. Qed.
