(* placeholder, replaced below *)
From Playback Require Import Cassette.S3Store.
Theorem C15_placeholder : True. Proof. exact I. Qed.
Print Assumptions C15_placeholder.
