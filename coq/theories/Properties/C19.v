(** C19 - the studio plays each recording once under its own category's tuning.
    Statements only; the proofs are in Studio/StudioFacts.v.  Every theorem is for ARBITRARY externals:
    category extraction [extract] (so for every cassette), tuner (any subset of categories failing),
    lookup oracle, per-recording behaviour [beh], keep-results flag, and id / category lists of any length. *)
From Playback Require Import Base.Str Base.StrFacts Studio.Studio Studio.StudioFacts.
From Coq Require Import Permutation Sorted.
Open Scope list_scope.

(** Explicit id list (any order, duplicates kept).
    1. the result's categories are the strictly sorted, hence distinct, categories of the ids;
    2. the result of category c is c's own tuning applied to c's ids in input order (stable,
       duplicates kept), or the tuner's error;
    3. concatenating the per-category id lists gives a permutation of the input;
    4. every comparison reported under c is labelled with an id of category c taken from the input and was
       produced by c's tuning (it IS [run_one] of that tuning on its label; every tag it carries is
       that tuning's; the only run made for it is by that tuning's playback function on that id);
    5. an id whose category can be tuned is played exactly as often as it occurs in the input. *)
Theorem C19_routing : forall extract tuner lookup beh keep ids cats r,
  ids <> [] -> play extract tuner lookup beh keep (Some ids) cats = Ans r ->
  StronglySorted str_lt (map fst r) /\
  (forall c, In c (map fst r) <-> exists id, In id ids /\ extract id = Ans c) /\
  (forall c x, In (c, x) r -> x = cat_result_of tuner beh keep c (filter (has_cat extract c) ids)) /\
  Permutation (concat (map (fun c => filter (has_cat extract c) ids) (map fst r))) ids /\
  (forall c l cmp, In (c, CatRun l) r -> In cmp l ->
     exists tn, tuner c = Ans tn /\ extract (c_label cmp) = Ans c /\ In (c_label cmp) ids /\
                cmp = run_one beh keep tn (c_label cmp) /\ carries tn cmp) /\
  (forall id c tn, extract id = Ans c -> tuner c = Ans tn ->
     count_label id (all_comparisons r) = count_occ rid_eq_dec ids id).
Proof. exact routing. Qed.
Print Assumptions C19_routing.

(** a recording that exists is run exactly once, by its own category's playback function *)
Theorem C19_played_once : forall beh keep tn id,
  beh id <> BMissing -> c_journal (run_one beh keep tn id) = [(t_player tn, id)].
Proof. exact run_one_played. Qed.
Print Assumptions C19_played_once.

(** play() fails as a whole only when the cassette cannot attribute an id to a category *)
Theorem C19_explicit_total : forall extract tuner lookup beh keep ids cats,
  ids <> [] -> (forall id, In id ids -> exists c, extract id = Ans c) ->
  exists r, play extract tuner lookup beh keep (Some ids) cats = Ans r.
Proof. exact play_explicit_total. Qed.
Print Assumptions C19_explicit_total.

(** If [tuner c] fails, the result for c is that error, and for every other category the result equals
    the one computed with c removed (its ids dropped / dropped from the category list) - whatever the
    other tuners do, i.e. for ANY set of failing categories.  (Explicit mode: if nothing is left the
    request would turn into a lookup request - studio.py:47 [if self.recording_ids] - hence the side condition.) *)
Theorem C19_tuner_failure_isolated : forall extract tuner lookup beh keep ids cats r c e,
  play extract tuner lookup beh keep ids cats = Ans r -> tuner c = Raises e ->
  (forall x, In (c, x) r -> x = CatError e) /\
  (forall l cats', ids = Some l -> l <> [] -> without_ids extract c l <> [] ->
     play extract tuner lookup beh keep (Some (without_ids extract c l)) cats' = Ans (without_entry c r)) /\
  (forall cs, lookup_mode ids -> cats = Some cs ->
     play extract tuner lookup beh keep ids (Some (without_cat c cs)) = Ans (without_entry c r)).
Proof. exact tuner_failure_isolated. Qed.
Print Assumptions C19_tuner_failure_isolated.

(** the same from the other side: two tuners that agree on c give c the same result, and the list of
    categories does not depend on the tuner at all *)
Theorem C19_failure_independent : forall extract t1 t2 lookup beh keep ids cats r1 r2,
  play extract t1 lookup beh keep ids cats = Ans r1 ->
  play extract t2 lookup beh keep ids cats = Ans r2 ->
  map fst r1 = map fst r2 /\
  forall c, t1 c = t2 c -> forall x, In (c, x) r1 <-> In (c, x) r2.
Proof. exact failure_independent. Qed.
Print Assumptions C19_failure_independent.

(** Without explicit ids (None or the empty list): the categories are the requested ones, each once, in
    request order, and the ids of category c are exactly what [lookup c] answered - the lookup of
    that category and no other. *)
Theorem C19_lookup_by_category : forall extract tuner lookup beh keep ids cats r,
  lookup_mode ids -> play extract tuner lookup beh keep ids cats = Ans r ->
  exists cs, cats = Some cs /\ map fst r = dedup cs /\ NoDup (map fst r) /\
    (forall c, In c (map fst r) <-> In c cs) /\
    (forall c x, In (c, x) r ->
       match tuner c with
       | Raises e => x = CatError e
       | Ans tn => exists l, lookup c = Ans l /\ x = CatRun (map (run_one beh keep tn) l)
       end).
Proof. exact lookup_by_category. Qed.
Print Assumptions C19_lookup_by_category.

(** With the C10 specification of the oracle ([lookup c] answers duplicate-free with recordings of
    [lookup_spec c] = stored, category EXACTLY c, selected by the lookup properties): every comparison
    reported under c is of a stored, selected recording whose category is exactly c (never a
    category that merely has c as a prefix), no recording twice, produced by c's tuning; and if
    the oracle is complete (no limit) each selected recording of c is played exactly once. *)
Theorem C19_lookup_exact_category : forall extract tuner lookup beh keep store eligible,
  (forall c l, lookup c = Ans l -> NoDup l /\ forall id, In id l -> In id (lookup_spec extract store eligible c)) ->
  forall ids cats r c l,
  lookup_mode ids -> play extract tuner lookup beh keep ids cats = Ans r -> In (c, CatRun l) r ->
  exists tn ids_c, tuner c = Ans tn /\ lookup c = Ans ids_c /\ l = map (run_one beh keep tn) ids_c /\
    map c_label l = ids_c /\ NoDup (map c_label l) /\
    (forall cmp, In cmp l ->
       In (c_label cmp) store /\ extract (c_label cmp) = Ans c /\ eligible (c_label cmp) = true /\ carries tn cmp) /\
    ((forall id, In id (lookup_spec extract store eligible c) -> In id ids_c) -> NoDup store ->
       Permutation (map c_label l) (lookup_spec extract store eligible c)).
Proof. exact lookup_exact_category. Qed.
Print Assumptions C19_lookup_exact_category.

(** The order of the categories is determined by the SET of selected ids: any reordering of the id list
    gives the same categories in the same order, and each category the same recordings (as a
    permutation; in the order of the new list).  In lookup mode the order is [dedup cs], a function of the request alone
    (C19_lookup_by_category). *)
Theorem C19_order_deterministic : forall extract tuner lookup beh keep ids ids' cats cats' r,
  ids <> [] -> Permutation ids ids' -> play extract tuner lookup beh keep (Some ids) cats = Ans r ->
  exists r', play extract tuner lookup beh keep (Some ids') cats' = Ans r' /\ map fst r' = map fst r /\
    forall c, Permutation (filter (has_cat extract c) ids) (filter (has_cat extract c) ids') /\
      forall x x', In (c, x) r -> In (c, x') r' ->
        x = cat_result_of tuner beh keep c (filter (has_cat extract c) ids) /\
        x' = cat_result_of tuner beh keep c (filter (has_cat extract c) ids').
Proof. exact order_explicit. Qed.
Print Assumptions C19_order_deterministic.

(** ** Non-vacuity: concrete requests that meet every hypothesis *)
Definition ex_tuner (c : cat) : res tuning :=
  if str_eqb c (U"B") then Raises (U"TunerError") else Ans (Tuning (U"P:" ++ c) (U"E:" ++ c) (U"C:" ++ c) (U"D:" ++ c)).
Definition ex_beh (id : rid) : behaviour :=
  if str_eqb id (U"A/9") then BMissing else if str_eqb id (U"AB/2") then BDiff else BOk.
Definition ex_ids : list rid := [U"AB/2"; U"B/4"; U"A/1"; U"A_B/3"; U"A/1"; U"A/9"; U"AB/5"].
Definition ex_labels (x : cat_result) : list rid := map c_label (comparisons_of x).

(** prefix-related categories A, AB, A_B; B's tuner fails; duplicates and an unknown id *)
Example C19_routing_example :
  ex_ids <> [] /\
  option_map (map (fun p => (fst p, ex_labels (snd p))))
    (match play extract_split ex_tuner (fun _ => Ans []) ex_beh false (Some ex_ids) None with
     | Ans r => Some r | Raises _ => None end)
  = Some [(U"A", [U"A/1"; U"A/1"; U"A/9"]); (U"AB", [U"AB/2"; U"AB/5"]); (U"A_B", [U"A_B/3"]); (U"B", [])].
Proof. split; [discriminate|vm_compute; reflexivity]. Qed.

(** the same ids on the S3 id template '{category}/{day}/{id}' *)
Example C19_routing_example_s3 :
  option_map (map fst)
    (match play extract_parse ex_tuner (fun _ => Ans []) ex_beh false
                (Some [U"AB/20200227/x"; U"A/20200228/y"; U"A_B/20200227/z"]) None with
     | Ans r => Some r | Raises _ => None end)
  = Some [U"A"; U"AB"; U"A_B"]
  /\ extract_parse (U"A/b") = Raises (U"AssertionError").
Proof. split; vm_compute; reflexivity. Qed.

Example C19_tuner_failure_example :
  ex_tuner (U"B") = Raises (U"TunerError") /\
  without_ids extract_split (U"B") ex_ids <> [] /\
  exists r, play extract_split ex_tuner (fun _ => Ans []) ex_beh false (Some ex_ids) None = Ans r /\
            In (U"B", CatError (U"TunerError")) r.
Proof.
  split; [reflexivity|]. split; [vm_compute; discriminate|].
  eexists. split; [vm_compute; reflexivity|]. right; right; right; left; reflexivity.
Qed.

(** lookup mode with an oracle that meets the C10 specification on a store with prefix categories *)
Definition ex_store : list rid := [U"A/1"; U"AB/2"; U"A_B/3"; U"A/4"; U"B/5"].
Definition ex_eligible (id : rid) : bool := negb (str_eqb id (U"A/4")).     (* A/4 is incomplete *)
Definition ex_lookup (c : cat) : res (list rid) := Ans (lookup_spec extract_split ex_store ex_eligible c).

Example C19_lookup_example :
  (forall c l, ex_lookup c = Ans l ->
     NoDup l /\ forall id, In id l -> In id (lookup_spec extract_split ex_store ex_eligible c)) /\
  lookup_mode (Some []) /\
  option_map (map (fun p => (fst p, ex_labels (snd p))))
    (match play extract_split ex_tuner ex_lookup ex_beh true (Some []) (Some [U"AB"; U"A"; U"AB"; U"C"]) with
     | Ans r => Some r | Raises _ => None end)
  = Some [(U"AB", [U"AB/2"]); (U"A", [U"A/1"]); (U"C", [])].
Proof.
  split; [|split; [right; reflexivity|vm_compute; reflexivity]].
  intros c l H.
  assert (E : l = lookup_spec extract_split ex_store ex_eligible c) by (unfold ex_lookup in H; congruence).
  subst l. split; [|auto].
  unfold lookup_spec. apply NoDup_filter. unfold ex_store.
  repeat (constructor; [intros I; vm_compute in I; intuition discriminate|]). constructor.
Qed.

Example C19_order_example :
  Permutation ex_ids (rev ex_ids) /\ ex_ids <> [] /\
  (match play extract_split ex_tuner (fun _ => Ans []) ex_beh false (Some ex_ids) None,
         play extract_split ex_tuner (fun _ => Ans []) ex_beh false (Some (rev ex_ids)) None with
   | Ans r, Ans r' => list_eqb str_eqb (map fst r) (map fst r')
   | _, _ => false end) = true.
Proof. split; [apply Permutation_rev|]. split; [discriminate|vm_compute; reflexivity]. Qed.

(** ---- non-vacuity, remaining premise combinations (wp-audit) ---- *)

(** C19_tuner_failure_isolated, third clause (lookup mode, category list given, the failing category B requested):
    B's entry is the tuner's error, the others are what the request without B gives *)
Example C19_tuner_failure_lookup_example :
  let cs := [U"AB"; U"B"; U"A"; U"B"] in
  ex_tuner (U"B") = Raises (U"TunerError") /\ lookup_mode None /\
  exists r, play extract_split ex_tuner ex_lookup ex_beh true None (Some cs) = Ans r /\
            map fst r = [U"AB"; U"B"; U"A"] /\ In (U"B", CatError (U"TunerError")) r /\
            play extract_split ex_tuner ex_lookup ex_beh true None (Some (without_cat (U"B") cs)) = Ans (without_entry (U"B") r) /\
            map fst (without_entry (U"B") r) = [U"AB"; U"A"].
Proof.
  cbv zeta. split; [reflexivity|]. split; [left; reflexivity|].
  eexists. split; [vm_compute; reflexivity|]. split; [reflexivity|]. split; [right; left; reflexivity|].
  split; vm_compute; reflexivity.
Qed.

(** C19_explicit_total / C19_played_once on the S3 id template, where [extract] is partial: every id of the
    request can be attributed (premise), an id that cannot makes play() fail as a whole *)
Example C19_explicit_total_example :
  let ids := [U"AB/20200227/x"; U"A/20200228/y"; U"A_B/20200227/z"] in
  ids <> [] /\ (forall id, In id ids -> exists c, extract_parse id = Ans c) /\
  (forall id, In id ids -> ex_beh id <> BMissing) /\
  play extract_parse ex_tuner (fun _ => Ans []) ex_beh false (Some (ids ++ [U"A/b"])) None = Raises (U"AssertionError").
Proof.
  cbv zeta. split; [discriminate|]. split.
  - intros id [<-|[<-|[<-|[]]]]; eexists; vm_compute; reflexivity.
  - split; [intros id [<-|[<-|[<-|[]]]]; vm_compute; discriminate|vm_compute; reflexivity].
Qed.

(** C19_failure_independent: two tuners that differ on B only, same request: same categories, same result for A *)
Example C19_failure_independent_example :
  let t2 := fun c => if str_eqb c (U"B") then Ans (Tuning (U"p") (U"e") (U"c") (U"d")) else ex_tuner c in
  exists r1 r2, play extract_split ex_tuner (fun _ => Ans []) ex_beh false (Some ex_ids) None = Ans r1 /\
                play extract_split t2 (fun _ => Ans []) ex_beh false (Some ex_ids) None = Ans r2 /\
                ex_tuner (U"A") = t2 (U"A") /\ ex_tuner (U"B") <> t2 (U"B") /\ r1 <> r2 /\ map fst r1 = map fst r2.
Proof.
  cbv zeta. do 2 eexists. split; [vm_compute; reflexivity|]. split; [vm_compute; reflexivity|].
  split; [reflexivity|]. split; [vm_compute; discriminate|]. split; [vm_compute; discriminate|reflexivity].
Qed.
