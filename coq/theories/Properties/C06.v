(** C06 — input lookup keys identify calls by alias and captured argument values only.
    Statements only.  [qp]/[qp_dec] is the quoted-printable oracle for bytes values. *)
From Playback Require Import Base.Str Values.PyVal Values.SortFacts Values.Codec Values.CodecFacts
  Values.KeyFormat Values.KeyFacts Values.JsonWf Values.JsonParse Values.JsonFacts.
From Coq Require Import Permutation.

(** Structurally equal captured values (equal up to dict / object-attribute insertion order)
    give the same key text, whatever else differs between the two calls.  Sets carry their
    iteration order in the model, so "equal" here means equal sets iterated in the same order:
    the clause for sets is refuted below (partial). *)
Theorem C06_key_deterministic_partial :
  forall qp alias a1 kw1 a2 kw2,
    wf a1 = true -> wf a2 = true -> wf (kwargs_value kw1) = true -> wf (kwargs_value kw2) = true ->
    veq a1 a2 -> veq (kwargs_value kw1) (kwargs_value kw2) ->
    forall cap st args1 k1 args2 k2,
      select cap st args1 k1 = Selected a1 kw1 -> select cap st args2 k2 = Selected a2 kw2 ->
      ikey (encode_with qp) alias cap st args1 k1 = ikey (encode_with qp) alias cap st args2 k2.
Proof. exact ikey_deterministic. Qed.
Print Assumptions C06_key_deterministic_partial.

(** Arguments excluded from capture do not influence the key: with an explicit capture list
    only the listed positions and names are read. *)
Theorem C06_excluded_args_irrelevant :
  forall enc alias l st args1 kw1 args2 kw2,
    (forall p n, In (Some p, n) l -> nth_error args1 p = nth_error args2 p) ->
    (forall p n, In (p, Some n) l -> assoc n kw1 = assoc n kw2) ->
    ikey enc alias (CapList l) st args1 kw1 = ikey enc alias (CapList l) st args2 kw2.
Proof. intros. apply ikey_select_only. apply select_ext; assumption. Qed.
Print Assumptions C06_excluded_args_irrelevant.

Theorem C06_kwargs_order_irrelevant :
  forall kw1 kw2, NoDup (keys kw1) -> Permutation kw1 kw2 -> kwargs_value kw1 = kwargs_value kw2.
Proof. exact kwargs_order_irrelevant. Qed.
Print Assumptions C06_kwargs_order_irrelevant.

(** Different aliases or different captured values never share a key.  Premises: aliases without
    '='; the captured values are in the value domain [vdom] = [wf] (tree shaped, distinct unreserved
    keys, no lone surrogates, see PyVal.v) and [leaves_ok] (every float carries a float.__repr__ text
    of the grammar [float_repr_ok], every bytes value is a list of bytes); the quoted-printable oracle
    is invertible and maps byte strings to surrogate-free text.  Nothing is assumed about json.dumps:
    its injectivity and the self-delimiting text of containers are proved (JsonFacts.v) on the
    well-formed trees [jwf] that [flatten] produces from such values. *)
Theorem C06_key_injective :
  forall qp qp_dec, (forall b, qp_dec (qp b) = b) -> (forall b, is_bytes b = true -> str_ok (qp b) = true) ->
    forall al1 al2 cap1 cap2 st1 st2 args1 k1 args2 k2 a1 kw1 a2 kw2 key,
      no_eq_sign al1 -> no_eq_sign al2 ->
      select cap1 st1 args1 k1 = Selected a1 kw1 -> select cap2 st2 args2 k2 = Selected a2 kw2 ->
      vdom a1 = true -> vdom a2 = true -> vdom (kwargs_value kw1) = true -> vdom (kwargs_value kw2) = true ->
      ikey (encode_with qp) al1 cap1 st1 args1 k1 = Some key ->
      ikey (encode_with qp) al2 cap2 st2 args2 k2 = Some key ->
      al1 = al2 /\ veq a1 a2 /\ veq (kwargs_value kw1) (kwargs_value kw2).
Proof. exact ikey_injective. Qed.
Print Assumptions C06_key_injective.

(** The same with the concrete oracles of the correspondence runs: no premise about oracles left. *)
Theorem C06_key_injective_concrete :
  forall al1 al2 cap1 cap2 st1 st2 args1 k1 args2 k2 a1 kw1 a2 kw2 key,
    no_eq_sign al1 -> no_eq_sign al2 ->
    select cap1 st1 args1 k1 = Selected a1 kw1 -> select cap2 st2 args2 k2 = Selected a2 kw2 ->
    vdom a1 = true -> vdom a2 = true -> vdom (kwargs_value kw1) = true -> vdom (kwargs_value kw2) = true ->
    ikey encode al1 cap1 st1 args1 k1 = Some key -> ikey encode al2 cap2 st2 args2 k2 = Some key ->
    al1 = al2 /\ veq a1 a2 /\ veq (kwargs_value kw1) (kwargs_value kw2).
Proof. exact (ikey_injective qp_simple qp_dec_simple qp_simple_roundtrip qp_simple_ok). Qed.
Print Assumptions C06_key_injective_concrete.

(** The JSON layer under it: on well-formed trees the printer is injective, the text of an array or
    object is self-delimiting (whatever follows it), and the serializer only produces such trees. *)
Theorem C06_dumps_injective :
  forall a b, jwf a = true -> jwf b = true -> dumps a = dumps b -> a = b.
Proof. exact dumps_inj. Qed.
Print Assumptions C06_dumps_injective.

Theorem C06_dumps_self_delimiting :
  forall a b x y, jwf a = true -> jwf b = true -> container a -> container b ->
    dumps a ++ x = dumps b ++ y -> a = b /\ x = y.
Proof. exact dumps_delim. Qed.
Print Assumptions C06_dumps_self_delimiting.

Theorem C06_flatten_well_formed :
  forall qp, (forall b, is_bytes b = true -> str_ok (qp b) = true) ->
    forall v, wf v = true -> leaves_ok v = true -> forall j, flatten qp v = Some j -> jwf j = true.
Proof. exact flatten_jwf. Qed.
Print Assumptions C06_flatten_well_formed.

(** Why the domain is needed: over ALL json terms the printer is neither injective nor
    self-delimiting (a float node whose text is not a float text; two lone surrogates against the
    code point they encode). *)
Theorem C06_dumps_not_injective_outside_domain_refuted :
  (exists a b, a <> b /\ dumps a = dumps b /\ jwf a = false) /\
  (exists a b, a <> b /\ dumps a = dumps b /\ jwf a = false /\ (forall r, a <> JFloat r)) /\
  (exists a b x y, container a /\ container b /\ dumps a ++ x = dumps b ++ y /\ a <> b /\ jwf a = false).
Proof.
  split; [|split].
  - exists (JFloat (U"null")), JNull. split; [discriminate|]. split; reflexivity.
  - exists (JStr [55296; 56320]%N), (JStr [65536]%N). split; [discriminate|]. split; [reflexivity|]. split; [reflexivity|discriminate].
  - exists (JArr [JFloat (U"1], [2")]), (JArr [JInt 1]), [], (U", [2]").
    split; [exact I|]. split; [exact I|]. split; [reflexivity|]. split; [discriminate|reflexivity].
Qed.
Print Assumptions C06_dumps_not_injective_outside_domain_refuted.

(** The serializer layer the two theorems rest on. *)
Theorem C06_flatten_roundtrip :
  forall qp qp_dec, (forall b, qp_dec (qp b) = b) ->
    forall v, wf v = true -> exists j, flatten qp v = Some j /\ restore qp_dec j = Some (canon v).
Proof. exact restore_flatten. Qed.
Print Assumptions C06_flatten_roundtrip.

(** Known finding F06: the same set iterated in another order (another PYTHONHASHSEED) gives
    another key. *)
Theorem C06_set_order_refuted :
  exists l1 l2, Permutation l1 l2 /\
    ikey encode (U"f") CapAll true [VSet l1] [] <> ikey encode (U"f") CapAll true [VSet l2] [].
Proof.
  exists [VStr (U"x"); VStr (U"y")], [VStr (U"y"); VStr (U"x")].
  split; [apply perm_swap|vm_compute; discriminate].
Qed.
Print Assumptions C06_set_order_refuted.

(** non-vacuity: a concrete call with nested, dict-reordered arguments meets every premise *)
Example C06_example :
  let a1 := VTuple [VDict [(U"b", VInt 1); (U"a", VTuple [VStr (U"x")])]; VList [VNone]] in
  let a2 := VTuple [VDict [(U"a", VTuple [VStr (U"x")]); (U"b", VInt 1)]; VList [VNone]] in
  wf a1 = true /\ wf a2 = true /\ veq a1 a2 /\ a1 <> a2 /\
  ikey encode (U"get") CapAll true [VDict [(U"b", VInt 1); (U"a", VTuple [VStr (U"x")])]; VList [VNone]] [] =
  ikey encode (U"get") CapAll true [VDict [(U"a", VTuple [VStr (U"x")]); (U"b", VInt 1)]; VList [VNone]] [].
Proof. repeat split; try (vm_compute; reflexivity). discriminate. Qed.

(** non-vacuity of the injectivity theorem: two calls whose captured values hold floats (fixed and
    exponent notation), non-ASCII and astral text, bytes, nested containers, an object and keywords
    meet every premise (with the concrete oracles, whose two premises are theorems), and get keys *)
Definition ex_args : list pyval :=
  [VFloat (U"1.5e-07"); VFloat (U"-0.0"); VFloat (U"1e+22"); VStr [233; 26085; 128512; 34; 92; 10]%N;
   VBytes [0; 61; 65; 255]%N;
   VDict [(U"k", VList [VTuple [VInt (-3); VNone]; VSet [VBool true]]); (U"a=b", VFloat (U"123456789.12345679"))];
   VObj (U"lib.Pt") [(U"x", VFloat (U"0.1"))]].
Definition ex_kw : list (str * pyval) := [(U"opt", VFloat (U"5e-324")); ([233]%N, VList [])].

Example C06_injective_premises_met :
  (forall b, qp_dec_simple (qp_simple b) = b) /\
  (forall b, is_bytes b = true -> str_ok (qp_simple b) = true) /\
  no_eq_sign (U"svc:{id}") /\
  select CapAll true ex_args ex_kw = Selected (VTuple ex_args) ex_kw /\
  vdom (VTuple ex_args) = true /\ vdom (kwargs_value ex_kw) = true /\
  (exists key, ikey encode (U"svc:{id}") CapAll true ex_args ex_kw = Some key) /\
  (exists j, flatten qp_simple (VTuple ex_args) = Some j /\ jwf j = true /\ loads (dumps j) = Some j).
Proof.
  split; [exact qp_simple_roundtrip|]. split; [exact qp_simple_ok|].
  split; [intros C; cbn in C; repeat (destruct C as [C|C]; [discriminate|]); exact C|].
  split; [reflexivity|]. split; [vm_compute; reflexivity|]. split; [vm_compute; reflexivity|].
  split; [eexists; vm_compute; reflexivity|].
  eexists. split; [vm_compute; reflexivity|]. split; vm_compute; reflexivity.
Qed.
