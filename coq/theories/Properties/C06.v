(** C06 — input lookup keys identify calls by alias and captured argument values only.
    Statements only.  [qp]/[qp_dec] is the quoted-printable oracle for bytes values. *)
From Playback Require Import Base.Str Values.PyVal Values.SortFacts Values.Codec Values.CodecFacts
  Values.KeyFormat Values.KeyFacts.
From Coq Require Import Permutation.

(** Structurally equal captured values (equal up to dict / object-attribute insertion order)
    give the same key text, whatever else differs between the two calls.  Sets carry their
    iteration order in the model, so "equal" here means equal sets iterated in the same order:
    the clause for sets is refuted below (partial). *)
Theorem C06_key_deterministic_partial :
  forall qp alias a1 kw1 a2 kw2,
    wf a1 = true -> wf a2 = true -> wf (kwargs_value kw1) = true -> wf (kwargs_value kw2) = true ->
    veq a1 a2 -> veq (kwargs_value kw1) (kwargs_value kw2) ->
    forall cap st args1 k1 args2 k2,
      select cap st args1 k1 = Selected a1 kw1 -> select cap st args2 k2 = Selected a2 kw2 ->
      ikey (encode_with qp) alias cap st args1 k1 = ikey (encode_with qp) alias cap st args2 k2.
Proof. exact ikey_deterministic. Qed.
Print Assumptions C06_key_deterministic_partial.

(** Arguments excluded from capture do not influence the key: with an explicit capture list
    only the listed positions and names are read. *)
Theorem C06_excluded_args_irrelevant :
  forall enc alias l st args1 kw1 args2 kw2,
    (forall p n, In (Some p, n) l -> nth_error args1 p = nth_error args2 p) ->
    (forall p n, In (p, Some n) l -> assoc n kw1 = assoc n kw2) ->
    ikey enc alias (CapList l) st args1 kw1 = ikey enc alias (CapList l) st args2 kw2.
Proof. intros. apply ikey_select_only. apply select_ext; assumption. Qed.
Print Assumptions C06_excluded_args_irrelevant.

Theorem C06_kwargs_order_irrelevant :
  forall kw1 kw2, NoDup (keys kw1) -> Permutation kw1 kw2 -> kwargs_value kw1 = kwargs_value kw2.
Proof. exact kwargs_order_irrelevant. Qed.
Print Assumptions C06_kwargs_order_irrelevant.

(** Different aliases or different captured values never share a key (aliases without '=';
    the two facts about json.dumps are premises: injective, container texts self-delimiting). *)
Theorem C06_key_injective_partial :
  forall qp qp_dec, (forall b, qp_dec (qp b) = b) ->
    (forall a b, dumps a = dumps b -> a = b) ->
    (forall a b x y, container a -> container b -> dumps a ++ x = dumps b ++ y -> a = b) ->
    forall al1 al2 cap1 cap2 st1 st2 args1 k1 args2 k2 a1 kw1 a2 kw2 key,
      no_eq_sign al1 -> no_eq_sign al2 ->
      select cap1 st1 args1 k1 = Selected a1 kw1 -> select cap2 st2 args2 k2 = Selected a2 kw2 ->
      wf a1 = true -> wf a2 = true -> wf (kwargs_value kw1) = true -> wf (kwargs_value kw2) = true ->
      ikey (encode_with qp) al1 cap1 st1 args1 k1 = Some key ->
      ikey (encode_with qp) al2 cap2 st2 args2 k2 = Some key ->
      al1 = al2 /\ veq a1 a2 /\ veq (kwargs_value kw1) (kwargs_value kw2).
Proof. exact ikey_injective. Qed.
Print Assumptions C06_key_injective_partial.

(** The serializer layer the two theorems rest on. *)
Theorem C06_flatten_roundtrip :
  forall qp qp_dec, (forall b, qp_dec (qp b) = b) ->
    forall v, wf v = true -> exists j, flatten qp v = Some j /\ restore qp_dec j = Some (canon v).
Proof. exact restore_flatten. Qed.
Print Assumptions C06_flatten_roundtrip.

(** Known finding F06: the same set iterated in another order (another PYTHONHASHSEED) gives
    another key. *)
Theorem C06_set_order_refuted :
  exists l1 l2, Permutation l1 l2 /\
    ikey encode (U"f") CapAll true [VSet l1] [] <> ikey encode (U"f") CapAll true [VSet l2] [].
Proof.
  exists [VStr (U"x"); VStr (U"y")], [VStr (U"y"); VStr (U"x")].
  split; [apply perm_swap|vm_compute; discriminate].
Qed.
Print Assumptions C06_set_order_refuted.

(** non-vacuity: a concrete call with nested, dict-reordered arguments meets every premise *)
Example C06_example :
  let a1 := VTuple [VDict [(U"b", VInt 1); (U"a", VTuple [VStr (U"x")])]; VList [VNone]] in
  let a2 := VTuple [VDict [(U"a", VTuple [VStr (U"x")]); (U"b", VInt 1)]; VList [VNone]] in
  wf a1 = true /\ wf a2 = true /\ veq a1 a2 /\ a1 <> a2 /\
  ikey encode (U"get") CapAll true [VDict [(U"b", VInt 1); (U"a", VTuple [VStr (U"x")])]; VList [VNone]] [] =
  ikey encode (U"get") CapAll true [VDict [(U"a", VTuple [VStr (U"x")]); (U"b", VInt 1)]; VList [VNone]] [].
Proof. repeat split; try (vm_compute; reflexivity). discriminate. Qed.
