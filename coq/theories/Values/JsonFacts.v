(** Facts about the JSON printer [Codec.dumps] and the parser [JsonParse.loads] on the
    well-formed trees [JsonWf.jwf]:
      parse_dumps  : parse_value fuel (dumps j ++ t) = Some (j, t)     (prefix form, any rest [t]
                     that does not continue a number)
      loads_dumps  : loads (dumps j) = Some j
      dumps_inj    : dumps is injective
      dumps_delim  : the text of a container is self-delimiting
      flatten_jwf  : the serializer produces well-formed trees from values of the faithful domain
    and the witnesses showing that none of the first four holds for arbitrary [json] terms. *)
From Playback Require Import Base.Str Base.StrFacts Values.PyVal Values.SortFacts Values.Codec Values.CodecFacts
  Values.JsonWf Values.JsonParse.
From Coq Require Import Lia ZifyBool Permutation DecimalString DecimalN DecimalPos.
Open Scope list_scope.
Open Scope N_scope.

Local Ltac Zify.zify_post_hook ::= Z.to_euclidean_division_equations.

(** ---- induction on json trees ---- *)
Section JInd.
  Variable P : json -> Prop.
  Hypothesis HNull : P JNull.
  Hypothesis HBool : forall b, P (JBool b).
  Hypothesis HInt : forall z, P (JInt z).
  Hypothesis HFloat : forall r, P (JFloat r).
  Hypothesis HStr : forall s, P (JStr s).
  Hypothesis HArr : forall l, Forall P l -> P (JArr l).
  Hypothesis HObj : forall d, Forall (fun kv => P (snd kv)) d -> P (JObj d).
  Fixpoint json_ind' (j : json) : P j :=
    match j with
    | JNull => HNull | JBool b => HBool b | JInt z => HInt z | JFloat r => HFloat r | JStr s => HStr s
    | JArr l => HArr l ((fix go (l : list json) : Forall P l :=
                           match l with [] => Forall_nil _ | x :: l' => Forall_cons _ (json_ind' x) (go l') end) l)
    | JObj d => HObj d ((fix go (d : list (str * json)) : Forall (fun kv => P (snd kv)) d :=
                           match d with [] => Forall_nil _ | kv :: d' => Forall_cons _ (json_ind' (snd kv)) (go d') end) d)
    end.
End JInd.

(** ---- the layout of [dumps] ---- *)
Lemma dumps_arr l : dumps (JArr l) = 91 :: dumps_elems l ++ [93].
Proof. reflexivity. Qed.
Lemma dumps_obj d : dumps (JObj d) = 123 :: dumps_members d ++ [125].
Proof. reflexivity. Qed.
Lemma dumps_elems_cons x y l : dumps_elems (x :: y :: l) = dumps x ++ 44 :: 32 :: dumps_elems (y :: l).
Proof. reflexivity. Qed.
Lemma dumps_str_app k t : dumps_str k ++ t = 34 :: flat_map esc_char k ++ 34 :: t.
Proof. unfold dumps_str. cbn [app]. rewrite <- app_assoc. reflexivity. Qed.
Lemma dumps_members_one k x : dumps_members [(k, x)] = dumps_str k ++ 58 :: 32 :: dumps x.
Proof. reflexivity. Qed.
Lemma dumps_members_cons k x kv d :
  dumps_members ((k, x) :: kv :: d) = dumps_str k ++ 58 :: 32 :: dumps x ++ 44 :: 32 :: dumps_members (kv :: d).
Proof. destruct kv. reflexivity. Qed.

(** ---- strings ---- *)
Lemma hexval_hex_digit d : d < 16 -> hexval (hex_digit d) = Some d.
Proof.
  intros H. unfold hexval, hex_digit. destruct (d <? 10) eqn:E.
  - replace ((48 <=? 48 + d) && (48 + d <=? 57)) with true by lia. f_equal. lia.
  - replace ((48 <=? 87 + d) && (87 + d <=? 57)) with false by lia.
    replace ((97 <=? 87 + d) && (87 + d <=? 102)) with true by lia. f_equal. lia.
Qed.

Lemma parse_hex4_hex4 n t : n < 65536 -> parse_hex4 (hex4 n ++ t) = Some (n, t).
Proof.
  intros H. unfold hex4. cbn [app]. unfold parse_hex4.
  rewrite !hexval_hex_digit by (apply N.mod_lt; discriminate).
  f_equal. f_equal. lia.
Qed.

Lemma uesc_app n t : uesc n ++ t = 92 :: 117 :: (hex4 n ++ t).
Proof. reflexivity. Qed.

Definition char_ok (c : N) : bool := negb (surrogate c) && (c <=? 1114111).

Lemma parse_chars_bs_u f r :
  parse_chars (S f) (92 :: 117 :: r) =
  match parse_hex4 r with
  | None => None
  | Some (n, r1) =>
      if is_high n then
        match r1 with
        | b :: u :: r2 =>
            if (b =? 92) && (u =? 117) then
              match parse_hex4 r2 with
              | Some (m, r3) =>
                  if is_low m then consr (65536 + (n - 55296) * 1024 + (m - 56320)) (parse_chars f r3)
                  else consr n (parse_chars f r1)
              | None => consr n (parse_chars f r1)
              end
            else consr n (parse_chars f r1)
        | _ => consr n (parse_chars f r1)
        end
      else consr n (parse_chars f r1)
  end.
Proof. reflexivity. Qed.

Lemma parse_chars_esc c f t : char_ok c = true -> parse_chars (S f) (esc_char c ++ t) = consr c (parse_chars f t).
Proof.
  unfold char_ok, surrogate. intros H. unfold esc_char.
  destruct (c =? 34) eqn:E1; [assert (c = 34) by lia; subst; reflexivity|].
  destruct (c =? 92) eqn:E2; [assert (c = 92) by lia; subst; reflexivity|].
  destruct (c =? 10) eqn:E3; [assert (c = 10) by lia; subst; reflexivity|].
  destruct (c =? 13) eqn:E4; [assert (c = 13) by lia; subst; reflexivity|].
  destruct (c =? 9) eqn:E5; [assert (c = 9) by lia; subst; reflexivity|].
  destruct (c =? 8) eqn:E6; [assert (c = 8) by lia; subst; reflexivity|].
  destruct (c =? 12) eqn:E7; [assert (c = 12) by lia; subst; reflexivity|].
  destruct ((32 <=? c) && (c <=? 126)) eqn:E8.
  { cbn [app parse_chars]. rewrite E1, E2. reflexivity. }
  destruct (c <? 65536) eqn:E9.
  - rewrite uesc_app, parse_chars_bs_u, parse_hex4_hex4 by lia.
    replace (is_high c) with false by (unfold is_high; lia). reflexivity.
  - rewrite <- app_assoc, uesc_app, parse_chars_bs_u.
    set (v := c - 65536).
    assert (V : v < 1048576) by (unfold v; lia).
    assert (H1 : v / 1024 < 1024) by (apply N.div_lt_upper_bound; lia).
    assert (H2 : v mod 1024 < 1024) by (apply N.mod_lt; discriminate).
    rewrite parse_hex4_hex4 by lia.
    replace (is_high (55296 + v / 1024)) with true by (unfold is_high; lia).
    rewrite uesc_app. cbn [N.eqb Pos.eqb andb].
    rewrite parse_hex4_hex4 by lia.
    replace (is_low (56320 + v mod 1024)) with true by (unfold is_low; lia).
    replace (65536 + (55296 + v / 1024 - 55296) * 1024 + (56320 + v mod 1024 - 56320)) with c; [reflexivity|].
    pose proof (N.div_mod v 1024). unfold v in *. lia.
Qed.

Lemma str_ok_cons c s : str_ok (c :: s) = true <-> char_ok c = true /\ str_ok s = true.
Proof. unfold str_ok, char_ok. cbn [forallb]. apply andb_true_iff. Qed.

Lemma parse_chars_str s : str_ok s = true ->
  forall f t, (length s < f)%nat -> parse_chars f (flat_map esc_char s ++ 34 :: t) = Some (s, t).
Proof.
  induction s as [|c s IH]; intros W f t L.
  - destruct f as [|f]; [cbn in L; lia|]. reflexivity.
  - apply str_ok_cons in W. destruct W as [Wc Ws].
    destruct f as [|f]; [cbn in L; lia|]. cbn [flat_map]. rewrite <- app_assoc.
    rewrite parse_chars_esc by exact Wc. rewrite IH; [reflexivity|exact Ws|cbn in L; lia].
Qed.

Lemma esc_char_nonempty c : (1 <= length (esc_char c))%nat.
Proof.
  unfold esc_char.
  repeat match goal with |- context [if ?b then _ else _] => destruct b end; cbn; try lia.
Qed.

Lemma flat_map_esc_length s : (length s <= length (flat_map esc_char s))%nat.
Proof.
  induction s as [|c s IH]; cbn; [lia|]. rewrite app_length. pose proof (esc_char_nonempty c). lia.
Qed.

(** a string literal followed by anything *)
Lemma parse_string s t : str_ok s = true ->
  parse_chars (S (length (flat_map esc_char s ++ 34 :: t))) (flat_map esc_char s ++ 34 :: t) = Some (s, t).
Proof.
  intros W. apply parse_chars_str; [exact W|].
  rewrite app_length. pose proof (flat_map_esc_length s). lia.
Qed.

(** ---- numbers ---- *)
Definition no_num_head (t : str) : Prop := match t with c :: _ => is_num_char c = false | [] => True end.

Lemma span_num_app a t : forallb is_num_char a = true -> no_num_head t -> span_num (a ++ t) = (a, t).
Proof.
  induction a as [|c a IH]; cbn [app forallb]; intros F T.
  - destruct t as [|c t]; [reflexivity|]. cbn in T. cbn [span_num]. rewrite T. reflexivity.
  - apply andb_true_iff in F. destruct F as [Fc Fa]. cbn [span_num]. rewrite Fc, (IH Fa T). reflexivity.
Qed.

Lemma str_of_uint_eq d : str_of_uint d = of_string (NilEmpty.string_of_uint d).
Proof. reflexivity. Qed.

Lemma digits_val_cons acc c s : is_digit_c c = true -> digits_val acc (c :: s) = digits_val (acc * 10 + (c - 48)) s.
Proof. cbn [digits_val]. intros ->. reflexivity. Qed.

Lemma digits_val_acc d : forall acc, digits_val (N.pos acc) (str_of_uint d) = Some (N.pos (Pos.of_uint_acc d acc)).
Proof.
  unfold str_of_uint, of_string.
  induction d; intros acc; cbn [Pos.of_uint_acc]; [reflexivity|..];
    cbn [NilEmpty.string_of_uint String.list_ascii_of_string map];
    rewrite digits_val_cons by reflexivity; rewrite <- IHd; f_equal;
    match goal with |- context [Ascii.N_of_ascii ?a] =>
      let v := eval vm_compute in (Ascii.N_of_ascii a) in change (Ascii.N_of_ascii a) with v end; lia.
Qed.

Lemma digits_val_uint d : digits_val 0 (str_of_uint d) = Some (Pos.of_uint d).
Proof.
  induction d; cbn [Pos.of_uint]; [reflexivity|..];
    try (rewrite <- digits_val_acc);
    unfold str_of_uint, of_string in *;
    cbn [NilEmpty.string_of_uint String.list_ascii_of_string map];
    rewrite digits_val_cons by reflexivity; [exact IHd|..]; reflexivity.
Qed.

Lemma digits_val_show_N n : digits_val 0 (show_N n) = Some n.
Proof.
  change (show_N n) with (str_of_uint (N.to_uint n)). rewrite digits_val_uint.
  f_equal. apply DecimalN.Unsigned.of_to.
Qed.

Definition dotexp (c : N) : bool := (c =? 46) || (c =? 101) || (c =? 69).

Lemma parse_number_unfold tok :
  parse_number tok =
  if existsb dotexp tok then match tok with [] => None | _ => Some (JFloat tok) end
  else match tok with
       | [] => None
       | c :: ds =>
           if (c =? 45) && match ds with [] => false | _ => true end
           then option_map (fun n => JInt (- Z.of_N n)%Z) (digits_val 0 ds)
           else option_map (fun n => JInt (Z.of_N n)) (digits_val 0 tok)
       end.
Proof. reflexivity. Qed.

Lemma digits_lex s : Forall is_digit s -> forallb is_num_char s = true /\ existsb dotexp s = false.
Proof.
  induction 1 as [|c s Hc Hs [IH1 IH2]]; [split; reflexivity|].
  cbn [forallb existsb]. rewrite IH1, IH2. unfold is_digit in Hc. unfold is_num_char, dotexp. lia.
Qed.

Lemma show_N_cons n : exists c s, show_N n = c :: s /\ is_digit c.
Proof.
  pose proof (show_N_nonempty n) as NE. pose proof (show_N_digits n) as D.
  destruct (show_N n) as [|c s]; [congruence|]. exists c, s. split; [reflexivity|]. inversion D; assumption.
Qed.

Lemma parse_number_show_Z z : parse_number (show_Z z) = Some (JInt z).
Proof.
  destruct z as [|p|p].
  - reflexivity.
  - unfold show_Z. rewrite parse_number_unfold.
    destruct (digits_lex _ (show_N_digits (N.pos p))) as [_ E]. rewrite E.
    destruct (show_N_cons (N.pos p)) as [c [s [Es D]]].
    pose proof (digits_val_show_N (N.pos p)) as V. rewrite Es in *.
    replace (c =? 45) with false by (unfold is_digit in D; lia). cbn [andb]. rewrite V. reflexivity.
  - unfold show_Z. rewrite parse_number_unfold.
    destruct (digits_lex _ (show_N_digits (N.pos p))) as [_ E]. cbn [existsb]. rewrite E.
    destruct (show_N_cons (N.pos p)) as [c [s [Es D]]].
    pose proof (digits_val_show_N (N.pos p)) as V. rewrite Es in *.
    cbn [orb]. change (dotexp 45) with false. cbn [N.eqb Pos.eqb andb]. rewrite V. reflexivity.
Qed.

(** first character of a number text: a digit or '-' *)
Definition num_start (c : N) : bool := is_dig c || (c =? 45).

Lemma show_Z_lex z :
  forallb is_num_char (show_Z z) = true /\ exists c s, show_Z z = c :: s /\ num_start c = true.
Proof.
  destruct z as [|p|p].
  - split; [reflexivity|]. exists 48, []. split; reflexivity.
  - unfold show_Z. destruct (digits_lex _ (show_N_digits (N.pos p))) as [F _]. split; [exact F|].
    destruct (show_N_cons (N.pos p)) as [c [s [Es D]]]. exists c, s. split; [exact Es|].
    unfold num_start, is_dig. unfold is_digit in D. lia.
  - unfold show_Z. destruct (digits_lex _ (show_N_digits (N.pos p))) as [F _]. split.
    + cbn [forallb]. rewrite F. reflexivity.
    + eexists _, _. split; reflexivity.
Qed.

(** the float grammar implies the lexical facts the parser and the injectivity proofs need *)
Lemma span_digits_spec s : forall a b, span_digits s = (a, b) -> s = a ++ b /\ forallb is_dig a = true.
Proof.
  induction s as [|c s IH]; cbn [span_digits]; intros a b E.
  - inversion E; subst. split; reflexivity.
  - destruct (is_dig c) eqn:D.
    + destruct (span_digits s) as [a' b'] eqn:S. inversion E; subst.
      destruct (IH _ _ eq_refl) as [-> F]. split; [reflexivity|]. cbn [forallb]. rewrite D, F. reflexivity.
    + inversion E; subst. split; reflexivity.
Qed.

Lemma dig_lex a : forallb is_dig a = true -> forallb is_num_char a = true.
Proof.
  induction a as [|c a IH]; cbn [forallb]; [reflexivity|]. intros H. apply andb_true_iff in H. destruct H as [H1 H2].
  rewrite (IH H2). unfold is_dig in H1. unfold is_num_char. lia.
Qed.

Lemma exp_ok_lex e : exp_ok e = true -> forallb is_num_char e = true /\ existsb dotexp e = true.
Proof.
  destruct e as [|c [|sg ds]]; try discriminate. unfold exp_ok. intros H.
  apply andb_true_iff in H. destruct H as [H Hd]. apply andb_true_iff in H. destruct H as [H Hn].
  apply andb_true_iff in H. destruct H as [Hc Hs].
  cbn [forallb existsb]. rewrite (dig_lex _ Hd). unfold is_num_char, dotexp. split; lia.
Qed.

Lemma frac_exp_lex rest : frac_exp_ok rest = true -> forallb is_num_char rest = true /\ existsb dotexp rest = true.
Proof.
  destruct rest as [|c rest']; [discriminate|]. unfold frac_exp_ok.
  destruct (c =? 46) eqn:E; [|apply exp_ok_lex].
  destruct (span_digits rest') as [fp e] eqn:S. intros H. apply andb_true_iff in H. destruct H as [_ He].
  destruct (span_digits_spec _ _ _ S) as [-> F].
  cbn [forallb existsb]. rewrite forallb_app, (dig_lex _ F).
  assert (Ee : forallb is_num_char e = true).
  { destruct e as [|x e]; [reflexivity|]. apply exp_ok_lex in He. apply He. }
  rewrite Ee. unfold is_num_char, dotexp. split; lia.
Qed.

Lemma ufloat_lex u : ufloat_ok u = true ->
  forallb is_num_char u = true /\ existsb dotexp u = true /\ exists c u', u = c :: u' /\ is_dig c = true.
Proof.
  unfold ufloat_ok. destruct (span_digits u) as [ip rest] eqn:S. intros H.
  apply andb_true_iff in H. destruct H as [Hn Hr].
  destruct (span_digits_spec _ _ _ S) as [-> F]. destruct (frac_exp_lex _ Hr) as [R1 R2].
  rewrite forallb_app, existsb_app, (dig_lex _ F), R1, R2. split; [reflexivity|]. split; [apply orb_true_r|].
  destruct ip as [|c ip]; [discriminate|]. cbn [forallb] in F. apply andb_true_iff in F.
  exists c, (ip ++ rest). split; [reflexivity|apply F].
Qed.

Lemma finite_lex r : finite_repr_ok r = true ->
  forallb is_num_char r = true /\ existsb dotexp r = true /\ exists c r', r = c :: r' /\ num_start c = true.
Proof.
  destruct r as [|c r']; [discriminate|]. unfold finite_repr_ok. destruct (c =? 45) eqn:E; intros H.
  - destruct (ufloat_lex _ H) as [F [X _]]. cbn [forallb existsb]. rewrite F, X.
    split; [unfold is_num_char; lia|]. split; [apply orb_true_r|].
    exists c, r'. split; [reflexivity|]. unfold num_start. rewrite E. apply orb_true_r.
  - destruct (ufloat_lex _ H) as [F [X [c' [u' [Eu D]]]]]. split; [exact F|]. split; [exact X|].
    exists c, r'. split; [reflexivity|]. inversion Eu; subst. unfold num_start. rewrite D. reflexivity.
Qed.

Lemma float_repr_cases r : float_repr_ok r = true ->
  finite_repr_ok r = true \/ r = U"NaN" \/ r = U"Infinity" \/ r = U"-Infinity".
Proof.
  unfold float_repr_ok. intros H. repeat (apply orb_true_iff in H; destruct H as [H|H]);
    try (apply str_eqb_eq in H); auto.
Qed.

(** ---- values ---- *)
Lemma parse_value_space f s : parse_value f (32 :: s) = parse_value f s.
Proof. destruct f; reflexivity. Qed.

Lemma parse_value_num f c s : num_start c = true ->
  parse_value (S f) (c :: s) =
  let '(tok, r') := span_num (c :: s) in
  match parse_number tok with Some j => Some (j, r') | None => parse_special (c :: s) end.
Proof.
  unfold num_start, is_dig. intros H. cbn [parse_value skip_ws].
  replace (is_ws c) with false by (unfold is_ws; lia).
  replace (c =? 34) with false by lia. replace (c =? 91) with false by lia. replace (c =? 123) with false by lia.
  change (U"null") with [110; 117; 108; 108]. change (U"true") with [116; 114; 117; 101].
  change (U"false") with [102; 97; 108; 115; 101]. cbn [prefixb].
  replace (110 =? c) with false by lia. replace (116 =? c) with false by lia. replace (102 =? c) with false by lia.
  reflexivity.
Qed.

Lemma parse_value_number f r t j :
  forallb is_num_char r = true -> (exists c r', r = c :: r' /\ num_start c = true) -> no_num_head t ->
  parse_number r = Some j -> parse_value (S f) (r ++ t) = Some (j, t).
Proof.
  intros F [c [r' [E S]]] T P. pose proof (span_num_app r t F T) as Sp. subst r. cbn [app] in *.
  rewrite parse_value_num by exact S. rewrite Sp, P. reflexivity.
Qed.

Lemma parse_value_float f r t : float_repr_ok r = true -> no_num_head t -> parse_value (S f) (r ++ t) = Some (JFloat r, t).
Proof.
  intros H T. destruct (float_repr_cases r H) as [Hf|[->|[->| ->]]]; try reflexivity.
  destruct (finite_lex r Hf) as [F [X S]]. apply parse_value_number; try assumption.
  rewrite parse_number_unfold, X. destruct S as [c [r' [-> _]]]. reflexivity.
Qed.

Lemma parse_value_int f z t : no_num_head t -> parse_value (S f) (show_Z z ++ t) = Some (JInt z, t).
Proof.
  intros T. destruct (show_Z_lex z) as [F S]. apply parse_value_number; try assumption. apply parse_number_show_Z.
Qed.

(** first character of a value text *)
Definition vstart (c : N) : bool :=
  num_start c || (c =? 110) || (c =? 116) || (c =? 102) || (c =? 34) || (c =? 91) || (c =? 123) || (c =? 78) || (c =? 73).

Lemma num_start_vstart c : num_start c = true -> vstart c = true.
Proof. unfold vstart. intros ->. reflexivity. Qed.

Lemma dumps_head j : jwf j = true -> exists c t, dumps j = c :: t /\ vstart c = true.
Proof.
  destruct j as [| b | z | r | s | l | d]; cbn [jwf]; intros W.
  - exists 110, [117; 108; 108]. split; reflexivity.
  - destruct b; eexists _, _; split; reflexivity.
  - destruct (show_Z_lex z) as [_ [c [s [E S]]]]. exists c, s. split; [exact E|apply num_start_vstart; exact S].
  - destruct (float_repr_cases r W) as [Hf|[->|[->| ->]]]; try (eexists _, _; split; reflexivity).
    destruct (finite_lex r Hf) as [_ [_ [c [r' [E S]]]]]. exists c, r'. split; [exact E|apply num_start_vstart; exact S].
  - eexists _, _. split; reflexivity.
  - rewrite dumps_arr. eexists _, _. split; reflexivity.
  - rewrite dumps_obj. eexists _, _. split; reflexivity.
Qed.

Lemma skip_ws_vstart c t : vstart c = true -> skip_ws (c :: t) = c :: t.
Proof.
  unfold vstart, num_start, is_dig. intros H. cbn [skip_ws].
  replace (is_ws c) with false by (unfold is_ws; lia). reflexivity.
Qed.

Lemma skip_ws_44 s : skip_ws (44 :: s) = 44 :: s. Proof. reflexivity. Qed.
Lemma skip_ws_93 s : skip_ws (93 :: s) = 93 :: s. Proof. reflexivity. Qed.
Lemma skip_ws_125 s : skip_ws (125 :: s) = 125 :: s. Proof. reflexivity. Qed.
Lemma skip_ws_58 s : skip_ws (58 :: s) = 58 :: s. Proof. reflexivity. Qed.
Lemma skip_ws_34 s : skip_ws (34 :: s) = 34 :: s. Proof. reflexivity. Qed.

Section LoopFacts.
  Variable pv : str -> option (json * str).
  Hypothesis pv_space : forall s, pv (32 :: s) = pv s.

  Lemma elems_loop_space n s : elems_loop pv n (32 :: s) = elems_loop pv n s.
  Proof. destruct n; cbn [elems_loop]; [reflexivity|]. rewrite pv_space. reflexivity. Qed.

  Lemma members_loop_space n s : members_loop pv n (32 :: s) = members_loop pv n s.
  Proof. destruct n; reflexivity. Qed.

  Lemma elems_loop_ok : forall l n t, l <> [] -> (length l <= n)%nat ->
    (forall x, In x l -> forall t', no_num_head t' -> pv (dumps x ++ t') = Some (x, t')) ->
    elems_loop pv n (dumps_elems l ++ 93 :: t) = Some (l, t).
  Proof.
    induction l as [|x l IH]; intros n t NE L H; [congruence|].
    destruct n as [|n]; [cbn in L; lia|].
    destruct l as [|y l].
    - cbn [dumps_elems elems_loop]. rewrite H; [|left; reflexivity|reflexivity].
      rewrite skip_ws_93. reflexivity.
    - rewrite dumps_elems_cons, <- app_assoc. cbn [elems_loop app]. rewrite H; [|left; reflexivity|reflexivity].
      rewrite skip_ws_44. cbn [N.eqb Pos.eqb]. rewrite elems_loop_space.
      rewrite IH; [reflexivity|discriminate|cbn [length] in *; lia|].
      intros x' I. apply H. right. exact I.
  Qed.

  Lemma members_loop_ok : forall d n t, d <> [] -> (length d <= n)%nat ->
    (forall k x, In (k, x) d -> str_ok k = true) ->
    (forall k x, In (k, x) d -> forall t', no_num_head t' -> pv (dumps x ++ t') = Some (x, t')) ->
    members_loop pv n (dumps_members d ++ 125 :: t) = Some (d, t).
  Proof.
    induction d as [|[k x] d IH]; intros n t NE L K H; [congruence|].
    destruct n as [|n]; [cbn in L; lia|].
    destruct d as [|kv d].
    - rewrite dumps_members_one, <- app_assoc, dumps_str_app. cbn [members_loop app].
      rewrite skip_ws_34. cbn [N.eqb Pos.eqb]. rewrite parse_string by (eapply K; left; reflexivity).
      rewrite skip_ws_58. cbn [N.eqb Pos.eqb]. rewrite pv_space.
      rewrite (H k x); [|left; reflexivity|reflexivity].
      rewrite skip_ws_125. reflexivity.
    - rewrite dumps_members_cons, <- app_assoc, dumps_str_app. cbn [members_loop app].
      rewrite skip_ws_34. cbn [N.eqb Pos.eqb]. rewrite parse_string by (eapply K; left; reflexivity).
      rewrite skip_ws_58. cbn [N.eqb Pos.eqb]. rewrite pv_space. rewrite <- app_assoc. cbn [app].
      rewrite (H k x); [|left; reflexivity|reflexivity].
      rewrite skip_ws_44. cbn [N.eqb Pos.eqb]. rewrite members_loop_space.
      rewrite IH; [reflexivity|discriminate|cbn [length] in *; lia| |].
      + intros k' x' I. apply (K k' x'). right. exact I.
      + intros k' x' I. apply (H k' x'). right. exact I.
  Qed.
End LoopFacts.

Definition tail_ok (j : json) (t : str) : Prop :=
  match j with JInt _ | JFloat _ => no_num_head t | _ => True end.
Lemma tail_ok_of j t : no_num_head t -> tail_ok j t.
Proof. destruct j; cbn; trivial. Qed.

Lemma jsize_pos j : (1 <= jsize j)%nat.
Proof. destruct j; cbn; lia. Qed.

Lemma jsize_elems l :
  (length l <= fold_right (fun x n => jsize x + n) 0 l)%nat /\
  forall x, In x l -> (jsize x <= fold_right (fun x n => jsize x + n) 0 l)%nat.
Proof.
  induction l as [|y l [IH1 IH2]]; cbn [fold_right length]; [split; [lia|intros x []]|].
  pose proof (jsize_pos y). split; [lia|]. intros x [->|I]; [lia|]. specialize (IH2 x I). lia.
Qed.

Lemma jsize_members (d : list (str * json)) :
  (length d <= fold_right (fun kv n => jsize (snd kv) + n) 0 d)%nat /\
  forall k x, In (k, x) d -> (jsize x <= fold_right (fun kv n => jsize (snd kv) + n) 0 d)%nat.
Proof.
  induction d as [|[k' y] d [IH1 IH2]]; cbn [fold_right length snd]; [split; [lia|intros k x []]|].
  pose proof (jsize_pos y). split; [lia|]. intros k x [E|I]; [inversion E; subst; lia|]. specialize (IH2 k x I). lia.
Qed.

Lemma parse_value_str f r :
  parse_value (S f) (34 :: r) =
  match parse_chars (S (length r)) r with Some (cs, r') => Some (JStr cs, r') | None => None end.
Proof. reflexivity. Qed.
Lemma parse_value_arr f r :
  parse_value (S f) (91 :: r) =
  match skip_ws r with
  | [] => None
  | (c1 :: r') as r1 =>
      if c1 =? 93 then Some (JArr [], r')
      else match elems_loop (parse_value f) f r1 with Some (xs, r'') => Some (JArr xs, r'') | None => None end
  end.
Proof. reflexivity. Qed.
Lemma parse_value_obj f r :
  parse_value (S f) (123 :: r) =
  match skip_ws r with
  | [] => None
  | (c1 :: r') as r1 =>
      if c1 =? 125 then Some (JObj [], r')
      else match members_loop (parse_value f) f r1 with Some (xs, r'') => Some (JObj xs, r'') | None => None end
  end.
Proof. reflexivity. Qed.

(** The parser reads back the text of a well-formed tree and stops exactly at its end, whatever
    follows (for a number: anything that does not continue the number). *)
Theorem parse_dumps : forall fuel j t,
  jwf j = true -> (jsize j < fuel)%nat -> tail_ok j t -> parse_value fuel (dumps j ++ t) = Some (j, t).
Proof.
  induction fuel as [|f IH]; intros j t W L T; [lia|].
  destruct j as [| b | z | r | s | l | d].
  - reflexivity.
  - destruct b; reflexivity.
  - apply parse_value_int; exact T.
  - apply parse_value_float; [exact W|exact T].
  - cbn [dumps]. rewrite dumps_str_app, parse_value_str, parse_string by exact W. reflexivity.
  - rewrite dumps_arr. cbn [app]. rewrite <- app_assoc. cbn [app]. rewrite parse_value_arr.
    destruct l as [|x l]; [reflexivity|].
    cbn [jwf] in W. cbn [jsize] in L.
    destruct (jsize_elems (x :: l)) as [J1 J2].
    assert (Wx : forall y, In y (x :: l) -> jwf y = true) by (apply forallb_forall; exact W).
    destruct (dumps_head x (Wx x (or_introl eq_refl))) as [c [t' [E V]]].
    assert (Hd : exists s', dumps_elems (x :: l) ++ 93 :: t = c :: s').
    { destruct l as [|y l]; [cbn [dumps_elems]|rewrite dumps_elems_cons]; rewrite E; eexists; reflexivity. }
    destruct Hd as [s' Es]. rewrite Es, skip_ws_vstart by exact V.
    replace (c =? 93) with false by (unfold vstart, num_start, is_dig in V; lia).
    rewrite <- Es, (elems_loop_ok (parse_value f) (parse_value_space f)); [reflexivity|discriminate|lia|].
    intros y I t1 T1. apply IH; [apply Wx; exact I|specialize (J2 y I); lia|apply tail_ok_of; exact T1].
  - rewrite dumps_obj. cbn [app]. rewrite <- app_assoc. cbn [app]. rewrite parse_value_obj.
    destruct d as [|[k x] d]; [reflexivity|].
    cbn [jwf] in W. cbn [jsize] in L.
    destruct (jsize_members ((k, x) :: d)) as [J1 J2].
    assert (Wx : forall kv, In kv ((k, x) :: d) -> str_ok (fst kv) && jwf (snd kv) = true) by (apply forallb_forall; exact W).
    assert (Hd : exists s', dumps_members ((k, x) :: d) ++ 125 :: t = 34 :: s').
    { destruct d as [|kv d]; [rewrite dumps_members_one|rewrite dumps_members_cons]; eexists; reflexivity. }
    destruct Hd as [s' Es]. rewrite Es, skip_ws_34. cbn [N.eqb Pos.eqb].
    rewrite <- Es, (members_loop_ok (parse_value f) (parse_value_space f)); [reflexivity|discriminate|lia| |].
    + intros k' y I. specialize (Wx _ I). apply andb_true_iff in Wx. apply Wx.
    + intros k' y I t1 T1. specialize (Wx _ I). apply andb_true_iff in Wx.
      apply IH; [apply Wx|specialize (J2 k' y I); lia|apply tail_ok_of; exact T1].
Qed.

(** ---- the fuel [loads] supplies is enough ---- *)
Lemma length_elems l :
  Forall (fun x => jwf x = true -> (jsize x <= length (dumps x))%nat) l -> forallb jwf l = true ->
  (fold_right (fun x n => jsize x + n) 0 l <= length (dumps_elems l))%nat.
Proof.
  induction 1 as [|x l Hx Hl IH]; intros W; [cbn; lia|].
  cbn [forallb] in W. apply andb_true_iff in W. destruct W as [Wx Wl]. specialize (Hx Wx). specialize (IH Wl).
  destruct l as [|y l].
  - cbn [dumps_elems fold_right]. lia.
  - rewrite dumps_elems_cons, app_length. cbn [fold_right length] in *. lia.
Qed.

Lemma length_members (d : list (str * json)) :
  Forall (fun kv => jwf (snd kv) = true -> (jsize (snd kv) <= length (dumps (snd kv)))%nat) d ->
  forallb (fun kv => str_ok (fst kv) && jwf (snd kv)) d = true ->
  (fold_right (fun kv n => jsize (snd kv) + n) 0 d <= length (dumps_members d))%nat.
Proof.
  induction 1 as [|[k x] d Hx Hd IH]; intros W; [cbn; lia|].
  cbn [forallb fst snd] in W, Hx. apply andb_true_iff in W. destruct W as [Wx Wd].
  apply andb_true_iff in Wx. destruct Wx as [_ Wx]. specialize (Hx Wx). specialize (IH Wd).
  destruct d as [|kv d].
  - rewrite dumps_members_one, app_length. cbn [fold_right length snd]. lia.
  - rewrite dumps_members_cons, !app_length. cbn [length]. rewrite app_length. cbn [fold_right length snd] in *. lia.
Qed.

Lemma jsize_le j : jwf j = true -> (jsize j <= length (dumps j))%nat.
Proof.
  induction j using json_ind'; intros W;
    try (destruct (dumps_head _ W) as [c [t [E _]]]; rewrite E; cbn; lia).
  - rewrite dumps_arr. cbn [length jsize]. rewrite app_length. cbn [jwf] in W.
    pose proof (length_elems l H W). cbn [length]. lia.
  - rewrite dumps_obj. cbn [length jsize]. rewrite app_length. cbn [jwf] in W.
    pose proof (length_members d H W). cbn [length]. lia.
Qed.

(** ---- the four facts ---- *)
Theorem loads_dumps j : jwf j = true -> loads (dumps j) = Some j.
Proof.
  intros W.
  assert (P : parse_value (S (length (dumps j))) (dumps j ++ []) = Some (j, [])).
  { apply parse_dumps; [exact W|pose proof (jsize_le j W); lia|destruct j; exact I]. }
  rewrite app_nil_r in P. unfold loads. rewrite P. reflexivity.
Qed.

Theorem dumps_inj a b : jwf a = true -> jwf b = true -> dumps a = dumps b -> a = b.
Proof.
  intros Wa Wb E. pose proof (loads_dumps a Wa) as La. rewrite E, (loads_dumps b Wb) in La. congruence.
Qed.

Theorem dumps_delim a b x y :
  jwf a = true -> jwf b = true -> container a -> container b -> dumps a ++ x = dumps b ++ y -> a = b /\ x = y.
Proof.
  intros Wa Wb Ca Cb E.
  assert (Pa : parse_value (S (jsize a + jsize b)) (dumps a ++ x) = Some (a, x)).
  { apply parse_dumps; [exact Wa|lia|destruct a; try exact I; destruct Ca]. }
  assert (Pb : parse_value (S (jsize a + jsize b)) (dumps b ++ y) = Some (b, y)).
  { apply parse_dumps; [exact Wb|lia|destruct b; try exact I; destruct Cb]. }
  rewrite E, Pb in Pa. inversion Pa. split; reflexivity.
Qed.

(** ---- outside the domain none of them holds ---- *)
Theorem dumps_not_injective_float : JFloat (U"null") <> JNull /\ dumps (JFloat (U"null")) = dumps JNull.
Proof. split; [discriminate|reflexivity]. Qed.

Theorem dumps_not_injective_surrogates :
  JStr [55296; 56320] <> JStr [65536] /\ dumps (JStr [55296; 56320]) = dumps (JStr [65536]).
Proof. split; [discriminate|reflexivity]. Qed.

Theorem dumps_not_delimited :
  JArr [JFloat (U"1], [2")] <> JArr [JInt 1] /\
  dumps (JArr [JFloat (U"1], [2")]) ++ [] = dumps (JArr [JInt 1]) ++ U", [2]".
Proof. split; [discriminate|reflexivity]. Qed.

(** no function at all inverts [dumps] on every [json] term *)
Theorem loads_dumps_unsatisfiable (lds : str -> option json) : ~ (forall j, lds (dumps j) = Some j).
Proof.
  intros H. pose proof (H (JFloat (U"null"))) as A. pose proof (H JNull) as B.
  change (dumps (JFloat (U"null"))) with (dumps JNull) in A. rewrite B in A. discriminate.
Qed.

(** ---- the serializer stays inside the domain ---- *)
Section Flatten.
  Variable qp : list N -> str.
  Hypothesis qp_ok : forall b, is_bytes b = true -> str_ok (qp b) = true.

  Definition jitem_ok (kv : str * json) : bool := str_ok (fst kv) && jwf (snd kv).

  Definition fgood (v : pyval) : Prop :=
    wf v = true -> leaves_ok v = true -> forall j, flatten qp v = Some j -> jwf j = true.

  Lemma list_jwf l : Forall fgood l -> forallb wf l = true -> forallb leaves_ok l = true ->
    forall js, opt_map_list (flatten qp) l = Some js -> forallb jwf js = true.
  Proof.
    induction 1 as [|x l Hx Hl IH]; cbn [forallb opt_map_list]; intros W F js E.
    - inversion E; reflexivity.
    - apply andb_true_iff in W. destruct W as [Wx Wl]. apply andb_true_iff in F. destruct F as [Fx Fl].
      destruct (flatten qp x) as [j|] eqn:Ex; [|discriminate].
      destruct (opt_map_list (flatten qp) l) as [js'|] eqn:El; [|discriminate].
      inversion E; subst. cbn [forallb]. rewrite (Hx Wx Fx j Ex), (IH Wl Fl js' eq_refl). reflexivity.
  Qed.

  Lemma items_jwf d : Forall (fun kv => fgood (snd kv)) d -> forallb item_ok d = true ->
    forallb (fun kv => leaves_ok (snd kv)) d = true ->
    forall js, opt_map_items kept (flatten qp) d = Some js -> forallb jitem_ok js = true.
  Proof.
    induction 1 as [|[k x] d Hx Hd IH]; cbn [forallb opt_map_items fst snd]; intros W F js E.
    - inversion E; reflexivity.
    - apply andb_true_iff in W. destruct W as [Wx Wd]. apply andb_true_iff in F. destruct F as [Fx Fd].
      unfold item_ok in Wx. cbn [fst snd] in Wx, Hx.
      apply andb_true_iff in Wx. destruct Wx as [Wk Wx]. apply andb_true_iff in Wk. destruct Wk as [Wr Wk].
      assert (Kk : kept k = true) by exact Wr. rewrite Kk in E.
      destruct (flatten qp x) as [j|] eqn:Ex; [|discriminate].
      destruct (opt_map_items kept (flatten qp) d) as [js'|] eqn:Ed; [|discriminate].
      inversion E; subst. cbn [forallb]. unfold jitem_ok at 1. cbn [fst snd].
      rewrite Wk, (Hx Wx Fx j Ex), (IH Wd Fd js' eq_refl). reflexivity.
  Qed.

  Lemma sort_jitems js : forallb jitem_ok js = true -> forallb jitem_ok (sort_items js) = true.
  Proof.
    intros H. apply forallb_forall. intros kv I. rewrite forallb_forall in H. apply H.
    eapply Permutation_in; [apply sort_perm|exact I].
  Qed.

  Theorem flatten_jwf : forall v, wf v = true -> leaves_ok v = true -> forall j, flatten qp v = Some j -> jwf j = true.
  Proof.
    induction v using pyval_ind'; intros W F j E; cbn [flatten] in E.
    - inversion E; reflexivity.
    - inversion E; reflexivity.
    - inversion E; reflexivity.
    - inversion E; subst. exact F.
    - inversion E; subst. exact W.
    - inversion E; subst. cbn [jwf forallb fst snd]. rewrite (qp_ok _ F). reflexivity.
    - cbn [wf leaves_ok] in W, F. destruct (opt_map_list (flatten qp) l) as [js|] eqn:El; [|discriminate].
      inversion E; subst. cbn [jwf]. exact (list_jwf l H W F js El).
    - cbn [wf leaves_ok] in W, F. destruct (opt_map_list (flatten qp) l) as [js|] eqn:El; [|discriminate].
      inversion E; subst. cbn [jwf forallb fst snd]. rewrite (list_jwf l H W F js El). reflexivity.
    - cbn [wf leaves_ok] in W, F. destruct (opt_map_list (flatten qp) l) as [js|] eqn:El; [|discriminate].
      inversion E; subst. cbn [jwf forallb fst snd]. rewrite (list_jwf l H W F js El). reflexivity.
    - cbn [wf leaves_ok] in W, F. apply andb_true_iff in W. destruct W as [_ W].
      destruct (opt_map_items kept (flatten qp) d) as [js|] eqn:Ed; [|discriminate].
      inversion E; subst. cbn [jwf]. apply sort_jitems. exact (items_jwf d H W F js Ed).
    - cbn [wf leaves_ok] in W, F. apply andb_true_iff in W. destruct W as [W Wi].
      apply andb_true_iff in W. destruct W as [W _]. apply andb_true_iff in W. destruct W as [Wc _].
      destruct d as [|kv d].
      + inversion E; subst. cbn [jwf forallb fst snd]. rewrite Wc. reflexivity.
      + destruct (opt_map_items kept (flatten qp) (kv :: d)) as [js|] eqn:Ed; [|discriminate].
        inversion E; subst. cbn [jwf forallb fst snd]. rewrite Wc.
        change (forallb (fun kv0 => str_ok (fst kv0) && jwf (snd kv0)) (sort_items js)) with (forallb jitem_ok (sort_items js)).
        rewrite (sort_jitems js (items_jwf _ H Wi F js Ed)). reflexivity.
    - inversion E; subst. cbn [jwf forallb fst snd]. cbn [wf] in W. rewrite W. reflexivity.
    - discriminate.
  Qed.
End Flatten.

(** the concrete quoted-printable encoder of the correspondence runs emits printable ASCII only *)
Lemma qp_simple_ok b : is_bytes b = true -> str_ok (qp_simple b) = true.
Proof.
  unfold qp_simple, str_ok, is_bytes. induction b as [|x b IH]; [reflexivity|].
  cbn [flat_map forallb]. intros H. apply andb_true_iff in H. destruct H as [Hx Hb].
  rewrite forallb_app, (IH Hb), andb_true_r. unfold qp_byte.
  destruct ((33 <=? x) && (x <=? 126) && negb (x =? 61) && negb (x =? 46)) eqn:E.
  - cbn [forallb]. unfold surrogate. lia.
  - cbn [forallb]. unfold surrogate, HEXU.
    assert (x mod 16 < 16) by (apply N.mod_lt; discriminate).
    assert (x / 16 < 16) by (apply N.div_lt_upper_bound; lia).
    destruct (x / 16 <? 10) eqn:E1; destruct (x mod 16 <? 10) eqn:E2; lia.
Qed.

(** ... and its decoder inverts it (on every list, bytes or not) *)
Lemma hexval_u_HEXU d : hexval_u (HEXU d) = d.
Proof. unfold hexval_u, HEXU. destruct (d <? 10) eqn:E; [replace (48 + d <? 58) with true by lia|replace (55 + d <? 58) with false by lia]; lia. Qed.

Lemma qp_dec_simple_byte x s : qp_dec_simple (qp_byte x ++ s) = x :: qp_dec_simple s.
Proof.
  unfold qp_byte. destruct ((33 <=? x) && (x <=? 126) && negb (x =? 61) && negb (x =? 46)) eqn:E.
  - cbn [app qp_dec_simple]. replace (x =? 61) with false by lia. reflexivity.
  - cbn [app qp_dec_simple N.eqb Pos.eqb]. rewrite !hexval_u_HEXU. f_equal.
    pose proof (N.div_mod x 16). lia.
Qed.

Theorem qp_simple_roundtrip b : qp_dec_simple (qp_simple b) = b.
Proof.
  unfold qp_simple. induction b as [|x b IH]; [reflexivity|].
  cbn [flat_map]. rewrite qp_dec_simple_byte, IH. reflexivity.
Qed.
