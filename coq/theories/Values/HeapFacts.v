(** Facts about the heap model (Values/Heap.v) behind the C11 theorems: encoding reads only
    the locations reachable from its root; decoding allocates only new locations and never
    points back into the old heap; in-place mutation touches one location. *)
From Playback Require Import Base.Str Base.StrFacts Values.PyVal Values.SortFacts Values.Codec Values.Heap.
From Coq Require Import Permutation Lia Arith.
Open Scope list_scope.

(** ---- vocabulary ------------------------------------------------------------------------- *)

Definition ref_in (P : nat -> Prop) (r : ref) : Prop :=
  match r with RAtom _ => True | RLoc l => P l end.

(** locations in [n, m) *)
Definition inr (n m : nat) (l : nat) : Prop := n <= l < m.

(** [l] is reachable from [r] following the references stored in the nodes of [h] *)
Inductive reach (h : heap) : ref -> nat -> Prop :=
| reach_here l : reach h (RLoc l) l
| reach_step l nd c l' :
    nth_error h l = Some nd -> In c (children nd) -> reach h c l' -> reach h (RLoc l) l'.

(** the nodes at the locations in [P] only refer to locations in [P] *)
Definition closed_set (P : nat -> Prop) (h : heap) : Prop :=
  forall l nd, P l -> nth_error h l = Some nd -> Forall (ref_in P) (children nd).

(** no dangling reference *)
Definition heap_wf (h : heap) : Prop := closed_set (fun l => l < length h) h.

Definition agree_on (P : nat -> Prop) (h1 h2 : heap) : Prop :=
  forall l, P l -> nth_error h1 l = nth_error h2 l.

Lemma ref_in_impl (P Q : nat -> Prop) r : (forall l, P l -> Q l) -> ref_in P r -> ref_in Q r.
Proof. destruct r; cbn; auto. Qed.

Lemma Forall_ref_in_impl (P Q : nat -> Prop) rs :
  (forall l, P l -> Q l) -> Forall (ref_in P) rs -> Forall (ref_in Q) rs.
Proof. intros H. apply Forall_impl. intros r. apply ref_in_impl, H. Qed.

(** everything reachable from a reference into a closed set stays in the set *)
Lemma reach_closed P h r l : closed_set P h -> ref_in P r -> reach h r l -> P l.
Proof.
  intros C Hr R. induction R as [l|l nd c l' E I R IH]; [exact Hr|].
  apply IH. pose proof (C l nd Hr E) as F. rewrite Forall_forall in F. apply F, I.
Qed.

(** reachability only depends on the nodes it passes through *)
Lemma reach_agree h1 h2 r l :
  (forall x, reach h1 r x -> nth_error h1 x = nth_error h2 x) -> reach h1 r l -> reach h2 r l.
Proof.
  intros A R. induction R as [l|l nd c l' E I R IH]; [constructor|].
  eapply reach_step; [rewrite <- (A l (reach_here _ _)); exact E|exact I|].
  apply IH. intros x Rx. apply A. eapply reach_step; eauto.
Qed.

(** ---- heap_set ------------------------------------------------------------------------------ *)

Lemma heap_set_length h : forall l nd, length (heap_set h l nd) = length h.
Proof. induction h as [|x h IH]; intros [|l] nd; cbn; auto. Qed.

Lemma heap_set_same h : forall l nd, l < length h -> nth_error (heap_set h l nd) l = Some nd.
Proof.
  induction h as [|x h IH]; intros [|l] nd L; cbn in *; try lia; [reflexivity|]. apply IH. lia.
Qed.

Lemma heap_set_other h : forall l nd l', l' <> l -> nth_error (heap_set h l nd) l' = nth_error h l'.
Proof.
  induction h as [|x h IH]; intros [|l] nd [|l'] N; cbn; try reflexivity; try congruence.
  apply IH. congruence.
Qed.

Lemma nth_error_app_old {A} (h e : list A) l : l < length h -> nth_error (h ++ e) l = nth_error h l.
Proof. intros L. apply nth_error_app1, L. Qed.

Lemma nth_error_snoc_new {A} (h : list A) x : nth_error (h ++ [x]) (length h) = Some x.
Proof. rewrite nth_error_app2 by lia. rewrite Nat.sub_diag. reflexivity. Qed.

(** a heap that only grew and kept its old part is the old heap plus an extension *)
Lemma agree_prefix (h h' : heap) :
  length h <= length h' -> (forall l, l < length h -> nth_error h' l = nth_error h l) ->
  exists e, h' = h ++ e.
Proof.
  revert h'. induction h as [|x h IH]; intros h' L A; [exists h'; reflexivity|].
  destruct h' as [|y h']; cbn in L; [lia|].
  pose proof (A 0 ltac:(cbn; lia)) as A0. cbn in A0. injection A0 as ->.
  destruct (IH h') as [e ->]; [lia| |exists e; reflexivity].
  intros l Hl. apply (A (S l)). cbn. lia.
Qed.

(** ---- threading ------------------------------------------------------------------------------ *)

Lemma thread_list_ext {St A B} (f g : St -> A -> hres (St * B)) l :
  (forall s x, In x l -> f s x = g s x) -> forall s, thread_list f s l = thread_list g s l.
Proof.
  induction l as [|x l IH]; intros E s; cbn; [reflexivity|].
  rewrite (E s x (or_introl eq_refl)). destruct (g s x) as [[s1 y]|e]; [|reflexivity].
  rewrite IH; [reflexivity|]. intros s' x' I. apply E. right. exact I.
Qed.

Lemma thread_items_ext {St A B} (f g : St -> A -> hres (St * B)) d :
  (forall s kv, In kv d -> f s (snd kv) = g s (snd kv)) -> forall s, thread_items f s d = thread_items g s d.
Proof.
  intros E s. unfold thread_items. apply thread_list_ext. intros s' kv I. unfold on_item. rewrite (E s' kv I). reflexivity.
Qed.

Lemma In_pick_items {A} (d : list (str * A)) kv : In kv (pick_items d) -> In kv d.
Proof.
  unfold pick_items. intros I. apply filter_In in I. destruct I as [I _].
  eapply Permutation_in; [apply sort_perm|exact I].
Qed.

Lemma In_sort_items {A} (d : list (str * A)) kv : In kv (sort_items d) <-> In kv d.
Proof. split; apply Permutation_in; [apply sort_perm|apply Permutation_sym, sort_perm]. Qed.

Lemma In_children_items (d : list (str * ref)) kv : In kv d -> In (snd kv) (map snd d).
Proof. apply in_map. Qed.

(** ---- encoding reads only what is reachable from its root ----------------------------------- *)

Section Enc.
  Variable qp : list N -> str.

  Theorem encode_reach_local : forall fuel h1 h2 seen r,
    (forall l, reach h1 r l -> nth_error h1 l = nth_error h2 l) ->
    encode_h qp fuel h2 seen r = encode_h qp fuel h1 seen r.
  Proof.
    induction fuel as [|f IH]; intros h1 h2 seen r A; [reflexivity|].
    cbn [encode_h]. destruct r as [a|l]; [reflexivity|].
    rewrite <- (A l (reach_here _ _)).
    destruct (nth_error h1 l) as [nd|] eqn:E; [|reflexivity].
    assert (K : forall c, In c (children nd) -> forall s, encode_h qp f h2 s c = encode_h qp f h1 s c).
    { intros c I s. apply IH. intros x Rx. apply A. eapply reach_step; eauto. }
    destruct nd as [rs|rs|rs|d|c d]; cbn [children] in K.
    - destruct (index_of l seen); [reflexivity|].
      rewrite (thread_list_ext (encode_h qp f h2) (encode_h qp f h1)); [reflexivity|]. intros s x I. apply K, I.
    - rewrite (thread_list_ext (encode_h qp f h2) (encode_h qp f h1)); [reflexivity|]. intros s x I. apply K, I.
    - rewrite (thread_list_ext (encode_h qp f h2) (encode_h qp f h1)); [reflexivity|]. intros s x I. apply K, I.
    - rewrite (thread_items_ext (encode_h qp f h2) (encode_h qp f h1)); [reflexivity|].
      intros s kv I. apply K, in_map, In_pick_items, I.
    - destruct (index_of l seen); [reflexivity|]. destruct d as [|kv0 d0]; [reflexivity|].
      rewrite (thread_items_ext (encode_h qp f h2) (encode_h qp f h1)); [reflexivity|].
      intros s kv I. apply K, in_map, In_pick_items, I.
  Qed.

  (** the spike's form: a root below [n] in a heap closed below [n] *)
  Corollary encode_local n h1 h2 :
    closed_set (fun l => l < n) h1 -> agree_on (fun l => l < n) h1 h2 ->
    forall fuel seen r, ref_in (fun l => l < n) r -> encode_h qp fuel h2 seen r = encode_h qp fuel h1 seen r.
  Proof.
    intros C A fuel seen r Hr. apply encode_reach_local. intros l R. apply A.
    eapply (reach_closed (fun l => l < n)); eauto.
  Qed.

  (** a reference into a closed region [P]: only [P] is read *)
  Corollary encode_region (P : nat -> Prop) h1 h2 :
    closed_set P h1 -> agree_on P h1 h2 ->
    forall fuel seen r, ref_in P r -> encode_h qp fuel h2 seen r = encode_h qp fuel h1 seen r.
  Proof.
    intros C A fuel seen r Hr. apply encode_reach_local. intros l R. apply A.
    eapply (reach_closed P); eauto.
  Qed.
End Enc.

(** ---- decoding allocates only new locations ---------------------------------------------------- *)

(** invariant of the decoder state, relative to the length [n] of the heap the decode started
    from: the id table and every node at a location >= n only refer to locations in [n, length) *)
Definition dinv (n : nat) (st : dst) : Prop :=
  n <= length (fst st) /\
  Forall (ref_in (inr n (length (fst st)))) (snd st) /\
  (forall l nd, n <= l -> nth_error (fst st) l = Some nd ->
                Forall (ref_in (inr n (length (fst st)))) (children nd)).

(** the heap only grows and the locations below [n] are untouched *)
Definition dext (n : nat) (st st' : dst) : Prop :=
  length (fst st) <= length (fst st') /\
  (forall l, l < n -> nth_error (fst st') l = nth_error (fst st) l).

Definition dgood (n : nat) (st st' : dst) (r : ref) : Prop :=
  dinv n st' /\ dext n st st' /\ ref_in (inr n (length (fst st'))) r.

Lemma inr_mono n m m' l : m <= m' -> inr n m l -> inr n m' l.
Proof. unfold inr. lia. Qed.

Lemma ref_inr_mono n m m' r : m <= m' -> ref_in (inr n m) r -> ref_in (inr n m') r.
Proof. intros L. apply ref_in_impl. intros l. apply inr_mono, L. Qed.

Lemma Forall_inr_mono n m m' rs : m <= m' -> Forall (ref_in (inr n m)) rs -> Forall (ref_in (inr n m')) rs.
Proof. intros L. apply Forall_impl. intros r. apply ref_inr_mono, L. Qed.

Lemma dext_refl n st : dext n st st.
Proof. split; auto. Qed.

Lemma dext_trans n a b c : dext n a b -> dext n b c -> dext n a c.
Proof. intros [L1 A1] [L2 A2]. split; [lia|]. intros l Hl. rewrite A2, A1; auto. Qed.

Lemma alloc_good n st nd track st1 idx :
  alloc st nd track = (st1, idx) -> dinv n st -> children nd = [] ->
  dinv n st1 /\ dext n st st1 /\ inr n (length (fst st1)) idx /\ idx = length (fst st).
Proof.
  unfold alloc. intros E (L & O & C) K. injection E as <- <-. cbn [fst snd].
  assert (M : length (fst st) <= length (fst st ++ [nd])) by (rewrite app_length; lia).
  assert (M1 : length (fst st ++ [nd]) = S (length (fst st))) by (rewrite app_length; cbn; lia).
  split; [|split; [|split]].
  - unfold dinv. cbn [fst snd]. split; [lia|split].
    + destruct track.
      * apply Forall_app. split; [eapply Forall_inr_mono; eauto|]. constructor; [|constructor]. cbn. unfold inr. lia.
      * eapply Forall_inr_mono; eauto.
    + intros l nd' Hl E.
      destruct (Nat.lt_ge_cases l (length (fst st))) as [Lt|Ge].
      * rewrite nth_error_app1 in E by exact Lt. eapply Forall_inr_mono; [exact M|]. eapply C; eauto.
      * rewrite nth_error_app2 in E by exact Ge.
        destruct (l - length (fst st)) as [|k] eqn:D; cbn in E; [|destruct k; discriminate].
        injection E as <-. rewrite K. constructor.
  - unfold dext. cbn [fst snd]. split; [lia|]. intros l Hl. apply nth_error_app1. lia.
  - unfold inr. lia.
  - reflexivity.
Qed.

Lemma fill_dgood n st st1 st2 idx nd :
  dext n st st1 -> dinv n st2 -> dext n st1 st2 -> inr n (length (fst st1)) idx ->
  Forall (ref_in (inr n (length (fst st2)))) (children nd) ->
  dgood n st (fill st2 idx nd) (RLoc idx).
Proof.
  intros [L1 A1] (L & O & C) [L2 A2] R F. unfold fill, dgood, dinv, dext. cbn [fst snd].
  rewrite heap_set_length. unfold inr in R.
  split; [split; [|split]|split; [split|]].
  - exact L.
  - exact O.
  - intros l nd' Hl E. destruct (Nat.eq_dec l idx) as [->|N].
    + rewrite heap_set_same in E by lia. injection E as <-. exact F.
    + rewrite heap_set_other in E by exact N. eapply C; eauto.
  - lia.
  - intros l Hl. rewrite heap_set_other by lia. rewrite A2, A1; auto.
  - cbn. unfold inr. lia.
Qed.

Lemma on_item_ok {St A B} (g : St -> A -> hres (St * B)) st kv st' y :
  on_item g st kv = HOk (st', y) -> exists r, g st (snd kv) = HOk (st', r) /\ y = (fst kv, r).
Proof.
  unfold on_item. destruct (g st (snd kv)) as [[s1 r]|e]; [|discriminate].
  intros E. injection E as <- <-. eauto.
Qed.

Lemma thread_good {A B} n (f : dst -> A -> hres (dst * B)) (proj : B -> ref) (pre : dst -> A -> Prop) :
  (forall st st' x, dext n st st' -> pre st x -> pre st' x) ->
  (forall st x st' y, dinv n st -> pre st x -> f st x = HOk (st', y) -> dgood n st st' (proj y)) ->
  forall l st st' ys, dinv n st -> Forall (pre st) l -> thread_list f st l = HOk (st', ys) ->
    dinv n st' /\ dext n st st' /\ Forall (fun y => ref_in (inr n (length (fst st'))) (proj y)) ys.
Proof.
  intros Mono Step. induction l as [|x l IH]; intros st st' ys I P E; cbn in E.
  - injection E as <- <-. split; [exact I|split; [apply dext_refl|constructor]].
  - destruct (f st x) as [[s1 y]|e] eqn:E1; [|discriminate].
    destruct (thread_list f s1 l) as [[s2 ys']|e] eqn:E2; [|discriminate].
    injection E as <- <-. inversion P as [|? ? Px Pl]; subst.
    destruct (Step _ _ _ _ I Px E1) as (I1 & X1 & R1).
    destruct (IH s1 s2 ys' I1) as (I2 & X2 & F2); [|exact E2|].
    { eapply Forall_impl; [|exact Pl]. intros a. apply Mono, X1. }
    split; [exact I2|split].
    + eapply dext_trans; eauto.
    + constructor; [|exact F2]. eapply ref_inr_mono; [|exact R1]. apply X2.
Qed.

Lemma thread_items_good {A} n (g : dst -> A -> hres (dst * ref)) (pre : dst -> A -> Prop) :
  (forall st st' x, dext n st st' -> pre st x -> pre st' x) ->
  (forall st x st' r, dinv n st -> pre st x -> g st x = HOk (st', r) -> dgood n st st' r) ->
  forall d st st' d', dinv n st -> Forall (fun kv => pre st (snd kv)) d -> thread_items g st d = HOk (st', d') ->
    dinv n st' /\ dext n st st' /\ Forall (ref_in (inr n (length (fst st')))) (map snd d').
Proof.
  intros Mono Step d st st' d' I P E. unfold thread_items in E.
  destruct (thread_good n (on_item g) snd (fun st kv => pre st (snd kv))) with (l := d) (st := st) (st' := st') (ys := d')
    as (I' & X' & F'); auto.
  - intros s s' kv. apply Mono.
  - intros s kv s' y Is Ps Ey. apply on_item_ok in Ey. destruct Ey as (r & Er & ->). cbn. eapply Step; eauto.
  - split; [exact I'|split; [exact X'|]]. rewrite Forall_map. exact F'.
Qed.

Lemma Forall_sort_items {A} (P : str * A -> Prop) d : Forall P d -> Forall P (sort_items d).
Proof.
  intros F. rewrite Forall_forall in *. intros kv I. apply F. apply In_sort_items, I.
Qed.

Lemma dinv_node_items n st l d :
  dinv n st -> n <= l -> nth_error (fst st) l = Some (NDict d) ->
  Forall (fun kv : str * ref => ref_in (inr n (length (fst st))) (snd kv)) d.
Proof.
  intros (_ & _ & C) Hl E. pose proof (C l _ Hl E) as F. cbn in F. rewrite Forall_map in F. exact F.
Qed.

Lemma re_restore_good n : forall fuel st r st' r',
  dinv n st -> ref_in (inr n (length (fst st))) r -> re_restore fuel st r = HOk (st', r') -> dgood n st st' r'.
Proof.
  induction fuel as [|f IH]; intros st r st' r' I R E; [discriminate|].
  cbn [re_restore] in E. destruct r as [a|l].
  { injection E as <- <-. split; [exact I|split; [apply dext_refl|exact R]]. }
  cbn in R.
  assert (Mono : forall s s' (x : ref), dext n s s' -> ref_in (inr n (length (fst s))) x -> ref_in (inr n (length (fst s'))) x).
  { intros s s' x X. apply ref_inr_mono, X. }
  destruct (nth_error (fst st) l) as [nd|] eqn:En; [|discriminate].
  assert (Step : forall s (x : ref) s' y, dinv n s -> ref_in (inr n (length (fst s))) x ->
                 re_restore f s x = HOk (s', y) -> dgood n s s' y).
  { intros s x s' y Is Ps Ey. eapply IH; eauto. }
  destruct nd as [rs|rs|rs|d|c d];
    try (injection E as <- <-; split; [exact I|split; [apply dext_refl|exact R]]).
  - destruct (alloc st (NList []) true) as [st1 idx] eqn:EA.
    destruct (thread_list (re_restore f) st1 rs) as [[st2 rs']|e] eqn:ET; [|discriminate].
    injection E as <- <-.
    destruct (alloc_good n _ _ _ _ _ EA I eq_refl) as (I1 & X1 & R1 & _).
    assert (P1 : Forall (ref_in (inr n (length (fst st1)))) rs).
    { destruct I as (_ & _ & C). eapply Forall_inr_mono; [apply X1|]. apply (C l _ (proj1 R) En). }
    destruct (thread_good n (re_restore f) (fun r => r) (fun s x => ref_in (inr n (length (fst s))) x) Mono Step
                rs st1 st2 rs' I1 P1 ET) as (I2 & X2 & F2).
    eapply fill_dgood; eauto.
  - destruct (has_any DISPATCH_TAGS d); [discriminate|].
    destruct (alloc st (NDict []) false) as [st1 idx] eqn:EA.
    destruct (thread_items (re_restore f) st1 (sort_items d)) as [[st2 d']|e] eqn:ET; [|discriminate].
    injection E as <- <-.
    destruct (alloc_good n _ _ _ _ _ EA I eq_refl) as (I1 & X1 & R1 & _).
    assert (P1 : Forall (fun kv : str * ref => ref_in (inr n (length (fst st1))) (snd kv)) (sort_items d)).
    { apply Forall_sort_items. eapply Forall_impl; [|apply (dinv_node_items n st l d I (proj1 R) En)].
      intros kv. apply ref_inr_mono, X1. }
    destruct (thread_items_good n (re_restore f) (fun s x => ref_in (inr n (length (fst s))) x) Mono Step
                (sort_items d) st1 st2 d' I1 P1 ET) as (I2 & X2 & F2).
    eapply fill_dgood; eauto.
Qed.

Lemma container_list_good {A} n (F : dst -> A -> hres (dst * ref)) st nd0 track (mk : list ref -> node) l st' r' :
  (forall s x s' y, dinv n s -> F s x = HOk (s', y) -> dgood n s s' y) ->
  children nd0 = [] -> (forall rs, children (mk rs) = rs) ->
  dinv n st ->
  (let '(st1, idx) := alloc st nd0 track in
   match thread_list F st1 l with
   | HOk (st2, rs) => HOk (fill st2 idx (mk rs), RLoc idx)
   | HErr e => HErr e
   end) = HOk (st', r') ->
  dgood n st st' r'.
Proof.
  intros Step K0 K I E.
  destruct (alloc st nd0 track) as [st1 idx] eqn:EA.
  destruct (thread_list F st1 l) as [[st2 rs]|e] eqn:ET; [|discriminate].
  injection E as <- <-.
  destruct (alloc_good n _ _ _ _ _ EA I K0) as (I1 & X1 & R1 & _).
  destruct (thread_good n F (fun r => r) (fun _ _ => True)) with (l := l) (st := st1) (st' := st2) (ys := rs)
    as (I2 & X2 & F2).
  - auto.
  - intros s x s' y Is _ Ey. eapply Step; eauto.
  - exact I1.
  - apply Forall_forall. auto.
  - exact ET.
  - eapply fill_dgood; eauto. rewrite K. exact F2.
Qed.

Lemma container_items_good {A} n (F : dst -> A -> hres (dst * ref)) st nd0 track (mk : list (str * ref) -> node) d st' r' :
  (forall s x s' y, dinv n s -> F s x = HOk (s', y) -> dgood n s s' y) ->
  children nd0 = [] -> (forall d', children (mk d') = map snd d') ->
  dinv n st ->
  (let '(st1, idx) := alloc st nd0 track in
   match thread_items F st1 d with
   | HOk (st2, d') => HOk (fill st2 idx (mk d'), RLoc idx)
   | HErr e => HErr e
   end) = HOk (st', r') ->
  dgood n st st' r'.
Proof.
  intros Step K0 K I E.
  destruct (alloc st nd0 track) as [st1 idx] eqn:EA.
  destruct (thread_items F st1 d) as [[st2 d']|e] eqn:ET; [|discriminate].
  injection E as <- <-.
  destruct (alloc_good n _ _ _ _ _ EA I K0) as (I1 & X1 & R1 & _).
  destruct (thread_items_good n F (fun _ _ => True)) with (d := d) (st := st1) (st' := st2) (d' := d')
    as (I2 & X2 & F2).
  - auto.
  - intros s x s' y Is _ Ey. eapply Step; eauto.
  - exact I1.
  - apply Forall_forall. auto.
  - exact ET.
  - eapply fill_dgood; eauto. rewrite K. exact F2.
Qed.

Section Dec.
  Variable qp_dec : str -> list N.

  Lemma atom_good n st a : dinv n st -> dgood n st st (RAtom a).
  Proof. intros I. split; [exact I|split; [apply dext_refl|exact Logic.I]]. Qed.

  Lemma decode_aux_good n : forall fuel st j st' r',
    dinv n st -> decode_aux qp_dec fuel st j = HOk (st', r') -> dgood n st st' r'.
  Proof.
    induction fuel as [|f IH]; intros st j st' r' I E; [discriminate|].
    cbn [decode_aux] in E.
    assert (Step : forall s (x : json) s' y, dinv n s -> decode_aux qp_dec f s x = HOk (s', y) -> dgood n s s' y).
    { intros; eapply IH; eauto. }
    destruct j as [|b|z|r|s|l|d]; try (injection E as <- <-; apply atom_good, I).
    - (* JArr *)
      eapply (container_list_good n (decode_aux qp_dec f) st (NList []) true NList l);
        [exact Step|reflexivity|reflexivity|exact I|exact E].
    - (* JObj *)
      destruct (assoc TAG_BYTES d) as [jb|].
      { destruct jb; try discriminate. injection E as <- <-. apply atom_good, I. }
      destruct (assoc TAG_ID d) as [ji|].
      { destruct ji as [| | k | | | |]; try discriminate.
        destruct (k <? 0)%Z; [discriminate|].
        destruct (nth_error (snd st) (Z.to_nat k)) as [r|] eqn:En; [|discriminate].
        injection E as <- <-. split; [exact I|split; [apply dext_refl|]].
        destruct I as (_ & O & _). rewrite Forall_forall in O. apply O. eapply nth_error_In; eauto. }
      destruct (has_any [U"py/ref"; U"py/iterator"] d); [discriminate|].
      destruct (assoc TAG_TYPE d) as [jt|].
      { destruct jt; try discriminate. injection E as <- <-. apply atom_good, I. }
      destruct (has_any [U"py/repr"; U"py/reduce"] d); [discriminate|].
      destruct (assoc TAG_OBJECT d) as [jo|].
      { destruct jo as [| | | | c | |]; try discriminate.
        destruct (alloc st (NObj c []) true) as [st1 idx] eqn:EA.
        destruct (alloc_good n _ _ _ _ _ EA I eq_refl) as (I1 & X1 & R1 & _).
        destruct (existsb _ d); [discriminate|].
        destruct (assoc TAG_STATE d) as [sj|].
        2:{ injection E as <- <-. split; [exact I1|split; [exact X1|exact R1]]. }
        destruct (decode_aux qp_dec f st1 sj) as [[st2 sref]|e] eqn:ES; [|discriminate].
        destruct (Step _ _ _ _ I1 ES) as (I2 & X2 & R2).
        assert (Plain : dgood n st st2 sref).
        { split; [exact I2|split; [eapply dext_trans; eauto|exact R2]]. }
        destruct sref as [a|sl]; [injection E as <- <-; exact Plain|].
        destruct (nth_error (fst st2) sl) as [snd_|] eqn:En; [|discriminate].
        destruct snd_ as [rs|rs|rs|items|c' d']; try discriminate; try (injection E as <- <-; exact Plain).
        destruct (thread_items (re_restore f) st2 (sort_items items)) as [[st3 attrs]|e] eqn:ET; [|discriminate].
        injection E as <- <-.
        assert (P2 : Forall (fun kv : str * ref => ref_in (inr n (length (fst st2))) (snd kv)) (sort_items items)).
        { apply Forall_sort_items. apply (dinv_node_items n st2 sl items I2 (proj1 R2) En). }
        destruct (thread_items_good n (re_restore f) (fun s x => ref_in (inr n (length (fst s))) x))
          with (d := sort_items items) (st := st2) (st' := st3) (d' := attrs) as (I3 & X3 & F3).
        - intros s s' x X. apply ref_inr_mono, X.
        - intros s x s' y Is Ps Ey. eapply re_restore_good; eauto.
        - exact I2.
        - exact P2.
        - exact ET.
        - eapply fill_dgood; [exact X1|exact I3|eapply dext_trans; eauto|exact R1|exact F3]. }
      destruct (has_any [U"py/function"] d); [discriminate|].
      destruct (assoc TAG_TUPLE d) as [jt|].
      { destruct jt as [| | | | | l |]; try discriminate.
        eapply (container_list_good n (decode_aux qp_dec f) st (NTuple []) false NTuple l);
          [exact Step|reflexivity|reflexivity|exact I|exact E]. }
      destruct (assoc TAG_SET d) as [js|].
      { destruct js as [| | | | | l |]; try discriminate.
        eapply (container_list_good n (decode_aux qp_dec f) st (NSet []) false NSet l);
          [exact Step|reflexivity|reflexivity|exact I|exact E]. }
      eapply (container_items_good n (decode_aux qp_dec f) st (NDict []) false NDict (sort_items d));
        [exact Step|reflexivity|reflexivity|exact I|exact E].
  Qed.

  (** C11_decode_fresh, in full *)
  Theorem decode_fresh fuel h j h' r :
    decode_h qp_dec fuel h j = HOk (h', r) ->
    (exists e, h' = h ++ e) /\
    ref_in (inr (length h) (length h')) r /\
    (forall l nd, length h <= l -> nth_error h' l = Some nd ->
                  Forall (ref_in (inr (length h) (length h'))) (children nd)) /\
    (forall l, reach h' r l -> length h <= l < length h').
  Proof.
    unfold decode_h. destruct (decode_aux qp_dec fuel (h, []) j) as [[st r0]|e] eqn:E; [|discriminate].
    intros H. injection H as <- <-.
    assert (I0 : dinv (length h) (h, [])).
    { split; [cbn; lia|split; [constructor|]]. cbn. intros l nd Hl En.
      assert (l < length h) by (apply nth_error_Some; congruence). lia. }
    destruct (decode_aux_good (length h) _ _ _ _ _ I0 E) as ((L & O & C) & (L2 & A) & R).
    cbn [fst snd] in *.
    split; [apply agree_prefix; auto|]. split; [exact R|]. split; [exact C|].
    intros l Rl. apply (reach_closed (inr (length h) (length (fst st))) (fst st) r0); auto.
    intros x nd Px En. apply (C x nd); [apply Px|exact En].
  Qed.
End Dec.

(** ---- in-place mutation touches one location --------------------------------------------------- *)

Lemma list_set_In {A} (l : list A) : forall i v l', list_set l i v = Some l' -> forall c, In c l' -> In c l \/ c = v.
Proof.
  induction l as [|x l IH]; intros [|i] v l' E c I; cbn in E; try discriminate.
  - injection E as <-. destruct I as [<-|I]; [right; reflexivity|left; right; exact I].
  - destruct (list_set l i v) as [t|] eqn:Et; [|discriminate]. injection E as <-.
    destruct I as [<-|I]; [left; left; reflexivity|]. destruct (IH _ _ _ Et c I); [left; right|right]; auto.
Qed.

Lemma list_del_In {A} (l : list A) : forall i l', list_del l i = Some l' -> forall c, In c l' -> In c l.
Proof.
  induction l as [|x l IH]; intros [|i] l' E c I; cbn in E; try discriminate.
  - injection E as <-. right. exact I.
  - destruct (list_del l i) as [t|] eqn:Et; [|discriminate]. injection E as <-.
    destruct I as [<-|I]; [left; reflexivity|right; eapply IH; eauto].
Qed.

Lemma item_set_In {A} (d : list (str * A)) k v c : In c (map snd (item_set d k v)) -> In c (map snd d) \/ c = v.
Proof.
  induction d as [|[k' x] d IH]; cbn.
  - intros [<-|[]]. right. reflexivity.
  - destruct (str_eqb k k'); cbn.
    + intros [<-|I]; [right; reflexivity|left; right; exact I].
    + intros [<-|I]; [left; left; reflexivity|]. destruct (IH I); [left; right|right]; auto.
Qed.

Lemma item_del_In {A} (d : list (str * A)) k : forall d', item_del d k = Some d' -> forall c, In c (map snd d') -> In c (map snd d).
Proof.
  induction d as [|[k' x] d IH]; intros d' E c I; cbn in E; [discriminate|].
  destruct (str_eqb k k').
  - injection E as <-. right. exact I.
  - destruct (item_del d k) as [t|] eqn:Et; [|discriminate]. injection E as <-. cbn in I.
    destruct I as [<-|I]; [left; reflexivity|right; eapply IH; eauto].
Qed.

(** the references stored in the node afterwards were there before, or are the stored value *)
Lemma mutate_node_children nd m nd' :
  mutate_node nd m = Some nd' -> forall c, In c (children nd') -> In c (children nd) \/ mut_val m = Some c.
Proof.
  intros E c I. destruct m, nd; cbn in E; try discriminate; cbn [children mut_val] in *.
  - destruct (list_set l0 i v) as [t|] eqn:Et; [|discriminate]. injection E as <-. cbn in I.
    destruct (list_set_In _ _ _ _ Et c I) as [?| ->]; auto.
  - injection E as <-. cbn in I. apply in_app_or in I. destruct I as [I|[<-|[]]]; auto.
  - destruct (list_del l0 i) as [t|] eqn:Et; [|discriminate]. injection E as <-. cbn in I.
    left. eapply list_del_In; eauto.
  - injection E as <-. cbn in I. destruct (item_set_In _ _ _ _ I) as [?| ->]; auto.
  - destruct (item_del d k) as [t|] eqn:Et; [|discriminate]. injection E as <-. cbn in I.
    left. eapply item_del_In; eauto.
  - injection E as <-. cbn in I. destruct (item_set_In _ _ _ _ I) as [?| ->]; auto.
  - destruct (item_del attrs k) as [t|] eqn:Et; [|discriminate]. injection E as <-. cbn in I.
    left. eapply item_del_In; eauto.
  - injection E as <-. cbn in I. destruct (existsb (ref_eqb v) l0); [left; exact I|].
    apply in_app_or in I. destruct I as [I|[<-|[]]]; auto.
  - destruct (list_del l0 i) as [t|] eqn:Et; [|discriminate]. injection E as <-. cbn in I.
    left. eapply list_del_In; eauto.
Qed.

Theorem apply_mut_local h m h' :
  apply_mut h m = Some h' ->
  length h' = length h /\ (forall l, l <> mut_loc m -> nth_error h' l = nth_error h l).
Proof.
  unfold apply_mut. destruct (nth_error h (mut_loc m)) as [nd|]; [|discriminate].
  destruct (mutate_node nd m) as [nd'|]; [|discriminate]. intros E. injection E as <-.
  split; [apply heap_set_length|]. intros l N. apply heap_set_other, N.
Qed.

(** What code can do that holds only references into the region [P]: mutate a node of [P] in
    place, storing a reference it holds, or create a new object from references it holds. *)
Inductive client_step (P : nat -> Prop) : heap -> heap -> Prop :=
| cs_mutate h m h' :
    apply_mut h m = Some h' -> P (mut_loc m) -> (forall v, mut_val m = Some v -> ref_in P v) ->
    client_step P h h'
| cs_alloc h nd :
    P (length h) -> Forall (ref_in P) (children nd) -> client_step P h (h ++ [nd]).

Inductive client_steps (P : nat -> Prop) : heap -> heap -> Prop :=
| cs_nil h : client_steps P h h
| cs_cons h h1 h2 : client_step P h h1 -> client_steps P h1 h2 -> client_steps P h h2.

Lemma client_step_frame P h h' : client_step P h h' -> forall l, ~ P l -> nth_error h' l = nth_error h l.
Proof.
  intros S l N. destruct S as [h m h' E Pm _|h nd Pn _].
  - apply (apply_mut_local _ _ _ E). intros ->. auto.
  - destruct (Nat.lt_ge_cases l (length h)) as [Lt|Ge]; [apply nth_error_app1, Lt|].
    assert (l <> length h) by (intros ->; auto).
    assert (G1 : nth_error (h ++ [nd]) l = None) by (apply nth_error_None; rewrite app_length; cbn; lia).
    assert (G2 : nth_error h l = None) by (apply nth_error_None; lia).
    congruence.
Qed.

Lemma client_step_closed P h h' : closed_set P h -> client_step P h h' -> closed_set P h'.
Proof.
  intros C S. destruct S as [h m h' E Pm Pv|h nd Pn Pc]; intros l nd' Pl En.
  - unfold apply_mut in E. destruct (nth_error h (mut_loc m)) as [nd0|] eqn:E0; [|discriminate].
    destruct (mutate_node nd0 m) as [nd1|] eqn:E1; [|discriminate]. injection E as <-.
    destruct (Nat.eq_dec l (mut_loc m)) as [->|N].
    + rewrite heap_set_same in En by (apply nth_error_Some; congruence). injection En as <-.
      apply Forall_forall. intros c I.
      destruct (mutate_node_children _ _ _ E1 c I) as [I0|V]; [|apply Pv, V].
      pose proof (C _ _ Pm E0) as F. rewrite Forall_forall in F. apply F, I0.
    + rewrite heap_set_other in En by exact N. eapply C; eauto.
  - destruct (Nat.lt_ge_cases l (length h)) as [Lt|Ge].
    + rewrite nth_error_app1 in En by exact Lt. eapply C; eauto.
    + rewrite nth_error_app2 in En by exact Ge.
      destruct (l - length h) as [|k]; cbn in En; [|destruct k; discriminate]. injection En as <-. exact Pc.
Qed.

(** C11_mutation_stays_reachable: whatever a client confined to [P] does - any number of
    in-place mutations and allocations - every location outside [P] keeps its node, and the
    client still cannot reach anything outside [P]. *)
Theorem client_steps_frame P h h'' :
  closed_set P h -> client_steps P h h'' -> agree_on (fun l => ~ P l) h h'' /\ closed_set P h''.
Proof.
  intros C S. induction S as [h|h h1 h2 S1 S IH]; [split; [intros l _; reflexivity|exact C]|].
  destruct (IH (client_step_closed _ _ _ C S1)) as [A C2]. split; [|exact C2].
  intros l N. rewrite <- (A l N). symmetry. eapply client_step_frame; eauto.
Qed.

(** ---- recording level ------------------------------------------------------------------------------ *)

Lemma agree_app_old (h e : heap) : agree_on (fun l => l < length h) h (h ++ e).
Proof. intros l Hl. symmetry. apply nth_error_app1, Hl. Qed.

Lemma assoc_item_set {A} (d : list (str * A)) k v : assoc k (item_set d k v) = Some v.
Proof.
  induction d as [|[k' x] d IH]; cbn; [rewrite str_eqb_refl; reflexivity|].
  destruct (str_eqb k k') eqn:E; cbn; rewrite E; [reflexivity|exact IH].
Qed.

Section Rec.
  Variable qp : list N -> str.
  Variable qp_dec : str -> list N.

  Lemma pickle_copy_inv fuel h r h' r' :
    pickle_copy qp qp_dec fuel h r = HOk (h', r') ->
    exists j, encode_top qp fuel h r = HOk j /\ decode_h qp_dec fuel h j = HOk (h', r').
  Proof.
    unfold pickle_copy. destruct (encode_top qp fuel h r) as [j|e]; [|discriminate]. eauto.
  Qed.

  (** C11_get_data_fresh *)
  Theorem get_data_fresh fuel h rec k h' r :
    heap_wf h ->
    get_data qp qp_dec fuel h rec k = HOk (h', r) ->
    exists stored j,
      get_data_direct h rec k = Some stored /\
      encode_top qp fuel h stored = HOk j /\ decode_h qp_dec fuel h j = HOk (h', r) /\
      (exists e, h' = h ++ e) /\
      (forall l, reach h' r l -> length h <= l < length h') /\
      (forall h'', agree_on (fun l => l < length h) h' h'' ->
         (forall fuel2 seen x, ref_in (fun l => l < length h) x ->
            encode_h qp fuel2 h'' seen x = encode_h qp fuel2 h seen x) /\
         get_data qp qp_dec fuel h'' rec k = decode_h qp_dec fuel h'' j).
  Proof.
    intros W G. unfold get_data in G.
    destruct (get_data_direct h rec k) as [stored|] eqn:ED; [|discriminate].
    destruct (pickle_copy_inv _ _ _ _ _ G) as (j & EJ & DJ).
    exists stored, j. split; [reflexivity|]. split; [exact EJ|]. split; [exact DJ|].
    destruct (decode_fresh qp_dec _ _ _ _ _ DJ) as ([e ->] & _ & _ & RB).
    split; [eauto|]. split; [exact RB|].
    intros h'' A.
    assert (A0 : agree_on (fun l => l < length h) h h'').
    { intros l Hl. rewrite <- (A l Hl). apply agree_app_old, Hl. }
    assert (Loc : forall fuel2 seen x, ref_in (fun l => l < length h) x ->
                  encode_h qp fuel2 h'' seen x = encode_h qp fuel2 h seen x).
    { intros. apply (encode_local qp (length h)); auto. }
    split; [exact Loc|].
    (* a later read of the same key finds the same reference and encodes it to the same JSON *)
    unfold get_data_direct in ED. destruct (nth_error h rec) as [nd|] eqn:En; [|discriminate].
    assert (Lr : rec < length h) by (apply nth_error_Some; congruence).
    destruct nd as [| | |d|]; try discriminate.
    assert (Ls : ref_in (fun l => l < length h) stored).
    { pose proof (W rec _ Lr En) as F. cbn in F. rewrite Forall_forall in F. apply F.
      clear - ED. induction d as [|[k' x] d IH]; cbn in *; [discriminate|].
      destruct (str_eqb k k'); [injection ED as ->; left; reflexivity|right; apply IH, ED]. }
    unfold get_data, get_data_direct. rewrite <- (A0 rec Lr), En, ED.
    unfold pickle_copy, encode_top. rewrite (Loc fuel [] stored Ls).
    unfold encode_top in EJ. destruct (encode_h qp fuel h [] stored) as [[s j0]|e0]; [|discriminate].
    injection EJ as ->. reflexivity.
  Qed.

  (** C11_fetch_independent *)
  Theorem fetch_independent fuel h (cas : cassette) id h1 r1 h2 r2 :
    get_recording qp_dec fuel h cas id = HOk (h1, r1) ->
    get_recording qp_dec fuel h1 cas id = HOk (h2, r2) ->
    (exists e1 e2, h1 = h ++ e1 /\ h2 = h1 ++ e2) /\
    (forall l, reach h2 r1 l -> length h <= l < length h1) /\
    (forall l, reach h2 r2 l -> length h1 <= l < length h2) /\
    (forall l, reach h2 r1 l -> reach h2 r2 l -> False) /\
    (forall h'', agree_on (inr (length h1) (length h2)) h2 h'' ->
       forall f s, encode_h qp f h'' s r2 = encode_h qp f h2 s r2) /\
    (forall h'', agree_on (inr (length h) (length h1)) h2 h'' ->
       forall f s, encode_h qp f h'' s r1 = encode_h qp f h2 s r1) /\
    (exists j, assoc id cas = Some j /\
               forall h'', get_recording qp_dec fuel h'' cas id = decode_h qp_dec fuel h'' j).
  Proof.
    unfold get_recording. destruct (assoc id cas) as [j|]; [|discriminate]. intros D1 D2.
    destruct (decode_fresh qp_dec _ _ _ _ _ D1) as ([e1 ->] & R1 & C1 & _).
    destruct (decode_fresh qp_dec _ _ _ _ _ D2) as ([e2 ->] & R2 & C2 & B2).
    set (h1 := h ++ e1) in *. set (h2 := h1 ++ e2) in *.
    assert (K1 : closed_set (inr (length h) (length h1)) h2).
    { intros l nd [Lo Hi] En. unfold h2 in En. rewrite nth_error_app1 in En by exact Hi. apply (C1 l nd Lo En). }
    assert (K2 : closed_set (inr (length h1) (length h2)) h2).
    { intros l nd [Lo Hi] En. apply (C2 l nd Lo En). }
    assert (B1 : forall l, reach h2 r1 l -> length h <= l < length h1).
    { intros l Rl. apply (reach_closed _ _ _ _ K1 R1 Rl). }
    split; [exists e1, e2; auto|]. split; [exact B1|]. split; [exact B2|].
    split; [intros l Ra Rb; apply B1 in Ra; apply B2 in Rb; lia|].
    split; [|split].
    - intros h'' A f s. apply (encode_region qp _ _ _ K2 A). exact R2.
    - intros h'' A f s. apply (encode_region qp _ _ _ K1 A). exact R1.
    - exists j. split; [reflexivity|]. intros h''. reflexivity.
  Qed.

  (** C11_copy_on_interception *)
  Theorem copy_on_interception fuel h rec k result h1 r' h2 :
    rec < length h ->
    pickle_copy qp qp_dec fuel h result = HOk (h1, r') ->
    record_value qp qp_dec true fuel h rec k result = HOk h2 ->
    recorded_value h2 rec k = Some r' /\
    (exists j, encode_top qp fuel h result = HOk j /\ decode_h qp_dec fuel h j = HOk (h1, r')) /\
    length h <= length h1 /\ length h2 = S (length h1) /\
    (forall l, l < length h -> l <> rec -> nth_error h2 l = nth_error h l) /\
    (forall l, inr (length h) (length h1) l -> nth_error h2 l = nth_error h1 l) /\
    (forall l, reach h2 r' l -> length h <= l < length h1) /\
    (forall h'', agree_on (inr (length h) (length h1)) h2 h'' ->
       forall f s, encode_h qp f h'' s r' = encode_h qp f h2 s r').
  Proof.
    intros Lr PC RV. unfold record_value in RV. rewrite PC in RV.
    destruct (pickle_copy_inv _ _ _ _ _ PC) as (j & EJ & DJ).
    destruct (decode_fresh qp_dec _ _ _ _ _ DJ) as ([e E1] & R1 & C1 & _).
    assert (Lh1 : length h <= length h1) by (rewrite E1, app_length; lia).
    set (w := NDict [(VALUE, r')]) in *.
    unfold set_data, apply_mut in RV. cbn [mut_loc] in RV.
    assert (Eold : forall l, l < length h1 -> nth_error (h1 ++ [w]) l = nth_error h1 l).
    { intros l Hl. apply nth_error_app1, Hl. }
    destruct (nth_error (h1 ++ [w]) rec) as [nd|] eqn:En; [|discriminate].
    destruct (mutate_node nd (MDictSet rec k (RLoc (length h1)))) as [nd'|] eqn:Em; [|discriminate].
    injection RV as <-.
    destruct nd as [| | |d|]; try discriminate. cbn in Em. injection Em as <-.
    assert (Lw : length (h1 ++ [w]) = S (length h1)) by (rewrite app_length; cbn; lia).
    assert (Nw : length h1 <> rec) by lia.
    set (h2 := heap_set (h1 ++ [w]) rec (NDict (item_set d k (RLoc (length h1))))).
    assert (Same : forall l, l <> rec -> nth_error h2 l = nth_error (h1 ++ [w]) l).
    { intros l N. apply heap_set_other, N. }
    assert (K1 : closed_set (inr (length h) (length h1)) h2).
    { intros l nd [Lo Hi] El. rewrite Same in El by lia. rewrite Eold in El by exact Hi. apply (C1 l nd Lo El). }
    split.
    { unfold recorded_value, get_data_direct. unfold h2 at 1. rewrite heap_set_same by lia.
      rewrite assoc_item_set. rewrite Same by exact Nw. rewrite nth_error_snoc_new. unfold w. cbn [assoc].
      rewrite str_eqb_refl. reflexivity. }
    split; [eauto|]. split; [exact Lh1|]. split; [unfold h2; rewrite heap_set_length; exact Lw|].
    split.
    { intros l Hl N. rewrite Same by exact N. rewrite Eold by lia. rewrite E1. apply nth_error_app1, Hl. }
    split.
    { intros l [Lo Hi]. rewrite Same by lia. apply Eold, Hi. }
    split.
    { intros l Rl. apply (reach_closed _ _ _ _ K1 R1 Rl). }
    intros h'' A f s. apply (encode_region qp _ _ _ K1 A). exact R1.
  Qed.
End Rec.

(** ---- clients ------------------------------------------------------------------------------------------ *)

Section Clients.
  Variable qp : list N -> str.
  Variable qp_dec : str -> list N.

  (** the holder of a get_data result works in the region of new locations; whatever it does
      there, every old datum - the stored value, the whole recording - encodes as before *)
  Theorem get_data_then_client fuel h rec k h' r h'' :
    heap_wf h ->
    get_data qp qp_dec fuel h rec k = HOk (h', r) ->
    client_steps (fun l => length h <= l) h' h'' ->
    ref_in (fun l => length h <= l) r /\
    closed_set (fun l => length h <= l) h' /\
    (forall fuel2 seen x, ref_in (fun l => l < length h) x ->
       encode_h qp fuel2 h'' seen x = encode_h qp fuel2 h seen x).
  Proof.
    intros W G S.
    destruct (get_data_fresh qp qp_dec _ _ _ _ _ _ W G) as (stored & j & _ & _ & DJ & _ & _ & Fr).
    destruct (decode_fresh qp_dec _ _ _ _ _ DJ) as (_ & R & C & _).
    assert (K : closed_set (fun l => length h <= l) h').
    { intros l nd Hl En. eapply Forall_ref_in_impl; [|apply (C l nd Hl En)]. unfold inr. intros; lia. }
    split; [eapply ref_in_impl; [|exact R]; unfold inr; intros; lia|]. split; [exact K|].
    destruct (client_steps_frame _ _ _ K S) as [A _].
    apply Fr. intros l Hl. apply A. lia.
  Qed.

  (** the service that received [result] keeps working in its own world, which contains
      neither the recording nor (it cannot reach them) the locations of the recorded copy *)
  Theorem copy_on_then_service fuel h rec k result h1 r' h2 h'' :
    rec < length h ->
    closed_set (fun l => l <> rec /\ l < length h) h ->
    pickle_copy qp qp_dec fuel h result = HOk (h1, r') ->
    record_value qp qp_dec true fuel h rec k result = HOk h2 ->
    client_steps (fun l => l <> rec /\ ~ inr (length h) (S (length h1)) l) h2 h'' ->
    forall f s, encode_h qp f h'' s r' = encode_h qp f h2 s r'.
  Proof.
    intros Lr Cs PC RV St.
    destruct (copy_on_interception qp qp_dec _ _ _ _ _ _ _ _ Lr PC RV) as (_ & _ & L1 & L2 & Old & _ & _ & Fr).
    set (P := fun l => l <> rec /\ ~ inr (length h) (S (length h1)) l) in *.
    assert (K : closed_set P h2).
    { intros l nd [N O] En.
      assert (Ll : l < length h2) by (apply nth_error_Some; congruence).
      assert (Lt : l < length h) by (unfold inr in O; lia).
      rewrite Old in En by auto.
      eapply Forall_ref_in_impl; [|apply (Cs l nd (conj N Lt) En)].
      intros x [Nx Lx]. split; [exact Nx|]. unfold inr. lia. }
    destruct (client_steps_frame _ _ _ K St) as [A _].
    apply Fr. intros l [Lo Hi]. apply A. intros [_ O]. apply O. unfold inr. lia.
  Qed.
End Clients.

(** ---- fuel: more fuel never changes an answer ------------------------------------------------------ *)

Lemma thread_list_mono {St A B} (f g : St -> A -> hres (St * B)) :
  (forall s x r, f s x = HOk r -> g s x = HOk r) ->
  forall l s r, thread_list f s l = HOk r -> thread_list g s l = HOk r.
Proof.
  intros M. induction l as [|x l IH]; intros s r E; cbn in *; [exact E|].
  destruct (f s x) as [[s1 y]|e] eqn:E1; [|discriminate]. rewrite (M _ _ _ E1).
  destruct (thread_list f s1 l) as [[s2 ys]|e] eqn:E2; [|discriminate]. rewrite (IH _ _ E2). exact E.
Qed.

Lemma thread_items_mono {St A B} (f g : St -> A -> hres (St * B)) :
  (forall s x r, f s x = HOk r -> g s x = HOk r) ->
  forall d s r, thread_items f s d = HOk r -> thread_items g s d = HOk r.
Proof.
  intros M d s r. unfold thread_items. apply thread_list_mono. intros s' kv r'. unfold on_item.
  destruct (f s' (snd kv)) as [[s1 y]|e] eqn:E1; [|discriminate]. rewrite (M _ _ _ E1). auto.
Qed.

Section Fuel.
  Variable qp : list N -> str.
  Variable qp_dec : str -> list N.

  Lemma encode_fuel_mono : forall f f' h seen r x,
    f <= f' -> encode_h qp f h seen r = HOk x -> encode_h qp f' h seen r = HOk x.
  Proof.
    induction f as [|f IH]; intros f' h seen r x L E; [discriminate|].
    destruct f' as [|f']; [lia|]. cbn [encode_h] in *.
    assert (M : forall s c y, encode_h qp f h s c = HOk y -> encode_h qp f' h s c = HOk y).
    { intros. eapply IH; eauto. lia. }
    destruct r as [a|l]; [exact E|].
    destruct (nth_error h l) as [nd|]; [|discriminate].
    destruct nd as [rs|rs|rs|d|c d].
    - destruct (index_of l seen); [exact E|].
      destruct (thread_list (encode_h qp f h) (seen ++ [l]) rs) as [[s2 js]|e] eqn:ET; [|discriminate].
      rewrite (thread_list_mono _ _ M _ _ _ ET). exact E.
    - destruct (thread_list (encode_h qp f h) seen rs) as [[s2 js]|e] eqn:ET; [|discriminate].
      rewrite (thread_list_mono _ _ M _ _ _ ET). exact E.
    - destruct (thread_list (encode_h qp f h) seen rs) as [[s2 js]|e] eqn:ET; [|discriminate].
      rewrite (thread_list_mono _ _ M _ _ _ ET). exact E.
    - destruct (thread_items (encode_h qp f h) seen (pick_items d)) as [[s2 js]|e] eqn:ET; [|discriminate].
      rewrite (thread_items_mono _ _ M _ _ _ ET). exact E.
    - destruct (index_of l seen); [exact E|]. destruct d as [|kv d]; [exact E|].
      destruct (thread_items (encode_h qp f h) (seen ++ [l]) (pick_items (kv :: d))) as [[s2 js]|e] eqn:ET; [|discriminate].
      rewrite (thread_items_mono _ _ M _ _ _ ET). exact E.
  Qed.
End Fuel.

(** ---- a boolean well-formedness check (for concrete examples) ------------------------------------- *)

Definition ref_ltb (n : nat) (r : ref) : bool := match r with RAtom _ => true | RLoc l => l <? n end.
Definition heap_wfb (h : heap) : bool := forallb (fun nd => forallb (ref_ltb (length h)) (children nd)) h.

Lemma heap_wfb_ok h : heap_wfb h = true -> heap_wf h.
Proof.
  unfold heap_wfb. rewrite forallb_forall. intros F l nd _ En.
  pose proof (F nd (nth_error_In _ _ En)) as G. rewrite forallb_forall in G.
  apply Forall_forall. intros c I. specialize (G c I). destruct c as [a|x]; cbn in *; [exact Logic.I|].
  apply Nat.ltb_lt, G.
Qed.
