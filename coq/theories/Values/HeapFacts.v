(** Facts about the heap model (Values/Heap.v) behind the C11 theorems: encoding reads only
    the locations reachable from its root; decoding allocates only new locations and never
    points back into the old heap; in-place mutation touches one location. *)
From Playback Require Import Base.Str Base.StrFacts Values.PyVal Values.SortFacts Values.Codec Values.Heap.
From Coq Require Import Permutation Lia Arith.
Open Scope list_scope.

(** ---- vocabulary ------------------------------------------------------------------------- *)

Definition ref_in (P : nat -> Prop) (r : ref) : Prop :=
  match r with RAtom _ => True | RLoc l => P l end.

(** locations in [n, m) *)
Definition inr (n m : nat) (l : nat) : Prop := n <= l < m.

(** [l] is reachable from [r] following the references stored in the nodes of [h] *)
Inductive reach (h : heap) : ref -> nat -> Prop :=
| reach_here l : reach h (RLoc l) l
| reach_step l nd c l' :
    nth_error h l = Some nd -> In c (children nd) -> reach h c l' -> reach h (RLoc l) l'.

(** the nodes at the locations in [P] only refer to locations in [P] *)
Definition closed_set (P : nat -> Prop) (h : heap) : Prop :=
  forall l nd, P l -> nth_error h l = Some nd -> Forall (ref_in P) (children nd).

(** no dangling reference *)
Definition heap_wf (h : heap) : Prop := closed_set (fun l => l < length h) h.

Definition agree_on (P : nat -> Prop) (h1 h2 : heap) : Prop :=
  forall l, P l -> nth_error h1 l = nth_error h2 l.

Lemma ref_in_impl (P Q : nat -> Prop) r : (forall l, P l -> Q l) -> ref_in P r -> ref_in Q r.
Proof. destruct r; cbn; auto. Qed.

Lemma Forall_ref_in_impl (P Q : nat -> Prop) rs :
  (forall l, P l -> Q l) -> Forall (ref_in P) rs -> Forall (ref_in Q) rs.
Proof. intros H. apply Forall_impl. intros r. apply ref_in_impl, H. Qed.

(** everything reachable from a reference into a closed set stays in the set *)
Lemma reach_closed P h r l : closed_set P h -> ref_in P r -> reach h r l -> P l.
Proof.
  intros C Hr R. induction R as [l|l nd c l' E I R IH]; [exact Hr|].
  apply IH. pose proof (C l nd Hr E) as F. rewrite Forall_forall in F. apply F, I.
Qed.

(** reachability only depends on the nodes it passes through *)
Lemma reach_agree h1 h2 r l :
  (forall x, reach h1 r x -> nth_error h1 x = nth_error h2 x) -> reach h1 r l -> reach h2 r l.
Proof.
  intros A R. induction R as [l|l nd c l' E I R IH]; [constructor|].
  eapply reach_step; [rewrite <- (A l (reach_here _ _)); exact E|exact I|].
  apply IH. intros x Rx. apply A. eapply reach_step; eauto.
Qed.

(** ---- heap_set ------------------------------------------------------------------------------ *)

Lemma heap_set_length h : forall l nd, length (heap_set h l nd) = length h.
Proof. induction h as [|x h IH]; intros [|l] nd; cbn; auto. Qed.

Lemma heap_set_same h : forall l nd, l < length h -> nth_error (heap_set h l nd) l = Some nd.
Proof.
  induction h as [|x h IH]; intros [|l] nd L; cbn in *; try lia; [reflexivity|]. apply IH. lia.
Qed.

Lemma heap_set_other h : forall l nd l', l' <> l -> nth_error (heap_set h l nd) l' = nth_error h l'.
Proof.
  induction h as [|x h IH]; intros [|l] nd [|l'] N; cbn; try reflexivity; try congruence.
  apply IH. congruence.
Qed.

Lemma nth_error_app_old {A} (h e : list A) l : l < length h -> nth_error (h ++ e) l = nth_error h l.
Proof. intros L. apply nth_error_app1, L. Qed.

Lemma nth_error_snoc_new {A} (h : list A) x : nth_error (h ++ [x]) (length h) = Some x.
Proof. rewrite nth_error_app2 by lia. rewrite Nat.sub_diag. reflexivity. Qed.

(** a heap that only grew and kept its old part is the old heap plus an extension *)
Lemma agree_prefix (h h' : heap) :
  length h <= length h' -> (forall l, l < length h -> nth_error h' l = nth_error h l) ->
  exists e, h' = h ++ e.
Proof.
  revert h'. induction h as [|x h IH]; intros h' L A; [exists h'; reflexivity|].
  destruct h' as [|y h']; cbn in L; [lia|].
  pose proof (A 0 ltac:(cbn; lia)) as A0. cbn in A0. injection A0 as ->.
  destruct (IH h') as [e ->]; [lia| |exists e; reflexivity].
  intros l Hl. apply (A (S l)). cbn. lia.
Qed.

(** ---- threading ------------------------------------------------------------------------------ *)

Lemma thread_list_ext {St A B} (f g : St -> A -> hres (St * B)) l :
  (forall s x, In x l -> f s x = g s x) -> forall s, thread_list f s l = thread_list g s l.
Proof.
  induction l as [|x l IH]; intros E s; cbn; [reflexivity|].
  rewrite (E s x (or_introl eq_refl)). destruct (g s x) as [[s1 y]|e]; [|reflexivity].
  rewrite IH; [reflexivity|]. intros s' x' I. apply E. right. exact I.
Qed.

Lemma thread_items_ext {St A B} (f g : St -> A -> hres (St * B)) d :
  (forall s kv, In kv d -> f s (snd kv) = g s (snd kv)) -> forall s, thread_items f s d = thread_items g s d.
Proof.
  intros E s. unfold thread_items. apply thread_list_ext. intros s' kv I. unfold on_item. rewrite (E s' kv I). reflexivity.
Qed.

Lemma In_pick_items {A} (d : list (str * A)) kv : In kv (pick_items d) -> In kv d.
Proof.
  unfold pick_items. intros I. apply filter_In in I. destruct I as [I _].
  eapply Permutation_in; [apply sort_perm|exact I].
Qed.

Lemma In_sort_items {A} (d : list (str * A)) kv : In kv (sort_items d) <-> In kv d.
Proof. split; apply Permutation_in; [apply sort_perm|apply Permutation_sym, sort_perm]. Qed.

Lemma In_children_items (d : list (str * ref)) kv : In kv d -> In (snd kv) (map snd d).
Proof. apply in_map. Qed.

(** ---- encoding reads only what is reachable from its root ----------------------------------- *)

Section Enc.
  Variable qp : list N -> str.

  Theorem encode_reach_local : forall fuel h1 h2 seen r,
    (forall l, reach h1 r l -> nth_error h1 l = nth_error h2 l) ->
    encode_h qp fuel h2 seen r = encode_h qp fuel h1 seen r.
  Proof.
    induction fuel as [|f IH]; intros h1 h2 seen r A; [reflexivity|].
    cbn [encode_h]. destruct r as [a|l]; [reflexivity|].
    rewrite <- (A l (reach_here _ _)).
    destruct (nth_error h1 l) as [nd|] eqn:E; [|reflexivity].
    assert (K : forall c, In c (children nd) -> forall s, encode_h qp f h2 s c = encode_h qp f h1 s c).
    { intros c I s. apply IH. intros x Rx. apply A. eapply reach_step; eauto. }
    destruct nd as [rs|rs|rs|d|c d]; cbn [children] in K.
    - destruct (index_of l seen); [reflexivity|].
      rewrite (thread_list_ext (encode_h qp f h2) (encode_h qp f h1)); [reflexivity|]. intros s x I. apply K, I.
    - rewrite (thread_list_ext (encode_h qp f h2) (encode_h qp f h1)); [reflexivity|]. intros s x I. apply K, I.
    - rewrite (thread_list_ext (encode_h qp f h2) (encode_h qp f h1)); [reflexivity|]. intros s x I. apply K, I.
    - rewrite (thread_items_ext (encode_h qp f h2) (encode_h qp f h1)); [reflexivity|].
      intros s kv I. apply K, in_map, In_pick_items, I.
    - destruct (index_of l seen); [reflexivity|]. destruct d as [|kv0 d0]; [reflexivity|].
      rewrite (thread_items_ext (encode_h qp f h2) (encode_h qp f h1)); [reflexivity|].
      intros s kv I. apply K, in_map, In_pick_items, I.
  Qed.

  (** the spike's form: a root below [n] in a heap closed below [n] *)
  Corollary encode_local n h1 h2 :
    closed_set (fun l => l < n) h1 -> agree_on (fun l => l < n) h1 h2 ->
    forall fuel seen r, ref_in (fun l => l < n) r -> encode_h qp fuel h2 seen r = encode_h qp fuel h1 seen r.
  Proof.
    intros C A fuel seen r Hr. apply encode_reach_local. intros l R. apply A.
    eapply (reach_closed (fun l => l < n)); eauto.
  Qed.

  (** a reference into a closed region [P]: only [P] is read *)
  Corollary encode_region (P : nat -> Prop) h1 h2 :
    closed_set P h1 -> agree_on P h1 h2 ->
    forall fuel seen r, ref_in P r -> encode_h qp fuel h2 seen r = encode_h qp fuel h1 seen r.
  Proof.
    intros C A fuel seen r Hr. apply encode_reach_local. intros l R. apply A.
    eapply (reach_closed P); eauto.
  Qed.
End Enc.

(** ---- decoding allocates only new locations ---------------------------------------------------- *)

(** invariant of the decoder state, relative to the length [n] of the heap the decode started
    from: the id table and every node at a location >= n only refer to locations in [n, length) *)
Definition dinv (n : nat) (st : dst) : Prop :=
  n <= length (fst st) /\
  Forall (ref_in (inr n (length (fst st)))) (snd st) /\
  (forall l nd, n <= l -> nth_error (fst st) l = Some nd ->
                Forall (ref_in (inr n (length (fst st)))) (children nd)).

(** the heap only grows and the locations below [n] are untouched *)
Definition dext (n : nat) (st st' : dst) : Prop :=
  length (fst st) <= length (fst st') /\
  (forall l, l < n -> nth_error (fst st') l = nth_error (fst st) l).

Definition dgood (n : nat) (st st' : dst) (r : ref) : Prop :=
  dinv n st' /\ dext n st st' /\ ref_in (inr n (length (fst st'))) r.

Lemma inr_mono n m m' l : m <= m' -> inr n m l -> inr n m' l.
Proof. unfold inr. lia. Qed.

Lemma ref_inr_mono n m m' r : m <= m' -> ref_in (inr n m) r -> ref_in (inr n m') r.
Proof. intros L. apply ref_in_impl. intros l. apply inr_mono, L. Qed.

Lemma Forall_inr_mono n m m' rs : m <= m' -> Forall (ref_in (inr n m)) rs -> Forall (ref_in (inr n m')) rs.
Proof. intros L. apply Forall_impl. intros r. apply ref_inr_mono, L. Qed.

Lemma dext_refl n st : dext n st st.
Proof. split; auto. Qed.

Lemma dext_trans n a b c : dext n a b -> dext n b c -> dext n a c.
Proof. intros [L1 A1] [L2 A2]. split; [lia|]. intros l Hl. rewrite A2, A1; auto. Qed.

Lemma alloc_good n st nd track st1 idx :
  alloc st nd track = (st1, idx) -> dinv n st -> children nd = [] ->
  dinv n st1 /\ dext n st st1 /\ inr n (length (fst st1)) idx /\ idx = length (fst st).
Proof.
  unfold alloc. intros E (L & O & C) K. injection E as <- <-. cbn [fst snd].
  assert (M : length (fst st) <= length (fst st ++ [nd])) by (rewrite app_length; lia).
  assert (M1 : length (fst st ++ [nd]) = S (length (fst st))) by (rewrite app_length; cbn; lia).
  split; [|split; [|split]].
  - unfold dinv. cbn [fst snd]. split; [lia|split].
    + destruct track.
      * apply Forall_app. split; [eapply Forall_inr_mono; eauto|]. constructor; [|constructor]. cbn. unfold inr. lia.
      * eapply Forall_inr_mono; eauto.
    + intros l nd' Hl E.
      destruct (Nat.lt_ge_cases l (length (fst st))) as [Lt|Ge].
      * rewrite nth_error_app1 in E by exact Lt. eapply Forall_inr_mono; [exact M|]. eapply C; eauto.
      * rewrite nth_error_app2 in E by exact Ge.
        destruct (l - length (fst st)) as [|k] eqn:D; cbn in E; [|destruct k; discriminate].
        injection E as <-. rewrite K. constructor.
  - unfold dext. cbn [fst snd]. split; [lia|]. intros l Hl. apply nth_error_app1. lia.
  - unfold inr. lia.
  - reflexivity.
Qed.

Lemma fill_dgood n st st1 st2 idx nd :
  dext n st st1 -> dinv n st2 -> dext n st1 st2 -> inr n (length (fst st1)) idx ->
  Forall (ref_in (inr n (length (fst st2)))) (children nd) ->
  dgood n st (fill st2 idx nd) (RLoc idx).
Proof.
  intros [L1 A1] (L & O & C) [L2 A2] R F. unfold fill, dgood, dinv, dext. cbn [fst snd].
  rewrite heap_set_length. unfold inr in R.
  split; [split; [|split]|split; [split|]].
  - exact L.
  - exact O.
  - intros l nd' Hl E. destruct (Nat.eq_dec l idx) as [->|N].
    + rewrite heap_set_same in E by lia. injection E as <-. exact F.
    + rewrite heap_set_other in E by exact N. eapply C; eauto.
  - lia.
  - intros l Hl. rewrite heap_set_other by lia. rewrite A2, A1; auto.
  - cbn. unfold inr. lia.
Qed.

Lemma on_item_ok {St A B} (g : St -> A -> hres (St * B)) st kv st' y :
  on_item g st kv = HOk (st', y) -> exists r, g st (snd kv) = HOk (st', r) /\ y = (fst kv, r).
Proof.
  unfold on_item. destruct (g st (snd kv)) as [[s1 r]|e]; [|discriminate].
  intros E. injection E as <- <-. eauto.
Qed.

Lemma thread_good {A B} n (f : dst -> A -> hres (dst * B)) (proj : B -> ref) (pre : dst -> A -> Prop) :
  (forall st st' x, dext n st st' -> pre st x -> pre st' x) ->
  (forall st x st' y, dinv n st -> pre st x -> f st x = HOk (st', y) -> dgood n st st' (proj y)) ->
  forall l st st' ys, dinv n st -> Forall (pre st) l -> thread_list f st l = HOk (st', ys) ->
    dinv n st' /\ dext n st st' /\ Forall (fun y => ref_in (inr n (length (fst st'))) (proj y)) ys.
Proof.
  intros Mono Step. induction l as [|x l IH]; intros st st' ys I P E; cbn in E.
  - injection E as <- <-. split; [exact I|split; [apply dext_refl|constructor]].
  - destruct (f st x) as [[s1 y]|e] eqn:E1; [|discriminate].
    destruct (thread_list f s1 l) as [[s2 ys']|e] eqn:E2; [|discriminate].
    injection E as <- <-. inversion P as [|? ? Px Pl]; subst.
    destruct (Step _ _ _ _ I Px E1) as (I1 & X1 & R1).
    destruct (IH s1 s2 ys' I1) as (I2 & X2 & F2); [|exact E2|].
    { eapply Forall_impl; [|exact Pl]. intros a. apply Mono, X1. }
    split; [exact I2|split].
    + eapply dext_trans; eauto.
    + constructor; [|exact F2]. eapply ref_inr_mono; [|exact R1]. apply X2.
Qed.

Lemma thread_items_good {A} n (g : dst -> A -> hres (dst * ref)) (pre : dst -> A -> Prop) :
  (forall st st' x, dext n st st' -> pre st x -> pre st' x) ->
  (forall st x st' r, dinv n st -> pre st x -> g st x = HOk (st', r) -> dgood n st st' r) ->
  forall d st st' d', dinv n st -> Forall (fun kv => pre st (snd kv)) d -> thread_items g st d = HOk (st', d') ->
    dinv n st' /\ dext n st st' /\ Forall (ref_in (inr n (length (fst st')))) (map snd d').
Proof.
  intros Mono Step d st st' d' I P E. unfold thread_items in E.
  destruct (thread_good n (on_item g) snd (fun st kv => pre st (snd kv))) with (l := d) (st := st) (st' := st') (ys := d')
    as (I' & X' & F'); auto.
  - intros s s' kv. apply Mono.
  - intros s kv s' y Is Ps Ey. apply on_item_ok in Ey. destruct Ey as (r & Er & ->). cbn. eapply Step; eauto.
  - split; [exact I'|split; [exact X'|]]. rewrite Forall_map. exact F'.
Qed.

Lemma Forall_sort_items {A} (P : str * A -> Prop) d : Forall P d -> Forall P (sort_items d).
Proof.
  intros F. rewrite Forall_forall in *. intros kv I. apply F. apply In_sort_items, I.
Qed.

Lemma dinv_node_items n st l d :
  dinv n st -> n <= l -> nth_error (fst st) l = Some (NDict d) ->
  Forall (fun kv : str * ref => ref_in (inr n (length (fst st))) (snd kv)) d.
Proof.
  intros (_ & _ & C) Hl E. pose proof (C l _ Hl E) as F. cbn in F. rewrite Forall_map in F. exact F.
Qed.

Lemma re_restore_good n : forall fuel st r st' r',
  dinv n st -> ref_in (inr n (length (fst st))) r -> re_restore fuel st r = HOk (st', r') -> dgood n st st' r'.
Proof.
  induction fuel as [|f IH]; intros st r st' r' I R E; [discriminate|].
  cbn [re_restore] in E. destruct r as [a|l].
  { injection E as <- <-. split; [exact I|split; [apply dext_refl|exact R]]. }
  cbn in R.
  assert (Mono : forall s s' (x : ref), dext n s s' -> ref_in (inr n (length (fst s))) x -> ref_in (inr n (length (fst s'))) x).
  { intros s s' x X. apply ref_inr_mono, X. }
  destruct (nth_error (fst st) l) as [nd|] eqn:En; [|discriminate].
  assert (Step : forall s (x : ref) s' y, dinv n s -> ref_in (inr n (length (fst s))) x ->
                 re_restore f s x = HOk (s', y) -> dgood n s s' y).
  { intros s x s' y Is Ps Ey. eapply IH; eauto. }
  destruct nd as [rs|rs|rs|d|c d];
    try (injection E as <- <-; split; [exact I|split; [apply dext_refl|exact R]]).
  - destruct (alloc st (NList []) true) as [st1 idx] eqn:EA.
    destruct (thread_list (re_restore f) st1 rs) as [[st2 rs']|e] eqn:ET; [|discriminate].
    injection E as <- <-.
    destruct (alloc_good n _ _ _ _ _ EA I eq_refl) as (I1 & X1 & R1 & _).
    assert (P1 : Forall (ref_in (inr n (length (fst st1)))) rs).
    { destruct I as (_ & _ & C). eapply Forall_inr_mono; [apply X1|]. apply (C l _ (proj1 R) En). }
    destruct (thread_good n (re_restore f) (fun r => r) (fun s x => ref_in (inr n (length (fst s))) x) Mono Step
                rs st1 st2 rs' I1 P1 ET) as (I2 & X2 & F2).
    eapply fill_dgood; eauto.
  - destruct (has_any DISPATCH_TAGS d); [discriminate|].
    destruct (alloc st (NDict []) false) as [st1 idx] eqn:EA.
    destruct (thread_items (re_restore f) st1 (sort_items d)) as [[st2 d']|e] eqn:ET; [|discriminate].
    injection E as <- <-.
    destruct (alloc_good n _ _ _ _ _ EA I eq_refl) as (I1 & X1 & R1 & _).
    assert (P1 : Forall (fun kv : str * ref => ref_in (inr n (length (fst st1))) (snd kv)) (sort_items d)).
    { apply Forall_sort_items. eapply Forall_impl; [|apply (dinv_node_items n st l d I (proj1 R) En)].
      intros kv. apply ref_inr_mono, X1. }
    destruct (thread_items_good n (re_restore f) (fun s x => ref_in (inr n (length (fst s))) x) Mono Step
                (sort_items d) st1 st2 d' I1 P1 ET) as (I2 & X2 & F2).
    eapply fill_dgood; eauto.
Qed.

Lemma container_list_good {A} n (F : dst -> A -> hres (dst * ref)) st nd0 track (mk : list ref -> node) l st' r' :
  (forall s x s' y, dinv n s -> F s x = HOk (s', y) -> dgood n s s' y) ->
  children nd0 = [] -> (forall rs, children (mk rs) = rs) ->
  dinv n st ->
  (let '(st1, idx) := alloc st nd0 track in
   match thread_list F st1 l with
   | HOk (st2, rs) => HOk (fill st2 idx (mk rs), RLoc idx)
   | HErr e => HErr e
   end) = HOk (st', r') ->
  dgood n st st' r'.
Proof.
  intros Step K0 K I E.
  destruct (alloc st nd0 track) as [st1 idx] eqn:EA.
  destruct (thread_list F st1 l) as [[st2 rs]|e] eqn:ET; [|discriminate].
  injection E as <- <-.
  destruct (alloc_good n _ _ _ _ _ EA I K0) as (I1 & X1 & R1 & _).
  destruct (thread_good n F (fun r => r) (fun _ _ => True)) with (l := l) (st := st1) (st' := st2) (ys := rs)
    as (I2 & X2 & F2).
  - auto.
  - intros s x s' y Is _ Ey. eapply Step; eauto.
  - exact I1.
  - apply Forall_forall. auto.
  - exact ET.
  - eapply fill_dgood; eauto. rewrite K. exact F2.
Qed.

Lemma container_items_good {A} n (F : dst -> A -> hres (dst * ref)) st nd0 track (mk : list (str * ref) -> node) d st' r' :
  (forall s x s' y, dinv n s -> F s x = HOk (s', y) -> dgood n s s' y) ->
  children nd0 = [] -> (forall d', children (mk d') = map snd d') ->
  dinv n st ->
  (let '(st1, idx) := alloc st nd0 track in
   match thread_items F st1 d with
   | HOk (st2, d') => HOk (fill st2 idx (mk d'), RLoc idx)
   | HErr e => HErr e
   end) = HOk (st', r') ->
  dgood n st st' r'.
Proof.
  intros Step K0 K I E.
  destruct (alloc st nd0 track) as [st1 idx] eqn:EA.
  destruct (thread_items F st1 d) as [[st2 d']|e] eqn:ET; [|discriminate].
  injection E as <- <-.
  destruct (alloc_good n _ _ _ _ _ EA I K0) as (I1 & X1 & R1 & _).
  destruct (thread_items_good n F (fun _ _ => True)) with (d := d) (st := st1) (st' := st2) (d' := d')
    as (I2 & X2 & F2).
  - auto.
  - intros s x s' y Is _ Ey. eapply Step; eauto.
  - exact I1.
  - apply Forall_forall. auto.
  - exact ET.
  - eapply fill_dgood; eauto. rewrite K. exact F2.
Qed.

Section Dec.
  Variable qp_dec : str -> list N.

  Lemma atom_good n st a : dinv n st -> dgood n st st (RAtom a).
  Proof. intros I. split; [exact I|split; [apply dext_refl|exact Logic.I]]. Qed.

  Lemma decode_aux_good n : forall fuel st j st' r',
    dinv n st -> decode_aux qp_dec fuel st j = HOk (st', r') -> dgood n st st' r'.
  Proof.
    induction fuel as [|f IH]; intros st j st' r' I E; [discriminate|].
    cbn [decode_aux] in E.
    assert (Step : forall s (x : json) s' y, dinv n s -> decode_aux qp_dec f s x = HOk (s', y) -> dgood n s s' y).
    { intros; eapply IH; eauto. }
    destruct j as [|b|z|r|s|l|d]; try (injection E as <- <-; apply atom_good, I).
    - (* JArr *)
      eapply (container_list_good n (decode_aux qp_dec f) st (NList []) true NList l);
        [exact Step|reflexivity|reflexivity|exact I|exact E].
    - (* JObj *)
      destruct (assoc TAG_BYTES d) as [jb|].
      { destruct jb; try discriminate. injection E as <- <-. apply atom_good, I. }
      destruct (assoc TAG_ID d) as [ji|].
      { destruct ji as [| | k | | | |]; try discriminate.
        destruct (k <? 0)%Z; [discriminate|].
        destruct (nth_error (snd st) (Z.to_nat k)) as [r|] eqn:En; [|discriminate].
        injection E as <- <-. split; [exact I|split; [apply dext_refl|]].
        destruct I as (_ & O & _). rewrite Forall_forall in O. apply O. eapply nth_error_In; eauto. }
      destruct (has_any [U"py/ref"; U"py/iterator"] d); [discriminate|].
      destruct (assoc TAG_TYPE d) as [jt|].
      { destruct jt; try discriminate. injection E as <- <-. apply atom_good, I. }
      destruct (has_any [U"py/repr"; U"py/reduce"] d); [discriminate|].
      destruct (assoc TAG_OBJECT d) as [jo|].
      { destruct jo as [| | | | c | |]; try discriminate.
        destruct (alloc st (NObj c []) true) as [st1 idx] eqn:EA.
        destruct (alloc_good n _ _ _ _ _ EA I eq_refl) as (I1 & X1 & R1 & _).
        destruct (existsb _ d); [discriminate|].
        destruct (assoc TAG_STATE d) as [sj|].
        2:{ injection E as <- <-. split; [exact I1|split; [exact X1|exact R1]]. }
        destruct (decode_aux qp_dec f st1 sj) as [[st2 sref]|e] eqn:ES; [|discriminate].
        destruct (Step _ _ _ _ I1 ES) as (I2 & X2 & R2).
        assert (Plain : dgood n st st2 sref).
        { split; [exact I2|split; [eapply dext_trans; eauto|exact R2]]. }
        destruct sref as [a|sl]; [injection E as <- <-; exact Plain|].
        destruct (nth_error (fst st2) sl) as [snd_|] eqn:En; [|discriminate].
        destruct snd_ as [rs|rs|rs|items|c' d']; try discriminate; try (injection E as <- <-; exact Plain).
        destruct (thread_items (re_restore f) st2 (sort_items items)) as [[st3 attrs]|e] eqn:ET; [|discriminate].
        injection E as <- <-.
        assert (P2 : Forall (fun kv : str * ref => ref_in (inr n (length (fst st2))) (snd kv)) (sort_items items)).
        { apply Forall_sort_items. apply (dinv_node_items n st2 sl items I2 (proj1 R2) En). }
        destruct (thread_items_good n (re_restore f) (fun s x => ref_in (inr n (length (fst s))) x))
          with (d := sort_items items) (st := st2) (st' := st3) (d' := attrs) as (I3 & X3 & F3).
        - intros s s' x X. apply ref_inr_mono, X.
        - intros s x s' y Is Ps Ey. eapply re_restore_good; eauto.
        - exact I2.
        - exact P2.
        - exact ET.
        - eapply fill_dgood; [exact X1|exact I3|eapply dext_trans; eauto|exact R1|exact F3]. }
      destruct (has_any [U"py/function"] d); [discriminate|].
      destruct (assoc TAG_TUPLE d) as [jt|].
      { destruct jt as [| | | | | l |]; try discriminate.
        eapply (container_list_good n (decode_aux qp_dec f) st (NTuple []) false NTuple l);
          [exact Step|reflexivity|reflexivity|exact I|exact E]. }
      destruct (assoc TAG_SET d) as [js|].
      { destruct js as [| | | | | l |]; try discriminate.
        eapply (container_list_good n (decode_aux qp_dec f) st (NSet []) false NSet l);
          [exact Step|reflexivity|reflexivity|exact I|exact E]. }
      eapply (container_items_good n (decode_aux qp_dec f) st (NDict []) false NDict (sort_items d));
        [exact Step|reflexivity|reflexivity|exact I|exact E].
  Qed.

  (** C11_decode_fresh, in full *)
  Theorem decode_fresh fuel h j h' r :
    decode_h qp_dec fuel h j = HOk (h', r) ->
    (exists e, h' = h ++ e) /\
    ref_in (inr (length h) (length h')) r /\
    (forall l nd, length h <= l -> nth_error h' l = Some nd ->
                  Forall (ref_in (inr (length h) (length h'))) (children nd)) /\
    (forall l, reach h' r l -> length h <= l < length h').
  Proof.
    unfold decode_h. destruct (decode_aux qp_dec fuel (h, []) j) as [[st r0]|e] eqn:E; [|discriminate].
    intros H. injection H as <- <-.
    assert (I0 : dinv (length h) (h, [])).
    { split; [cbn; lia|split; [constructor|]]. cbn. intros l nd Hl En.
      assert (l < length h) by (apply nth_error_Some; congruence). lia. }
    destruct (decode_aux_good (length h) _ _ _ _ _ I0 E) as ((L & O & C) & (L2 & A) & R).
    cbn [fst snd] in *.
    split; [apply agree_prefix; auto|]. split; [exact R|]. split; [exact C|].
    intros l Rl. apply (reach_closed (inr (length h) (length (fst st))) (fst st) r0); auto.
    intros x nd Px En. apply (C x nd); [apply Px|exact En].
  Qed.
End Dec.
