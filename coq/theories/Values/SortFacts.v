(** Facts about sort_items / assoc / keys_distinct (items with distinct keys). *)
From Playback Require Import Base.Str Base.StrFacts Values.PyVal.
From Coq Require Import Permutation Lia.
Open Scope list_scope.

Section S.
  Context {A : Type}.
  Implicit Types (l : list (str * A)) (kv : str * A).

  Definition keys l : list str := map fst l.

  Inductive ssorted : list (str * A) -> Prop :=
  | ss_nil : ssorted []
  | ss_cons kv l : Forall (fun x => str_ltb (fst kv) (fst x) = true) l -> ssorted l -> ssorted (kv :: l).

  Lemma insert_perm kv l : Permutation (insert_item kv l) (kv :: l).
  Proof.
    induction l as [|kv' l IH]; cbn; [reflexivity|].
    destruct (str_ltb (fst kv') (fst kv)); [|reflexivity].
    rewrite IH. apply perm_swap.
  Qed.

  Lemma sort_perm l : Permutation (sort_items l) l.
  Proof. induction l as [|kv l IH]; cbn; [reflexivity|]. rewrite insert_perm. constructor; exact IH. Qed.

  Lemma keys_perm l1 l2 : Permutation l1 l2 -> Permutation (keys l1) (keys l2).
  Proof. apply Permutation_map. Qed.

  Lemma insert_sorted kv l : ssorted l -> ~ In (fst kv) (keys l) -> ssorted (insert_item kv l).
  Proof.
    induction 1 as [|kv' l Hall Hs IH]; intros Hn; cbn.
    - constructor; constructor.
    - destruct (str_ltb (fst kv') (fst kv)) eqn:E.
      + constructor.
        * rewrite (Forall_forall). intros x Hx.
          apply (Permutation_in _ (insert_perm kv l)) in Hx. destruct Hx as [<-|Hx]; [exact E|].
          rewrite Forall_forall in Hall. apply Hall; exact Hx.
        * apply IH. intros C. apply Hn. right; exact C.
      + assert (L : str_ltb (fst kv) (fst kv') = true).
        { destruct (str_ltb (fst kv) (fst kv')) eqn:E2; [reflexivity|].
          exfalso. apply Hn. left. apply str_ltb_total; assumption. }
        constructor; [|constructor; assumption].
        constructor; [exact L|].
        rewrite Forall_forall in *. intros x Hx. eapply str_ltb_trans; [exact L|apply Hall; exact Hx].
  Qed.

  Lemma sort_sorted l : NoDup (keys l) -> ssorted (sort_items l).
  Proof.
    induction l as [|kv l IH]; cbn; intros Hn; [constructor|].
    inversion Hn as [|k ks Hk Hks]; subst.
    apply insert_sorted; [apply IH; exact Hks|].
    intros C. apply Hk. eapply Permutation_in; [apply keys_perm, sort_perm|exact C].
  Qed.

  Lemma ssorted_unique l1 : forall l2, ssorted l1 -> ssorted l2 -> Permutation l1 l2 -> l1 = l2.
  Proof.
    induction l1 as [|h1 l1 IH]; intros l2 S1 S2 P.
    - apply Permutation_nil in P. congruence.
    - destruct l2 as [|h2 l2]; [apply Permutation_sym, Permutation_nil in P; discriminate|].
      inversion S1 as [|? ? A1 T1]; inversion S2 as [|? ? A2 T2]; subst.
      assert (E : h1 = h2).
      { assert (I1 : In h1 (h2 :: l2)) by (eapply Permutation_in; [exact P|left; reflexivity]).
        assert (I2 : In h2 (h1 :: l1)) by (eapply Permutation_in; [apply Permutation_sym; exact P|left; reflexivity]).
        destruct I1 as [->|I1]; [reflexivity|]. destruct I2 as [->|I2]; [reflexivity|].
        rewrite Forall_forall in A1, A2. pose proof (A1 _ I2) as L1. pose proof (A2 _ I1) as L2.
        apply str_ltb_asym in L1. congruence. }
      subst. f_equal. apply IH; try assumption. eapply Permutation_cons_inv; exact P.
  Qed.

  Lemma sort_unique l1 l2 : NoDup (keys l1) -> Permutation l1 l2 -> sort_items l1 = sort_items l2.
  Proof.
    intros N P. apply ssorted_unique.
    - apply sort_sorted; exact N.
    - apply sort_sorted. eapply Permutation_NoDup; [apply keys_perm; exact P|exact N].
    - rewrite !sort_perm. exact P.
  Qed.

  Lemma sort_idem l : NoDup (keys l) -> sort_items (sort_items l) = sort_items l.
  Proof. intros N. symmetry. apply sort_unique; [exact N|]. symmetry; apply sort_perm. Qed.

  Lemma keys_distinct_NoDup l : keys_distinct l = true <-> NoDup (keys l).
  Proof.
    induction l as [|[k v] l IH]; cbn; [split; [constructor|reflexivity]|].
    rewrite andb_true_iff, negb_true_iff, IH. split.
    - intros [H1 H2]. constructor; [|exact H2]. intros C. apply in_map_iff in C. destruct C as [[k' v'] [E I]]. cbn in E; subst.
      assert (X : existsb (fun kv => str_eqb k (fst kv)) l = true).
      { apply existsb_exists. exists (k, v'). split; [exact I|apply str_eqb_refl]. }
      congruence.
    - intros H. inversion H as [|? ? Hk Hks]; subst. split; [|exact Hks].
      destruct (existsb (fun kv => str_eqb k (fst kv)) l) eqn:E; [|reflexivity].
      exfalso. apply Hk. apply existsb_exists in E. destruct E as [[k' v'] [I E]]. cbn in E. apply str_eqb_eq in E; subst.
      apply in_map_iff. exists (k', v'). split; [reflexivity|exact I].
  Qed.

  Lemma assoc_None k l : assoc k l = None <-> ~ In k (keys l).
  Proof.
    induction l as [|[k' v] l IH]; cbn; [split; [auto|reflexivity]|].
    destruct (str_eqb k k') eqn:E.
    - apply str_eqb_eq in E; subst. split; [discriminate|intros H; exfalso; apply H; left; reflexivity].
    - apply str_eqb_neq in E. rewrite IH. split; [intros H [C|C]; [congruence|auto]|intros H C; apply H; right; exact C].
  Qed.
End S.

Lemma keys_map_snd {A B} (f : A -> B) (l : list (str * A)) : keys (map_snd f l) = keys l.
Proof. induction l as [|[k v] l IH]; cbn; [reflexivity|]. f_equal; exact IH. Qed.

Lemma insert_map_snd {A B} (f : A -> B) k v (l : list (str * A)) :
  insert_item (k, f v) (map_snd f l) = map_snd f (insert_item (k, v) l).
Proof.
  induction l as [|[k' v'] l IH]; cbn; [reflexivity|].
  destruct (str_ltb k' k); cbn; [rewrite IH|]; reflexivity.
Qed.

Lemma sort_map_snd {A B} (f : A -> B) (l : list (str * A)) :
  sort_items (map_snd f l) = map_snd f (sort_items l).
Proof. induction l as [|[k v] l IH]; cbn; [reflexivity|]. rewrite IH. apply insert_map_snd. Qed.

Lemma map_snd_ext {A B} (f g : A -> B) (l : list (str * A)) :
  Forall (fun kv => f (snd kv) = g (snd kv)) l -> map_snd f l = map_snd g l.
Proof. induction 1 as [|[k v] l H Hl IH]; cbn in *; [reflexivity|]. rewrite H, IH. reflexivity. Qed.

(** opt_map_items commutes with sorting when every key is kept *)
Lemma opt_items_insert {A B} (keep : str -> bool) (f : A -> option B) k x (l : list (str * A)) :
  keep k = true -> (forall k', In k' (keys l) -> keep k' = true) ->
  opt_map_items keep f (insert_item (k, x) l) =
  match f x, opt_map_items keep f l with
  | Some y, Some ys => Some (insert_item (k, y) ys)
  | _, _ => None
  end.
Proof.
  intros Hk. induction l as [|[k' x'] l IH]; intros Hall; cbn.
  - rewrite Hk. destruct (f x); reflexivity.
  - assert (Hk' : keep k' = true) by (apply Hall; left; reflexivity).
    destruct (str_ltb k' k) eqn:E; cbn; rewrite ?Hk, ?Hk'.
    + rewrite IH by (intros; apply Hall; right; assumption).
      destruct (f x') as [y'|], (f x) as [y|], (opt_map_items keep f l) as [ys|]; cbn; try reflexivity.
      rewrite E. reflexivity.
    + destruct (f x) as [y|], (f x') as [y'|], (opt_map_items keep f l) as [ys|]; cbn; try reflexivity.
      rewrite E. reflexivity.
Qed.

Lemma opt_items_sort {A B} (keep : str -> bool) (f : A -> option B) (l : list (str * A)) :
  (forall k, In k (keys l) -> keep k = true) ->
  opt_map_items keep f (sort_items l) = option_map sort_items (opt_map_items keep f l).
Proof.
  induction l as [|[k x] l IH]; intros Hall; cbn; [reflexivity|].
  rewrite opt_items_insert.
  - rewrite IH by (intros; apply Hall; right; assumption).
    rewrite (Hall k) by (left; reflexivity).
    destruct (f x), (opt_map_items keep f l); reflexivity.
  - apply Hall; left; reflexivity.
  - intros k' Hk'. apply Hall. right. eapply Permutation_in; [apply keys_perm, sort_perm|exact Hk'].
Qed.

Lemma opt_items_keys {A B} (keep : str -> bool) (f : A -> option B) (l : list (str * A)) ys :
  (forall k, In k (keys l) -> keep k = true) -> opt_map_items keep f l = Some ys -> keys ys = keys l.
Proof.
  revert ys; induction l as [|[k x] l IH]; intros ys Hall; cbn.
  - intros E; inversion E; reflexivity.
  - rewrite (Hall k) by (left; reflexivity).
    destruct (f x) as [y|]; [|discriminate]. destruct (opt_map_items keep f l) as [ys'|] eqn:E; [|discriminate].
    intros E'; inversion E'; subst. cbn. f_equal. apply IH; [intros; apply Hall; right; assumption|reflexivity].
Qed.
