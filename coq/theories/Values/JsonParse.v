(** Model A, part 3: a concrete [json.loads] for the texts [Codec.dumps] produces (and for any
    other RFC 8259 text over the same AST: ints, floats kept as their literal text, strings
    with the standard escapes and surrogate pairs, arrays, objects, NaN / Infinity / -Infinity), plus the decoder that
    inverts [Codec.qp_simple].  Executable definitions only; used by the correspondence
    runners as the instance of the [loads] oracle of the store theorems (whose hypothesis
    [loads (dumps j) = Some j] is evaluated on every generated case, see Run/RunC07.v). *)
From Playback Require Import Base.Str Values.PyVal Values.Codec.
Open Scope list_scope.
Open Scope N_scope.

Definition is_ws (c : N) : bool := (c =? 32) || (c =? 9) || (c =? 10) || (c =? 13).
Fixpoint skip_ws (s : str) : str :=
  match s with
  | c :: s' => if is_ws c then skip_ws s' else s
  | [] => []
  end.

Definition hexval (c : N) : option N :=
  if (48 <=? c) && (c <=? 57) then Some (c - 48)
  else if (97 <=? c) && (c <=? 102) then Some (c - 87)
  else if (65 <=? c) && (c <=? 70) then Some (c - 55)
  else None.

Definition parse_hex4 (s : str) : option (N * str) :=
  match s with
  | a :: b :: c :: d :: r =>
      match hexval a, hexval b, hexval c, hexval d with
      | Some x, Some y, Some z, Some w => Some (x * 4096 + y * 256 + z * 16 + w, r)
      | _, _, _, _ => None
      end
  | _ => None
  end.

Definition is_high (n : N) : bool := (55296 <=? n) && (n <=? 56319).
Definition is_low (n : N) : bool := (56320 <=? n) && (n <=? 57343).

Definition consr (c : N) (o : option (str * str)) : option (str * str) :=
  match o with Some (cs, r') => Some (c :: cs, r') | None => None end.

(** the characters of a string literal after its opening quote: (content, rest after the closing quote).
    (Dispatch on characters is written with [=?] tests rather than literal patterns, so that the
    facts in JsonFacts.v can reason about a symbolic character.) *)
Fixpoint parse_chars (fuel : nat) (s : str) : option (str * str) :=
  match fuel with
  | O => None
  | S f =>
      match s with
      | [] => None
      | c :: r =>
          if c =? 34 then Some ([], r)
          else if c =? 92 then
            match r with
            | [] => None
            | e :: r =>
                if e =? 34 then consr 34 (parse_chars f r)
                else if e =? 92 then consr 92 (parse_chars f r)
                else if e =? 47 then consr 47 (parse_chars f r)
                else if e =? 98 then consr 8 (parse_chars f r)
                else if e =? 102 then consr 12 (parse_chars f r)
                else if e =? 110 then consr 10 (parse_chars f r)
                else if e =? 114 then consr 13 (parse_chars f r)
                else if e =? 116 then consr 9 (parse_chars f r)
                else if e =? 117 then
                  match parse_hex4 r with
                  | None => None
                  | Some (n, r1) =>
                      (* json.decoder.py_scanstring: a high surrogate followed by an escaped low one is joined *)
                      if is_high n then
                        match r1 with
                        | b :: u :: r2 =>
                            if (b =? 92) && (u =? 117) then
                              match parse_hex4 r2 with
                              | Some (m, r3) =>
                                  if is_low m then consr (65536 + (n - 55296) * 1024 + (m - 56320)) (parse_chars f r3)
                                  else consr n (parse_chars f r1)
                              | None => consr n (parse_chars f r1)
                              end
                            else consr n (parse_chars f r1)
                        | _ => consr n (parse_chars f r1)
                        end
                      else consr n (parse_chars f r1)
                  end
                else None
            end
          else consr c (parse_chars f r)
      end
  end.

Definition is_num_char (c : N) : bool :=
  ((48 <=? c) && (c <=? 57)) || (c =? 45) || (c =? 43) || (c =? 46) || (c =? 101) || (c =? 69).
Fixpoint span_num (s : str) : str * str :=
  match s with
  | c :: s' => if is_num_char c then let '(a, b) := span_num s' in (c :: a, b) else ([], s)
  | [] => ([], [])
  end.
Definition is_digit_c (c : N) : bool := (48 <=? c) && (c <=? 57).
Fixpoint digits_val (acc : N) (s : str) : option N :=
  match s with
  | [] => Some acc
  | c :: s' => if is_digit_c c then digits_val (acc * 10 + (c - 48)) s' else None
  end.
Definition parse_number (tok : str) : option json :=
  if existsb (fun c => (c =? 46) || (c =? 101) || (c =? 69)) tok then
    match tok with [] => None | _ => Some (JFloat tok) end       (* a float literal: kept as its text *)
  else match tok with
       | [] => None
       | c :: ds =>
           if (c =? 45) && match ds with [] => false | _ => true end
           then option_map (fun n => JInt (- Z.of_N n)%Z) (digits_val 0 ds)
           else option_map (fun n => JInt (Z.of_N n)) (digits_val 0 tok)
       end.

(** json.scanner: after the number pattern fails, the three non-finite float literals *)
Definition parse_special (s : str) : option (json * str) :=
  if prefixb (U"NaN") s then Some (JFloat (U"NaN"), skipn 3 s)
  else if prefixb (U"Infinity") s then Some (JFloat (U"Infinity"), skipn 8 s)
  else if prefixb (U"-Infinity") s then Some (JFloat (U"-Infinity"), skipn 9 s)
  else None.

Section Loops.
  Variable pv : str -> option (json * str).      (* the value parser one level down *)
  (** after '[' and at least one element expected *)
  Fixpoint elems_loop (n : nat) (s : str) : option (list json * str) :=
    match n with
    | O => None
    | S n' =>
        match pv s with
        | None => None
        | Some (x, r) =>
            match skip_ws r with
            | c :: r' =>
                if c =? 44 then match elems_loop n' r' with Some (xs, r'') => Some (x :: xs, r'') | None => None end
                else if c =? 93 then Some ([x], r')
                else None
            | [] => None
            end
        end
    end.
  (** after '{' and at least one member expected *)
  Fixpoint members_loop (n : nat) (s : str) : option (list (str * json) * str) :=
    match n with
    | O => None
    | S n' =>
        match skip_ws s with
        | q :: r0 =>
            if q =? 34 then
              match parse_chars (S (length r0)) r0 with
              | None => None
              | Some (k, r1) =>
                  match skip_ws r1 with
                  | co :: r2 =>
                      if co =? 58 then
                        match pv r2 with
                        | None => None
                        | Some (x, r3) =>
                            match skip_ws r3 with
                            | c :: r' =>
                                if c =? 44 then match members_loop n' r' with
                                                | Some (xs, r'') => Some ((k, x) :: xs, r'') | None => None end
                                else if c =? 125 then Some ([(k, x)], r')
                                else None
                            | [] => None
                            end
                        end
                      else None
                  | [] => None
                  end
              end
            else None
        | [] => None
        end
    end.
End Loops.

Fixpoint parse_value (fuel : nat) (s : str) : option (json * str) :=
  match fuel with
  | O => None
  | S f =>
      match skip_ws s with
      | [] => None
      | (c :: r) as s1 =>
          if c =? 34 then
            match parse_chars (S (length r)) r with Some (cs, r') => Some (JStr cs, r') | None => None end
          else if c =? 91 then
            match skip_ws r with
            | [] => None
            | (c1 :: r') as r1 =>
                if c1 =? 93 then Some (JArr [], r')
                else match elems_loop (parse_value f) f r1 with Some (xs, r'') => Some (JArr xs, r'') | None => None end
            end
          else if c =? 123 then
            match skip_ws r with
            | [] => None
            | (c1 :: r') as r1 =>
                if c1 =? 125 then Some (JObj [], r')
                else match members_loop (parse_value f) f r1 with Some (xs, r'') => Some (JObj xs, r'') | None => None end
            end
          else if prefixb (U"null") s1 then Some (JNull, skipn 4 s1)
          else if prefixb (U"true") s1 then Some (JBool true, skipn 4 s1)
          else if prefixb (U"false") s1 then Some (JBool false, skipn 5 s1)
          else let '(tok, r') := span_num s1 in
               match parse_number tok with
               | Some j => Some (j, r')
               | None => parse_special s1
               end
      end
  end.

(** [json.loads]: None = raises (JSONDecodeError).  NB: a JSON object with a repeated member
    name keeps all members here (Python keeps the last); [dumps] never produces one from a
    [flatten]ed value because dict keys are distinct. *)
Definition loads (s : str) : option json :=
  match parse_value (S (length s)) s with
  | Some (j, r) => match skip_ws r with [] => Some j | _ => None end
  | None => None
  end.

(** inverse of [Codec.qp_simple] (no soft line breaks in the simple domain) *)
Definition hexval_u (c : N) : N := if (c <? 58) then c - 48 else c - 55.
Fixpoint qp_dec_simple (s : str) : list N :=
  match s with
  | c :: r =>
      if c =? 61 then
        match r with
        | a :: b :: r' => (hexval_u a * 16 + hexval_u b) :: qp_dec_simple r'
        | _ => c :: qp_dec_simple r
        end
      else c :: qp_dec_simple r
  | [] => []
  end.

(** [jsonpickle.decode] on the tree domain: None = raises / outside the model *)
Definition decode (s : str) : option pyval :=
  match loads s with Some j => restore qp_dec_simple j | None => None end.
