(** Model A, part 3: a concrete [json.loads] for the texts [Codec.dumps] produces (and for any
    other RFC 8259 text over the same AST: ints, floats kept as their literal text, strings
    with the standard escapes and surrogate pairs, arrays, objects), plus the decoder that
    inverts [Codec.qp_simple].  Executable definitions only; used by the correspondence
    runners as the instance of the [loads] oracle of the store theorems (whose hypothesis
    [loads (dumps j) = Some j] is evaluated on every generated case, see Run/RunC07.v). *)
From Playback Require Import Base.Str Values.PyVal Values.Codec.
Open Scope list_scope.
Open Scope N_scope.

Definition is_ws (c : N) : bool := (c =? 32) || (c =? 9) || (c =? 10) || (c =? 13).
Fixpoint skip_ws (s : str) : str :=
  match s with
  | c :: s' => if is_ws c then skip_ws s' else s
  | [] => []
  end.

Definition hexval (c : N) : option N :=
  if (48 <=? c) && (c <=? 57) then Some (c - 48)
  else if (97 <=? c) && (c <=? 102) then Some (c - 87)
  else if (65 <=? c) && (c <=? 70) then Some (c - 55)
  else None.

Definition parse_hex4 (s : str) : option (N * str) :=
  match s with
  | a :: b :: c :: d :: r =>
      match hexval a, hexval b, hexval c, hexval d with
      | Some x, Some y, Some z, Some w => Some (x * 4096 + y * 256 + z * 16 + w, r)
      | _, _, _, _ => None
      end
  | _ => None
  end.

Definition is_high (n : N) : bool := (55296 <=? n) && (n <=? 56319).
Definition is_low (n : N) : bool := (56320 <=? n) && (n <=? 57343).

(** the characters of a string literal after its opening quote: (content, rest after the closing quote) *)
Fixpoint parse_chars (fuel : nat) (s : str) : option (str * str) :=
  match fuel with
  | O => None
  | S f =>
      match s with
      | [] => None
      | 34 :: r => Some ([], r)
      | 92 :: e :: r =>
          let simple c := match parse_chars f r with Some (cs, r') => Some (c :: cs, r') | None => None end in
          if e =? 34 then simple 34
          else if e =? 92 then simple 92
          else if e =? 47 then simple 47
          else if e =? 98 then simple 8
          else if e =? 102 then simple 12
          else if e =? 110 then simple 10
          else if e =? 114 then simple 13
          else if e =? 116 then simple 9
          else if e =? 117 then
            match parse_hex4 r with
            | None => None
            | Some (n, r1) =>
                (* json.decoder.py_scanstring: a high surrogate followed by an escaped low one is joined *)
                let lone := match parse_chars f r1 with Some (cs, r') => Some (n :: cs, r') | None => None end in
                if is_high n then
                  match r1 with
                  | 92 :: 117 :: r2 =>
                      match parse_hex4 r2 with
                      | Some (m, r3) =>
                          if is_low m then
                            match parse_chars f r3 with
                            | Some (cs, r') => Some (65536 + (n - 55296) * 1024 + (m - 56320) :: cs, r')
                            | None => None
                            end
                          else lone
                      | None => lone
                      end
                  | _ => lone
                  end
                else lone
            end
          else None
      | [92] => None
      | c :: r => match parse_chars f r with Some (cs, r') => Some (c :: cs, r') | None => None end
      end
  end.

Definition is_num_char (c : N) : bool :=
  ((48 <=? c) && (c <=? 57)) || (c =? 45) || (c =? 43) || (c =? 46) || (c =? 101) || (c =? 69).
Fixpoint span_num (s : str) : str * str :=
  match s with
  | c :: s' => if is_num_char c then let '(a, b) := span_num s' in (c :: a, b) else ([], s)
  | [] => ([], [])
  end.
Definition is_digit_c (c : N) : bool := (48 <=? c) && (c <=? 57).
Fixpoint digits_val (acc : N) (s : str) : option N :=
  match s with
  | [] => Some acc
  | c :: s' => if is_digit_c c then digits_val (acc * 10 + (c - 48)) s' else None
  end.
Definition parse_number (tok : str) : option json :=
  if existsb (fun c => (c =? 46) || (c =? 101) || (c =? 69)) tok then
    match tok with [] => None | _ => Some (JFloat tok) end       (* a float literal: kept as its text *)
  else match tok with
       | 45 :: (_ :: _) as ds => option_map (fun n => JInt (- Z.of_N n)%Z) (digits_val 0 ds)
       | _ :: _ => option_map (fun n => JInt (Z.of_N n)) (digits_val 0 tok)
       | [] => None
       end.

Section Loops.
  Variable pv : str -> option (json * str).      (* the value parser one level down *)
  (** after '[' and at least one element expected *)
  Fixpoint elems_loop (n : nat) (s : str) : option (list json * str) :=
    match n with
    | O => None
    | S n' =>
        match pv s with
        | None => None
        | Some (x, r) =>
            match skip_ws r with
            | 44 :: r' => match elems_loop n' r' with Some (xs, r'') => Some (x :: xs, r'') | None => None end
            | 93 :: r' => Some ([x], r')
            | _ => None
            end
        end
    end.
  (** after '{' and at least one member expected *)
  Fixpoint members_loop (n : nat) (s : str) : option (list (str * json) * str) :=
    match n with
    | O => None
    | S n' =>
        match skip_ws s with
        | 34 :: r0 =>
            match parse_chars (S (length r0)) r0 with
            | None => None
            | Some (k, r1) =>
                match skip_ws r1 with
                | 58 :: r2 =>
                    match pv r2 with
                    | None => None
                    | Some (x, r3) =>
                        match skip_ws r3 with
                        | 44 :: r' => match members_loop n' r' with
                                      | Some (xs, r'') => Some ((k, x) :: xs, r'') | None => None end
                        | 125 :: r' => Some ([(k, x)], r')
                        | _ => None
                        end
                    end
                | _ => None
                end
            end
        | _ => None
        end
    end.
End Loops.

Fixpoint parse_value (fuel : nat) (s : str) : option (json * str) :=
  match fuel with
  | O => None
  | S f =>
      match skip_ws s with
      | 110 :: 117 :: 108 :: 108 :: r => Some (JNull, r)
      | 116 :: 114 :: 117 :: 101 :: r => Some (JBool true, r)
      | 102 :: 97 :: 108 :: 115 :: 101 :: r => Some (JBool false, r)
      | 34 :: r => match parse_chars (S (length r)) r with Some (cs, r') => Some (JStr cs, r') | None => None end
      | 91 :: r =>
          match skip_ws r with
          | 93 :: r' => Some (JArr [], r')
          | r1 => match elems_loop (parse_value f) f r1 with Some (xs, r') => Some (JArr xs, r') | None => None end
          end
      | 123 :: r =>
          match skip_ws r with
          | 125 :: r' => Some (JObj [], r')
          | r1 => match members_loop (parse_value f) f r1 with Some (xs, r') => Some (JObj xs, r') | None => None end
          end
      | s1 => let '(tok, r) := span_num s1 in
              match parse_number tok with Some j => Some (j, r) | None => None end
      end
  end.

(** [json.loads]: None = raises (JSONDecodeError).  NB: a JSON object with a repeated member
    name keeps all members here (Python keeps the last); [dumps] never produces one from a
    [flatten]ed value because dict keys are distinct. *)
Definition loads (s : str) : option json :=
  match parse_value (S (length s)) s with
  | Some (j, r) => match skip_ws r with [] => Some j | _ => None end
  | None => None
  end.

(** inverse of [Codec.qp_simple] (no soft line breaks in the simple domain) *)
Definition hexval_u (c : N) : N := if (c <? 58) then c - 48 else c - 55.
Fixpoint qp_dec_simple (s : str) : list N :=
  match s with
  | 61 :: a :: b :: r => (hexval_u a * 16 + hexval_u b) :: qp_dec_simple r
  | c :: r => c :: qp_dec_simple r
  | [] => []
  end.

(** [jsonpickle.decode] on the tree domain: None = raises / outside the model *)
Definition decode (s : str) : option pyval :=
  match loads s with Some j => restore qp_dec_simple j | None => None end.
