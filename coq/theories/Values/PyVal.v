(** Model A, part 1: tree-shaped Python values (the serializer's faithful domain). *)
From Playback Require Import Base.Str.
Open Scope list_scope.

Inductive pyval :=
| VNone
| VBool (b : bool)
| VInt (z : Z)
| VFloat (repr : str)                    (* a finite float, carried as its repr() text *)
| VStr (s : str)
| VBytes (b : list N)
| VList (l : list pyval)
| VTuple (l : list pyval)
| VSet (l : list pyval)                  (* elements in iteration order *)
| VDict (d : list (str * pyval))         (* str-keyed dict, items in insertion order *)
| VObj (cls : str) (attrs : list (str * pyval))   (* plain object: class path and __dict__ *)
| VClass (path : str)                    (* a class used as a value *)
| VUnser (tag : N).                      (* an object whose serialization raises *)

(** insertion sort of items by key (Python: sorted(items, key=itemgetter(0)), stable) *)
Fixpoint insert_item {A} (kv : str * A) (l : list (str * A)) : list (str * A) :=
  match l with
  | [] => [kv]
  | kv' :: l' => if str_ltb (fst kv') (fst kv) then kv' :: insert_item kv l' else kv :: l
  end.
Fixpoint sort_items {A} (l : list (str * A)) : list (str * A) :=
  match l with
  | [] => []
  | kv :: l' => insert_item kv (sort_items l')
  end.
(** NB: Python's sort is stable; for lists with distinct keys (all dicts) every sorting
    function returns the same list, see CodecFacts.sort_items_perm_unique. *)

Section Combinators.
  Context {A B : Type}.
  Variable f : A -> B.
  Fixpoint map_snd (l : list (str * A)) : list (str * B) :=
    match l with
    | [] => []
    | (k, v) :: l' => (k, f v) :: map_snd l'
    end.
End Combinators.

Section OptCombinators.
  Context {A B : Type}.
  Variable keep : str -> bool.
  Variable f : A -> option B.
  (** map a partial function over a list / over the values of the kept items; None if any fails *)
  Fixpoint opt_map_list (l : list A) : option (list B) :=
    match l with
    | [] => Some []
    | x :: l' => match f x, opt_map_list l' with
                 | Some y, Some ys => Some (y :: ys)
                 | _, _ => None
                 end
    end.
  Fixpoint opt_map_items (d : list (str * A)) : option (list (str * B)) :=
    match d with
    | [] => Some []
    | (k, x) :: d' =>
        if keep k then
          match f x, opt_map_items d' with
          | Some y, Some ys => Some ((k, y) :: ys)
          | _, _ => None
          end
        else opt_map_items d'
    end.
End OptCombinators.

(** canonical form: dict items and object attributes sorted by key, recursively
    ([==] on dicts and on plain objects ignores insertion order) *)
Fixpoint canon (v : pyval) : pyval :=
  match v with
  | VList l => VList (map canon l)
  | VTuple l => VTuple (map canon l)
  | VSet l => VSet (map canon l)
  | VDict d => VDict (sort_items (map_snd canon d))
  | VObj c d => VObj c (sort_items (map_snd canon d))
  | _ => v
  end.

(** structural equality up to dict insertion order *)
Definition veq (a b : pyval) : Prop := canon a = canon b.

(** reserved dict keys, dropped by jsonpickle's is_picklable (tags.RESERVED) *)
Definition RESERVED : list str :=
  [U"py/bytes"; U"py/function"; U"py/id"; U"py/initargs"; U"py/iterator"; U"py/newargs";
   U"py/newargsex"; U"py/newobj"; U"py/object"; U"py/reduce"; U"py/ref"; U"py/repr";
   U"py/seq"; U"py/set"; U"py/state"; U"py/tuple"; U"py/type"].
Definition reserved (k : str) : bool := existsb (str_eqb k) RESERVED.

Fixpoint assoc {A} (k : str) (d : list (str * A)) : option A :=
  match d with
  | [] => None
  | (k', v) :: d' => if str_eqb k k' then Some v else assoc k d'
  end.
Definition has_any {A} (ks : list str) (d : list (str * A)) : bool :=
  existsb (fun k => match assoc k d with Some _ => true | None => false end) ks.

Fixpoint keys_distinct {A} (d : list (str * A)) : bool :=
  match d with
  | [] => true
  | (k, _) :: d' => negb (existsb (fun kv => str_eqb k (fst kv)) d') && keys_distinct d'
  end.

Definition surrogate (c : N) : bool := (55296 <=? c)%N && (c <=? 57343)%N.
Definition str_ok (s : str) : bool := forallb (fun c => negb (surrogate c) && (c <=? 1114111)%N) s.

(** the faithful domain: tree shaped by construction; no reserved keys, distinct keys, objects
    with at least one attribute, no lone surrogates, nothing unserializable *)
Fixpoint wf (v : pyval) : bool :=
  match v with
  | VNone | VBool _ | VInt _ | VFloat _ | VBytes _ => true
  | VStr s => str_ok s
  | VClass p => str_ok p
  | VList l | VTuple l | VSet l => forallb wf l
  | VDict d =>
      keys_distinct d && forallb (fun kv => negb (reserved (fst kv)) && str_ok (fst kv) && wf (snd kv)) d
  | VObj c d =>
      str_ok c && negb (match d with [] => true | _ => false end) && keys_distinct d &&
      forallb (fun kv => negb (reserved (fst kv)) && str_ok (fst kv) && wf (snd kv)) d
  | VUnser _ => false
  end.

(** decidable equality (used by the recorder model and the runners) *)
Fixpoint pyval_eqb (a b : pyval) : bool :=
  match a, b with
  | VNone, VNone => true
  | VBool x, VBool y => Bool.eqb x y
  | VInt x, VInt y => Z.eqb x y
  | VFloat x, VFloat y => str_eqb x y
  | VStr x, VStr y => str_eqb x y
  | VBytes x, VBytes y => list_eqb N.eqb x y
  | VList x, VList y | VTuple x, VTuple y | VSet x, VSet y =>
      (fix go (x y : list pyval) : bool := match x, y with
         | [], [] => true
         | a :: x', b :: y' => pyval_eqb a b && go x' y'
         | _, _ => false end) x y
  | VDict x, VDict y =>
      (fix go (x y : list (str * pyval)) : bool := match x, y with
         | [], [] => true
         | (k, a) :: x', (k', b) :: y' => str_eqb k k' && pyval_eqb a b && go x' y'
         | _, _ => false end) x y
  | VObj c x, VObj c' y =>
      str_eqb c c' &&
      (fix go (x y : list (str * pyval)) : bool := match x, y with
         | [], [] => true
         | (k, a) :: x', (k', b) :: y' => str_eqb k k' && pyval_eqb a b && go x' y'
         | _, _ => false end) x y
  | VClass x, VClass y => str_eqb x y
  | VUnser x, VUnser y => N.eqb x y
  | _, _ => false
  end.

(** Python [==] on the model: equality of canonical forms *)
Definition py_equal (a b : pyval) : bool := pyval_eqb (canon a) (canon b).
