(** Facts about the serializer model on the faithful domain:
    restore (flatten v) = canon v, hence flatten is injective up to dict order;
    flatten (canon v) = flatten v, hence structurally equal values encode identically. *)
From Playback Require Import Base.Str Base.StrFacts Values.PyVal Values.SortFacts Values.Codec.
From Coq Require Import Permutation Lia.
Open Scope list_scope.
Local Arguments reserved : simpl never.
Local Arguments str_ok : simpl never.

Section Ind.
  Variable P : pyval -> Prop.
  Hypothesis HNone : P VNone.
  Hypothesis HBool : forall b, P (VBool b).
  Hypothesis HInt : forall z, P (VInt z).
  Hypothesis HFloat : forall r, P (VFloat r).
  Hypothesis HStr : forall s, P (VStr s).
  Hypothesis HBytes : forall b, P (VBytes b).
  Hypothesis HList : forall l, Forall P l -> P (VList l).
  Hypothesis HTuple : forall l, Forall P l -> P (VTuple l).
  Hypothesis HSet : forall l, Forall P l -> P (VSet l).
  Hypothesis HDict : forall d, Forall (fun kv => P (snd kv)) d -> P (VDict d).
  Hypothesis HObj : forall c d, Forall (fun kv => P (snd kv)) d -> P (VObj c d).
  Hypothesis HClass : forall p, P (VClass p).
  Hypothesis HUnser : forall t, P (VUnser t).
  Fixpoint pyval_ind' (v : pyval) : P v :=
    let list_ih := fix go (l : list pyval) : Forall P l :=
      match l with [] => Forall_nil _ | x :: l' => Forall_cons _ (pyval_ind' x) (go l') end in
    let items_ih := fix go (d : list (str * pyval)) : Forall (fun kv => P (snd kv)) d :=
      match d with [] => Forall_nil _ | kv :: d' => Forall_cons _ (pyval_ind' (snd kv)) (go d') end in
    match v with
    | VNone => HNone | VBool b => HBool b | VInt z => HInt z | VFloat r => HFloat r
    | VStr s => HStr s | VBytes b => HBytes b
    | VList l => HList l (list_ih l)
    | VTuple l => HTuple l (list_ih l)
    | VSet l => HSet l (list_ih l)
    | VDict d => HDict d (items_ih d)
    | VObj c d => HObj c d (items_ih d)
    | VClass p => HClass p
    | VUnser t => HUnser t
    end.
End Ind.

Section Codec.
  Variable qp : list N -> str.
  Variable qp_dec : str -> list N.
  Hypothesis qp_roundtrip : forall b, qp_dec (qp b) = b.

  Notation flatten := (flatten qp).
  Notation restore := (restore qp_dec).

  Definition good (v : pyval) : Prop :=
    exists j, flatten v = Some j /\ restore j = Some (canon v).

  Lemma list_roundtrip l :
    Forall (fun x => wf x = true -> good x) l -> forallb wf l = true ->
    exists js, opt_map_list flatten l = Some js /\ opt_map_list restore js = Some (map canon l).
  Proof.
    induction 1 as [|x l Hx Hl IH]; cbn; intros W.
    - exists []. split; reflexivity.
    - apply andb_true_iff in W. destruct W as [W1 W2].
      destruct (Hx W1) as [j [F R]]. destruct (IH W2) as [js [Fs Rs]].
      exists (j :: js). rewrite F, Fs. split; [reflexivity|]. cbn. rewrite R, Rs. reflexivity.
  Qed.

  Definition item_ok (kv : str * pyval) : bool :=
    negb (reserved (fst kv)) && str_ok (fst kv) && wf (snd kv).

  Lemma items_roundtrip d :
    Forall (fun kv => wf (snd kv) = true -> good (snd kv)) d -> forallb item_ok d = true ->
    exists js, opt_map_items kept flatten d = Some js /\
               opt_map_items (fun _ => true) restore js = Some (map_snd canon d) /\
               keys js = keys d.
  Proof.
    induction 1 as [|[k x] d Hx Hd IH]; cbn; intros W.
    - exists []. repeat split; reflexivity.
    - apply andb_true_iff in W. destruct W as [W1 W2]. unfold item_ok in W1. cbn [fst snd] in W1, Hx.
      apply andb_true_iff in W1. destruct W1 as [W1 Wx]. apply andb_true_iff in W1. destruct W1 as [Wr _].
      destruct (Hx Wx) as [j [F R]]. destruct (IH W2) as [js [Fs [Rs Ks]]].
      exists ((k, j) :: js). unfold kept at 1. rewrite Wr, F, Fs. split; [reflexivity|].
      split; [cbn; rewrite R, Rs; reflexivity|unfold keys in *; cbn; f_equal; exact Ks].
  Qed.

  Lemma items_keys_unreserved d : forallb item_ok d = true -> forall k, In k (keys d) -> reserved k = false.
  Proof.
    intros W k I. apply in_map_iff in I. destruct I as [[k' x] [E I]]. cbn in E; subst.
    rewrite forallb_forall in W. specialize (W _ I). unfold item_ok in W. cbn in W.
    apply andb_true_iff in W. destruct W as [W _]. apply andb_true_iff in W. destruct W as [W _].
    apply negb_true_iff in W. exact W.
  Qed.

  Lemma assoc_reserved_None {A} t (items : list (str * A)) :
    (forall k, In k (keys items) -> reserved k = false) -> reserved t = true -> assoc t items = None.
  Proof. intros H R. apply assoc_None. intros C. apply H in C. congruence. Qed.

  (** a JSON object whose restored items carry no reserved key is restored as a plain dict *)
  Lemma restore_plain_dict d items :
    opt_map_items (fun _ => true) restore d = Some items ->
    (forall k, In k (keys items) -> reserved k = false) ->
    restore (JObj d) = Some (VDict items).
  Proof.
    intros E H. cbn [Codec.restore]. rewrite E.
    assert (T : forall t, reserved t = true -> assoc t items = None) by (intros; apply assoc_reserved_None; assumption).
    unfold has_any. cbn [existsb].
    rewrite !T by reflexivity. reflexivity.
  Qed.

  Lemma dict_roundtrip d :
    Forall (fun kv => wf (snd kv) = true -> good (snd kv)) d -> forallb item_ok d = true ->
    exists js, opt_map_items kept flatten d = Some js /\
               restore (JObj (sort_items js)) = Some (VDict (sort_items (map_snd canon d))).
  Proof.
    intros H W. destruct (items_roundtrip d H W) as [js [F [R K]]].
    exists js. split; [exact F|].
    apply restore_plain_dict.
    - rewrite opt_items_sort by reflexivity. rewrite R. reflexivity.
    - intros k I. apply (items_keys_unreserved d W).
      rewrite <- (keys_map_snd canon d).
      eapply Permutation_in; [apply keys_perm, sort_perm|exact I].
  Qed.

  Lemma restore_object c st a :
    restore st = Some (VDict a) ->
    restore (JObj [(U"py/object", JStr c); (U"py/state", st)]) = Some (VObj c a).
  Proof. intros E. cbn [Codec.restore opt_map_items]. rewrite E. reflexivity. Qed.

  Theorem restore_flatten : forall v, wf v = true -> good v.
  Proof.
    induction v using pyval_ind'; intros W; unfold good.
    - exists JNull; split; reflexivity.
    - exists (JBool b); split; reflexivity.
    - exists (JInt z); split; reflexivity.
    - exists (JFloat r); split; reflexivity.
    - exists (JStr s); split; reflexivity.
    - eexists; split; [reflexivity|]. cbn. rewrite qp_roundtrip. reflexivity.
    - cbn in W. destruct (list_roundtrip l H W) as [js [F R]].
      exists (JArr js). cbn. rewrite F. split; [reflexivity|]. cbn. rewrite R. reflexivity.
    - cbn in W. destruct (list_roundtrip l H W) as [js [F R]].
      eexists. cbn. rewrite F. split; [reflexivity|]. cbn. rewrite R. reflexivity.
    - cbn in W. destruct (list_roundtrip l H W) as [js [F R]].
      eexists. cbn. rewrite F. split; [reflexivity|]. cbn. rewrite R. reflexivity.
    - cbn in W. apply andb_true_iff in W. destruct W as [_ W].
      destruct (dict_roundtrip d H W) as [js [F R]].
      eexists. cbn [Codec.flatten]. rewrite F. split; [reflexivity|]. exact R.
    - cbn in W. apply andb_true_iff in W. destruct W as [W Wi]. apply andb_true_iff in W. destruct W as [W _].
      apply andb_true_iff in W. destruct W as [_ Wne].
      destruct (dict_roundtrip d H Wi) as [js [F R]].
      destruct d as [|kv d]; [discriminate|].
      eexists. cbn [Codec.flatten]. rewrite F. split; [reflexivity|].
      cbn [option_map]. apply restore_object. exact R.
    - eexists; split; reflexivity.
    - discriminate.
  Qed.

  (** structurally equal values (up to dict insertion order) flatten identically *)
  Lemma opt_list_map_ext l :
    Forall (fun x => wf x = true -> flatten (canon x) = flatten x) l -> forallb wf l = true ->
    opt_map_list flatten (map canon l) = opt_map_list flatten l.
  Proof.
    induction 1 as [|x l Hx Hl IH]; cbn; intros W; [reflexivity|].
    apply andb_true_iff in W. destruct W as [W1 W2]. rewrite (Hx W1), (IH W2). reflexivity.
  Qed.

  Lemma opt_items_map_ext d :
    Forall (fun kv => wf (snd kv) = true -> flatten (canon (snd kv)) = flatten (snd kv)) d ->
    forallb item_ok d = true ->
    opt_map_items kept flatten (map_snd canon d) = opt_map_items kept flatten d.
  Proof.
    induction 1 as [|[k x] d Hx Hd IH]; cbn; intros W; [reflexivity|].
    apply andb_true_iff in W. destruct W as [W1 W2]. unfold item_ok in W1. cbn [fst snd] in W1, Hx.
    apply andb_true_iff in W1. destruct W1 as [_ Wx].
    rewrite (Hx Wx), (IH W2). reflexivity.
  Qed.

  Lemma dict_canon d :
    Forall (fun kv => wf (snd kv) = true -> flatten (canon (snd kv)) = flatten (snd kv)) d ->
    keys_distinct d = true -> forallb item_ok d = true ->
    option_map (fun js => sort_items js) (opt_map_items kept flatten (sort_items (map_snd canon d))) =
    option_map (fun js => sort_items js) (opt_map_items kept flatten d).
  Proof.
    intros H Kd W.
    assert (Kept : forall k, In k (keys d) -> kept k = true).
    { intros k I. unfold kept. rewrite (items_keys_unreserved d W k I). reflexivity. }
    rewrite opt_items_sort by (intros k I; apply Kept; rewrite <- (keys_map_snd canon d); exact I).
    rewrite (opt_items_map_ext d H W).
    destruct (opt_map_items kept flatten d) as [js|] eqn:E; [|reflexivity].
    cbn. f_equal. apply sort_idem.
    rewrite (opt_items_keys kept flatten d js Kept E). apply keys_distinct_NoDup. exact Kd.
  Qed.

  Theorem flatten_canon : forall v, wf v = true -> flatten (canon v) = flatten v.
  Proof.
    induction v using pyval_ind'; intros W; try reflexivity.
    - cbn in W. cbn [canon Codec.flatten]. rewrite (opt_list_map_ext l H W). reflexivity.
    - cbn in W. cbn [canon Codec.flatten]. rewrite (opt_list_map_ext l H W). reflexivity.
    - cbn in W. cbn [canon Codec.flatten]. rewrite (opt_list_map_ext l H W). reflexivity.
    - cbn in W. apply andb_true_iff in W. destruct W as [Kd W].
      cbn [canon Codec.flatten].
      pose proof (dict_canon d H Kd W) as E.
      destruct (opt_map_items kept flatten (sort_items (map_snd canon d))), (opt_map_items kept flatten d);
        cbn in *; congruence.
    - cbn in W. apply andb_true_iff in W. destruct W as [W Wi]. apply andb_true_iff in W. destruct W as [W Kd].
      apply andb_true_iff in W. destruct W as [_ Wne].
      cbn [canon Codec.flatten].
      pose proof (dict_canon d H Kd Wi) as E.
      destruct d as [|kv d]; [discriminate|].
      destruct (sort_items (map_snd canon (kv :: d))) as [|kv' d'] eqn:S.
      { exfalso. pose proof (sort_perm (map_snd canon (kv :: d))) as P. rewrite S in P.
        apply Permutation_nil in P. destruct kv; discriminate. }
      destruct (opt_map_items kept flatten (kv' :: d')), (opt_map_items kept flatten (kv :: d));
        cbn in *; congruence.
  Qed.

  Corollary veq_same_flatten a b : wf a = true -> wf b = true -> veq a b -> flatten a = flatten b.
  Proof. unfold veq. intros Wa Wb E. rewrite <- (flatten_canon a Wa), <- (flatten_canon b Wb), E. reflexivity. Qed.

  Corollary flatten_total v : wf v = true -> flatten v <> None.
  Proof. intros W. destruct (restore_flatten v W) as [j [F _]]. congruence. Qed.

  Corollary flatten_injective a b :
    wf a = true -> wf b = true -> flatten a = flatten b -> canon a = canon b.
  Proof.
    intros Wa Wb E. destruct (restore_flatten a Wa) as [ja [Fa Ra]]. destruct (restore_flatten b Wb) as [jb [Fb Rb]].
    rewrite Fa, Fb in E. inversion E; subst. congruence.
  Qed.
End Codec.
