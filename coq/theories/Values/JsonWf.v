(** Model A, part 2b: the domain of JSON trees on which [Codec.dumps] is injective and
    [json.loads] inverts it.  Executable definitions only (facts: JsonFacts.v).

    [float_repr_ok] describes the texts json.dumps prints for a float on this interpreter
    (CPython 3.12, float_repr_style = short): float.__repr__ of a finite float,
        -? digits+ ( . digits+ )? ( e (+|-) digits+ )?     with a fraction or an exponent,
    e.g. 1.0, -0.5, 1e+16, 1.5e-07, 5e-324, 1.7976931348623157e+308, and the three non-finite
    texts of json.encoder.floatstr: NaN, Infinity, -Infinity.  (The harness checks every float
    text it sends against the same grammar: harness/lib/pyvals.py float_text_ok.) *)
From Playback Require Import Base.Str Values.PyVal Values.Codec.
Open Scope list_scope.
Open Scope N_scope.

Definition is_dig (c : N) : bool := (48 <=? c) && (c <=? 57).
Fixpoint span_digits (s : str) : str * str :=
  match s with
  | c :: s' => if is_dig c then let '(a, b) := span_digits s' in (c :: a, b) else ([], s)
  | [] => ([], [])
  end.
Definition nonempty {A} (l : list A) : bool := match l with [] => false | _ => true end.

(** e (+|-) digits+ *)
Definition exp_ok (e : str) : bool :=
  match e with
  | c :: sg :: ds => (c =? 101) && ((sg =? 43) || (sg =? 45)) && nonempty ds && forallb is_dig ds
  | _ => false
  end.
(** what follows the integer part: a fraction, optionally followed by an exponent; or an exponent *)
Definition frac_exp_ok (rest : str) : bool :=
  match rest with
  | c :: rest' =>
      if c =? 46 then
        let '(fp, e) := span_digits rest' in
        nonempty fp && match e with [] => true | _ => exp_ok e end
      else exp_ok rest
  | [] => false
  end.
Definition ufloat_ok (u : str) : bool :=
  let '(ip, rest) := span_digits u in nonempty ip && frac_exp_ok rest.
Definition finite_repr_ok (r : str) : bool :=
  match r with
  | c :: r' => if c =? 45 then ufloat_ok r' else ufloat_ok r
  | [] => false
  end.
Definition float_repr_ok (r : str) : bool :=
  finite_repr_ok r || str_eqb r (U"NaN") || str_eqb r (U"Infinity") || str_eqb r (U"-Infinity").

(** well-formed JSON trees: strings and member names without lone surrogates, float texts in
    the grammar above *)
Fixpoint jwf (j : json) : bool :=
  match j with
  | JNull | JBool _ | JInt _ => true
  | JFloat r => float_repr_ok r
  | JStr s => str_ok s
  | JArr l => forallb jwf l
  | JObj d => forallb (fun kv => str_ok (fst kv) && jwf (snd kv)) d
  end.

(** a list of bytes *)
Definition is_bytes (b : list N) : bool := forallb (fun x => x <? 256) b.

(** the leaves of a value are in the domain of the two text-level oracles: every float has a text
    in the grammar above, every bytes value is a list of bytes (< 256) *)
Fixpoint leaves_ok (v : pyval) : bool :=
  match v with
  | VFloat r => float_repr_ok r
  | VBytes b => is_bytes b
  | VList l | VTuple l | VSet l => forallb leaves_ok l
  | VDict d | VObj _ d => forallb (fun kv => leaves_ok (snd kv)) d
  | _ => true
  end.

(** the value domain of the key / store theorems: [wf] (PyVal.v) and [leaves_ok] *)
Definition vdom (v : pyval) : bool := wf v && leaves_ok v.

Definition container (j : json) : Prop := match j with JArr _ | JObj _ => True | _ => False end.

(** the texts of the elements of an array / the members of an object, as [Codec.dumps] lays them out
    (the two local loops of [dumps], named) *)
Fixpoint dumps_elems (l : list json) : str :=
  match l with
  | [] => []
  | [x] => dumps x
  | x :: l' => dumps x ++ U", " ++ dumps_elems l'
  end.
Fixpoint dumps_members (d : list (str * json)) : str :=
  match d with
  | [] => []
  | [(k, x)] => dumps_str k ++ U": " ++ dumps x
  | (k, x) :: d' => dumps_str k ++ U": " ++ dumps x ++ U", " ++ dumps_members d'
  end.

(** number of nodes: the fuel [JsonParse.parse_value] needs *)
Fixpoint jsize (j : json) : nat :=
  match j with
  | JArr l => S (fold_right (fun x n => (jsize x + n)%nat) O l)
  | JObj d => S (fold_right (fun kv n => (jsize (snd kv) + n)%nat) O d)
  | _ => 1%nat
  end.
