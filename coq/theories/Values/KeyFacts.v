(** Facts about the key formats (C03, C06). *)
From Playback Require Import Base.Str Base.StrFacts Values.PyVal Values.SortFacts Values.Codec Values.CodecFacts
  Values.KeyFormat Values.JsonWf Values.JsonFacts.
From Coq Require Import Permutation Lia.
Open Scope list_scope.

(** ---- output keys: "output: <alias> #<n>" is injective in (alias, n) for every alias ---- *)
Lemma okey_injective a i b j : okey a i = okey b j -> a = b /\ i = j.
Proof.
  unfold okey. intros E. apply app_inv_head in E.
  change (U" #") with ([32%N] ++ [35%N]) in E. rewrite <- !app_assoc in E.
  rewrite !app_assoc in E. rewrite <- !app_assoc in E.
  (* a ++ [32] ++ [35] ++ digits *)
  assert (E' : (a ++ [32%N]) ++ 35%N :: show_N i = (b ++ [32%N]) ++ 35%N :: show_N j).
  { rewrite <- !app_assoc. exact E. }
  assert (ND : forall n, ~ In 35%N (show_N n)).
  { intros n. apply digits_not_in; [apply show_N_digits|unfold is_digit; lia]. }
  destruct (split_last_unique _ _ _ _ _ E' (ND i) (ND j)) as [Ea Ed].
  apply app_inv_tail in Ea. apply show_N_inj in Ed. auto.
Qed.

Lemma okey_output_injective a i b j : okey_output a i = okey_output b j -> a = b /\ i = j.
Proof. unfold okey_output. intros E. apply app_inv_tail in E. apply okey_injective; exact E. Qed.
Lemma okey_result_injective a i b j : okey_result a i = okey_result b j -> a = b /\ i = j.
Proof. unfold okey_result. intros E. apply app_inv_tail in E. apply okey_injective; exact E. Qed.

(** an ".output" key is never a ".result" key *)
Lemma okey_output_not_result a i b j : okey_output a i <> okey_result b j.
Proof.
  unfold okey_output, okey_result. intros E.
  apply (f_equal (@List.rev N)) in E. rewrite !rev_app_distr in E. cbn in E. discriminate.
Qed.

(** ---- input keys ---- *)

(** the key depends on the call only through the capture selection *)
Lemma ikey_select_only enc alias cap st args1 kw1 args2 kw2 :
  select cap st args1 kw1 = select cap st args2 kw2 ->
  ikey enc alias cap st args1 kw1 = ikey enc alias cap st args2 kw2.
Proof. unfold ikey. intros ->. reflexivity. Qed.

(** with an explicit capture list, only the captured positions and names are read *)
Lemma select_list_ext l args1 kw1 args2 kw2 :
  (forall p n, In (Some p, n) l -> nth_error args1 p = nth_error args2 p) ->
  (forall p n, In (p, Some n) l -> assoc n kw1 = assoc n kw2) ->
  forall a kw, select_list args1 kw1 l a kw = select_list args2 kw2 l a kw.
Proof.
  induction l as [|[pos name] l IH]; intros Hp Hn a kw; [reflexivity|].
  assert (IH' : forall a kw, select_list args1 kw1 l a kw = select_list args2 kw2 l a kw).
  { apply IH; [intros p n I; apply (Hp p n); right; exact I|intros p n I; apply (Hn p n); right; exact I]. }
  cbn [select_list].
  destruct name as [n|].
  - rewrite <- (Hn pos n) by (left; reflexivity).
    destruct (assoc n kw1) as [v|]; cbn [option_map].
    + apply IH'.
    + destruct pos as [p|]; [|apply IH'].
      rewrite <- (Hp p (Some n)) by (left; reflexivity).
      destruct (nth_error args1 p); [apply IH'|reflexivity].
  - destruct pos as [p|]; [|apply IH'].
    rewrite <- (Hp p None) by (left; reflexivity).
    destruct (nth_error args1 p); [apply IH'|reflexivity].
Qed.

Lemma select_ext l st args1 kw1 args2 kw2 :
  (forall p n, In (Some p, n) l -> nth_error args1 p = nth_error args2 p) ->
  (forall p n, In (p, Some n) l -> assoc n kw1 = assoc n kw2) ->
  select (CapList l) st args1 kw1 = select (CapList l) st args2 kw2.
Proof. intros Hp Hn. unfold select. apply select_list_ext; assumption. Qed.

(** keyword insertion order is irrelevant *)
Lemma kwargs_order_irrelevant kw1 kw2 :
  NoDup (keys kw1) -> Permutation kw1 kw2 -> kwargs_value kw1 = kwargs_value kw2.
Proof. intros N P. unfold kwargs_value. rewrite (sort_unique kw1 kw2 N P). reflexivity. Qed.

Section Key.
  Variable qp : list N -> str.
  Variable qp_dec : str -> list N.
  Hypothesis qp_roundtrip : forall b, qp_dec (qp b) = b.
  Notation enc := (encode_with qp).

  (** structurally equal captured values (up to dict insertion order) give the same key *)
  Lemma ikey_deterministic alias a1 kw1 a2 kw2 :
    wf a1 = true -> wf a2 = true -> wf (kwargs_value kw1) = true -> wf (kwargs_value kw2) = true ->
    veq a1 a2 -> veq (kwargs_value kw1) (kwargs_value kw2) ->
    forall cap st args1 k1 args2 k2,
      select cap st args1 k1 = Selected a1 kw1 -> select cap st args2 k2 = Selected a2 kw2 ->
      ikey enc alias cap st args1 k1 = ikey enc alias cap st args2 k2.
  Proof.
    intros W1 W2 W3 W4 V1 V2 cap st args1 k1 args2 k2 S1 S2.
    unfold ikey, encode_with. rewrite S1, S2.
    rewrite (veq_same_flatten qp a1 a2 W1 W2 V1), (veq_same_flatten qp _ _ W3 W4 V2). reflexivity.
  Qed.

  (** Injectivity.  The two facts about json.dumps that it rests on are proved in JsonFacts.v on
      the well-formed trees [jwf] ([dumps_inj]: injective; [dumps_delim]: the text of a container is
      self-delimiting); [flatten_jwf] puts the flattened captured values there, given that the
      quoted-printable oracle maps byte strings to surrogate-free text. *)
  Hypothesis qp_ascii : forall b, is_bytes b = true -> str_ok (qp b) = true.

  Definition no_eq_sign (alias : str) : Prop := ~ In 61%N alias.

  Lemma flatten_container_args v j : (exists l, v = VTuple l \/ v = VList l) -> flatten qp v = Some j -> container j.
  Proof.
    intros [l [->| ->]]; cbn; destruct (opt_map_list (flatten qp) l); cbn; intros E; inversion E; exact I.
  Qed.

  Lemma select_list_shape args kw l : forall acc kacc a k,
    select_list args kw l acc kacc = Selected a k -> exists l', a = VList l'.
  Proof.
    induction l as [|[pos name] l IH]; intros acc kacc a k; cbn [select_list].
    - intros E; inversion E; eexists; reflexivity.
    - destruct (match name with Some n => option_map (fun v => (n, v)) (assoc n kw) | None => None end) as [[n v]|].
      + apply IH.
      + destruct pos as [p|]; [|apply IH]. destruct (nth_error args p); [apply IH|discriminate].
  Qed.

  Lemma select_shape cap st args kw a k : select cap st args kw = Selected a k -> exists l, a = VTuple l \/ a = VList l.
  Proof.
    destruct cap as [|l]; cbn [select].
    - intros E; inversion E; eexists; left; reflexivity.
    - intros E. destruct (select_list_shape _ _ _ _ _ _ _ E) as [l' ->]. eexists; right; reflexivity.
  Qed.

  Lemma vdom_split v : vdom v = true -> wf v = true /\ leaves_ok v = true.
  Proof. unfold vdom. apply andb_true_iff. Qed.

  Theorem ikey_injective al1 al2 cap1 cap2 st1 st2 args1 k1 args2 k2 a1 kw1 a2 kw2 key :
    no_eq_sign al1 -> no_eq_sign al2 ->
    select cap1 st1 args1 k1 = Selected a1 kw1 -> select cap2 st2 args2 k2 = Selected a2 kw2 ->
    vdom a1 = true -> vdom a2 = true -> vdom (kwargs_value kw1) = true -> vdom (kwargs_value kw2) = true ->
    ikey enc al1 cap1 st1 args1 k1 = Some key -> ikey enc al2 cap2 st2 args2 k2 = Some key ->
    al1 = al2 /\ veq a1 a2 /\ veq (kwargs_value kw1) (kwargs_value kw2).
  Proof.
    intros N1 N2 S1 S2 D1 D2 D3 D4.
    destruct (vdom_split _ D1) as [W1 L1]. destruct (vdom_split _ D2) as [W2 L2].
    destruct (vdom_split _ D3) as [W3 L3]. destruct (vdom_split _ D4) as [W4 L4].
    unfold ikey, encode_with. rewrite S1, S2.
    destruct (flatten qp a1) as [ja1|] eqn:F1; [|discriminate].
    destruct (flatten qp (kwargs_value kw1)) as [jk1|] eqn:G1; [|discriminate].
    destruct (flatten qp a2) as [ja2|] eqn:F2; [|discriminate].
    destruct (flatten qp (kwargs_value kw2)) as [jk2|] eqn:G2; [|discriminate].
    cbn [option_map]. intros E1 E2. rewrite <- E2 in E1. clear E2. injection E1 as K1.
    (* split at the first '=' : alias ++ " args" | dumps ... *)
    set (ARGS5 := [32; 97; 114; 103; 115]%N).
    set (KW := [44; 32; 107; 119; 97; 114; 103; 115; 61]%N).
    assert (K : (al1 ++ ARGS5) ++ 61%N :: (dumps ja1 ++ KW ++ dumps jk1) =
                (al2 ++ ARGS5) ++ 61%N :: (dumps ja2 ++ KW ++ dumps jk2)).
    { rewrite <- !app_assoc. exact K1. }
    assert (NI : forall al, no_eq_sign al -> ~ In 61%N (al ++ ARGS5)).
    { intros al Hal C. apply in_app_or in C. destruct C as [C|C]; [exact (Hal C)|].
      cbn in C. repeat (destruct C as [C|C]; [discriminate|]). exact C. }
    destruct (split_first_unique _ _ _ _ _ K (NI _ N1) (NI _ N2)) as [Ea Er].
    apply app_inv_tail in Ea. split; [exact Ea|].
    assert (C1 : container ja1) by (eapply flatten_container_args; [eapply select_shape; exact S1|exact F1]).
    assert (C2 : container ja2) by (eapply flatten_container_args; [eapply select_shape; exact S2|exact F2]).
    pose proof (flatten_jwf qp qp_ascii _ W1 L1 _ F1) as J1. pose proof (flatten_jwf qp qp_ascii _ W2 L2 _ F2) as J2.
    pose proof (flatten_jwf qp qp_ascii _ W3 L3 _ G1) as J3. pose proof (flatten_jwf qp qp_ascii _ W4 L4 _ G2) as J4.
    destruct (dumps_delim _ _ _ _ J1 J2 C1 C2 Er) as [Eja Ek]. subst ja2.
    apply app_inv_head in Ek. apply (dumps_inj _ _ J3 J4) in Ek. subst jk2.
    split; unfold veq.
    - eapply flatten_injective; eauto. congruence.
    - eapply flatten_injective; eauto. congruence.
  Qed.
End Key.
