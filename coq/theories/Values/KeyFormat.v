(** Interception keys: tape_recorder.py:920-977 (_input_interception_key, _output_interception_key)
    and alias formatting (:758-778).  Executable definitions only. *)
From Playback Require Import Base.Str Values.PyVal Values.Codec.
Open Scope list_scope.

(** CapturedArg(position, name); capture_args=None is [CapAll], [] is [CapList []] *)
Inductive capture :=
| CapAll
| CapList (l : list (option nat * option str)).

Inductive sel_result :=
| Selected (args : pyval) (kwargs : list (str * pyval))
| IndexError.

Fixpoint set_item {A} (k : str) (v : A) (d : list (str * A)) : list (str * A) :=
  match d with
  | [] => [(k, v)]
  | (k', v') :: d' => if str_eqb k k' then (k, v) :: d' else (k', v') :: set_item k v d'
  end.

(** [args] is the full positional tuple (including self for instance functions) *)
Fixpoint select_list (args : list pyval) (kwargs : list (str * pyval))
         (l : list (option nat * option str)) (a : list pyval) (kw : list (str * pyval)) : sel_result :=
  match l with
  | [] => Selected (VList a) kw
  | (pos, name) :: l' =>
      match (match name with Some n => option_map (fun v => (n, v)) (assoc n kwargs) | None => None end) with
      | Some (n, v) => select_list args kwargs l' a (set_item n v kw)
      | None =>
          match pos with
          | Some p => match nth_error args p with
                      | Some v => select_list args kwargs l' (a ++ [v]) kw
                      | None => IndexError
                      end
          | None => select_list args kwargs l' a kw
          end
      end
  end.

Definition select (cap : capture) (static : bool) (args : list pyval) (kwargs : list (str * pyval)) : sel_result :=
  match cap with
  | CapAll => Selected (VTuple (if static then args else tl args)) kwargs     (* args[1:] of a tuple is a tuple *)
  | CapList l => select_list args kwargs l [] []
  end.

Definition kwargs_value (kw : list (str * pyval)) : pyval :=
  VList (map (fun kv => VTuple [VStr (fst kv); snd kv]) (sort_items kw)).

Section Key.
  Variable enc : pyval -> option str.       (* encode(v, unpicklable=True); None = raises *)

  (** None = key creation fails (encoding raises or a captured position is out of range) *)
  Definition ikey (alias : str) (cap : capture) (static : bool)
             (args : list pyval) (kwargs : list (str * pyval)) : option str :=
    match select cap static args kwargs with
    | IndexError => None
    | Selected a kw =>
        match enc a, enc (kwargs_value kw) with
        | Some ea, Some ek => Some (U"input: " ++ alias ++ U" args=" ++ ea ++ U", kwargs=" ++ ek)
        | _, _ => None
        end
    end.
End Key.

Definition okey (alias : str) (n : N) : str := U"output: " ++ alias ++ U" #" ++ show_N n.
Definition okey_output (alias : str) (n : N) : str := okey alias n ++ U".output".
Definition okey_result (alias : str) (n : N) : str := okey alias n ++ U".result".

Definition OPERATION_ALIAS : str := U"_tape_recorder_operation".
